#!/bin/sh
# Offline setup: checks the tools exist and warms the Go build cache by building the driver once.
set -e
cd "$(dirname "$0")"
export GOFLAGS=-mod=mod GOPROXY=off GOSUMDB=off GOTOOLCHAIN=local
command -v java >/dev/null
test -f /opt/veriftools/tla/tla2tools.jar
cp /repo/go.sum harness/go.sum
D=$(mktemp -d)
(cd harness && go build -tags verif -ldflags=-checklinkname=0 -o "$D/luadrv" ./cmd/luadrv)
rm -rf "$D"
mkdir -p evidence replays
echo setup ok

SPECIFICATION Spec
CHECK_DEADLOCK FALSE
CONSTANTS
  NRt = 2
  Len1 = 5
  SharedCells = {}

INIT Init
NEXT Next
CHECK_DEADLOCK FALSE
CONSTANTS
  Tier = "Q"
  Family = "strops"
  MaxLen = 0

INIT Init
NEXT Next
CHECK_DEADLOCK FALSE
CONSTANTS
  Tier = "Q"
  Family = "pairs"
  MaxLen = 0

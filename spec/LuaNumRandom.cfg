INIT Init
NEXT Next
CHECK_DEADLOCK FALSE
CONSTANTS
  Tier = "Q"
  Family = "random"
  MaxLen = 0

INIT Init
NEXT Next
CHECK_DEADLOCK FALSE
CONSTANTS
  MaxLayers = 3
  LayersBy <- LayersByT
  TermsBy <- TermsByT
  PatsBy <- PatsByT

SPECIFICATION Spec
CHECK_DEADLOCK FALSE
CONSTANTS
  Shapes <- AllShapes
  Sizes <- SizesQ
  HugeDeep <- HugeDeepQ
  HugeChain <- HugeChainQ

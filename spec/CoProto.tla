------------------------------ MODULE CoProto ------------------------------
(***************************************************************************)
(* The goroutine-level hand-off protocol of runtime/thread.go: every Lua   *)
(* thread is a goroutine; Resume / Yield / Close / end pass control over   *)
(* unbuffered channels under two mutexes.  One process per goroutine, one  *)
(* label per statement (label map in DESIGN.md, C09).  `tok` is the ghost  *)
(* "run token": the goroutine entitled to execute Lua and touch runtime    *)
(* state; it moves when a rendezvous completes.                            *)
(* Checked here: AccessOwnership, StatusLegal, no deadlock, NoGoroutineLeft*)
(* over all interleavings of all short scripts.                            *)
(***************************************************************************)
EXTENDS Integers, Sequences, FiniteSets, TLC

CONSTANTS N,             \* threads 1..N; 1 is the main thread (its goroutine is the host's)
          MaxOps,        \* script operations in total
          ReleaseEarly,  \* TRUE: Thread.end releases the goroutine's memory BEFORE handing control back (the repaired order)
          HandlerOps     \* TRUE: a __close handler run by Thread.end may resume/close its own coroutine

T == 1..N

VARIABLES pc,      \* [T -> label]
          tgt,     \* [T -> thread the current operation of the goroutine refers to]
          status,  \* [T -> "ok" | "suspended" | "dead"]
          caller,  \* [T -> T \cup {0}]
          mux,     \* [T -> 0 (free) or the goroutine holding it]
          exc,     \* [T -> BOOLEAN] the message being sent to the thread is the threadClose exception
          tok,     \* ghost: goroutine holding the run token
          ops      \* remaining script operations

vars == <<pc, tgt, status, caller, mux, exc, tok, ops>>

Init == /\ pc = [g \in T |-> IF g = 1 THEN "run" ELSE "recv"]
        /\ tgt = [g \in T |-> 0]
        /\ status = [g \in T |-> IF g = 1 THEN "ok" ELSE "suspended"]
        /\ caller = [g \in T |-> 0]
        /\ mux = [g \in T |-> 0]
        /\ exc = [g \in T |-> FALSE]
        /\ tok = 1
        /\ ops = MaxOps

Goto(g, l) == pc' = [pc EXCEPT ![g] = l]

(* ---- script: the running goroutine chooses its next operation ---- *)
ChooseOp(g) ==
  /\ pc[g] = "run" /\ ops > 0 /\ ops' = ops - 1
  /\ \/ \E t \in T : tgt' = [tgt EXCEPT ![g] = t] /\ Goto(g, "R1") /\ exc' = exc      \* coroutine.resume(t)
     \/ \E t \in T : tgt' = [tgt EXCEPT ![g] = t] /\ Goto(g, "C1") /\ exc' = exc      \* coroutine.close(t)
     \/ (Goto(g, "Y1") /\ UNCHANGED <<tgt, exc>>)                                      \* coroutine.yield()
     \/ (g # 1 /\ Goto(g, "E1") /\ UNCHANGED <<tgt, exc>>)                             \* body returns / raises
  /\ UNCHANGED <<status, caller, mux, tok>>

(* the script budget is exhausted: a coroutine body simply returns *)
ForcedEnd(g) == /\ pc[g] = "run" /\ ops = 0 /\ g # 1 /\ Goto(g, "E1")
                /\ UNCHANGED <<tgt, status, caller, mux, exc, tok, ops>>

MainDone == /\ pc[1] = "run" /\ Goto(1, "done") /\ UNCHANGED <<tgt, status, caller, mux, exc, tok, ops>>

Lock(g, m, next) == /\ mux[m] = 0 /\ mux' = [mux EXCEPT ![m] = g] /\ Goto(g, next)
                    /\ UNCHANGED <<tgt, status, caller, exc, tok, ops>>
Unlock(g, m, next) == /\ mux' = [mux EXCEPT ![m] = 0] /\ Goto(g, next)
                      /\ UNCHANGED <<tgt, status, caller, exc, tok, ops>>

(* ---- Resume (R) and Close (C): identical but for the exception flag ---- *)
ResumeSteps(g) ==
  LET t == tgt[g]
      isC == pc[g] \in {"C1", "C2", "C3", "C4", "C5", "C6"}
      L(n) == (IF isC THEN "C" ELSE "R") \o n
  IN
  \/ /\ pc[g] \in {"R1", "C1"} /\ Lock(g, t, L("2"))
  \/ /\ pc[g] \in {"R2", "C2"}
     /\ IF status[t] # "suspended"
        THEN Unlock(g, t, "run")                       \* error / (true, closeErr) returned to the caller
        ELSE Goto(g, L("3")) /\ UNCHANGED <<tgt, status, caller, mux, exc, tok, ops>>
  \/ /\ pc[g] \in {"R3", "C3"} /\ Lock(g, g, L("4"))
  \/ /\ pc[g] \in {"R4", "C4"}
     /\ caller' = [caller EXCEPT ![t] = g] /\ status' = [status EXCEPT ![t] = "ok"]
     /\ exc' = [exc EXCEPT ![t] = isC]
     /\ Goto(g, L("5")) /\ UNCHANGED <<tgt, mux, tok, ops>>
  \/ /\ pc[g] \in {"R5", "C5"} /\ Unlock(g, t, L("6"))
  \/ /\ pc[g] \in {"R6", "C6"} /\ Unlock(g, g, "send")

(* ---- Yield ---- *)
YieldSteps(g) ==
  \/ /\ pc[g] = "Y1" /\ Lock(g, g, "Y2")
  \/ /\ pc[g] = "Y2"
     /\ IF caller[g] = 0 THEN Unlock(g, g, "run")      \* cannot yield from main thread
        ELSE Goto(g, "Y3") /\ UNCHANGED <<tgt, status, caller, mux, exc, tok, ops>>
  \/ /\ pc[g] = "Y3" /\ Lock(g, caller[g], "Y4")
  \/ /\ pc[g] = "Y4"
     /\ status' = [status EXCEPT ![g] = "suspended"]
     /\ tgt' = [tgt EXCEPT ![g] = caller[g]]
     /\ caller' = [caller EXCEPT ![g] = 0]
     /\ exc' = [exc EXCEPT ![caller[g]] = FALSE]
     /\ Goto(g, "Y5") /\ UNCHANGED <<mux, tok, ops>>
  \/ /\ pc[g] = "Y5" /\ Unlock(g, g, "Y6")
  \/ /\ pc[g] = "Y6" /\ Unlock(g, tgt[g], "send")

(* ---- Thread.end ----
   The pending __close handlers run first (E4), while the thread is still "running" and holds no mutex, so a
   handler may call coroutine functions on its own coroutine (they fail with "cannot ... running thread");
   only then are the mutexes taken, the thread marked dead, its memory released and control handed back. *)
EndSteps(g) ==
  \/ /\ pc[g] = "E1"            \* cleanupCloseStack: runs Lua handlers, no mutex held
     /\ \/ Goto(g, "E2a") /\ UNCHANGED <<tgt, status, caller, mux, exc, tok, ops>>
        \/ (HandlerOps /\ Goto(g, "H1") /\ UNCHANGED <<tgt, status, caller, mux, exc, tok, ops>>)
  \/ /\ pc[g] = "H1" /\ Lock(g, g, "H2")      \* the handler calls coroutine.resume/close on its own coroutine: R1/C1 lock t.mux
  \/ /\ pc[g] = "H2" /\ Unlock(g, g, "E2a")   \* status is not suspended: unlock, error returned to the handler
  \/ /\ pc[g] = "E2a" /\ Lock(g, g, "E2")
  \/ /\ pc[g] = "E2" /\ Lock(g, caller[g], "E3")
  \/ /\ pc[g] = "E3"
     /\ status' = [status EXCEPT ![g] = "dead"]
     /\ tgt' = [tgt EXCEPT ![g] = caller[g]]
     /\ caller' = [caller EXCEPT ![g] = 0]
     /\ exc' = [exc EXCEPT ![caller[g]] = FALSE]
     /\ Goto(g, IF ReleaseEarly THEN "E6" ELSE "E5send") /\ UNCHANGED <<mux, tok, ops>>
  \/ /\ pc[g] = "E6"            \* ReleaseBytes(2 KiB): touches the context manager
     /\ Goto(g, IF ReleaseEarly THEN "E5send" ELSE "E7") /\ UNCHANGED <<tgt, status, caller, mux, exc, tok, ops>>
  \/ /\ pc[g] = "E7" /\ Unlock(g, tgt[g], "E8")
  \/ /\ pc[g] = "E8" /\ Unlock(g, g, "exit")

(* ---- rendezvous on the unbuffered channel of thread r: sender s, receiver r ---- *)
SendTarget(s) == tgt[s]
AfterSend(s) == IF pc[s] = "E5send" THEN (IF ReleaseEarly THEN "E7" ELSE "E6") ELSE "recv"
Rendezvous(s, r) ==
  /\ pc[s] \in {"send", "E5send"} /\ SendTarget(s) = r /\ pc[r] = "recv" /\ s # r
  /\ pc' = [pc EXCEPT ![s] = AfterSend(s),
                      ![r] = IF exc[r] THEN "E1" ELSE "run"]   \* threadClose exception: panic, deferred end
  /\ tok' = r
  /\ UNCHANGED <<tgt, status, caller, mux, exc, ops>>

Terminated == /\ pc[1] = "done" /\ \A g \in T \ {1} : pc[g] \in {"recv", "exit"}
              /\ UNCHANGED vars

Next == \/ \E g \in T : ChooseOp(g) \/ ForcedEnd(g) \/ ResumeSteps(g) \/ YieldSteps(g) \/ EndSteps(g)
        \/ MainDone
        \/ \E s, r \in T : Rendezvous(s, r)
        \/ Terminated

Spec == Init /\ [][Next]_vars

-----------------------------------------------------------------------------
(* Lua code runs, and the context manager / runtime state is touched, at these labels *)
Touches(g) == pc[g] \in {"run", "E1", "E6", "H1", "H2"}
AccessOwnership == \A g \in T : Touches(g) => tok = g
OneRunner == Cardinality({g \in T : Touches(g)}) <= 1
StatusLegal ==
  /\ status[1] = "ok"
  /\ \A g \in T : pc[g] = "exit" => status[g] = "dead"
  /\ \A g \in T \ {1} : pc[g] = "run" => status[g] = "ok" /\ caller[g] # 0
MutexSane == \A m \in T : mux[m] \in T \cup {0}
DeadIsFinal == [][\A g \in T : status[g] = "dead" => status'[g] = "dead"]_vars
(* a coroutine that ended leaves no goroutine behind: from "dead" its goroutine reaches exit *)
NoGoroutineLeft == \A g \in T \ {1} : [](status[g] = "dead" => <>(pc[g] = "exit"))
Fair == \A g \in T : WF_vars(ForcedEnd(g) \/ ResumeSteps(g) \/ YieldSteps(g) \/ EndSteps(g)) /\ WF_vars(\E s, r \in T : Rendezvous(s, r))
LiveSpec == Spec /\ Fair
=============================================================================

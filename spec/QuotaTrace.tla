----------------------------- MODULE QuotaTrace -----------------------------
(***************************************************************************)
(* Trace validation (direction B) for C05 / C06 / C07: the context events  *)
(* recorded by the verif hooks while real Lua programs run under limits    *)
(* are replayed through the actions of Quota.tla.  Unlogged requests (one  *)
(* per VM instruction) are a silent Sync step that moves the used counters *)
(* to the values logged with the next event; it is only possible while the *)
(* context is live and below its limits, so any work done by a context     *)
(* after it was killed, any event in a dead context, any push/pop that     *)
(* does not follow CallContext's discipline, any kill that is not decided  *)
(* exactly at used + n >= limit, and any wrong status makes the trace      *)
(* unmatchable.                                                            *)
(***************************************************************************)
EXTENDS Quota, IOUtils

Trace == ndJsonDeserialize(IOEnv.TRACEFILE)

VARIABLE l
tvars == <<vars, l>>

Ev == Trace[l]
Is(k) == l <= Len(Trace) /\ Ev.k = k
Adv == l' = l + 1
TopC == stack[Len(stack)]
SetOf(seq) == {seq[i] : i \in 1..Len(seq)}

TInit == Init /\ l = 1 /\ TLCSet(1, 0)

(* used counters of the active context before the event, as logged *)
PreUc == IF Ev.k = "push" THEN Ev.puc ELSE Ev.uc
PreUm == IF Ev.k = "push" THEN Ev.pum ELSE Ev.um

(* silent step: the requests nobody logged *)
NeedSync == l <= Len(Trace) /\ Ev.k \in {"push", "host", "cpu.limit", "mem.limit", "popped"}
            /\ (TopC.uc # PreUc \/ TopC.um # PreUm)
Sync ==
  /\ NeedSync /\ pan = "none" /\ TopC.status = "live"
  /\ PreUc >= TopC.uc                                   \* CPU use never decreases
  /\ (TopC.hc = 0 \/ PreUc < TopC.hc)                   \* and stays below the limit while the context lives
  /\ (TopC.hm = 0 \/ PreUm < TopC.hm)
  /\ (TopC.tc \/ PreUc = 0) /\ (TopC.tm \/ PreUm = TopC.um)
  /\ stack' = [stack EXCEPT ![Len(stack)] = [@ EXCEPT !.uc = PreUc, !.um = PreUm]]
  /\ UNCHANGED <<frames, pan, fail, last, hist, clk, pv, cor, l>>

(* while a termination unwinds, deferred Go code may still release memory (never require any) *)
UnwindRelease ==
  /\ Is("popped") /\ pan # "none" /\ Ev.um < TopC.um /\ Ev.uc = TopC.uc
  /\ stack' = [stack EXCEPT ![Len(stack)] = [@ EXCEPT !.um = Ev.um]]
  /\ UNCHANGED <<frames, pan, fail, last, hist, clk, pv, cor, l>>

Synced == TopC.uc = PreUc /\ TopC.um = PreUm

MatchTop(c) == /\ c.hc = Ev.hc /\ c.hm = Ev.hm /\ c.sc = Ev.sc /\ c.sm = Ev.sm
               /\ c.uc = Ev.uc /\ c.um = Ev.um /\ c.status = Ev.st /\ c.flags = SetOf(Ev.fl)

TPush ==
  /\ Is("push") /\ Synced
  /\ CallBegin([hc |-> Ev.dhc, hm |-> Ev.dhm, sc |-> Ev.dsc, sm |-> Ev.dsm, hms |-> 0, sms |-> 0, flags |-> SetOf(Ev.dfl)])
  /\ MatchTop(stack'[Len(stack')]) /\ Len(stack') = Ev.d
  /\ Adv

(* a host-visible event (call of emit): only a live context that is not being unwound produces them *)
THost ==
  /\ Is("host") /\ Synced /\ pan = "none" /\ TopC.status = "live" /\ Len(stack) = Ev.d
  /\ Adv /\ UNCHANGED vars

TCpuLimit ==
  /\ Is("cpu.limit") /\ pan = "none" /\ Synced
  /\ RequireCPU(Ev.a) /\ pan' = "term"
  /\ Adv
TMemLimit ==
  /\ Is("mem.limit") /\ pan = "none" /\ Synced
  /\ RequireMem(Ev.a) /\ pan' = "term"
  /\ Adv

(* the limit / kill events logged from inside a PopContext whose re-charge of the parent terminated it,
   and the "kill" that follows every limit event, add nothing to what the model already did *)
TExplained ==
  /\ l <= Len(Trace) /\ pan = "term"
  /\ \/ Ev.k = "kill"
     \/ (Ev.k = "cpu.limit" /\ fail.r = "cpu" /\ fail.n = Ev.a /\ TopC.status # "live")
     \/ (Ev.k = "mem.limit" /\ fail.r = "mem" /\ fail.n = Ev.a /\ TopC.status # "live")
  /\ Adv /\ UNCHANGED vars

(* a kill requested from outside any limit (runtime.killcontext, hard stop) *)
TKill ==
  /\ Is("kill") /\ pan = "none" /\ TopC.status = "live"
  /\ SetStop("hard")
  /\ Adv

(* PopContext begins: the logged child is the active context; CallContext ends normally or unwinds *)
TPopped ==
  /\ Is("popped") /\ Len(stack) = Ev.d /\ Len(stack) > 1
  /\ (pan = "none" => Synced)
  /\ \/ (pan = "none" /\ Ev.st = "done" /\ CallEnd(FALSE))
     \/ (pan = "none" /\ Ev.st = "error" /\ CallEnd(TRUE))
     \/ (pan # "none" /\ Ev.st = TopC.status /\ Ev.uc = TopC.uc /\ Ev.um = TopC.um /\ Unwind)
  /\ Adv

(* PopContext completed: the parent is active again, re-charged *)
(* the "pop" hook fires before PopContext propagates the kill of an inherited limit to the parent, so in
   that case (a termination is in flight in the model) the logged status is still "live" *)
MatchTopPop(c) == /\ c.hc = Ev.hc /\ c.hm = Ev.hm /\ c.sc = Ev.sc /\ c.sm = Ev.sm
                  /\ c.uc = Ev.uc /\ c.um = Ev.um /\ c.flags = SetOf(Ev.fl)
                  /\ (c.status = Ev.st \/ (pan = "term" /\ c.status = "killed" /\ Ev.st = "live"))
TPop ==
  /\ Is("pop") /\ MatchTopPop(TopC) /\ Len(stack) = Ev.d
  /\ Adv /\ UNCHANGED vars

(* Cross-run verdict (C05 exactness, determinism and monotonicity): the program used u CPU units when it ran
   with a limit far above its needs; this run had limit L.  It must have been killed exactly when L <= u; a killed
   run stopped below its limit and showed the host a prefix of the unlimited run's events; a completed run is
   indistinguishable from the unlimited one. *)
TVerdict ==
  /\ Is("verdict") /\ Len(stack) = 1 /\ pan = "none"
  /\ (Ev.st = "killed") = (Ev.L <= Ev.u)
  /\ (Ev.st = "killed" => (Ev.used < Ev.L /\ Ev.prefix = 1))
  /\ (Ev.st # "killed" => (Ev.used = Ev.u /\ Ev.same = 1))
  /\ Adv /\ UNCHANGED vars

(* memory: killed below the limit; and whether a program is killed is monotone in M: a run with a larger limit
   than a run that completed must complete too (Ev.mono = 1 when no smaller limit completed while this one was killed) *)
TMemVerdict ==
  /\ Is("memverdict") /\ Len(stack) = 1 /\ pan = "none"
  /\ (Ev.st = "killed" => (Ev.used < Ev.L /\ Ev.mono = 1))
  /\ (Ev.st # "killed" => Ev.used < Ev.L)
  /\ Adv /\ UNCHANGED vars

(* C06, soundness of the accounting: a program that holds memory alive through one kind of value (nested vararg lists,
   tables, closures, strings, coroutines ...) reported Ev.acc KiB accounted to its context at its peak while the live Go
   heap peaked at Ev.heap KiB above the baseline (sampled by the driver; it includes garbage not collected yet, at most
   as much again with the default GC target).  The heap must be within a constant factor of the accounted memory. *)
HeapFactor == 16
HeapSlackKiB == 32768
THeapVerdict ==
  /\ Is("heapverdict") /\ Len(stack) = 1 /\ pan = "none"
  /\ Ev.heap <= HeapFactor * Ev.acc + HeapSlackKiB
  /\ Adv /\ UNCHANGED vars

TReset ==
  /\ Is("reset") /\ Len(stack) = 1 /\ pan = "none"
  /\ stack' = <<RootCtx>> /\ frames' = <<>> /\ pan' = "none" /\ fail' = NoFail /\ last' = [op |-> "init"] /\ hist' = <<>> /\ clk' = clk /\ pv' = {} /\ cor' = cor
  /\ Adv

TNext == (Sync /\ l' = l) \/ (UnwindRelease /\ l' = l) \/ TVerdict \/ TMemVerdict \/ THeapVerdict \/ TPush \/ THost \/ TCpuLimit \/ TMemLimit \/ TExplained \/ TKill \/ TPopped \/ TPop \/ TReset

TSpec == TInit /\ [][TNext]_tvars

(* high-water mark of consumed lines (the diameter counts the silent steps too) *)
MarkC == TLCSet(1, IF TLCGet(1) < l THEN l ELSE TLCGet(1))
Accepted == PrintT(<<"@@", ToJson([hw |-> TLCGet(1)])>>) /\ TLCGet(1) = Len(Trace) + 1
=============================================================================

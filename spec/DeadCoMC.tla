------------------------------ MODULE DeadCoMC ------------------------------
EXTENDS DeadCo
AllGo == {"sort", "sortlt", "gsub", "gsubtbl", "tostring", "format", "unpack", "unpacklen", "concat", "insert", "ipairs", "pairs"}
AllErr == {"tbl", "str0", "str1", "nil", "rt", "goerr", "none"}
(* phase 1 is the inspection in place, right after the coroutine died; then: 12 nested pcalls and an inspection from under
   12 nested pcalls (more Go continuations in flight than the continuation pool holds); 40 calls of Go functions with Lua
   callbacks; 12 further coroutines that die from an error crossing table.sort, inspection from under 10 pcalls *)
StdPhases == << [churn |-> "none", k |-> 0, under |-> 0], [churn |-> "pcalls", k |-> 12, under |-> 12],
                [churn |-> "gocalls", k |-> 40, under |-> 0], [churn |-> "coros", k |-> 12, under |-> 10] >>
=============================================================================

------------------------------- MODULE StrLex -------------------------------
(***************************************************************************)
(* Lexical denotation of Lua 5.4 literals (reference manual 3.1), on BYTES *)
(* (source texts are sequences of byte values):                            *)
(*   short strings with every escape sequence, long brackets of any level, *)
(*   end-of-line normalisation, numerals (decimal / hexadecimal, integer / *)
(*   float, overflow rules), comments, and the line on which a token lies. *)
(* The denotation functions read bytes; the generators below only build    *)
(* the bounded domains (concatenations of a few "items", all strings over  *)
(* a small alphabet) on which TLC evaluates them and emits                 *)
(*   (source bytes, expected denotation | malformed | unspecified).        *)
(* checks/syntax.py loads "return <literal>" on the real front end and     *)
(* compares.  Decides C12 (literals, error position).                      *)
(***************************************************************************)
EXTENDS Integers, Sequences, FiniteSets, TLC, Json

CONSTANTS Fams,        \* subset of {"short", "long", "num", "bignum", "errpos"}
          ShortItems,  \* max items in a short-string body
          LongItems,   \* max items in a long-string body
          NumLen,      \* all strings over the numeral alphabet up to this length, plus those of length NumLen + 1
                       \* that start with one of NumPrefixes
          PreMax       \* errpos: max statement groups before the offending line

VARIABLES c
vars == <<c>>
Emit(v) == PrintT(<<"@@", ToJson(v)>>)

Code ==
  (" " :> 32) @@ ("!" :> 33) @@ ("\"" :> 34) @@ ("#" :> 35) @@ ("$" :> 36) @@ ("%" :> 37) @@
  ("&" :> 38) @@ ("'" :> 39) @@ ("(" :> 40) @@ (")" :> 41) @@ ("*" :> 42) @@ ("+" :> 43) @@
  ("," :> 44) @@ ("-" :> 45) @@ ("." :> 46) @@ ("/" :> 47) @@ ("0" :> 48) @@ ("1" :> 49) @@
  ("2" :> 50) @@ ("3" :> 51) @@ ("4" :> 52) @@ ("5" :> 53) @@ ("6" :> 54) @@ ("7" :> 55) @@
  ("8" :> 56) @@ ("9" :> 57) @@ (":" :> 58) @@ (";" :> 59) @@ ("<" :> 60) @@ ("=" :> 61) @@
  (">" :> 62) @@ ("?" :> 63) @@ ("@" :> 64) @@ ("A" :> 65) @@ ("B" :> 66) @@ ("C" :> 67) @@
  ("D" :> 68) @@ ("E" :> 69) @@ ("F" :> 70) @@ ("G" :> 71) @@ ("H" :> 72) @@ ("I" :> 73) @@
  ("J" :> 74) @@ ("K" :> 75) @@ ("L" :> 76) @@ ("M" :> 77) @@ ("N" :> 78) @@ ("O" :> 79) @@
  ("P" :> 80) @@ ("Q" :> 81) @@ ("R" :> 82) @@ ("S" :> 83) @@ ("T" :> 84) @@ ("U" :> 85) @@
  ("V" :> 86) @@ ("W" :> 87) @@ ("X" :> 88) @@ ("Y" :> 89) @@ ("Z" :> 90) @@ ("[" :> 91) @@
  ("\\" :> 92) @@ ("]" :> 93) @@ ("^" :> 94) @@ ("_" :> 95) @@ ("`" :> 96) @@ ("a" :> 97) @@
  ("b" :> 98) @@ ("c" :> 99) @@ ("d" :> 100) @@ ("e" :> 101) @@ ("f" :> 102) @@ ("g" :> 103) @@
  ("h" :> 104) @@ ("i" :> 105) @@ ("j" :> 106) @@ ("k" :> 107) @@ ("l" :> 108) @@ ("m" :> 109) @@
  ("n" :> 110) @@ ("o" :> 111) @@ ("p" :> 112) @@ ("q" :> 113) @@ ("r" :> 114) @@ ("s" :> 115) @@
  ("t" :> 116) @@ ("u" :> 117) @@ ("v" :> 118) @@ ("w" :> 119) @@ ("x" :> 120) @@ ("y" :> 121) @@
  ("z" :> 122) @@ ("{" :> 123) @@ ("|" :> 124) @@ ("}" :> 125) @@ ("~" :> 126) @@
  ("LF" :> 10) @@ ("CR" :> 13) @@ ("TAB" :> 9) @@ ("VT" :> 11) @@ ("FF" :> 12) @@ ("H8" :> 128) @@ ("HI" :> 255)
(* B(<<"\\", "n">>) = the bytes of the two characters backslash, n *)
B(w) == [i \in 1..Len(w) |-> Code[w[i]]]

LF == 10
CR == 13
BS == 92
DOT == 46
End == -1
At(s, i) == IF i >= 1 /\ i <= Len(s) THEN s[i] ELSE End
IsDigit(ch) == ch >= 48 /\ ch <= 57
IsHex(ch) == IsDigit(ch) \/ (ch >= 97 /\ ch <= 102) \/ (ch >= 65 /\ ch <= 70)
HexVal(ch) == IF IsDigit(ch) THEN ch - 48 ELSE IF ch >= 97 THEN ch - 87 ELSE ch - 55
IsAlpha(ch) == (ch >= 97 /\ ch <= 122) \/ (ch >= 65 /\ ch <= 90) \/ ch = 95
IsSpace(ch) == ch \in {32, 9, 10, 11, 12, 13}
IsEol(ch) == ch = LF \/ ch = CR
(* "any kind of end-of-line sequence (carriage return, newline, carriage return followed by newline, or newline
   followed by carriage return)": the number of bytes of the sequence starting at i (0 if none) *)
EolLen(s, i) == IF ~IsEol(At(s, i)) THEN 0
                ELSE IF IsEol(At(s, i + 1)) /\ At(s, i + 1) # At(s, i) THEN 2 ELSE 1

Mal == <<"malformed">>

(***************************************************************************)
(* Short strings.  "A short literal string can be delimited by matching    *)
(* single or double quotes, and can contain the C-like escape sequences    *)
(* \a \b \f \n \r \t \v \\ \" \' ; a backslash followed by a line break    *)
(* results in a newline; \z skips the following span of whitespace         *)
(* (including line breaks); \xXX (exactly two hex digits); \ddd (up to     *)
(* three decimal digits, value at most 255); \u{XXX} (one or more hex      *)
(* digits, value less than 2^31, UTF-8 encoded, 1 to 6 bytes).  A short    *)
(* literal string cannot contain unescaped line breaks nor escapes not     *)
(* forming a valid escape sequence."                                       *)
(***************************************************************************)
SimpleEsc == (97 :> 7) @@ (98 :> 8) @@ (102 :> 12) @@ (110 :> 10) @@ (114 :> 13) @@ (116 :> 9) @@ (118 :> 11)
             @@ (92 :> 92) @@ (34 :> 34) @@ (39 :> 39)

Utf8(x) ==
  IF x < 128 THEN <<x>>
  ELSE IF x < 2048 THEN <<192 + (x \div 64), 128 + (x % 64)>>
  ELSE IF x < 65536 THEN <<224 + (x \div 4096), 128 + ((x \div 64) % 64), 128 + (x % 64)>>
  ELSE IF x < 2097152 THEN <<240 + (x \div 262144), 128 + ((x \div 4096) % 64), 128 + ((x \div 64) % 64), 128 + (x % 64)>>
  ELSE IF x < 67108864 THEN <<248 + (x \div 16777216), 128 + ((x \div 262144) % 64), 128 + ((x \div 4096) % 64),
                              128 + ((x \div 64) % 64), 128 + (x % 64)>>
  ELSE <<252 + (x \div 1073741824), 128 + ((x \div 16777216) % 64), 128 + ((x \div 262144) % 64), 128 + ((x \div 4096) % 64),
         128 + ((x \div 64) % 64), 128 + (x % 64)>>

(* run of hex digits from i: <<value (End if it is 2^31 or more), number of digits, next index>> *)
RECURSIVE HexRun(_, _, _, _)
HexRun(s, i, v, n) ==
  IF ~IsHex(At(s, i)) THEN <<v, n, i>>
  ELSE HexRun(s, i + 1, IF v = End \/ v > 134217727 THEN End ELSE v * 16 + HexVal(s[i]), n + 1)
(* run of at most `max` decimal digits *)
RECURSIVE DecRun(_, _, _, _, _)
DecRun(s, i, v, n, max) ==
  IF n = max \/ ~IsDigit(At(s, i)) THEN <<v, n, i>> ELSE DecRun(s, i + 1, v * 10 + (s[i] - 48), n + 1, max)
RECURSIVE SkipSpace(_, _)
SkipSpace(s, i) == IF IsSpace(At(s, i)) THEN SkipSpace(s, i + 1) ELSE i

(* body of a short string opened by quote q, from index i: <<"ok", bytes, index after the closing quote>> or Mal *)
RECURSIVE Short(_, _, _, _)
Short(s, i, q, acc) ==
  LET ch == At(s, i) IN
  IF ch = End THEN Mal
  ELSE IF ch = q THEN <<"ok", acc, i + 1>>
  ELSE IF IsEol(ch) THEN Mal
  ELSE IF ch # BS THEN Short(s, i + 1, q, Append(acc, ch))
  ELSE LET d == At(s, i + 1) IN
    IF d = End THEN Mal
    ELSE IF d \in DOMAIN SimpleEsc THEN Short(s, i + 2, q, Append(acc, SimpleEsc[d]))
    ELSE IF IsEol(d) THEN Short(s, i + 1 + EolLen(s, i + 1), q, Append(acc, LF))
    ELSE IF d = 120 THEN     \* \xXX
         IF IsHex(At(s, i + 2)) /\ IsHex(At(s, i + 3))
         THEN Short(s, i + 4, q, Append(acc, 16 * HexVal(s[i + 2]) + HexVal(s[i + 3]))) ELSE Mal
    ELSE IF d = 122 THEN Short(s, SkipSpace(s, i + 2), q, acc)      \* \z
    ELSE IF IsDigit(d) THEN
         LET r == DecRun(s, i + 1, 0, 0, 3) IN IF r[1] > 255 THEN Mal ELSE Short(s, r[3], q, Append(acc, r[1]))
    ELSE IF d = 117 THEN     \* \u{XXX}
         IF At(s, i + 2) # 123 THEN Mal
         ELSE LET r == HexRun(s, i + 3, 0, 0) IN
              IF r[2] = 0 \/ r[1] = End \/ At(s, r[3]) # 125 THEN Mal ELSE Short(s, r[3] + 1, q, acc \o Utf8(r[1]))
    ELSE Mal

(* a whole source text that is meant to be one short literal *)
DenoteShort(s) ==
  LET r == Short(s, 2, s[1], <<>>) IN
  IF r = Mal THEN [kind |-> "malformed"]
  ELSE IF r[3] = Len(s) + 1 THEN [kind |-> "ok", val |-> r[2]]
  ELSE [kind |-> "trailing"]        \* the literal ends before the text does: not a case of this family

(***************************************************************************)
(* Long brackets.  "an opening long bracket of level n is an opening       *)
(* square bracket followed by n equal signs followed by another opening    *)
(* square bracket ... A long string starts with an opening long bracket of *)
(* any level and ends at the first closing long bracket of the same level. *)
(* ... do not interpret any escape sequences ... any kind of end-of-line   *)
(* sequence is converted to a simple newline.  When the opening long       *)
(* bracket is immediately followed by a newline, the newline is not        *)
(* included in the string."                                                *)
(***************************************************************************)
RECURSIVE CountEq(_, _)
CountEq(s, i) == IF At(s, i) = 61 THEN 1 + CountEq(s, i + 1) ELSE 0

RECURSIVE LongBody(_, _, _, _)
LongBody(s, i, lev, acc) ==
  LET ch == At(s, i) IN
  IF ch = End THEN Mal
  ELSE IF ch = 93 /\ CountEq(s, i + 1) = lev /\ At(s, i + 1 + lev) = 93 THEN <<"ok", acc, i + lev + 2>>
  ELSE IF IsEol(ch) THEN LongBody(s, i + EolLen(s, i), lev, Append(acc, LF))
  ELSE LongBody(s, i + 1, lev, Append(acc, ch))

(* s[i] = "[" : <<"ok", bytes, next>> or Mal *)
Long(s, i) ==
  LET lev == CountEq(s, i + 1) IN
  IF At(s, i + 1 + lev) # 91 THEN Mal
  ELSE LET st == i + 2 + lev IN LongBody(s, st + EolLen(s, st), lev, <<>>)

(* a whole source text `return <s>` where s starts with "[".  When the long string closes before the end of s the
   rest is more program text: a string literal can only be followed by a binary operator there, and the bodies
   generated below can form just one ("=="); then validity depends on the rest: not decided here ("unspec"). *)
DenoteLong(s) ==
  LET r == Long(s, 1) IN
  IF r = Mal THEN [kind |-> "malformed"]
  ELSE IF r[3] = Len(s) + 1 THEN [kind |-> "ok", val |-> r[2]]
  ELSE LET j == SkipSpace(s, r[3]) IN
       IF At(s, j) = End THEN [kind |-> "ok", val |-> r[2]]          \* only white space follows
       ELSE IF At(s, j) = 61 /\ At(s, j + 1) = 61 THEN [kind |-> "unspec"] ELSE [kind |-> "malformed"]

(***************************************************************************)
(* Numerals.  "A numeric constant (or numeral) can be written with an      *)
(* optional fractional part and an optional decimal exponent, marked by a  *)
(* letter 'e' or 'E'.  Lua also accepts hexadecimal constants, which start *)
(* with 0x or 0X.  Hexadecimal constants also accept an optional           *)
(* fractional part plus an optional binary exponent, marked by a letter    *)
(* 'p' or 'P' and written in decimal. ... A numeric constant with a radix  *)
(* point or an exponent denotes a float; otherwise, if its value fits in   *)
(* an integer or it is a hexadecimal constant, it denotes an integer;      *)
(* otherwise (a decimal integer numeral that overflows), it denotes a      *)
(* float.  Hexadecimal numerals with neither a radix point nor an exponent *)
(* always denote an integer value; if the value overflows, it wraps        *)
(* around to fit into a valid integer."                                    *)
(* NumScan reads the LONGEST numeral starting at i (s[i] is a digit, or a  *)
(* point followed by a digit).  Result: [end, int, m, e, base]: the        *)
(* numeral denotes m * base^e (m from all mantissa digits; small domains   *)
(* only: m must fit TLC's 32-bit integers).                                *)
(***************************************************************************)
RECURSIVE DigRun(_, _, _, _, _)
(* digits in base 10 / 16 from i: <<value, count, next>> *)
DigRun(s, i, v, n, hex) ==
  IF (hex /\ IsHex(At(s, i))) \/ (~hex /\ IsDigit(At(s, i)))
  THEN DigRun(s, i + 1, v * (IF hex THEN 16 ELSE 10) + HexVal(s[i]), n + 1, hex) ELSE <<v, n, i>>

(* optional exponent at j (marker already known to be at j): consumed only if complete *)
ExpPart(s, j) ==
  LET sg == At(s, j + 1)
      k == IF sg = 43 \/ sg = 45 THEN j + 2 ELSE j + 1
      r == DecRun(s, k, 0, 0, 9)
  IN IF r[2] = 0 THEN [has |-> FALSE, val |-> 0, next |-> j]
     ELSE [has |-> TRUE, val |-> IF sg = 45 THEN -r[1] ELSE r[1], next |-> r[3]]

Pow(b, n) == b ^ n

NumScan(s, i) ==
  LET hex == /\ s[i] = 48 /\ At(s, i + 1) \in {120, 88}
             /\ (IsHex(At(s, i + 2)) \/ (At(s, i + 2) = DOT /\ IsHex(At(s, i + 3))))
      st == IF hex THEN i + 2 ELSE i
      r1 == DigRun(s, st, 0, 0, hex)
      dot == At(s, r1[3]) = DOT
      r2 == IF dot THEN DigRun(s, r1[3] + 1, 0, 0, hex) ELSE <<0, 0, r1[3]>>
      mant == r1[1] * Pow(IF hex THEN 16 ELSE 10, r2[2]) + r2[1]
      mk == At(s, r2[3])
      ex == IF (hex /\ mk \in {112, 80}) \/ (~hex /\ mk \in {101, 69}) THEN ExpPart(s, r2[3])
            ELSE [has |-> FALSE, val |-> 0, next |-> r2[3]]
  IN [end |-> ex.next, int |-> ~dot /\ ~ex.has, m |-> mant,
      e |-> ex.val - (IF hex THEN 4 ELSE 1) * r2[2], base |-> IF hex THEN 2 ELSE 10, hex |-> hex]

(***************************************************************************)
(* Tokens of the tiny language the numeral alphabet can spell (3.1):       *)
(* numerals, names, + - . .. ..., comments (-- to the end of the line).    *)
(* Longest match.  A numeral directly followed by a letter or digit is an  *)
(* error under every reading; a numeral followed by exactly two points is  *)
(* read differently by a longest-match lexer (1. .. x) and by the          *)
(* reference implementation (malformed number): "unspec".                  *)
(* Lex returns <<"ok", tokens>>, or <<"bad">> / <<"unspec">>.              *)
(***************************************************************************)
RECURSIVE CountDots(_, _)
CountDots(s, i) == IF At(s, i) = DOT THEN 1 + CountDots(s, i + 1) ELSE 0
RECURSIVE NameEnd(_, _)
NameEnd(s, i) == IF IsAlpha(At(s, i)) \/ IsDigit(At(s, i)) THEN NameEnd(s, i + 1) ELSE i
RECURSIVE LineEnd(_, _)
LineEnd(s, i) == IF At(s, i) = End \/ IsEol(At(s, i)) THEN i ELSE LineEnd(s, i + 1)

RECURSIVE Lex(_, _, _)
Lex(s, i, toks) ==
  LET ch == At(s, i) IN
  IF ch = End THEN <<"ok", toks>>
  ELSE IF IsSpace(ch) THEN Lex(s, i + 1, toks)
  ELSE IF IsDigit(ch) \/ (ch = DOT /\ IsDigit(At(s, i + 1))) THEN
       LET r == NumScan(s, i)
           f == At(s, r.end)
       IN IF IsAlpha(f) \/ IsDigit(f) THEN <<"bad">>
          ELSE IF f = DOT THEN (IF CountDots(s, r.end) = 2 THEN <<"unspec">> ELSE <<"bad">>)
          ELSE Lex(s, r.end, Append(toks, <<"N", r>>))
  ELSE IF IsAlpha(ch) THEN Lex(s, NameEnd(s, i), Append(toks, <<"Id">>))
  ELSE IF ch = 45 /\ At(s, i + 1) = 45 THEN Lex(s, LineEnd(s, i), toks)
  ELSE IF ch = 45 THEN Lex(s, i + 1, Append(toks, <<"-">>))
  ELSE IF ch = 43 THEN Lex(s, i + 1, Append(toks, <<"+">>))
  ELSE IF ch = DOT THEN
       LET k == CountDots(s, i) IN
       IF k >= 3 THEN Lex(s, i + 3, Append(toks, <<"...">>))
       ELSE IF k = 2 THEN Lex(s, i + 2, Append(toks, <<"..">>))
       ELSE Lex(s, i + 1, Append(toks, <<".">>))
  ELSE <<"bad">>

(* `return` followed by these tokens is a chunk iff they are empty or form
     exp ::= {'-'} atom {binop {'-'} atom},  atom ::= Numeral | '...' | Name {'.' Name},  binop ::= + | - | ..   *)
RECURSIVE Accepts(_, _, _)
Accepts(toks, i, st) ==       \* st: "opnd" operand expected, "val" after a non-indexable atom, "name", "field"
  IF i > Len(toks) THEN st \in {"val", "name"}
  ELSE LET t == toks[i][1] IN
    CASE st = "opnd" -> IF t = "-" THEN Accepts(toks, i + 1, "opnd")
                        ELSE IF t \in {"N", "..."} THEN Accepts(toks, i + 1, "val")
                        ELSE IF t = "Id" THEN Accepts(toks, i + 1, "name") ELSE FALSE
      [] st = "val" -> IF t \in {"+", "-", ".."} THEN Accepts(toks, i + 1, "opnd") ELSE FALSE
      [] st = "name" -> IF t \in {"+", "-", ".."} THEN Accepts(toks, i + 1, "opnd")
                        ELSE IF t = "." THEN Accepts(toks, i + 1, "field") ELSE FALSE
      [] st = "field" -> IF t = "Id" THEN Accepts(toks, i + 1, "name") ELSE FALSE

(* classification of the chunk "return <s>" *)
ClassifyNum(s) ==
  LET lx == Lex(s, 1, <<>>)
      toks == lx[2]
  IN
  IF lx[1] = "bad" THEN [cls |-> "bad"]
  ELSE IF lx[1] = "unspec" THEN [cls |-> "unspec"]
  ELSE IF Len(toks) = 1 /\ toks[1][1] = "N" THEN
       LET r == toks[1][2] IN
       IF r.int THEN [cls |-> "int", val |-> r.m] ELSE [cls |-> "float", m |-> r.m, e |-> r.e, base |-> r.base]
  ELSE IF toks = <<>> \/ Accepts(toks, 1, "opnd") THEN [cls |-> "exp"]
  ELSE [cls |-> "bad"]

Upper(s) == [i \in 1..Len(s) |-> IF s[i] >= 97 /\ s[i] <= 122 THEN s[i] - 32 ELSE s[i]]
HasLetter(s) == \E i \in 1..Len(s) : IsAlpha(s[i])

(***************************************************************************)
(* Big numerals (64-bit rules) on digit sequences.                         *)
(***************************************************************************)
MaxIntDigits == <<9, 2, 2, 3, 3, 7, 2, 0, 3, 6, 8, 5, 4, 7, 7, 5, 8, 0, 7>>      \* 2^63 - 1
RECURSIVE StripZeros(_)
StripZeros(d) == IF Len(d) > 1 /\ d[1] = 0 THEN StripZeros(Tail(d)) ELSE d
RECURSIVE LexLeq(_, _)
LexLeq(a, b) == IF a = <<>> THEN TRUE ELSE IF a[1] # b[1] THEN a[1] < b[1] ELSE LexLeq(Tail(a), Tail(b))
FitsInt(d) == LET x == StripZeros(d) IN Len(x) < 19 \/ (Len(x) = 19 /\ LexLeq(x, MaxIntDigits))
(* a decimal integer numeral: an integer if it fits, else the float nearest to its value *)
DenoteBigDec(d) == [kind |-> IF FitsInt(d) THEN "int" ELSE "float", dec |-> StripZeros(d)]

(* a hexadecimal integer numeral (hex digit values): its value modulo 2^64 as a two's complement number:
   sign and magnitude in four base-65536 limbs, most significant first *)
Last16(h) == LET p == [i \in 1..16 |-> 0] \o h IN SubSeq(p, Len(p) - 15, Len(p))
Limbs(h) == LET x == Last16(h) IN [i \in 1..4 |-> x[4 * i - 3] * 4096 + x[4 * i - 2] * 256 + x[4 * i - 1] * 16 + x[4 * i]]
NegLimbs(l) ==   \* 2^64 - value, for value > 0
  LET c4 == 65536 - l[4]
      c3 == 65535 - l[3] + (IF c4 = 65536 THEN 1 ELSE 0)
      c2 == 65535 - l[2] + (IF c3 = 65536 THEN 1 ELSE 0)
      c1 == 65535 - l[1] + (IF c2 = 65536 THEN 1 ELSE 0)
  IN <<c1 % 65536, c2 % 65536, c3 % 65536, c4 % 65536>>
DenoteBigHex(h) == LET l == Limbs(h) IN
  IF l[1] >= 32768 THEN [kind |-> "int", neg |-> TRUE, limbs |-> NegLimbs(l)] ELSE [kind |-> "int", neg |-> FALSE, limbs |-> l]

DigitCodes(d) == [i \in 1..Len(d) |-> IF d[i] < 10 THEN 48 + d[i] ELSE 87 + d[i]]
Rep(x, n) == [i \in 1..n |-> x]
BigDecs ==
  {SubSeq(MaxIntDigits, 1, 18) \o <<k>> : k \in 0..9}                      \* ...800 to ...809 around 2^63
  \cup {<<0, 0>> \o SubSeq(MaxIntDigits, 1, 18) \o <<k>> : k \in 6..9}     \* leading zeros do not count
  \cup {<<1, 8, 4, 4, 6, 7, 4, 4, 0, 7, 3, 7, 0, 9, 5, 5, 1, 6, 1>> \o <<k>> : k \in 4..7}   \* around 2^64
  \cup {Rep(9, n) : n \in 17..22} \cup {<<1>> \o Rep(0, n) : n \in 16..23}
  \cup {<<9, 2, 2, 3, 3, 7, 2, 0, 3, 6, 8, 5, 4, 7, 7, 5, 9, 0, 0>>, <<9, 3>> \o Rep(0, 17), <<9, 1>> \o Rep(9, 17)}
BigHexs ==
  {Rep(15, n) : n \in 1..20} \cup {<<1>> \o Rep(0, n) : n \in 14..18} \cup {<<8>> \o Rep(0, n) : n \in 14..17}
  \cup {<<7>> \o Rep(15, n) : n \in 14..17} \cup {<<1>> \o Rep(15, 16), <<10, 11>> \o Rep(0, 15) \o <<1>>,
        <<8>> \o Rep(0, 14) \o <<1>>, <<15, 15, 15, 14>> \o Rep(0, 12), Rep(0, 17) \o <<5>>}

(***************************************************************************)
(* Error position.  A program is a sequence of lines, each followed by an  *)
(* end-of-line sequence; the line number of a line is 1 + the number of    *)
(* end-of-line sequences before it, counted on the BYTES (so that CR LF    *)
(* and LF CR count once).  One line holds an offending token; everything   *)
(* before it is complete statements.                                       *)
(***************************************************************************)
EolBytes == [lf |-> <<10>>, cr |-> <<13>>, crlf |-> <<13, 10>>, lfcr |-> <<10, 13>>]
RECURSIVE Breaks(_, _)
Breaks(b, i) == IF i > Len(b) THEN 0 ELSE 1 + Breaks(b, i + EolLen(b, i))   \* b holds end-of-line bytes only

(* line number of line k (1-based) of `lines` when line j is followed by EolBytes[eols[j]] *)
RECURSIVE BreaksUpTo(_, _, _, _, _)
BreaksUpTo(lines, eols, j, k, run) ==
  IF j = k THEN Breaks(run, 1)
  ELSE IF lines[j] # "" /\ run # <<>> THEN Breaks(run, 1) + BreaksUpTo(lines, eols, j, k, <<>>)
  ELSE BreaksUpTo(lines, eols, j + 1, k, run \o EolBytes[eols[j]])
LineNo(lines, eols, k) == 1 + BreaksUpTo(lines, eols, 1, k, <<>>)

(* statement groups: complete statements (possibly spanning lines); each but the blank one ends with a marker call
   emit(i), so that a valid program's observable behaviour is the sequence of the markers of its groups *)
Groups == <<
  <<"local x = 1 emit(1)">>,
  <<"x = (x or 0) + 1 emit(2) -- comment ) end">>,
  <<"--[[ long", "comment ]] emit(3)">>,
  <<"local s = [[", "text", "]] .. 'q' emit(4)">>,
  <<"local s2 = \"a\\", "b\" emit(5)">>,
  <<"local s3 = 'a\\z", "", "   b' emit(6)">>,
  <<"do local y = 2 emit(7) end">>,
  <<"">>,
  <<"--[==[ x", "", "]==] x = 3 emit(9)">>,
  <<"if x then", "  x = -x", "end emit(10)">>,
  <<"--[ a short comment, not a long bracket", "emit(11)">>,
  <<"--[= short again", "--[==", "emit(12)">>,
  <<"--[", "emit(13) --[">> >>
GroupMarks(g) == IF g = 8 THEN <<>> ELSE <<g>>
RECURSIVE MarksOf(_)
MarksOf(gs) == IF gs = <<>> THEN <<>> ELSE GroupMarks(gs[1]) \o MarksOf(Tail(gs))
SimpleGroups == {1, 7, 8}
(* offending lines; "at" says where the error may be reported: the line itself, or (unfinished long bracket)
   that line or the line of the end of the text *)
Offenders == <<
  [text |-> ")", at |-> "line"],
  [text |-> "end", at |-> "line"],
  [text |-> "= 1", at |-> "line"],
  [text |-> "local u = \"abc", at |-> "line"],
  [text |-> "local u = \"a\\qb\"", at |-> "line"],
  [text |-> "local u = '\\300'", at |-> "line"],
  [text |-> "local u = \"\\u{80000000}\"", at |-> "line"],
  [text |-> "x = $", at |-> "line"],
  [text |-> "x = 1 2", at |-> "line"],
  [text |-> "local u = [===[abc", at |-> "line-or-eof"],
  [text |-> "--[===[ never closed", at |-> "line-or-eof"] >>
EolPatterns == << <<"lf">>, <<"cr">>, <<"crlf">>, <<"lfcr">>, <<"crlf", "lfcr", "lf">>, <<"cr", "crlf", "lfcr", "lfcr">> >>

RECURSIVE Flatten(_)
Flatten(gs) == IF gs = <<>> THEN <<>> ELSE Groups[gs[1]] \o Flatten(Tail(gs))
ErrCase(pre, off, suf, pat) ==
  LET pl == Flatten(pre)
      sl == Flatten(suf)
      lines == pl \o (IF off = 0 THEN <<>> ELSE <<Offenders[off].text>>) \o sl
      eols == [j \in 1..Len(lines) |-> EolPatterns[pat][((j - 1) % Len(EolPatterns[pat])) + 1]]
      k == Len(pl) + 1
      eof == LineNo(lines \o <<"eof">>, eols \o <<"lf">>, Len(lines) + 1)
  IN [fam |-> "errpos", lines |-> lines, eols |-> eols, off |-> IF off = 0 THEN 0 ELSE k,
      at |-> IF off = 0 THEN "none" ELSE Offenders[off].at,
      ev |-> IF off = 0 THEN MarksOf(pre \o suf) ELSE <<>>,
      exp |-> IF off = 0 THEN {} ELSE IF Offenders[off].at = "line" THEN {LineNo(lines, eols, k)} ELSE {LineNo(lines, eols, k), eof},
      kind |-> IF off = 0 THEN "valid" ELSE "bad"]

(***************************************************************************)
(* Domains.                                                                *)
(***************************************************************************)
SItems == <<
  <<"a">>, <<" ">>, <<"TAB">>, <<"HI">>, <<"H8">>, <<"0">>, <<"5">>, <<"6">>, <<"1">>, <<"4">>, <<"f">>, <<"F">>, <<"g">>, <<"}">>,
  <<"\"">>, <<"'">>,
  <<"\\", "a">>, <<"\\", "b">>, <<"\\", "f">>, <<"\\", "n">>, <<"\\", "r">>, <<"\\", "t">>, <<"\\", "v">>,
  <<"\\", "\\">>, <<"\\", "\"">>, <<"\\", "'">>,
  <<"\\", "LF">>, <<"\\", "CR">>, <<"LF">>, <<"CR">>,
  <<"\\", "z">>,
  <<"\\", "0">>, <<"\\", "2">>, <<"\\", "9">>,
  <<"\\", "x">>, <<"\\", "x", "4">>, <<"\\", "x", "F">>,
  <<"\\", "u", "{", "4", "1", "}">>, <<"\\", "u", "{", "7", "F", "}">>, <<"\\", "u", "{", "8", "0", "}">>,
  <<"\\", "u", "{", "7", "f", "f", "}">>, <<"\\", "u", "{", "8", "0", "0", "}">>, <<"\\", "u", "{", "F", "F", "F", "F", "}">>,
  <<"\\", "u", "{", "1", "0", "0", "0", "0", "}">>, <<"\\", "u", "{", "1", "0", "F", "F", "F", "F", "}">>,
  <<"\\", "u", "{", "1", "1", "0", "0", "0", "0", "}">>, <<"\\", "u", "{", "1", "F", "F", "F", "F", "F", "}">>,
  <<"\\", "u", "{", "2", "0", "0", "0", "0", "0", "}">>, <<"\\", "u", "{", "3", "F", "F", "F", "F", "F", "F", "}">>,
  <<"\\", "u", "{", "4", "0", "0", "0", "0", "0", "0", "}">>, <<"\\", "u", "{", "7", "F", "F", "F", "F", "F", "F", "F", "}">>,
  <<"\\", "u", "{", "8", "0", "0", "0", "0", "0", "0", "0", "}">>, <<"\\", "u", "{", "0", "0", "0", "0", "0", "0", "0", "0", "4", "1", "}">>,
  <<"\\", "u", "{", "}">>, <<"\\", "u", "{", "g", "}">>, <<"\\", "u", "4", "1">>, <<"\\", "u", "{", "4", "1">>,
  <<"\\", "q">>, <<"\\", " ">>, <<"\\">> >>
LItems == << <<"a">>, <<"]">>, <<"=">>, <<"[">>, <<"]", "]">>, <<"]", "=", "]">>, <<"]", "=", "=", "]">>, <<"LF">>, <<"CR">>,
             <<"\\">>, <<"\\", "n">>, <<" ">>, <<"\"">>, <<"HI">> >>
NumAlphabet == B(<<"0", "1", "9", "a", "f", "x", ".", "e", "p", "+", "-">>)

NumPrefixes == {B(<<"0", "x">>), B(<<"0", "X">>), B(<<"1", "e">>), B(<<"1", ".">>), B(<<".", "1">>)}

RECURSIVE Cat(_, _)
Cat(items, idxs) == IF idxs = <<>> THEN <<>> ELSE B(items[idxs[1]]) \o Cat(items, Tail(idxs))
SeqsUpTo(S, n) == UNION {[1..k -> S] : k \in 0..n}

Ret == B(<<"r", "e", "t", "u", "r", "n", " ">>)

(***************************************************************************)
(* Behaviours: start -> coarse key -> case (emitted).                      *)
(***************************************************************************)
Keys ==
  (IF "short" \in Fams THEN {<<"short", q, first>> : q \in {34, 39}, first \in 0..Len(SItems)} ELSE {})
  \cup (IF "long" \in Fams THEN {<<"long", lev, cl, first>> : lev \in 0..2, cl \in {"closed", "open", "noopen"}, first \in 0..Len(LItems)} ELSE {})
  \cup (IF "num" \in Fams THEN {<<"num", <<ch>> >> : ch \in {NumAlphabet[i] : i \in 1..Len(NumAlphabet)}}
                               \cup {<<"num", p>> : p \in NumPrefixes} ELSE {})
  \cup (IF "bignum" \in Fams THEN {<<"bignum", b>> : b \in {"dec", "hex"}} ELSE {})
  \cup (IF "errpos" \in Fams THEN {<<"errpos", off, pat>> : off \in 0..Len(Offenders), pat \in 1..Len(EolPatterns)} ELSE {})

Init == c = <<"start">>
PickKey == c = <<"start">> /\ \E key \in Keys : c' = key

ShortCases ==
  /\ c[1] = "short"
  /\ \E rest \in (IF c[3] = 0 THEN {<<>>} ELSE SeqsUpTo(1..Len(SItems), ShortItems - 1)) :
       LET src == <<c[2]>> \o Cat(SItems, (IF c[3] = 0 THEN <<>> ELSE <<c[3]>>) \o rest) \o <<c[2]>>
           d == DenoteShort(src)
       IN /\ c' = <<"case", src>>
          /\ IF d.kind = "trailing" THEN TRUE ELSE Emit([fam |-> "short", src |-> src] @@ d)

LongCases ==
  /\ c[1] = "long"
  /\ \E rest \in (IF c[4] = 0 THEN {<<>>} ELSE SeqsUpTo(1..Len(LItems), LongItems - 1)) :
       LET eqs == Rep(61, c[2])
           opener == IF c[3] = "noopen" THEN <<91>> \o eqs ELSE <<91>> \o eqs \o <<91>>
           closer == IF c[3] = "closed" THEN <<93>> \o eqs \o <<93>> ELSE <<>>
           src == opener \o Cat(LItems, (IF c[4] = 0 THEN <<>> ELSE <<c[4]>>) \o rest) \o closer
           d == DenoteLong(src)
       IN /\ c[3] = "noopen" => (c[2] > 0 /\ Len(rest) <= 1)      \* "[" "=..=" without the second "["
          /\ c' = <<"case", src>>
          /\ IF d.kind = "unspec" THEN TRUE ELSE Emit([fam |-> "long", src |-> src] @@ d)

NumCases ==
  /\ c[1] = "num"
  /\ \E rest \in (IF Len(c[2]) = 1 THEN SeqsUpTo({NumAlphabet[i] : i \in 1..Len(NumAlphabet)}, NumLen - 1)
                   ELSE [1..(NumLen - 1) -> {NumAlphabet[i] : i \in 1..Len(NumAlphabet)}]) :
       LET src == c[2] \o rest
           d == ClassifyNum(src)
           up == Upper(src)
       IN /\ c' = <<"case", src>>
          /\ Emit([fam |-> "num", src |-> src] @@ d)
          /\ IF d.cls \in {"int", "float"} /\ HasLetter(src) THEN Emit([fam |-> "num", src |-> up] @@ ClassifyNum(up)) ELSE TRUE

BigCases ==
  /\ c[1] = "bignum"
  /\ \/ /\ c[2] = "dec"
        /\ \E d \in BigDecs : /\ c' = <<"case", d>>
                              /\ Emit([fam |-> "bignum", src |-> DigitCodes(d)] @@ DenoteBigDec(d))
     \/ /\ c[2] = "hex"
        /\ \E h \in BigHexs : \E x \in {120, 88} :
                              /\ c' = <<"case", h, x>>
                              /\ Emit([fam |-> "bignum", src |-> <<48, x>> \o (IF x = 88 THEN Upper(DigitCodes(h)) ELSE DigitCodes(h))]
                                      @@ DenoteBigHex(h))

ErrCases ==
  /\ c[1] = "errpos"
  /\ \E pre \in SeqsUpTo(1..Len(Groups), PreMax) : \E suf \in SeqsUpTo(SimpleGroups, 1) :
       /\ c' = <<"case", c[2], c[3], pre, suf>>
       /\ Emit(ErrCase(pre, c[2], suf, c[3]))

Next == PickKey \/ ShortCases \/ LongCases \/ NumCases \/ BigCases \/ ErrCases
Spec == Init /\ [][Next]_vars

(***************************************************************************)
(* Design-level checks of the denotations themselves (TLC, ASSUME).        *)
(***************************************************************************)
ASSUME Utf8(65) = <<65>> /\ Utf8(233) = <<195, 169>> /\ Utf8(8364) = <<226, 130, 172>>
       /\ Utf8(1114111) = <<244, 143, 191, 191>> /\ Utf8(2147483647) = <<253, 191, 191, 191, 191, 191>>
ASSUME DenoteShort(B(<<"\"", "a", "\\", "n", "\\", "6", "5", "\\", "x", "4", "1", "\\", "z", " ", "LF", " ", "b", "\"">>))
       = [kind |-> "ok", val |-> <<97, 10, 65, 65, 98>>]
ASSUME DenoteLong(B(<<"[", "=", "[", "CR", "LF", "a", "]", "]", "LF", "CR", "]", "=", "]">>)) = [kind |-> "ok", val |-> <<97, 93, 93, 10>>]
ASSUME DenoteLong(B(<<"[", "[", "]", "]">>)) = [kind |-> "ok", val |-> <<>>]
ASSUME ClassifyNum(B(<<"0", "x", ".", "8", "p", "1">>)) = [cls |-> "float", m |-> 8, e |-> -3, base |-> 2]
ASSUME ClassifyNum(B(<<"3", ".">>)) = [cls |-> "float", m |-> 3, e |-> 0, base |-> 10]
ASSUME ClassifyNum(B(<<"0", "x", "1", "e", "+", "1">>)) = [cls |-> "exp"]
ASSUME ClassifyNum(B(<<"1", "e", "+">>)) = [cls |-> "bad"]
ASSUME DenoteBigDec(MaxIntDigits).kind = "int" /\ DenoteBigDec(SubSeq(MaxIntDigits, 1, 18) \o <<8>>).kind = "float"
ASSUME DenoteBigHex(Rep(15, 16)) = [kind |-> "int", neg |-> TRUE, limbs |-> <<0, 0, 0, 1>>]
ASSUME DenoteBigHex(<<8>> \o Rep(0, 15)) = [kind |-> "int", neg |-> TRUE, limbs |-> <<32768, 0, 0, 0>>]
ASSUME LineNo(<<"a", "", "b">>, <<"lf", "cr", "lf">>, 3) = 2 /\ LineNo(<<"a", "", "b">>, <<"cr", "cr", "lf">>, 3) = 3
=============================================================================

------------------------------ MODULE PrintfMC ------------------------------
EXTENDS Printf
AllConvs == {"d", "i", "u", "x", "X", "o", "c", "s"}
IntsQ == {IntL(0), IntL(1), IntL(-1), IntL(10), IntL(255), IntL(-128), IntL(12345), MaxInt, MinInt}
IntsT == IntsQ \cup {IntL(7), IntL(8), IntL(-12345), IntL(65535), IntL(2147483647), Pow2(31), Neg(Pow2(31)), Pow2(32), Dec(Pow2(32)),
                     IntL(-10), IntL(100), IntL(4095), Dec(MaxInt), Inc(MinInt)}
(* "é" = 195 169: two bytes, one code point *)
StrsQ == {<<>>, <<97>>, <<97, 98, 99>>, <<195, 169>>, <<195, 169, 97>>}
StrsT == StrsQ \cup {<<104, 101, 108, 108, 111, 32, 119>>, <<200>>, <<97, 195, 169, 98>>, <<226, 130, 172, 33>>}
PrecsQ == {-1, 0, 3}
PrecsT == {-1, 0, 1, 2, 4, 22}
ChrsQ == {65, 0, 200}
ChrsT == {65, 0, 200, 10, 37, 255, 127}
=============================================================================

INIT Init
NEXT Next
CHECK_DEADLOCK FALSE
CONSTANTS
  Tokens <- TokSmall
  TokensLong <- TokSmall
  MaxTok = 4
  FullUpTo = 0
  EmitFrom = 4
  Subjects <- SubjT4
  SubjectsLong <- SubjT4
  Univ <- UnivAll

INIT Init
NEXT Next
CHECK_DEADLOCK FALSE
INVARIANT StatusLegal
CONSTANTS
  NCo = 3
  WrapSet = {2}
  MaxSteps = 14
  MaxVals = 2
  Tbc = TRUE
  ViewHist = 0
  EmitAll = FALSE
  WithKill = FALSE

INIT Init
NEXT Next
CHECK_DEADLOCK FALSE
CONSTANTS
  Tier = "T"
  Family = "numerals"
  MaxLen = 5

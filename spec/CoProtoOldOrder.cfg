SPECIFICATION Spec
INVARIANTS AccessOwnership OneRunner StatusLegal MutexSane
PROPERTIES DeadIsFinal 
CONSTANTS
  N = 3
  MaxOps = 3
  ReleaseEarly = FALSE
  HandlerOps = FALSE

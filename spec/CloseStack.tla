----------------------------- MODULE CloseStack -----------------------------
(***************************************************************************)
(* To-be-closed variables (Lua 5.4 manual 3.3.8) over a skeleton language  *)
(* of nested scopes.  A behaviour is one execution path through a program  *)
(* that is built while it runs: opening scopes, declaring to-be-closed     *)
(* variables, and leaving scopes by every kind of exit.  `out` is the      *)
(* sequence of host-visible events the real program must produce.          *)
(* Decides C10 (binding A: every path rendered as a Lua program).          *)
(***************************************************************************)
EXTENDS Integers, Sequences, FiniteSets, TLC, Json

CONSTANTS MaxDepth,   \* nesting of scopes
          MaxSteps,   \* actions per path
          MaxPend,    \* to-be-closed variables per scope
          Kinds,      \* scope kinds allowed: subset of {"do","loop","forin","fn","pcall","xpcall","co"}
          Handlers,   \* handler kinds allowed: subset of {"ok","raise","raisetbc","nil","false","nometa","lost"}
          ErrKinds,   \* error values: subset of {"str","tbl","pos","pos2","num","nilv","rt"}
          XHandlers,  \* message-handler kinds of xpcall scopes: subset of {"val","none"}
          Battery,    \* TRUE: after every caught error the program runs a fixed consistency battery (C11)
          ViewHist,
          EmitAll     \* TRUE: one line per transition; FALSE: only complete paths (simulation)

VARIABLES scopes,  \* Seq([kind, id, pend]) innermost last; pend = Seq([id, h]) in declaration order
          n,       \* steps so far
          fin,     \* "run" | "done" | "error": the main chunk has ended
          out, hist

vars == <<scopes, n, fin, out, hist>>
View == <<[i \in 1..Len(scopes) |-> [kind |-> scopes[i].kind, hk |-> scopes[i].hk, pend |-> [j \in 1..Len(scopes[i].pend) |-> scopes[i].pend[j].h]]],
          n, fin, [j \in 1..(IF n < ViewHist THEN n ELSE ViewHist) |-> hist[n + 1 - j].a]>>

Emit(v) == PrintT(<<"@@", ToJson(v)>>)
Last(s) == s[Len(s)]
ButLast(s) == SubSeq(s, 1, Len(s) - 1)

FnLike(k) == k \in {"fn", "pcall", "xpcall", "co"}
Catcher(k) == k \in {"pcall", "xpcall", "co"}
(* the events of the post-error consistency battery run by the code that caught an error in scope id *)
Bat(id) == IF Battery THEN << <<"bat", id, 15, 3, 42, "x", FALSE, "B", "suspended">> >> ELSE <<>>
LoopLike(k) == k \in {"loop", "forin"}

(* run the handlers of one scope in reverse declaration order with in-flight error e ("nil" = none):
   each sees the current error; a raising handler replaces it.  Returns [evs, e]. *)
RECURSIVE RunPend(_, _, _)
RunPend(pend, e, evs) ==
  IF pend = <<>> THEN [evs |-> evs, e |-> e]
  ELSE LET v == Last(pend)
           (* "lost": the value had a __close metamethod when it was declared and has none any more: no handler can be
              called, which counts as an error raised by the handler (some string) - the remaining values are still closed *)
           e2 == IF v.h \in {"raise", "raisetbc"} THEN "R" \o ToString(v.id) ELSE IF v.h = "lost" THEN "STR" ELSE e
           (* a "raisetbc" handler declares a to-be-closed variable of its own (id + 100) before raising:
              that variable is closed, with the error the handler raised, when the handler is left *)
           own == IF v.h = "raisetbc" THEN << <<"tbc", v.id + 100, e2>> >> ELSE <<>>
       IN RunPend(ButLast(pend), e2, (IF v.h = "lost" THEN evs ELSE Append(evs, <<"tbc", v.id, e>>)) \o own)

(* Unwind scopes.  mode "norm": leave `cnt` more scopes; "fn": leave up to and
   including the nearest function-like scope, returning rv; "err": propagate error e.
   "kill": coroutine.close of a suspended coroutine: leave every scope up to and
   including the nearest "co" scope; no protected call catches anything.
   Returns [sc, evs, fin]. *)
RECURSIVE Unwind(_, _, _, _, _, _)
Unwind(sc, mode, cnt, e, rv, evs) ==
  IF sc = <<>> THEN [sc |-> sc, evs |-> evs, fin |-> IF e = "nil" THEN "done" ELSE "error:" \o e]
  ELSE
  LET top == Last(sc)
      r == RunPend(top.pend, e, evs)
      e2 == r.e
      rest == ButLast(sc)
  IN
  IF mode = "kill" THEN
     IF top.kind = "co"
     THEN [sc |-> rest, fin |-> "run",
           evs |-> r.evs \o <<(IF e2 = "nil" THEN <<"closed", top.id, TRUE>> ELSE <<"closed", top.id, FALSE, e2>>),
                             <<"after", top.id>>>>]
     ELSE Unwind(rest, "kill", 0, e2, rv, r.evs)
  ELSE IF e2 # "nil" THEN      \* error mode (entered by an error exit or by a raising handler)
     IF top.kind \in {"pcall", "xpcall"}
     THEN [sc |-> rest, evs |-> r.evs \o << <<top.kind, top.id, FALSE, e2>> >> \o Bat(top.id) \o << <<"after", top.id>> >>, fin |-> "run"]
     ELSE IF top.kind = "co"
     THEN [sc |-> rest, evs |-> r.evs \o << <<"resume", top.id, FALSE, e2>> >> \o Bat(top.id) \o << <<"after", top.id>> >>, fin |-> "run"]
     ELSE Unwind(rest, "err", 0, e2, rv, r.evs)
  ELSE IF mode = "fn" THEN
     IF FnLike(top.kind)
     THEN [sc |-> rest, fin |-> "run",
           evs |-> r.evs \o << (IF top.kind \in {"pcall", "xpcall"} THEN <<top.kind, top.id, TRUE>> \o rv
                                ELSE IF top.kind = "co" THEN <<"resume", top.id, TRUE>> \o rv
                                ELSE <<"ret", top.id>> \o rv), <<"after", top.id>> >>]
     ELSE Unwind(rest, "fn", 0, e2, rv, r.evs)
  ELSE \* "norm"
     IF cnt = 1
     THEN [sc |-> rest, fin |-> "run",
           evs |-> r.evs \o (IF top.kind \in {"pcall", "xpcall"} THEN << <<top.kind, top.id, TRUE>> >>
                             ELSE IF top.kind = "co" THEN << <<"resume", top.id, TRUE>> >>
                             ELSE IF top.kind = "fn" THEN << <<"ret", top.id>> >> ELSE <<>>)
                      \o << <<"after", top.id>> >>]
     ELSE Unwind(rest, "norm", cnt - 1, e2, rv, r.evs)

(* what happens when the path ends: every open scope is left by falling off its end *)
RECURSIVE FallOff(_, _)
FallOff(sc, evs) ==
  IF sc = <<>> THEN [evs |-> evs, fin |-> "done"]
  ELSE LET u == Unwind(sc, "norm", 1, "nil", <<>>, evs) IN
       IF u.fin # "run" THEN [evs |-> u.evs, fin |-> u.fin] ELSE FallOff(u.sc, u.evs)

(* An error is raised in scope stack sc with value e: if the nearest enclosing catcher is an xpcall,
   its message handler runs first, at the point of the error, and its result replaces the error value. *)
RECURSIVE NearestCatcher(_)
NearestCatcher(sc) == IF sc = <<>> THEN [kind |-> "none"] ELSE IF Catcher(Last(sc).kind) THEN Last(sc) ELSE NearestCatcher(ButLast(sc))
Raise(sc, e) ==
  LET c == NearestCatcher(sc) IN
  IF c.kind = "xpcall"
  THEN LET e2 == IF c.hk = "val" THEN "H" \o ToString(c.id) ELSE "NILV"
       IN Unwind(sc, "err", 0, e2, <<>>, << <<"handler", c.id, e>> >>)
  ELSE Unwind(sc, "err", 0, e, <<>>, <<>>)

Init == scopes = <<>> /\ n = 0 /\ fin = "run" /\ out = <<>> /\ hist = <<>>

Step(act, sc, f, evs) ==
  /\ scopes' = sc /\ fin' = f /\ n' = n + 1
  /\ out' = out \o evs
  /\ hist' = Append(hist, [k |-> n + 1, d |-> Len(sc)] @@ act)
  /\ LET t == IF f = "run" THEN FallOff(sc, <<>>) ELSE [evs |-> <<>>, fin |-> f]
     IN IF EmitAll \/ n + 1 = MaxSteps \/ f # "run" THEN Emit([h |-> hist', ev |-> out' \o t.evs, fin |-> t.fin]) ELSE TRUE

Can == fin = "run" /\ n < MaxSteps

Open(kind, hk) ==
  /\ Can /\ Len(scopes) < MaxDepth /\ kind \in Kinds
  /\ (kind = "xpcall") = (hk # "-")
  /\ Step([a |-> "open", kind |-> kind, hk |-> hk],
          Append(scopes, [kind |-> kind, id |-> n + 1, hk |-> hk,
                          pend |-> IF kind = "forin" THEN <<[id |-> n + 1, h |-> "ok"]>> ELSE <<>>]),
          "run", <<>>)

Decl(h) ==
  /\ Can /\ scopes # <<>> /\ h \in Handlers /\ Len(Last(scopes).pend) < MaxPend
  /\ IF h = "nometa"
     THEN LET u == Raise(scopes, "Q" \o ToString(n + 1)) IN Step([a |-> "decl", h |-> h], u.sc, u.fin, u.evs)
     ELSE Step([a |-> "decl", h |-> h],
               IF h \in {"nil", "false"} THEN scopes
               ELSE [scopes EXCEPT ![Len(scopes)].pend = Append(@, [id |-> n + 1, h |-> h])],
               "run", <<>>)

(* number of scopes from the top down to the nearest loop, not crossing a function; 0 if none *)
RECURSIVE LoopDist(_, _)
LoopDist(sc, d) == IF sc = <<>> \/ FnLike(Last(sc).kind) THEN 0
                   ELSE IF LoopLike(Last(sc).kind) THEN d + 1 ELSE LoopDist(ButLast(sc), d + 1)
RECURSIVE BlockDepth(_, _)
BlockDepth(sc, d) == IF sc = <<>> \/ FnLike(Last(sc).kind) THEN d ELSE BlockDepth(ButLast(sc), d + 1)
InCo(sc) == \E i \in 1..Len(sc) : sc[i].kind = "co"

ExitEnd ==
  /\ Can /\ scopes # <<>>
  /\ LET u == Unwind(scopes, "norm", 1, "nil", <<>>, <<>>) IN Step([a |-> "end"], u.sc, u.fin, u.evs)

ExitBreak ==
  /\ Can /\ LoopDist(scopes, 0) > 0
  /\ LET d == LoopDist(scopes, 0)
         u == Unwind(scopes, "norm", d, "nil", <<>>, <<>>) IN Step([a |-> "break", cnt |-> d], u.sc, u.fin, u.evs)

ExitGoto(l) ==
  /\ Can /\ l >= 1 /\ l <= BlockDepth(scopes, 0)
  /\ LET u == Unwind(scopes, "norm", l, "nil", <<>>, <<>>) IN Step([a |-> "goto", cnt |-> l], u.sc, u.fin, u.evs)

ExitReturn(tail) ==
  /\ Can /\ \E i \in 1..Len(scopes) : FnLike(scopes[i].kind)
  /\ LET k == n + 1
         u == Unwind(scopes, "fn", 0, "nil", <<k>>, IF tail THEN << <<"tail", k>> >> ELSE <<>>)
     IN Step([a |-> IF tail THEN "tailret" ELSE "return"], u.sc, u.fin, u.evs)

(* error values: E<k> string raised with level 0; T<k> a table; P<k> string raised with level 1 (position of the
   raising line prefixed); C<k> string raised with level 2 from a nested function called on the same line;
   N<k> the number k; NILV nil; Q<k> a runtime error (message prefixed with the position of the line) *)
ErrTok(kind, k) == IF kind = "nilv" THEN "NILV"
                   ELSE (CASE kind = "str" -> "E" [] kind = "tbl" -> "T" [] kind = "pos" -> "P" [] kind = "pos2" -> "C"
                           [] kind = "num" -> "N" [] kind = "rt" -> "Q") \o ToString(k)
ExitError(kind) ==
  /\ Can /\ kind \in ErrKinds
  /\ LET u == Raise(scopes, ErrTok(kind, n + 1)) IN Step([a |-> "error", kind |-> kind], u.sc, u.fin, u.evs)

ExitYieldClose ==
  /\ Can /\ InCo(scopes)
  /\ LET coi == CHOOSE i \in 1..Len(scopes) : scopes[i].kind = "co" /\ \A j \in (i+1)..Len(scopes) : scopes[j].kind # "co"
         u == Unwind(scopes, "kill", 0, "nil", <<>>, << <<"resume", scopes[coi].id, TRUE>> >>)
     IN Step([a |-> "yieldclose"], u.sc, u.fin, u.evs)

Next ==
  \/ \E k \in Kinds, hk \in XHandlers \cup {"-"} : Open(k, hk)
  \/ \E h \in Handlers : Decl(h)
  \/ ExitEnd \/ ExitBreak \/ ExitYieldClose
  \/ \E l \in 1..MaxDepth : ExitGoto(l)
  \/ \E t \in BOOLEAN : ExitReturn(t)
  \/ \E kind \in ErrKinds : ExitError(kind)

Spec == Init /\ [][Next]_vars

(* design-level sanity: every pending variable of a scope that is left is closed exactly once *)
ClosedOnce ==
  \A i \in 1..Len(out), j \in 1..Len(out) :
     (out[i][1] = "tbc" /\ out[j][1] = "tbc" /\ out[i][2] = out[j][2]) => i = j
NoPendingLost ==
  \* every declared ok/raise variable is either still pending in an open scope or has been closed
  \A s \in 1..Len(hist) :
     (hist[s].a = "decl" /\ hist[s].h \in {"ok", "raise", "raisetbc"}) =>
        \/ \E i \in 1..Len(scopes) : \E j \in 1..Len(scopes[i].pend) : scopes[i].pend[j].id = hist[s].k
        \/ \E i \in 1..Len(out) : out[i][1] = "tbc" /\ out[i][2] = hist[s].k
=============================================================================

-------------------------------- MODULE Sort --------------------------------
(***************************************************************************)
(* table.sort (Lua 5.4 manual 6.6): "Sorts the list elements in a given    *)
(* order, in-place, from list[1] to list[#list].  If comp is given, then   *)
(* it must be a function that receives two list elements and returns true  *)
(* when the first element must come before the second in the final order,  *)
(* so that, after the sort, i <= j implies not comp(list[j],list[i]).  If  *)
(* comp is not given, then the standard Lua operator < is used instead.    *)
(* The comp function must define a consistent order; more formally, the    *)
(* function must define a strict weak order."                              *)
(*                                                                         *)
(* The manual fixes a relation between input and output, not an            *)
(* algorithm: this module is used in direction B.                          *)
(*   Gen*  : TLC enumerates the inputs (every list over Elems up to        *)
(*           MaxLen, patterned and random longer lists) and the            *)
(*           comparison functions; the check runs the real table.sort on   *)
(*           each and writes what it observed to sortcases.ndjson.         *)
(*   Chk*  : TLC reads the observations and evaluates the predicates       *)
(*           below on every (input, observed output) pair, emitting the    *)
(*           failing ones with the names of the violated requirements.     *)
(* Decides the table.sort part of C19.                                     *)
(***************************************************************************)
EXTENDS Integers, Sequences, FiniteSets, TLC, Json

CONSTANTS Elems,     \* element values (small integers)
          MaxLen,    \* exhaustive: every list over Elems of length <= MaxLen
          ErrKs,     \* comparison functions raising an error at their k-th call, k \in ErrKs
          Seeds,     \* seeds of pseudo-random comparison functions
          PatLens,   \* lengths of the patterned lists
          SimMin, SimMax, SimElems,  \* simulation: random lists of length SimMin..SimMax over SimElems
          Block      \* Chk: cases per state (parallelism)

VARIABLE c
Emit(v) == PrintT(<<"@@", ToJson(v)>>)

(* comparison functions.  cmp: "lt" none given; "ltf" a<b; "gt" a>b; "mod2" a%2 < b%2 (a strict weak order that
   equates different elements); "false" (the empty order: everything equivalent); the rest are NOT strict weak
   orders: "le" a<=b, "true", "rand" (pseudo-random, seed k), "errk" (a<b, but the k-th call raises "E").
   What a comparison function returns is adjusted to one value and tested for truth: "ltnil" returns true when a<b and
   NOTHING otherwise, "gtnum" returns a number (truthy) when a>b and nil otherwise, "ltmany" returns a<b followed by extra values. *)
Cmps == {[cmp |-> x, k |-> 0] : x \in {"lt", "ltf", "gt", "mod2", "false", "le", "true", "ltnil", "gtnum", "ltmany"}}
          \cup {[cmp |-> "rand", k |-> s] : s \in Seeds} \cup {[cmp |-> "errk", k |-> k] : k \in ErrKs}

Consistent(cmp) == cmp \in {"lt", "ltf", "gt", "mod2", "false", "ltnil", "gtnum", "ltmany"}
Less(cmp, a, b) ==
  CASE cmp \in {"lt", "ltf", "errk", "ltnil", "ltmany"} -> a < b
    [] cmp \in {"gt", "gtnum"} -> a > b
    [] cmp = "mod2" -> (a % 2) < (b % 2)
    [] cmp = "false" -> FALSE

Range(s) == {s[i] : i \in 1..Len(s)}
Count(s, v) == Cardinality({i \in 1..Len(s) : s[i] = v})
(* multiset equality *)
Permutation(a, b) == Len(a) = Len(b) /\ \A v \in Range(a) \cup Range(b) : Count(a, v) = Count(b, v)
(* the manual's postcondition *)
Sorted(cmp, s) == \A i \in 1..Len(s), j \in 1..Len(s) : i <= j => ~Less(cmp, s[j], s[i])

(***************************************************************************)
(* An observation o: id, inp, cmp, k, status ("ok" | "hang" | "crash"),    *)
(* err ("none" | "E" = the value raised by the comparison function |       *)
(* "other"), n = number of calls of the comparison function, keys/vals =   *)
(* the integer keys (ascending) and their values in the table afterwards,  *)
(* odd = number of non-integer keys.  Violated requirements:               *)
(***************************************************************************)
KeysOk(o) == o.odd = 0 /\ Len(o.keys) = Len(o.inp) /\ \A i \in 1..Len(o.keys) : o.keys[i] = i
Bad(o) ==
  IF o.status # "ok" THEN {o.status}     \* it must terminate and must not crash
  ELSE
    (* never loses or invents elements, whatever the comparison function does, error or not *)
    (IF KeysOk(o) /\ Permutation(o.inp, o.vals) THEN {} ELSE {"permutation"})
    (* a consistent order never fails *)
    \cup (IF Consistent(o.cmp) /\ o.err # "none" THEN {"error"} ELSE {})
    (* and gives the manual's postcondition; also "errk" when it did not get to its k-th call *)
    \cup (IF (Consistent(o.cmp) \/ o.cmp = "errk") /\ o.err = "none" /\ KeysOk(o) /\ ~Sorted(o.cmp, o.vals)
          THEN {"sorted"} ELSE {})
    (* an error raised by the comparison function propagates at once with its value; no other error *)
    \cup (IF o.cmp = "errk" /\ ~((o.err = "E" /\ o.n = o.k) \/ (o.err = "none" /\ o.n < o.k))
          THEN {"errprop"} ELSE {})
    (* an inconsistent function may make sort raise "invalid order function", never the function's own value *)
    \cup (IF o.cmp \in {"le", "true", "rand"} /\ o.err = "E" THEN {"errprop"} ELSE {})

-----------------------------------------------------------------------------
Lists(V, n) == UNION {[1..k -> V] : k \in 0..n}
Pat(p, n) ==
  CASE p = "asc" -> [i \in 1..n |-> i]
    [] p = "desc" -> [i \in 1..n |-> n + 1 - i]
    [] p = "const" -> [i \in 1..n |-> 7]
    [] p = "pipe" -> [i \in 1..n |-> IF 2 * i <= n THEN i ELSE n + 1 - i]
    [] p = "saw" -> [i \in 1..n |-> i % 5]
    [] p = "two" -> [i \in 1..n |-> (i * 7) % 2]
    [] p = "shuf" -> [i \in 1..n |-> (i * 37) % 101]
PatLists == {Pat(p, n) : p \in {"asc", "desc", "const", "pipe", "saw", "two", "shuf"}, n \in PatLens}

GenInit == c \in {[inp |-> q, st |-> 0] : q \in Lists(Elems, MaxLen) \cup PatLists}
GenNext == /\ c.st = 0
           /\ c' = [c EXCEPT !.st = 1]
           /\ Emit([inp |-> c.inp, cmps |-> Cmps])

(* simulation: random longer lists *)
SimInit == c = [inp |-> <<>>, st |-> 0]
SimNext == /\ c' = [inp |-> [i \in 1..RandomElement(SimMin..SimMax) |-> RandomElement(SimElems)], st |-> c.st + 1]
           /\ Emit([inp |-> c'.inp, cmps |-> Cmps])

-----------------------------------------------------------------------------
Trace == ndJsonDeserialize("sortcases.ndjson")
NBlocks == (Len(Trace) + Block - 1) \div Block

ChkInit == c \in {[b |-> b, i |-> 0] : b \in 1..NBlocks}
ChkNext == /\ c.i = 0
           /\ \E i \in ((c.b - 1) * Block + 1)..(IF c.b * Block < Len(Trace) THEN c.b * Block ELSE Len(Trace)) :
                /\ c' = [b |-> c.b, i |-> i]
                /\ LET o == Trace[i] bad == Bad(o) IN
                   IF bad = {} THEN TRUE ELSE Emit([id |-> o.id, why |-> bad])
=============================================================================

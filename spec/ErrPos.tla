------------------------------- MODULE ErrPos -------------------------------
(***************************************************************************)
(* Error values and their position prefixes along catch / re-raise paths   *)
(* (Lua 5.4 manual 6.1 `error`, `assert`, `pcall`, `xpcall`, 2.3, 3.3.8,   *)
(* 6.2 coroutine.resume / wrap / close).  Property C11, round 2.           *)
(*                                                                         *)
(* A program is a chain of Lua functions F[1] .. F[n] ("layers", F[1] is   *)
(* called by the main chunk under pcall, F[n] is the raise site).  Layer   *)
(* i < n invokes F[i+1] in some way (plain call, tail call, pcall, xpcall  *)
(* with a message handler, a new coroutine resumed / wrapped / closed, a   *)
(* to-be-closed variable's handler) and, when that gave it an error value, *)
(* does something with it (raises it again with some level, concatenates,  *)
(* asserts with it, provokes a runtime error).  Every layer lives in a     *)
(* chunk; chunks have different names.                                     *)
(*                                                                         *)
(* A string error value is modelled as a sequence of segments:             *)
(*   pos(c, s)    "<display name of chunk c>:<line of site s>: "           *)
(*   optpos(c, s) the same, present or absent (not determined by the       *)
(*                manual: coroutine.wrap, assert)                          *)
(*   unkpos       at most one position prefix of unknown content (the      *)
(*                caller of a __close handler is not defined)              *)
(*   cn(c)        the display name of chunk c (inside a message text)      *)
(*   txt(s)       literal text                                             *)
(*   any          text that the manual does not determine (wording of      *)
(*                runtime error messages)                                  *)
(* Non-string values are tokens and are never altered.                     *)
(* `Eval(p)` gives the events the real program must produce: what every    *)
(* catcher / message handler / __close handler receives, in order.         *)
(***************************************************************************)
EXTENDS Integers, Sequences, FiniteSets, TLC, Json

CONSTANTS MaxLayers,   \* maximal number of non-terminal layers
          LayersBy,    \* sequence (length MaxLayers): LayersBy[i] = layer records allowed at position i (1 = outermost)
          TermsBy,     \* sequence (length MaxLayers + 1): TermsBy[n + 1] = raise sites allowed under a chain of n layers
          PatsBy       \* sequence (length MaxLayers + 1): PatsBy[n + 1] = chunk patterns (sequences of chunk ids, position i =
                       \* chunk of layer i, the raise site being the last layer) allowed for chains of n layers

VARIABLES prog,   \* Seq(layer), outermost first
          pat,    \* the chunk pattern of this program
          fin     \* TRUE: sink state (a complete program was emitted)

vars == <<prog, pat, fin>>

Emit(v) == PrintT(<<"@@", ToJson(v)>>)

(***************************************************************************)
(* Chunks.  0 is the main chunk (the host names it "chunk"); the others    *)
(* are loaded with load(src, arg).  The manual says the chunk name is used *)
(* in error messages but leaves the printable form to the implementation:  *)
(* `disp` is the set of forms accepted (the name verbatim, golua's         *)
(* convention; or the reference implementation's luaO_chunkid form).  The  *)
(* form in use is observed by a probe error in each chunk and must then be *)
(* used consistently by every position in that chunk.                      *)
(***************************************************************************)
FirstLine(c) == "--c" \o ToString(c)
ChunkTab == <<
  [c |-> 0, fl |-> FirstLine(0), arg |-> "-",          hasarg |-> FALSE, disp |-> {"chunk"}],
  [c |-> 1, fl |-> FirstLine(1), arg |-> "=alt",       hasarg |-> TRUE,  disp |-> {"=alt", "alt"}],
  [c |-> 2, fl |-> FirstLine(2), arg |-> "@file.lua",  hasarg |-> TRUE,  disp |-> {"@file.lua", "file.lua"}],
  [c |-> 3, fl |-> FirstLine(3), arg |-> "-",          hasarg |-> FALSE, disp |-> {"chunk", "[string \"" \o FirstLine(3) \o "...\"]"}],
  [c |-> 4, fl |-> FirstLine(4), arg |-> "plain",      hasarg |-> TRUE,  disp |-> {"plain", "[string \"plain\"]"}],
  [c |-> 5, fl |-> FirstLine(5), arg |-> "=chunk",     hasarg |-> TRUE,  disp |-> {"=chunk", "chunk"}],
  [c |-> 6, fl |-> FirstLine(6), arg |-> "=?",         hasarg |-> TRUE,  disp |-> {"=?", "?"}] >>
NChunks == Len(ChunkTab)

(***************************************************************************)
(* Values                                                                  *)
(***************************************************************************)
Str(segs) == [str |-> TRUE, segs |-> segs]
Tok(x)    == [str |-> FALSE, tok |-> x]
AnyV      == Tok("ANY")
Txt(s)    == [t |-> "txt", x |-> s]
Cn(c)     == [t |-> "cn", c |-> c]
AnySeg    == [t |-> "any"]

(* frames of the call stack as seen by `error` levels *)
Lua(c, s) == [t |-> "lua", c |-> c, s |-> s]
Go        == [t |-> "go", c |-> 0, s |-> <<0, "-">>]     \* a function that is not a Lua function: no position
Unk       == [t |-> "unk", c |-> 0, s |-> <<0, "-">>]    \* this frame and everything beyond it is not defined by the manual
NoFrame   == [t |-> "none", c |-> 0, s |-> <<0, "-">>]

PosSeg(f) == IF f.t = "lua" THEN << [t |-> "pos", c |-> f.c, s |-> f.s] >>
             ELSE IF f.t = "unk" THEN << [t |-> "unkpos"] >> ELSE <<>>
OptSeg(f) == << [t |-> "optpos", c |-> f.c, s |-> f.s] >>

(* manual 6.1 error(message, level): level 1 = where error was called, level 2 = where the function that called
   error was called, and so on; level 0 = no position.  `own` is the frame calling error, `stack` its callers
   (innermost first).  Beyond the end of the stack there is no position, unless the stack ends in Unk. *)
LevelFrame(own, stack, L) ==
  IF L = 0 THEN NoFrame
  ELSE IF L = 1 THEN own
  ELSE IF L - 1 <= Len(stack) THEN stack[L - 1]
  ELSE IF stack # <<>> /\ stack[Len(stack)].t = "unk" THEN Unk ELSE NoFrame

(* position information is added only to string messages *)
ErrorCall(v, own, stack, L) == IF v.str THEN Str(PosSeg(LevelFrame(own, stack, L)) \o v.segs) ELSE v

InitVal(val, c, i) ==
  CASE val = "plain"  -> Str(<<Txt("boom")>>)
    [] val = "empty"  -> Str(<<Txt("")>>)
    [] val = "numstr" -> Str(<<Txt("42")>>)
    [] val = "cn"     -> Str(<<Cn(c), Txt(": bad")>>)          \* starts with the name of the raising chunk
    [] val = "cnl"    -> Str(<<Cn(c), Txt(":7: bad")>>)        \* looks like a position in the raising chunk
    [] val = "cn0"    -> Str(<<Cn(0), Txt(":1: x")>>)          \* looks like a position in the main chunk
    [] val = "other"  -> Str(<<Txt("zzz.lua:3: x")>>)          \* looks like a position in an unrelated chunk
    [] val = "q"      -> Str(<<Txt("?: x")>>)
    [] val = "q1"     -> Str(<<Txt("?:-1: x")>>)
    [] val = "colon"  -> Str(<<Txt(": x")>>)
    [] val = "int"    -> Tok("N42")
    [] val = "flt"    -> Tok("F15")
    [] val = "tbl"    -> Tok("T" \o ToString(i))
    [] val = "nil"    -> Tok("NIL")
    [] val = "true"   -> Tok("TRUE")
    [] val = "false"  -> Tok("FALSE")

(***************************************************************************)
(* Context of the body of F[i]: its callers and the message handler in     *)
(* force (that of the nearest enclosing xpcall of the same coroutine with  *)
(* no protected call in between).                                          *)
(***************************************************************************)
NoH == [j |-> 0, hk |-> "-"]
RECURSIVE CtxOf(_, _)
CtxOf(p, i) ==
  IF i = 1 THEN [stack |-> <<Go, Lua(0, <<0, "call">>)>>, h |-> NoH]
  ELSE LET l  == p[i - 1]
           c  == CtxOf(p, i - 1)
           me == Lua(l.ch, <<i - 1, "call">>)
       IN CASE l.inv \in {"call", "tbcerr"} -> [stack |-> <<me>> \o c.stack, h |-> c.h]
            [] l.inv = "tail"   -> [stack |-> c.stack, h |-> c.h]       \* a tail call erases the calling function
            [] l.inv = "pcall"  -> [stack |-> <<Go, me>> \o c.stack, h |-> NoH]
            [] l.inv = "xpcall" -> [stack |-> <<Go, me>> \o c.stack, h |-> [j |-> i - 1, hk |-> l.hk]]
            [] l.inv \in {"resume", "wrap"} -> [stack |-> <<>>, h |-> NoH]   \* a new coroutine: nothing below its body
            [] l.inv = "tbc"    -> [stack |-> <<me, Unk>>, h |-> c.h]    \* called by a __close handler (a Lua function)
            [] l.inv = "close"  -> [stack |-> <<me, Unk>>, h |-> NoH]    \* the same, inside a coroutine being closed

(* An error with value v is raised in context c: the message handler, if any, runs at that point and its result
   replaces the value (2.3, xpcall).  A handler that itself raises: the manual only says the call fails (value ANY,
   the handler may be called again: it reports its first call only). *)
Raise(c, v, evs) ==
  IF c.h.j = 0 THEN [v |-> v, evs |-> evs]
  ELSE LET j == c.h.j
           hk == c.h.hk
           seen == \E k \in 1..Len(evs) : evs[k][1] = "h" /\ evs[k][2] = j
           ev == IF hk = "err" /\ seen THEN <<>> ELSE << <<"h", j, v>> >>
           nv == CASE hk = "id"  -> v
                   [] hk = "new" -> Str(<<Txt("H" \o ToString(j))>>)
                   [] hk = "cat" -> IF v.str THEN Str(<<Txt("H: ")>> \o v.segs) ELSE v
                   [] hk = "tbl" -> Tok("T" \o ToString(j))
                   [] hk = "nil" -> Tok("NIL")
                   [] hk = "err" -> AnyV
       IN [v |-> nv, evs |-> evs \o ev]

(* what a catching layer does with the value v it caught *)
ActVal(l, v, own, stack) ==
  CASE l.act = "err"    -> ErrorCall(v, own, stack, l.lvl)
    [] l.act = "cat"    -> ErrorCall(IF v.str THEN Str(<<Txt("W: ")>> \o v.segs) ELSE v, own, stack, 1)
    [] l.act = "rt"     -> Str(PosSeg(own) \o <<AnySeg>>)
    [] l.act = "assert" -> IF v.str THEN Str(OptSeg(own) \o v.segs) ELSE v

(* the outcome of calling F[i]: the value it raises and the events on the way *)
RECURSIVE Up(_, _)
Up(p, i) ==
  LET l   == p[i]
      c   == CtxOf(p, i)
      own == Lua(l.ch, <<i, "raise">>)
  IN
  IF i = Len(p) THEN
     LET stack == IF l.form = "direct" THEN c.stack ELSE <<own>> \o c.stack   \* error called by a nested function on the same line
         iv == InitVal(l.val, l.ch, i)
         v == CASE l.kind = "error"  -> ErrorCall(iv, own, stack, l.lvl)
                [] l.kind = "assert" -> IF iv.str THEN Str(OptSeg(own) \o iv.segs) ELSE iv
                [] l.kind = "rt"     -> Str(PosSeg(own) \o <<AnySeg>>)    \* position of the faulting operation
     IN Raise(c, v, <<>>)
  ELSE
     LET r == Up(p, i + 1) IN
     CASE l.inv \in {"call", "tail", "tbc"} -> r
       [] l.inv = "tbcerr" ->
            (* the error passes a to-be-closed variable whose handler gets the value and raises it again *)
            LET evs == Append(r.evs, <<"t", i, r.v>>)
            IN Raise(c, ErrorCall(r.v, own, <<Unk>>, l.lvl), evs)
       [] l.inv = "wrap" ->
            (* the wrapper propagates the error; whether a position is added to string values is not in the manual *)
            Raise(c, IF r.v.str THEN Str(OptSeg(Lua(l.ch, <<i, "call">>)) \o r.v.segs) ELSE r.v, r.evs)
       [] OTHER ->
            Raise(c, ActVal(l, r.v, own, c.stack), Append(r.evs, <<"c", i, FALSE, r.v>>))

ChunksOf(p) == {p[i].ch : i \in 1..Len(p)}
RECURSIVE Probes(_, _)
Probes(cs, c) == IF c >= NChunks THEN <<>>
                 ELSE (IF c \in cs /\ c # 0 THEN << <<"probe", c, Str(<<[t |-> "pos", c |-> c, s |-> <<0, "probe">>], Txt("")>>)>> >> ELSE <<>>)
                      \o Probes(cs, c + 1)

Eval(p) ==
  LET r == Up(p, 1) IN
  [p |-> p, iv |-> InitVal(p[Len(p)].val, p[Len(p)].ch, Len(p)),
   ev |-> Probes(ChunksOf(p), 0) \o r.evs \o << <<"top", FALSE, r.v>> >>]

ASSUME Emit([chunks |-> ChunkTab, probe0 |-> Str(<<[t |-> "pos", c |-> 0, s |-> <<0, "probe">>], Txt("")>>)])

(***************************************************************************)
(* Design-level sanity of the oracle, asserted by TLC on every emitted     *)
(* program: a string raised again with level 1 by a catching layer that is *)
(* not under a message handler starts with the position of that layer's    *)
(* raise site, whatever the string contained before.                       *)
(***************************************************************************)
OwnPrefix(p) ==
  \A i \in 1..(Len(p) - 1) :
     (p[i].inv \in {"pcall", "resume", "close"} /\ p[i].act = "err" /\ p[i].lvl = 1 /\ CtxOf(p, i).h.j = 0) =>
        LET v == Up(p, i).v IN
        v.str => (v.segs # <<>> /\ v.segs[1].t = "pos" /\ v.segs[1].c = p[i].ch /\ v.segs[1].s = <<i, "raise">>)

(***************************************************************************)
(* Generation                                                              *)
(***************************************************************************)
AllPats == UNION {PatsBy[k] : k \in 1..Len(PatsBy)}
Init == prog = <<>> /\ fin = FALSE /\ pat \in AllPats

AddLayer ==
  /\ ~fin /\ Len(prog) < MaxLayers
  /\ \E k \in (Len(prog) + 2)..(MaxLayers + 1) : pat \in PatsBy[k]     \* some longer chain uses this pattern
  /\ \E l \in LayersBy[Len(prog) + 1] :
        prog' = Append(prog, l @@ [ch |-> pat[Len(prog) + 1]])
  /\ UNCHANGED <<pat, fin>>

AddTerm ==
  /\ ~fin /\ pat \in PatsBy[Len(prog) + 1]
  /\ \E t \in TermsBy[Len(prog) + 1] :
        LET q == Append(prog, t @@ [ch |-> pat[Len(prog) + 1]])
        IN Assert(OwnPrefix(q), <<"OwnPrefix", q>>) /\ Emit(Eval(q))
  /\ fin' = TRUE /\ prog' = <<>> /\ UNCHANGED pat

Next == AddLayer \/ AddTerm
Spec == Init /\ [][Next]_vars

=============================================================================

SPECIFICATION GSpec
VIEW GView
CHECK_DEADLOCK FALSE
CONSTANTS
  MaxVals = 3
  MaxSteps = 6
  MaxDepth = 2
  EmitAll = TRUE
  CrossRemark = TRUE

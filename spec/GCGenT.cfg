SPECIFICATION GSpec
VIEW GView
CHECK_DEADLOCK FALSE
CONSTANTS
  MaxVals = 4
  MaxSteps = 8
  MaxDepth = 2
  EmitAll = TRUE
  CrossRemark = TRUE

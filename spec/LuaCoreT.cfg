SPECIFICATION Spec
CONSTANTS MaxSteps = 6000
INVARIANT LocsWritten
INVARIANT Sane
CHECK_DEADLOCK FALSE

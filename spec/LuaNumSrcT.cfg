INIT InitS
NEXT NextS
CHECK_DEADLOCK FALSE
CONSTANTS
  Tier = "T"
  K = 4

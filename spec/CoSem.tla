------------------------------- MODULE CoSem -------------------------------
(***************************************************************************)
(* Lua 5.4 coroutine semantics (manual 2.6, 6.2) at the level of a Lua     *)
(* program: NCo coroutines created by the main chunk, each running a       *)
(* straight-line script that is built step by step (the nondeterministic   *)
(* choice of the next action of the running coroutine IS the script).      *)
(* `out` is the sequence of observable events (calls of the host callback  *)
(* emit) that the program must produce.  Decides the Lua-level part of C09.*)
(***************************************************************************)
EXTENDS Integers, Sequences, FiniteSets, TLC, Json

CONSTANTS NCo,       \* coroutines 1..NCo; 0 is the main thread
          WrapSet,   \* the coroutines created with coroutine.wrap (the others with coroutine.create)
          MaxSteps,  \* script actions in total
          MaxVals,   \* values passed per transfer: 0..MaxVals
          Tbc,       \* TRUE: scripts may declare to-be-closed variables
          WithKill,  \* TRUE: a script may exhaust the CPU limit of the context the whole program runs in
          EmitAll,   \* TRUE: one line per transition; FALSE: only complete scripts (simulation)
          ViewHist   \* how many trailing actions the VIEW distinguishes (more = more distinct scripts explored)

VARIABLES st,       \* [1..NCo -> "suspended" | "running" | "normal" | "dead"]
          started,  \* [1..NCo -> BOOLEAN]  body entered
          chain,    \* resume chain, chain[1] = 0 (main), Last = the running thread
          via,      \* [0..NCo -> "none"|"resume"|"wrap"|"close"] the call a non-top chain member is blocked in
          cerr,     \* [1..NCo -> error token the coroutine died with, or "none"]
          pend,     \* [1..NCo -> Seq(step index)] pending to-be-closed variables, in declaration order
          n,        \* number of script actions so far
          kk,       \* output-only: [0..NCo -> step index of the blocking call / yield]
          out,      \* output-only: expected events
          hist      \* output-only: the scripts, as <<who, action>> in execution order

vars == <<st, started, chain, via, cerr, pend, n, kk, out, hist>>
View == <<st, started, chain, via, [i \in 1..NCo |-> cerr[i] # "none"], [i \in 1..NCo |-> Len(pend[i])], n,
         [j \in 1..(IF Len(hist) < ViewHist THEN Len(hist) ELSE ViewHist) |-> hist[Len(hist) + 1 - j].a]>>

Emit(v) == PrintT(<<"@@", ToJson(v)>>)
Last(s) == s[Len(s)]
ButLast(s) == SubSeq(s, 1, Len(s) - 1)
Running == Last(chain)

Vals(k, nv) == [j \in 1..nv |-> 10 * k + j]
Ev(tag, k, rest) == <<tag, k>> \o rest

Init == /\ st = [i \in 1..NCo |-> "suspended"]
        /\ started = [i \in 1..NCo |-> FALSE]
        /\ chain = <<0>>
        /\ via = [i \in 0..NCo |-> "none"]
        /\ cerr = [i \in 1..NCo |-> "none"]
        /\ pend = [i \in 1..NCo |-> <<>>]
        /\ n = 0
        /\ kk = [i \in 0..NCo |-> 0]
        /\ out = <<>>
        /\ hist = <<>>

(* events of the to-be-closed handlers of coroutine c run with error token e (reverse order) *)
TbcEvents(c, e) == [j \in 1..Len(pend[c]) |-> <<"tbc", pend[c][Len(pend[c]) + 1 - j], e>>]

(* the event by which thread p (blocked in call vi[p], step kq[p]) sees control coming back *)
BackEventF(vi, kq, p, ok, rest) ==
  IF vi[p] = "resume" THEN <<Ev("res", kq[p], <<ok>> \o rest)>>
  ELSE IF vi[p] = "wrap" THEN <<Ev("wres", kq[p], <<ok>> \o rest)>>
  ELSE <<>>
BackEvent(p, ok, rest) == BackEventF(via, kk, p, ok, rest)

(* ---- what happens after the last scripted action: every script ends, so the
   running coroutines return (no values) one after the other. *)
RECURSIVE TailFrom(_, _, _, _, _)
TailFrom(ch, pn, vi, kq, acc) ==
  IF Len(ch) = 1 THEN acc
  ELSE LET r == Last(ch)  p == ch[Len(ch) - 1]
           tb == [j \in 1..Len(pn[r]) |-> <<"tbc", pn[r][Len(pn[r]) + 1 - j], "nil">>]
       IN TailFrom(ButLast(ch), pn, vi, kq, acc \o tb \o BackEventF(vi, kq, p, TRUE, <<>>))

FinalStatus(ch, s) == [i \in 1..NCo |-> IF \E j \in 2..Len(ch) : ch[j] = i THEN "dead" ELSE s[i]]

Step(who, act, st2, started2, chain2, via2, cerr2, pend2, kk2, evs) ==
  /\ st' = st2 /\ started' = started2 /\ chain' = chain2 /\ via' = via2 /\ cerr' = cerr2 /\ pend' = pend2
  /\ kk' = kk2
  /\ n' = n + 1
  /\ out' = out \o evs
  /\ hist' = Append(hist, [who |-> who, k |-> n + 1] @@ act)
  /\ (IF EmitAll \/ n + 1 = MaxSteps THEN Emit([h |-> hist', ev |-> out',
           tail |-> TailFrom(chain2, pend2, via2, kk2, <<>>),
           final |-> FinalStatus(chain2, st2),
           started |-> started2]) ELSE TRUE)

(* helper to set a function at one point *)
Upd(f, x, v) == [f EXCEPT ![x] = v]

-----------------------------------------------------------------------------
(* resume / wrap-call of coroutine c by the running thread r *)
DoResume(c, nv, how) ==
  LET r == Running  k == n + 1  vals == Vals(k, nv)
      tag == IF how = "wrap" THEN "wres" ELSE "res"
  IN /\ n < MaxSteps
     /\ c \in 1..NCo
     /\ IF how = "wrap" THEN c \in WrapSet ELSE (c \notin WrapSet \/ started[c])
     /\ IF st[c] = "suspended"
        THEN Step(r, [a |-> how, c |-> c, nv |-> nv],
                  [i \in 1..NCo |-> IF i = c THEN "running" ELSE IF i = r THEN "normal" ELSE st[i]],
                  Upd(started, c, TRUE), Append(chain, c), Upd(via, r, how), cerr, pend, Upd(kk, r, k),
                  IF started[c] THEN <<Ev("yret", kk[c], vals)>> ELSE <<Ev("start", c, vals)>>)
        ELSE Step(r, [a |-> how, c |-> c, nv |-> nv], st, started, chain, via, cerr, pend, kk,
                  <<Ev(tag, k, <<FALSE, "STR">>)>>)

Yield(nv) ==
  LET r == Running  k == n + 1  vals == Vals(k, nv) IN
  /\ n < MaxSteps
  /\ IF r = 0
     THEN Step(0, [a |-> "myield"], st, started, chain, via, cerr, pend, kk, <<Ev("myield", k, <<FALSE, "STR">>)>>)
     ELSE LET p == chain[Len(chain) - 1] IN
          Step(r, [a |-> "yield", nv |-> nv],
               [i \in 1..NCo |-> IF i = r THEN "suspended" ELSE IF i = p THEN "running" ELSE st[i]],
               started, ButLast(chain), Upd(via, p, "none"), cerr, pend, Upd(kk, r, k),
               BackEvent(p, TRUE, vals))

Return(nv) ==
  LET r == Running  k == n + 1  vals == Vals(k, nv)  p == chain[Len(chain) - 1] IN
  /\ n < MaxSteps /\ r # 0
  /\ Step(r, [a |-> "return", nv |-> nv],
          [i \in 1..NCo |-> IF i = r THEN "dead" ELSE IF i = p THEN "running" ELSE st[i]],
          started, ButLast(chain), Upd(via, p, "none"), cerr, Upd(pend, r, <<>>), kk,
          TbcEvents(r, "nil") \o BackEvent(p, TRUE, vals))

Error(kind) ==
  LET r == Running  k == n + 1  p == chain[Len(chain) - 1]
      e == IF kind = "str" THEN "E" \o ToString(k) ELSE "T" \o ToString(k) IN
  /\ n < MaxSteps /\ r # 0
  /\ Step(r, [a |-> "error", kind |-> kind],
          [i \in 1..NCo |-> IF i = r THEN "dead" ELSE IF i = p THEN "running" ELSE st[i]],
          started, ButLast(chain), Upd(via, p, "none"), Upd(cerr, r, e), Upd(pend, r, <<>>), kk,
          TbcEvents(r, e) \o BackEvent(p, FALSE, <<e>>))

Close(c) ==
  LET r == Running  k == n + 1 IN
  /\ n < MaxSteps /\ c \in 1..NCo /\ (c \notin WrapSet \/ started[c])
  /\ IF st[c] = "suspended"
     THEN Step(r, [a |-> "close", c |-> c], Upd(st, c, "dead"), started, chain, via, cerr, Upd(pend, c, <<>>), kk,
               TbcEvents(c, "nil") \o <<Ev("close", k, <<TRUE, TRUE>>)>>)
     ELSE IF st[c] = "dead"
     THEN Step(r, [a |-> "close", c |-> c], st, started, chain, via, cerr, pend, kk,
               <<Ev("close", k, IF cerr[c] = "none" THEN <<TRUE, TRUE>> ELSE <<TRUE, FALSE, cerr[c]>>)>>)
     ELSE Step(r, [a |-> "close", c |-> c], st, started, chain, via, cerr, pend, kk,
               <<Ev("close", k, <<FALSE, "STR">>)>>)

Status(c) ==
  LET r == Running  k == n + 1 IN
  /\ n < MaxSteps /\ c \in 1..NCo /\ (c \notin WrapSet \/ started[c])
  /\ Step(r, [a |-> "status", c |-> c], st, started, chain, via, cerr, pend, kk, <<Ev("status", k, <<st[c]>>)>>)

Introspect ==
  LET r == Running  k == n + 1 IN
  /\ n < MaxSteps
  /\ Step(r, [a |-> "whoami"], st, started, chain, via, cerr, pend, kk,
          <<Ev("running", k, <<TRUE, r = 0>>), Ev("yieldable", k, <<r # 0>>)>>)

DeclareTbc ==
  LET r == Running  k == n + 1 IN
  /\ Tbc /\ n < MaxSteps /\ r # 0 /\ Len(pend[r]) < 2
  /\ Step(r, [a |-> "tbc"], st, started, chain, via, cerr, Upd(pend, r, Append(pend[r], k)), kk, <<>>)

(* The running thread exhausts the CPU limit of the enclosing context: the termination cannot be intercepted, every
   thread of the resume chain is unwound and dies WITHOUT running its pending to-be-closed handlers, suspended
   coroutines stay as they are, and control returns to the code outside the context with status "killed".
   Nothing of the scripts runs afterwards. *)
KillHere ==
  LET r == Running IN
  /\ WithKill /\ n < MaxSteps
  /\ st' = [i \in 1..NCo |-> IF \E j \in 2..Len(chain) : chain[j] = i THEN "dead" ELSE st[i]]
  /\ started' = started /\ chain' = <<0>> /\ via' = [i \in 0..NCo |-> "none"] /\ cerr' = cerr
  /\ pend' = [i \in 1..NCo |-> IF \E j \in 2..Len(chain) : chain[j] = i THEN <<>> ELSE pend[i]]
  /\ kk' = kk /\ n' = MaxSteps
  /\ out' = Append(out, <<"ctx", "killed">>)
  /\ hist' = Append(hist, [who |-> r, k |-> n + 1, a |-> "kill"])
  /\ Emit([h |-> hist', ev |-> out', tail |-> <<>>, final |-> st', started |-> started])

Next ==
  \/ KillHere
  \/ \E c \in 1..NCo, nv \in 0..MaxVals : DoResume(c, nv, "resume") \/ DoResume(c, nv, "wrap")
  \/ \E nv \in 0..MaxVals : Yield(nv) \/ Return(nv)
  \/ \E kind \in {"str", "tbl"} : Error(kind)
  \/ \E c \in 1..NCo : Close(c) \/ Status(c)
  \/ Introspect
  \/ DeclareTbc

Spec == Init /\ [][Next]_vars

-----------------------------------------------------------------------------
(* design-level invariants of the semantics itself *)
StatusLegal ==
  /\ \A i \in 1..NCo : (st[i] = "running") = (i = Running)
  /\ \A i \in 1..NCo : (st[i] = "normal") = (\E j \in 1..(Len(chain) - 1) : chain[j] = i)
  /\ \A i \in 1..NCo : st[i] = "dead" => pend[i] = <<>>
  /\ chain[1] = 0
  /\ \A i, j \in 1..Len(chain) : i # j => chain[i] # chain[j]
DeadIsFinal == [][\A i \in 1..NCo : st[i] = "dead" => st'[i] = "dead"]_vars
OnlySuspendedResumes == [][\A i \in 1..NCo : (st[i] # "running" /\ st'[i] = "running" /\ Len(chain') > Len(chain)) => st[i] = "suspended"]_vars
=============================================================================

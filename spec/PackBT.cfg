INIT Init
NEXT Next
CHECK_DEADLOCK FALSE
INVARIANT LawHolds
CONSTANTS
  Mode = "seq"
  Alphabet <- AlphaSeq
  MaxToks = 4
  MaxValToks = 4
  Boundary = FALSE

----------------------------- MODULE Isolation -----------------------------
(***************************************************************************)
(* Independent runtimes (C20).  N runtimes, each running its own straight- *)
(* line program (a sequence of statements drawn from a menu of actions on  *)
(* per-runtime roots: globals, library tables, the string metatable, the   *)
(* random generator, quotas, failures).  A runtime's state is its own: the *)
(* specification has no cell that two runtimes can both reach, so for      *)
(* EVERY interleaving the projection of the global behaviour on runtime i  *)
(* equals its solo behaviour (non-interference holds by construction of    *)
(* the specification; it is the implementation that is on trial).          *)
(* TLC enumerates the interleavings (schedules) and emits each one; the    *)
(* driver replays every schedule on real runtimes in one process.          *)
(* SharedCells lists process-wide cells found in the sources: with a       *)
(* non-empty list TLC reports which statement pairs could interfere        *)
(* through them (leads).                                                   *)
(***************************************************************************)
EXTENDS Integers, Sequences, FiniteSets, TLC, Json

CONSTANTS NRt,        \* runtimes 1..NRt
          Len1,       \* segments per program (statements separated by step())
          SharedCells \* set of cell names the menu statements touch process-wide, e.g. {"gcrunning"}

VARIABLES pc, sched
vars == <<pc, sched>>
Emit(v) == PrintT(<<"@@", ToJson(v)>>)

Init == pc = [i \in 1..NRt |-> 0] /\ sched = <<>>
Advance(i) == /\ pc[i] < Len1
              /\ pc' = [pc EXCEPT ![i] = @ + 1]
              /\ sched' = Append(sched, i - 1)
              /\ IF \A j \in 1..NRt : pc'[j] = Len1 THEN Emit([sched |-> sched']) ELSE TRUE
Next == \E i \in 1..NRt : Advance(i)
Spec == Init /\ [][Next]_vars
Done == \A i \in 1..NRt : pc[i] = Len1
=============================================================================

------------------------------ MODULE CoTrace ------------------------------
(***************************************************************************)
(* Trace validation (direction B) of the coroutine hand-off protocol: the  *)
(* events recorded by the verif hooks in runtime/thread.go and in the      *)
(* runtime-context manager during real executions are checked against the *)
(* run-token discipline of CoProto: at every instant at most one goroutine *)
(* executes Lua or touches runtime state (AccessOwnership), thread status  *)
(* transitions are legal, and every thread that died has its goroutine     *)
(* gone (NoGoroutineLeft).  Because the check is on the recorded ORDER of   *)
(* accesses relative to the hand-off events of the same goroutine, it does *)
(* not depend on the scheduler exposing a race.                            *)
(* Many traces are concatenated; a "reset" event starts the next one.      *)
(***************************************************************************)
EXTENDS Integers, Sequences, FiniteSets, TLC, Json, IOUtils

Trace == ndJsonDeserialize(IOEnv.TRACEFILE)

MaxG == 64      \* goroutine indices per trace
MaxT == 64      \* thread indices per trace

VARIABLES l,        \* next line
          holder,   \* goroutine holding the run token; 0 = in flight between a completed send and its receive
          sending,  \* [goroutine -> thread it is sending to, or 0]
          inflight, \* [thread -> number of sends towards it not yet received]
          tst,      \* [thread -> "none" | "suspended" | "ok" | "dead"]
          exited    \* set of threads whose goroutine has finished

vars == <<l, holder, sending, inflight, tst, exited>>

Fresh == /\ holder = 1
         /\ sending = [g \in 1..MaxG |-> 0]
         /\ inflight = [t \in 1..MaxT |-> 0]
         /\ tst = [t \in 1..MaxT |-> IF t = 1 THEN "ok" ELSE "none"]
         /\ exited = {}

Init == l = 1 /\ Fresh /\ TLCSet(1, 0)

Ev == Trace[l]
Is(k) == l <= Len(Trace) /\ Ev.k = k
Adv == l' = l + 1

(* an event that is an access to runtime state / an execution step of Lua by goroutine Ev.g *)
Owns == holder = Ev.g /\ sending[Ev.g] = 0

Access ==
  /\ l <= Len(Trace)
  /\ Ev.k \in {"mem.req", "mem.rel", "push", "pop", "popped", "kill", "host", "cpu.limit", "mem.limit", "cpu.dead", "mem.dead", "release"}
  /\ Owns
  /\ Adv /\ UNCHANGED <<holder, sending, inflight, tst, exited>>

Start ==
  /\ Is("start") /\ Owns /\ tst[Ev.th] = "none"
  /\ tst' = [tst EXCEPT ![Ev.th] = "suspended"]
  /\ Adv /\ UNCHANGED <<holder, sending, inflight, exited>>

ResumeOrClose ==
  /\ (Is("resume") \/ Is("close")) /\ Owns
  /\ tst[Ev.th] = "suspended" /\ tst[Ev.o] = "ok"       \* only a suspended coroutine can be resumed or closed
  /\ tst' = [tst EXCEPT ![Ev.th] = "ok"]
  /\ Adv /\ UNCHANGED <<holder, sending, inflight, exited>>

Yield ==
  /\ Is("yield") /\ Owns /\ tst[Ev.th] = "ok" /\ tst[Ev.o] = "ok"
  /\ tst' = [tst EXCEPT ![Ev.th] = "suspended"]
  /\ Adv /\ UNCHANGED <<holder, sending, inflight, exited>>

Dead ==
  /\ Is("dead") /\ Owns /\ tst[Ev.th] = "ok" /\ tst[Ev.o] = "ok"
  /\ tst' = [tst EXCEPT ![Ev.th] = "dead"]
  /\ Adv /\ UNCHANGED <<holder, sending, inflight, exited>>

Send ==
  /\ Is("send") /\ Owns
  /\ sending' = [sending EXCEPT ![Ev.g] = Ev.th]
  /\ inflight' = [inflight EXCEPT ![Ev.th] = @ + 1]
  /\ Adv /\ UNCHANGED <<holder, tst, exited>>

Sent ==
  /\ Is("sent") /\ sending[Ev.g] = Ev.th
  /\ sending' = [sending EXCEPT ![Ev.g] = 0]
  /\ holder' = IF holder = Ev.g THEN 0 ELSE holder      \* the receiver may already have logged its receive
  /\ Adv /\ UNCHANGED <<inflight, tst, exited>>

Recv ==
  /\ Is("recv") /\ inflight[Ev.th] > 0
  /\ \/ holder = 0
     \/ (holder > 0 /\ holder # Ev.g /\ sending[holder] = Ev.th)      \* the sender has not logged "sent" yet
  /\ holder' = Ev.g
  /\ inflight' = [inflight EXCEPT ![Ev.th] = @ - 1]
  /\ Adv /\ UNCHANGED <<sending, tst, exited>>

Exit ==
  /\ Is("exit") /\ tst[Ev.th] = "dead" /\ Ev.th \notin exited
  /\ exited' = exited \cup {Ev.th}
  /\ Adv /\ UNCHANGED <<holder, sending, inflight, tst>>

(* end of one recorded execution: no goroutine of a dead thread is left, nothing is in flight *)
Reset ==
  /\ Is("reset")
  /\ \A t \in 1..MaxT : tst[t] = "dead" => t \in exited
  /\ \A t \in 1..MaxT : inflight[t] = 0
  /\ holder' = 1
  /\ sending' = [g \in 1..MaxG |-> 0]
  /\ inflight' = [t \in 1..MaxT |-> 0]
  /\ tst' = [t \in 1..MaxT |-> IF t = 1 THEN "ok" ELSE "none"]
  /\ exited' = {}
  /\ Adv

Next == Access \/ Start \/ ResumeOrClose \/ Yield \/ Dead \/ Send \/ Sent \/ Recv \/ Exit \/ Reset

Spec == Init /\ [][Next]_vars

OneRunner == Cardinality({g \in 1..MaxG : holder = g}) <= 1
MarkC == TLCSet(1, IF TLCGet(1) < l THEN l ELSE TLCGet(1))
Accepted == PrintT(<<"@@", ToJson([hw |-> TLCGet(1)])>>) /\ TLCGet(1) = Len(Trace) + 1
=============================================================================

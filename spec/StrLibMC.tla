------------------------------ MODULE StrLibMC ------------------------------
(* constant definitions for StrLib that a cfg file cannot express (negative numbers) *)
EXTENDS StrLib
CountsDef == {-1, 0, 1, 2, 3}
CharCodesDef == {0, 66, 97, 255, 256, -1}
=============================================================================

INIT Init
NEXT Next
CHECK_DEADLOCK FALSE
INVARIANT LawHolds
CONSTANTS
  Mode = "seq"
  Alphabet <- AlphaAll
  MaxToks = 2
  MaxValToks = 1
  Boundary = TRUE

SPECIFICATION Spec
CHECK_DEADLOCK FALSE
CONSTANTS
  Cases <- CasesQ
  Variants <- AllVariants

INIT SimInit
NEXT SimNext
CHECK_DEADLOCK FALSE
CONSTANTS
  Alpha = {97, 66, 0, 255}
  MaxLen = 3
  MaxPat = 3
  MaxSep = 2
  Counts <- CountsDef
  HugeLen = 2
  CharCodes <- CharCodesDef
  MaxChars = 3
  BIG = 1000000
  Fns = {"sub", "byte", "find"}
  SimLen = 9
  SimPat = 3

SPECIFICATION Spec
CHECK_DEADLOCK FALSE
CONSTANTS
  Sizes = {1, 2, 3, 199, 200, 201, 255, 256, 257, 998, 999, 1000, 1001, 1002, 2000, 5000, 20000}

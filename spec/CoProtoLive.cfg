SPECIFICATION LiveSpec
INVARIANTS AccessOwnership OneRunner StatusLegal MutexSane
PROPERTIES DeadIsFinal NoGoroutineLeft
CONSTANTS
  N = 3
  MaxOps = 3
  ReleaseEarly = TRUE
  HandlerOps = FALSE

INIT Init
NEXT Next
VIEW View
CONSTRAINT Bound
CHECK_DEADLOCK FALSE
CONSTANTS
  M = 1048576
  Sat = TRUE
  CpuLim = {0, 15000}
  MemLim = {0}
  CpuSoft = {0}
  MemSoft = {0}
  CpuAmt = {4000, 7000}
  MemAmt = {}
  MsLim = {0, 10}
  MsSoft = {0, 4}
  Ticks = {4, 9}
  ThrInc = 10000
  MaxClk = 13
  OldPopOrder = FALSE
  OldTimeCharge = FALSE
  OldThrInherit = FALSE
  NCo = 0
  XFlags = {}
  MaxDepth = 3
  MaxFrames = 0
  RawOps = TRUE
  CallOps = FALSE
  Emitting = TRUE
  StopOps = FALSE
  MaxUsed = 15000

INIT Init
NEXT Next
CHECK_DEADLOCK FALSE
CONSTANTS
  MaxLayers = 2
  LayersBy <- LayersByQ
  TermsBy <- TermsByQ
  PatsBy <- PatsByQ

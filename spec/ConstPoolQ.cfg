SPECIFICATION Spec
CHECK_DEADLOCK FALSE
CONSTANTS
  MaxLen = 3

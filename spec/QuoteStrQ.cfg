INIT Init
NEXT Next
CHECK_DEADLOCK FALSE
INVARIANT LawHolds
CONSTANTS
  Mode = "str"
  Bytes <- BytesQ
  MaxLen = 2

INIT Init
NEXT Next
CHECK_DEADLOCK FALSE
CONSTANTS
  Tokens <- TokFull
  TokensLong <- TokFull
  MaxTok = 7
  FullUpTo = 0
  EmitFrom = 5
  Subjects <- SubjQL
  SubjectsLong <- SubjQL
  Univ <- UnivAll

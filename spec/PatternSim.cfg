INIT Init
NEXT Next
CHECK_DEADLOCK FALSE
CONSTANTS
  Tokens <- TokCore
  TokensLong <- TokCore
  MaxTok = 7
  FullUpTo = 0
  EmitFrom = 5
  Subjects <- SubjQL
  SubjectsLong <- SubjQL
  Univ <- UnivAll

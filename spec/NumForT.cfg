INIT Init
NEXT Next
CHECK_DEADLOCK FALSE
CONSTANTS
  Tier = "T"
  K = 4

------------------------------- MODULE LuaNum -------------------------------
(***************************************************************************)
(* The number model of the Lua 5.4 reference manual (3.1 numerals, 3.4.1   *)
(* arithmetic, 3.4.2 bitwise, 3.4.3 coercions, 3.4.4 relational, 6.7 the   *)
(* integer/float functions of the math library), written over limb vectors *)
(* (BigInt.tla) because TLC integers have 32 bits and no floats.           *)
(*                                                                         *)
(*   integer : 8 limbs, two's complement (int64)                           *)
(*   float   : [c, n, m, e]  class c in zero / fin / inf / nan, sign n,    *)
(*             value m * 2^e with 2^52 <= m < 2^53; normal doubles have    *)
(*             e >= -1074, subnormal ones e < -1074 with the value a       *)
(*             multiple of 2^-1074 (gradual underflow);                    *)
(*             c = "und" marks a result this model does not determine      *)
(*                                                                         *)
(* Pure operators only (no variables): LuaNumMC enumerates cases for C02,  *)
(* NumFor builds the numeric for loop (C16) on top.                        *)
(***************************************************************************)
EXTENDS BigInt

Z8 == <<0, 0, 0, 0, 0, 0, 0, 0>>
One8 == <<1, 0, 0, 0, 0, 0, 0, 0>>
MaxInt == <<255, 255, 255, 255, 255, 255, 255, 127>>
MinInt == <<0, 0, 0, 0, 0, 0, 0, 128>>
I(k) == IF k >= 0 THEN FromNat(k, 8) ELSE Neg(FromNat(-k, 8))     \* native small integer -> int64

(* ------------------------------------------------------------------------ *)
(* int64                                                                    *)
ILt(x, y) == CmpS(x, y) < 0
ILe(x, y) == CmpS(x, y) <= 0
ISign(x) == IF IsNegS(x) THEN -1 ELSE IF IsZero(x) THEN 0 ELSE 1
IAbs(x) == IF IsNegS(x) THEN Neg(x) ELSE x                         \* wraps for the minimum

(* floor division and modulo, y # 0: from the unsigned division of the magnitudes.
   <<q, r>> with x = q*y + r (mod 2^64), r = 0 or sign(r) = sign(y), |r| < |y| *)
IDivMod(x, y) ==
  LET qr == DivModK(MagS(x), MagS(y))
      q0 == qr[1]
      r0 == qr[2]
  IN IF IsNegS(x) = IsNegS(y)
     THEN <<q0, IF IsNegS(y) THEN Neg(r0) ELSE r0>>       \* q0 = 2^63 for min // -1: wraps to min
     ELSE IF IsZero(r0) THEN <<Neg(q0), Z8>>
     ELSE <<Not(q0), IF IsNegS(y) THEN Add(y, r0) ELSE Sub(y, r0)>>   \* -q0 - 1 ; r = y + trunc-rem
(* remainder of the division that truncates toward zero (math.fmod on integers): sign of the dividend *)
ITruncRem(x, y) == LET r0 == DivModK(MagS(x), MagS(y))[2] IN IF IsNegS(x) THEN Neg(r0) ELSE r0

(* shift left by the int64 count n: negative counts shift right, |n| >= 64 gives 0; logical *)
IShl(x, n) ==
  LET mag == MagS(n)
      big == ~IsSmall(mag) \/ ToNat(mag) >= 64
  IN IF big THEN Z8 ELSE IF IsNegS(n) THEN Shr(x, ToNat(mag)) ELSE Shl(x, ToNat(mag))
IShr(x, n) ==
  LET mag == MagS(n)
      big == ~IsSmall(mag) \/ ToNat(mag) >= 64
  IN IF big THEN Z8 ELSE IF IsNegS(n) THEN Shl(x, ToNat(mag)) ELSE Shr(x, ToNat(mag))

(* ------------------------------------------------------------------------ *)
(* doubles                                                                  *)
FZero(n) == [c |-> "zero", n |-> n, m |-> Z8, e |-> 0]
FZAny == [c |-> "zany", n |-> FALSE, m |-> Z8, e |-> 0]     \* a zero whose sign the manual does not fix
FInf(n) == [c |-> "inf", n |-> n, m |-> Z8, e |-> 0]
FNaN == [c |-> "nan", n |-> FALSE, m |-> Z8, e |-> 0]
FUnd == [c |-> "und", n |-> FALSE, m |-> Z8, e |-> 0]
FAny == [c |-> "any", n |-> FALSE, m |-> Z8, e |-> 0]       \* some float (only the subtype is determined)
Fin(n, m, e) == IF e > 971 THEN FInf(n) ELSE [c |-> "fin", n |-> n, m |-> m, e |-> e]
FNeg(f) == IF f.c \in {"nan", "und", "any", "zany"} THEN f ELSE [f EXCEPT !.n = ~f.n]
FIsNum(f) == f.c \in {"zero", "fin", "inf", "nan"}

(* the natural q (at most 54 bits, low bit 0 if 54) times 2^e in normal form (53-bit m) *)
NormF(neg, q, e) ==
  LET L == BitLen(q) IN
  IF L > 53 THEN Fin(neg, Resize(Shr(q, L - 53), 8), e + (L - 53)) ELSE Fin(neg, Resize(Shl(q, 53 - L), 8), e - (53 - L))
(* round the natural mm (any limb count >= 8) times 2^e, followed by lower-order bits that are non-zero iff
   sticky, to the nearest double, ties to even: 53 significant bits, or fewer when the result is subnormal
   (it must be a multiple of 2^-1074); overflow gives infinity, underflow zero.  <<float, exact>> *)
RoundFX(neg, mm, e, sticky) ==
  LET L == BitLen(mm) IN
  IF L = 0 THEN <<IF sticky THEN FUnd ELSE FZero(neg), ~sticky>>
  ELSE LET d0 == L - 53                  \* bits to drop for 53 significant bits
           d1 == -1074 - e               \* bits to drop so that the unit is 2^-1074
           d == IF d0 > d1 THEN d0 ELSE d1
       IN IF d <= 0 THEN <<IF sticky THEN FUnd ELSE NormF(neg, mm, e), ~sticky>>
          ELSE IF d > L THEN <<FZero(neg), FALSE>>           \* below half of the smallest subnormal
          ELSE LET q == Shr(mm, d)
                   half == Bit(mm, d - 1) = 1
                   st == sticky \/ ~LowBitsZero(mm, d - 1)
                   up == half /\ (st \/ (q[1] % 2) = 1)
                   q1 == IF up THEN Add(q, FromNat(1, Len(mm))) ELSE q
               IN <<IF IsZero(q1) THEN FZero(neg) ELSE NormF(neg, q1, e + d), ~half /\ ~st>>
RoundF(neg, mm, e) == RoundFX(neg, mm, e, FALSE)[1]
(* mm * 2^e when it is exactly a normal double, else FUnd *)
ExactF(neg, mm, e) == LET r == RoundFX(neg, mm, e, FALSE) IN IF r[2] THEN r[1] ELSE FUnd

(* the 64-bit pattern *)
FBits(f) ==
  LET s == IF f.n THEN 2048 ELSE 0 IN
  IF f.c = "zero" THEN Shl(FromNat(s, 8), 52)
  ELSE IF f.c = "inf" THEN Shl(FromNat(s + 2047, 8), 52)
  ELSE IF f.e < -1074 THEN Add(Shr(f.m, -1074 - f.e), Shl(FromNat(s, 8), 52))      \* subnormal: exponent field 0
  ELSE Add(Sub(f.m, Pow2(52, 8)), Shl(FromNat(s + f.e + 1075, 8), 52))

(* integer -> float.  Manual 3.4.3: exact when representable, otherwise "the nearest higher or the nearest
   lower representable value": one or two candidates *)
IToFExact(x) == LET mag == MagS(x) IN IsZero(mag) \/ BitLen(mag) - TrailingZeros(mag) <= 53
IToFAlts(x) ==
  LET mag == MagS(x)
      neg == IsNegS(x)
      L == BitLen(mag)
  IN IF IsZero(mag) THEN <<FZero(FALSE)>>
     ELSE IF L - TrailingZeros(mag) <= 53 THEN <<RoundF(neg, mag, 0)>>
     ELSE LET d == L - 53
              q == Shr(mag, d)
          IN <<RoundF(neg, q, d), RoundF(neg, Add(q, One8), d)>>
IToFRne(x) == IF IsZero(x) THEN FZero(FALSE) ELSE RoundF(IsNegS(x), MagS(x), 0)

(* float -> integer: only floats with an exact integer value inside the int64 range convert *)
FToI(f) ==
  IF f.c \in {"zero", "zany"} THEN [ok |-> TRUE, v |-> Z8]
  ELSE IF f.c # "fin" THEN [ok |-> FALSE, v |-> Z8]
  ELSE IF f.e >= 0 THEN
         IF f.e > 11 THEN [ok |-> FALSE, v |-> Z8]
         ELSE LET v == Shl(f.m, f.e) IN
              IF v[8] < 128 THEN [ok |-> TRUE, v |-> IF f.n THEN Neg(v) ELSE v]
              ELSE IF f.n /\ v = MinInt THEN [ok |-> TRUE, v |-> MinInt]
              ELSE [ok |-> FALSE, v |-> Z8]
  ELSE IF -f.e <= 52 /\ LowBitsZero(f.m, -f.e)
       THEN LET v == Shr(f.m, -f.e) IN [ok |-> TRUE, v |-> IF f.n THEN Neg(v) ELSE v]
  ELSE [ok |-> FALSE, v |-> Z8]

(* floor / ceiling of a finite non-integer-or-integer float as <<sign, magnitude (8 limbs)>> when |f| < 2^53,
   used by math.floor / math.ceil; up = TRUE for ceiling *)
FRoundInt(f, up) == \* f.c = "fin", f.e < 0
  LET k == -f.e
      q == IF k >= 53 THEN Z8 ELSE Shr(f.m, k)
      exact == k < 53 /\ LowBitsZero(f.m, k)
      away == ~exact /\ (up # f.n)          \* ceiling of a positive / floor of a negative non-integer
      mag == IF away THEN Add(q, One8) ELSE q
  IN IF f.n THEN Neg(mag) ELSE mag          \* int64 (|value| <= 2^52)

(* ------------------------------------------------------------------------ *)
(* exact comparison of any two numbers: -1, 0, 1, or 2 (unordered: a NaN is involved) *)
FSgn(f) == IF f.c = "zero" THEN 0 ELSE IF f.n THEN -1 ELSE 1
FCmp(a, b) ==
  IF a.c = "nan" \/ b.c = "nan" THEN 2
  ELSE IF FSgn(a) # FSgn(b) THEN (IF FSgn(a) < FSgn(b) THEN -1 ELSE 1)
  ELSE IF FSgn(a) = 0 THEN 0
  ELSE LET mc == IF a.c = "inf" THEN (IF b.c = "inf" THEN 0 ELSE 1)
                 ELSE IF b.c = "inf" THEN -1
                 ELSE IF a.e # b.e THEN (IF a.e < b.e THEN -1 ELSE 1)
                 ELSE CmpU(a.m, b.m)
       IN IF a.n THEN -mc ELSE mc

(* integer x against float f *)
ICmpF(x, f) ==
  IF f.c = "nan" THEN 2
  ELSE IF f.c = "inf" THEN (IF f.n THEN 1 ELSE -1)
  ELSE IF ISign(x) # FSgn(f) THEN (IF ISign(x) < FSgn(f) THEN -1 ELSE 1)
  ELSE IF ISign(x) = 0 THEN 0
  ELSE LET mx == MagS(x)
           mc == IF f.e >= 0 THEN (IF f.e > 11 THEN -1 ELSE CmpU(mx, Shl(f.m, f.e)))
                 ELSE IF -f.e >= 53 THEN 1
                 ELSE LET fl == Shr(f.m, -f.e)
                          c == CmpU(mx, fl)
                      IN IF c # 0 THEN c ELSE IF LowBitsZero(f.m, -f.e) THEN 0 ELSE -1
       IN IF f.n THEN -mc ELSE mc

(* ------------------------------------------------------------------------ *)
(* float arithmetic: exact dyadic result, then one rounding to nearest-even (IEEE 754, which the manual
   names as the usual float arithmetic), gradual underflow included *)
FAdd(a, b) ==
  IF ~FIsNum(a) \/ ~FIsNum(b) THEN FUnd
  ELSE IF a.c = "nan" \/ b.c = "nan" THEN FNaN
  ELSE IF a.c = "inf" THEN (IF b.c = "inf" /\ a.n # b.n THEN FNaN ELSE a)
  ELSE IF b.c = "inf" THEN b
  ELSE IF a.c = "zero" THEN (IF b.c = "zero" THEN FZero(a.n /\ b.n) ELSE b)
  ELSE IF b.c = "zero" THEN a
  ELSE LET hi == IF a.e >= b.e THEN a ELSE b
           lo == IF a.e >= b.e THEN b ELSE a
           d == hi.e - lo.e
       IN IF d >= 60 THEN hi        \* |lo| < 2^(hi.e - 6): far below half an ulp of hi
          ELSE LET H == Shl(Resize(hi.m, 16), d)
                   Lo == Resize(lo.m, 16)
               IN IF hi.n = lo.n THEN RoundF(hi.n, Add(H, Lo), lo.e)
                  ELSE LET c == CmpU(H, Lo) IN
                       IF c = 0 THEN FZero(FALSE)
                       ELSE IF c > 0 THEN RoundF(hi.n, Sub(H, Lo), lo.e)
                       ELSE RoundF(lo.n, Sub(Lo, H), lo.e)

FMul(a, b) ==
  IF ~FIsNum(a) \/ ~FIsNum(b) THEN FUnd
  ELSE IF a.c = "nan" \/ b.c = "nan" THEN FNaN
  ELSE IF a.c = "inf" \/ b.c = "inf" THEN (IF a.c = "zero" \/ b.c = "zero" THEN FNaN ELSE FInf(a.n # b.n))
  ELSE IF a.c = "zero" \/ b.c = "zero" THEN FZero(a.n # b.n)
  ELSE RoundF(a.n # b.n, MulFull(a.m, b.m), a.e + b.e)

FDivNum(a) == Zeros(7) \o Resize(a.m, 7)          \* a.m * 2^56 in 14 limbs
FDivDen(b) == Resize(b.m, 14)
(* <<quotient, exact>> *)
FDivX(a, b) ==
  IF ~FIsNum(a) \/ ~FIsNum(b) THEN <<FUnd, FALSE>>
  ELSE IF a.c = "nan" \/ b.c = "nan" THEN <<FNaN, TRUE>>
  ELSE IF a.c = "inf" THEN <<IF b.c = "inf" THEN FNaN ELSE FInf(a.n # b.n), TRUE>>
  ELSE IF b.c = "inf" THEN <<FZero(a.n # b.n), TRUE>>
  ELSE IF b.c = "zero" THEN <<IF a.c = "zero" THEN FNaN ELSE FInf(a.n # b.n), TRUE>>
  ELSE IF a.c = "zero" THEN <<FZero(a.n # b.n), TRUE>>
  ELSE LET qr == DivModK(FDivNum(a), FDivDen(b))       \* 56 extra quotient bits: 56 or 57 significant bits + sticky
       IN RoundFX(a.n # b.n, qr[1], a.e - b.e - 56, ~IsZero(qr[2]))
FDiv(a, b) == FDivX(a, b)[1]

(* the float floor(f) / ceil(f) for finite f *)
FFloorF(f, up) ==
  IF f.c # "fin" \/ f.e >= 0 THEN f
  ELSE LET r == FRoundInt(f, up) IN
       IF IsZero(r) THEN FZero(f.n) ELSE RoundF(IsNegS(r), MagS(r), 0)

(* a // b on floats = floor(a / b).  Both the reference implementation and the definition agree whenever
   the rounded quotient is exact or is not an integer; otherwise (quotient rounded onto an integer) "und" *)
FIdiv(a, b) ==
  LET qx == FDivX(a, b)
      q == qx[1]
  IN IF q.c # "fin" THEN q
     ELSE IF qx[2] \/ (q.e < 0 /\ ~(-q.e <= 52 /\ LowBitsZero(q.m, -q.e))) THEN FFloorF(q, FALSE)
     ELSE FUnd

(* x * y mod m and 2^d mod m for 8-limb x, y < m, 2^52 <= m < 2^53 *)
MulMod(x, y, m) == Resize(DivModK(MulFull(x, y), Resize(m, 16))[2], 8)
DblMod(x, m) == LET t == MulSmallC(x, 2, 0)[1] IN IF GeqU(t, m) THEN Sub(t, m) ELSE t
RECURSIVE P2M(_, _, _, _)
P2M(d, m, i, x) == \* left-to-right square and double over the bits i..0 of d
  IF i < 0 THEN x
  ELSE LET sq == MulMod(x, x, m)
           nx == IF (d \div Pow2s(i)) % 2 = 1 THEN DblMod(sq, m) ELSE sq
       IN IF Len(nx) = 8 THEN P2M(d, m, i - 1, nx) ELSE <<>>
Pow2Mod(d, m) == P2M(d, m, 11, One8)                 \* 0 <= d < 4096

(* the exact remainder of a / b with the quotient truncated toward zero, finite non-zero a and b: it has the
   sign of a, |r| < |b|, and is always a double (a multiple of the unit of b below |b|).  A zero remainder is
   returned as FZAny (the manual does not fix its sign) *)
FRemT(a, b) ==
  IF a.e < b.e \/ (a.e = b.e /\ CmpU(a.m, b.m) < 0) THEN a          \* |a| < |b|
  ELSE LET d == a.e - b.e
           r == IF b.m = Pow2(52, 8) /\ d >= 52 THEN Z8             \* b is a power of two dividing a
                ELSE IF d <= 64 THEN Resize(DivModK(Shl(Resize(a.m, 16), d), Resize(b.m, 16))[2], 8)
                ELSE MulMod(DivModK(a.m, b.m)[2], Pow2Mod(d, b.m), b.m)
       IN IF IsZero(r) THEN FZAny ELSE NormF(a.n, r, b.e)

(* a % b = a - floor(a/b)*b on floats (trunc = FALSE) and math.fmod (trunc = TRUE: quotient rounded toward zero).
   For finite a and finite non-zero b the truncated remainder is exact; the floored one is it, or it plus b when
   it is non-zero and its sign differs from b's (one float addition).  Zero results have an open sign; an
   infinite a, a zero or infinite b are left open *)
FModX(a, b, trunc) ==
  IF ~FIsNum(a) \/ ~FIsNum(b) THEN FUnd
  ELSE IF a.c = "nan" \/ b.c = "nan" THEN FNaN
  ELSE IF a.c = "inf" \/ b.c # "fin" THEN FUnd
  ELSE IF a.c = "zero" THEN FZAny
  ELSE LET r == FRemT(a, b) IN
       IF trunc \/ r.c = "zany" \/ r.n = b.n THEN r ELSE FAdd(r, b)

(* ------------------------------------------------------------------------ *)
(* Lua values and results                                                   *)
VI(x) == [k |-> "i", v |-> x]
VF(f) == [k |-> "f", f |-> f]
VS(s) == [k |-> "s", s |-> s]              \* s: tuple of one-character strings
VNil == [k |-> "nil"]
VB(b) == [k |-> "b", b |-> b]
VOther(t) == [k |-> "o", t |-> t]          \* a table / function / boolean operand
RErr == [k |-> "err"]
RSkip == [k |-> "skip"]                    \* not determined by the manual (or outside this model): not compared
RAlts(s) == [k |-> "alts", a |-> s]        \* any of these values
R1(v) == RAlts(<<v>>)

(* ------------------------------------------------------------------------ *)
(* numerals: manual 3.1 and 3.4.3 (string -> number "following its syntax and the rules of the Lua lexer;
   the string may have leading and trailing whitespaces and a sign")                                      *)
DigitVal(ch) ==
  CASE ch = "0" -> 0 [] ch = "1" -> 1 [] ch = "2" -> 2 [] ch = "3" -> 3 [] ch = "4" -> 4 [] ch = "5" -> 5
    [] ch = "6" -> 6 [] ch = "7" -> 7 [] ch = "8" -> 8 [] ch = "9" -> 9
    [] ch \in {"a", "A"} -> 10 [] ch \in {"b", "B"} -> 11 [] ch \in {"c", "C"} -> 12
    [] ch \in {"d", "D"} -> 13 [] ch \in {"e", "E"} -> 14 [] ch \in {"f", "F"} -> 15
    [] OTHER -> -1
IsDec(ch) == DigitVal(ch) >= 0 /\ DigitVal(ch) <= 9
IsHex(ch) == DigitVal(ch) >= 0
IsSp(ch) == ch \in {" ", "\t", "\n", "\r", "\f"}

RECURSIVE SkipSp(_, _)
SkipSp(s, i) == IF i <= Len(s) /\ IsSp(s[i]) THEN SkipSp(s, i + 1) ELSE i
RECURSIVE SkipSpBack(_, _)
SkipSpBack(s, j) == IF j >= 1 /\ IsSp(s[j]) THEN SkipSpBack(s, j - 1) ELSE j

(* mantissa scanner for base 10 / 16 from position i up to j: digits with at most one radix point.
   acc = value of the digits (8 limbs), lost = digits overflowed 64 bits, nd = digits, fd = fraction digits *)
RECURSIVE Mant(_, _, _, _, _, _, _, _, _)
Mant(s, i, j, base, acc, nd, dot, fd, lost) ==
  IF i <= j /\ DigitVal(s[i]) >= 0 /\ DigitVal(s[i]) < base
  THEN LET r == MulSmallC(acc, base, DigitVal(s[i]))
       IN Mant(s, i + 1, j, base, r[1], nd + 1, dot, IF dot THEN fd + 1 ELSE fd, lost \/ r[2] # 0)
  ELSE IF i <= j /\ s[i] = "." /\ ~dot THEN Mant(s, i + 1, j, base, acc, nd, TRUE, fd, lost)
  ELSE [i |-> i, acc |-> acc, nd |-> nd, dot |-> dot, fd |-> fd, lost |-> lost]

(* exponent digits from i to j (all must be decimal digits, at least one): value saturated at 99999, or -1 *)
RECURSIVE ExpDigits(_, _, _, _, _)
ExpDigits(s, i, j, acc, n) ==
  IF i > j THEN (IF n = 0 THEN -1 ELSE acc)
  ELSE IF ~IsDec(s[i]) THEN -1
  ELSE ExpDigits(s, i + 1, j, IF acc > 9999 THEN 99999 ELSE acc * 10 + DigitVal(s[i]), n + 1)
(* [ok, v] : signed exponent from position i (after the exponent letter) to j *)
ExpPart(s, i, j) ==
  LET sg == i <= j /\ s[i] \in {"+", "-"}
      v == ExpDigits(s, IF sg THEN i + 1 ELSE i, j, 0, 0)
  IN [ok |-> v >= 0, v |-> IF sg /\ s[i] = "-" THEN -v ELSE v]

(* x * 10^k exactly in 8 limbs, or <<>> *)
RECURSIVE MulPow10(_, _)
MulPow10(x, k) ==
  IF k = 0 THEN x
  ELSE LET r == MulSmallC(x, 10, 0) IN IF r[2] # 0 THEN <<>> ELSE MulPow10(r[1], k - 1)
(* division of a limb vector by a small native d: <<quotient, remainder>> *)
RECURSIVE DivSmallFrom(_, _, _, _, _)
DivSmallFrom(x, d, i, rem, acc) == \* acc collects quotient limbs from the top: reversed afterwards by index
  IF i = 0 THEN <<acc, rem>>
  ELSE LET cur == rem * B + x[i] IN DivSmallFrom(x, d, i - 1, cur % d, <<cur \div d>> \o acc)
DivSmall(x, d) == DivSmallFrom(x, d, Len(x), 0, <<>>)
(* x / 5^k when exact, or <<>> *)
RECURSIVE DivPow5(_, _)
DivPow5(x, k) ==
  IF k = 0 THEN x
  ELSE LET r == DivSmall(x, 5) IN IF r[2] # 0 THEN <<>> ELSE DivPow5(r[1], k - 1)

VFK == [k |-> "fk"]         \* a float whose value this model does not compute (only the subtype is compared)
FVal(f) == IF f.c \in {"und", "inf"} THEN VFK ELSE VF(f)

(* value of the decimal digits D (8 limbs, not lost) times 10^x as a float value *)
DecFloat(neg, D, x) ==
  IF IsZero(D) THEN VF(FZero(neg))
  ELSE IF x >= 0 THEN
         IF x > 40 THEN VFK
         ELSE LET v == MulPow10(D, x) IN IF v = <<>> THEN VFK ELSE FVal(ExactF(neg, v, 0))
  ELSE IF -x > 40 THEN VFK
  ELSE LET v == DivPow5(D, -x) IN IF v = <<>> THEN VFK ELSE FVal(ExactF(neg, v, x))

Str2Num(s) ==
  LET i0 == SkipSp(s, 1)
      j == SkipSpBack(s, Len(s))
  IN IF i0 > j THEN VNil
     ELSE LET sg == s[i0] \in {"+", "-"}
              neg == s[i0] = "-"
              i1 == IF sg THEN i0 + 1 ELSE i0
              hex == i1 + 1 <= j /\ s[i1] = "0" /\ s[i1 + 1] \in {"x", "X"}
          IN IF hex THEN
               LET m == Mant(s, i1 + 2, j, 16, Z8, 0, FALSE, 0, FALSE)
                   hasexp == m.i <= j /\ s[m.i] \in {"p", "P"}
                   ex == IF hasexp THEN ExpPart(s, m.i + 1, j) ELSE [ok |-> m.i > j, v |-> 0]
               IN IF m.nd = 0 \/ ~ex.ok THEN VNil
                  ELSE IF ~m.dot /\ ~hasexp THEN VI(IF neg THEN Neg(m.acc) ELSE m.acc)   \* wraps modulo 2^64
                  ELSE IF IsZero(m.acc) /\ ~m.lost THEN VF(FZero(neg))
                  ELSE IF m.lost \/ ex.v > 5000 \/ ex.v < -5000 THEN VFK
                  ELSE FVal(ExactF(neg, m.acc, ex.v - 4 * m.fd))
             ELSE
               LET m == Mant(s, i1, j, 10, Z8, 0, FALSE, 0, FALSE)
                   hasexp == m.i <= j /\ s[m.i] \in {"e", "E"}
                   ex == IF hasexp THEN ExpPart(s, m.i + 1, j) ELSE [ok |-> m.i > j, v |-> 0]
               IN IF m.nd = 0 \/ ~ex.ok THEN VNil
                  ELSE IF ~m.dot /\ ~hasexp THEN
                         (IF ~m.lost /\ (m.acc[8] < 128 \/ (neg /\ m.acc = MinInt))
                          THEN VI(IF neg THEN Neg(m.acc) ELSE m.acc)
                          ELSE IF m.lost THEN VFK ELSE FVal(ExactF(neg, m.acc, 0)))   \* overflowing decimal: a float
                  ELSE IF m.lost \/ ex.v > 5000 \/ ex.v < -5000 THEN VFK
                  ELSE DecFloat(neg, m.acc, ex.v - m.fd)

(* ------------------------------------------------------------------------ *)
(* operators of the language on values                                      *)
IsNumV(v) == v.k \in {"i", "f"}
ToNumArith(v) == IF v.k \in {"i", "f", "fk"} THEN v ELSE IF v.k = "s" THEN Str2Num(v.s) ELSE VNil
ToFs(v) == IF v.k = "i" THEN IToFAlts(v.v) ELSE <<v.f>>

(* x ^ y: "the same rules of the ISO C function pow" (3.4.1).  The special cases of C99 Annex F.9.4.4 are exact;
   everything else is some float (only the subtype is compared). *)
FIsIntF(f) == f.c = "fin" /\ (f.e >= 0 \/ (f.e >= -52 /\ LowBitsZero(f.m, -f.e)))
FIsOddF(f) == f.c = "fin" /\ ((f.e = 0 /\ Bit(f.m, 0) = 1) \/ (f.e < 0 /\ f.e >= -52 /\ LowBitsZero(f.m, -f.e) /\ Bit(f.m, -f.e) = 1))
FIsOneAbs(f) == f.c = "fin" /\ f.e = -52 /\ f.m = Pow2(52, 8)
FAbsGtOne(f) == f.c = "inf" \/ (f.c = "fin" /\ f.e >= -52 /\ ~FIsOneAbs(f))
FAbsLtOne(f) == f.c = "zero" \/ (f.c = "fin" /\ f.e < -52)
FOne == [c |-> "fin", n |-> FALSE, m |-> Pow2(52, 8), e |-> -52]
FPow(x, y) ==
  IF ~(FIsNum(x) /\ FIsNum(y)) THEN FUnd
  ELSE IF y.c = "zero" THEN FOne                                            \* pow(x, +-0) = 1, even for a NaN
  ELSE IF FIsOneAbs(x) /\ ~x.n THEN FOne                                    \* pow(1, y) = 1, even for a NaN
  ELSE IF x.c = "nan" \/ y.c = "nan" THEN FNaN
  ELSE IF x.c = "zero" THEN
         (IF y.n THEN FInf(x.n /\ FIsOddF(y)) ELSE FZero(x.n /\ FIsOddF(y)))
  ELSE IF y.c = "inf" THEN
         (IF FIsOneAbs(x) THEN FOne                                          \* pow(-1, +-inf) = 1
          ELSE IF FAbsLtOne(x) THEN (IF y.n THEN FInf(FALSE) ELSE FZero(FALSE))
          ELSE (IF y.n THEN FZero(FALSE) ELSE FInf(FALSE)))
  ELSE IF x.c = "inf" THEN
         (IF y.n THEN FZero(x.n /\ FIsOddF(y)) ELSE FInf(x.n /\ FIsOddF(y)))
  ELSE IF x.n /\ ~FIsIntF(y) THEN FNaN                                      \* negative finite base, non-integer exponent
  ELSE FAny

FBin(op, x, y) ==
  CASE op = "add" -> FAdd(x, y)
    [] op = "sub" -> FAdd(x, FNeg(y))
    [] op = "mul" -> FMul(x, y)
    [] op = "div" -> FDiv(x, y)
    [] op = "idiv" -> FIdiv(x, y)
    [] op = "mod" -> FModX(x, y, FALSE)
    [] op = "fmod" -> FModX(x, y, TRUE)
    [] op = "pow" -> FPow(x, y)
Cross(op, A, C) ==
  IF Len(A) = 1 /\ Len(C) = 1 THEN <<VF(FBin(op, A[1], C[1]))>>
  ELSE IF Len(A) = 1 THEN <<VF(FBin(op, A[1], C[1])), VF(FBin(op, A[1], C[2]))>>
  ELSE IF Len(C) = 1 THEN <<VF(FBin(op, A[1], C[1])), VF(FBin(op, A[2], C[1]))>>
  ELSE <<VF(FBin(op, A[1], C[1])), VF(FBin(op, A[1], C[2])), VF(FBin(op, A[2], C[1])), VF(FBin(op, A[2], C[2]))>>

IntOp(op, x, y) ==
  CASE op = "add" -> Add(x, y)
    [] op = "sub" -> Sub(x, y)
    [] op = "mul" -> MulN(x, y, 8)
    [] op = "idiv" -> IDivMod(x, y)[1]
    [] op = "mod" -> IDivMod(x, y)[2]
    [] op = "fmod" -> ITruncRem(x, y)

(* + - * / // % ^ and math.fmod ("fmod": integer when both are integers, zero divisor is an error) *)
ArithN(op, a, b) == \* operands already coerced (i / f / fk / nil)
  IF a.k = "nil" \/ b.k = "nil" THEN RErr
  ELSE IF a.k = "fk" \/ b.k = "fk" THEN RSkip
  ELSE IF a.k = "i" /\ b.k = "i" /\ op \in {"add", "sub", "mul", "idiv", "mod", "fmod"}
       THEN IF op \in {"idiv", "mod", "fmod"} /\ IsZero(b.v) THEN RErr ELSE R1(VI(IntOp(op, a.v, b.v)))
  ELSE RAlts(Cross(op, ToFs(a), ToFs(b)))
Arith(op, a0, b0) == ArithN(op, ToNumArith(a0), ToNumArith(b0))

Unm(a0) ==
  LET a == ToNumArith(a0) IN
  IF a.k = "nil" THEN RErr ELSE IF a.k = "fk" THEN RSkip
  ELSE IF a.k = "i" THEN R1(VI(Neg(a.v))) ELSE R1(VF(FNeg(a.f)))

(* operand of a bitwise operator: [k = "ok" / "err" / "skip", v] *)
ToIntBit(v) ==
  IF v.k = "i" THEN [k |-> "ok", v |-> v.v]
  ELSE IF v.k = "f" THEN (LET c == FToI(v.f) IN IF c.ok THEN [k |-> "ok", v |-> c.v] ELSE [k |-> "err", v |-> Z8])
  ELSE IF v.k = "s" /\ Str2Num(v.s).k # "nil" THEN [k |-> "skip", v |-> Z8]    \* numeric strings: left open here
  ELSE [k |-> "err", v |-> Z8]
Bitwise(op, a0, b0) ==
  LET a == ToIntBit(a0)
      b == ToIntBit(b0)
  IN IF a.k = "err" \/ b.k = "err" THEN RErr
     ELSE IF a.k = "skip" \/ b.k = "skip" THEN RSkip
     ELSE R1(VI(CASE op = "band" -> And(a.v, b.v)
                  [] op = "bor" -> Or(a.v, b.v)
                  [] op = "bxor" -> Xor(a.v, b.v)
                  [] op = "shl" -> IShl(a.v, b.v)
                  [] op = "shr" -> IShr(a.v, b.v)))
Bnot(a0) == LET a == ToIntBit(a0) IN IF a.k = "err" THEN RErr ELSE IF a.k = "skip" THEN RSkip ELSE R1(VI(Not(a.v)))

(* exact order of two numbers *)
NumCmp(a, b) ==
  IF a.k = "i" THEN (IF b.k = "i" THEN CmpS(a.v, b.v) ELSE ICmpF(a.v, b.f))
  ELSE IF b.k = "i" THEN (LET c == ICmpF(b.v, a.f) IN IF c = 2 THEN 2 ELSE -c)
  ELSE FCmp(a.f, b.f)
NumLt(a, b) == NumCmp(a, b) = -1
NumLe(a, b) == NumCmp(a, b) \in {-1, 0}
NumEq(a, b) == NumCmp(a, b) = 0

SameNonNumber(a, b) == (a.k = "s" /\ b.k = "s" /\ a.s = b.s) \/ (a.k = "nil" /\ b.k = "nil")   \* tables are always fresh here
(* < <= > >= : numbers by value; number against string is an error (no coercion); == never coerces *)
Rel(op, a, b) ==
  IF IsNumV(a) /\ IsNumV(b) THEN
    R1(VB(CASE op = "lt" -> NumLt(a, b) [] op = "le" -> NumLe(a, b) [] op = "gt" -> NumLt(b, a) [] op = "ge" -> NumLe(b, a)
            [] op = "eq" -> NumEq(a, b) [] op = "ne" -> ~NumEq(a, b)))
  ELSE IF op = "eq" THEN R1(VB(SameNonNumber(a, b)))
  ELSE IF op = "ne" THEN R1(VB(~SameNonNumber(a, b)))
  ELSE IF a.k = "s" /\ b.k = "s" THEN RSkip
  ELSE RErr

(* math library, 6.7 *)
MathType(a) == IF a.k = "i" THEN R1(VS(<<"integer">>)) ELSE IF a.k = "f" THEN R1(VS(<<"float">>)) ELSE R1(VNil)
MathToInteger(a) ==
  IF a.k = "i" THEN R1(a)
  ELSE IF a.k = "f" THEN (LET c == FToI(a.f) IN IF c.ok THEN R1(VI(c.v)) ELSE R1(VNil))
  ELSE IF a.k = "s" THEN RSkip ELSE R1(VNil)
MathAbs(a) ==
  IF a.k = "i" THEN R1(VI(IAbs(a.v)))
  ELSE IF a.k = "f" THEN R1(VF(IF a.f.c = "nan" THEN a.f ELSE [a.f EXCEPT !.n = FALSE]))
  ELSE IF a.k = "s" THEN RSkip ELSE RErr
(* floor / ceil: "an integer when the result fits in the range of an integer, or a float otherwise" *)
MathFloor(a, up) ==
  IF a.k = "i" THEN R1(a)
  ELSE IF a.k = "f" THEN
    (IF a.f.c = "zero" THEN R1(VI(Z8))
     ELSE IF a.f.c # "fin" THEN R1(a)
     ELSE IF a.f.e >= 0 THEN (LET c == FToI(a.f) IN IF c.ok THEN R1(VI(c.v)) ELSE R1(a))
     ELSE R1(VI(FRoundInt(a.f, up))))
  ELSE IF a.k = "s" THEN RSkip ELSE RErr
(* math.ult: unsigned comparison of two integers (floats with an exact integer value are integers here) *)
MathUlt(a0, b0) ==
  LET a == ToIntBit(a0)
      b == ToIntBit(b0)
  IN IF a.k = "err" \/ b.k = "err" THEN RErr ELSE IF a.k = "skip" \/ b.k = "skip" THEN RSkip
     ELSE R1(VB(CmpU(a.v, b.v) < 0))
(* math.fmod: numbers only *)
MathFmod(a, b) == IF IsNumV(a) /\ IsNumV(b) THEN Arith("fmod", a, b) ELSE IF a.k = "s" \/ b.k = "s" THEN RSkip ELSE RErr
(* math.max / math.min of two numbers "according to the Lua operator <" *)
MathMax(a, b) == IF IsNumV(a) /\ IsNumV(b) THEN (IF NumCmp(a, b) = 2 THEN RSkip ELSE R1(IF NumLt(a, b) THEN b ELSE a)) ELSE RSkip
MathMin(a, b) == IF IsNumV(a) /\ IsNumV(b) THEN (IF NumCmp(a, b) = 2 THEN RSkip ELSE R1(IF NumLt(b, a) THEN b ELSE a)) ELSE RSkip
(* tonumber(x) with one argument *)
ToNumber(a) == IF IsNumV(a) THEN R1(a) ELSE IF a.k = "s" THEN (LET v == Str2Num(a.s) IN IF v.k = "fk" THEN R1(VFK) ELSE R1(v)) ELSE R1(VNil)

(* ------------------------------------------------------------------------ *)
(* wire encoding of values and results (limbs and bit patterns; the text rendering is done outside)        *)
EncF(f) ==
  IF f.c = "nan" THEN [k |-> "nan"]
  ELSE IF f.c = "und" THEN [k |-> "skip"]
  ELSE IF f.c = "any" THEN [k |-> "fk"]
  ELSE IF f.c = "zany" THEN [k |-> "any", a |-> <<[k |-> "f", v |-> FBits(FZero(FALSE))], [k |-> "f", v |-> FBits(FZero(TRUE))]>>]
  ELSE [k |-> "f", v |-> FBits(f)]
EncV(v) ==
  IF v.k = "i" THEN [k |-> "i", v |-> v.v]
  ELSE IF v.k = "f" THEN EncF(v.f)
  ELSE IF v.k = "b" THEN [k |-> "b", b |-> v.b]
  ELSE IF v.k = "s" THEN [k |-> "s", s |-> v.s]
  ELSE IF v.k = "fk" THEN [k |-> "fk"]
  ELSE [k |-> "nil"]
EncAlts(s) ==
  IF \E i \in 1..Len(s) : EncV(s[i]).k = "skip" THEN [k |-> "skip"]       \* one undetermined alternative: nothing to compare
  ELSE IF Len(s) = 1 THEN EncV(s[1])
  ELSE IF Len(s) = 2 THEN [k |-> "any", a |-> <<EncV(s[1]), EncV(s[2])>>]
  ELSE [k |-> "any", a |-> <<EncV(s[1]), EncV(s[2]), EncV(s[3]), EncV(s[4])>>]
EncR(r) == IF r.k = "alts" THEN EncAlts(r.a) ELSE [k |-> r.k]

(* ------------------------------------------------------------------------ *)
(* the boundary lattice.  Floats are written (sign, small mantissa, exponent) and normalised.             *)
P2(k) == Pow2(k, 8)
FL(neg, m, e) == RoundF(neg, I(m), e)               \* exact: m < 2^31
FLb(neg, mm, e) == RoundF(neg, mm, e)               \* mantissa given as limbs (<= 53 significant bits)
Tenth == <<154, 153, 153, 153, 153, 153, 25, 0>>   \* 0x1999999999999a : 0.1 = Tenth * 2^-56
M53 == Sub(P2(53), One8)                            \* 2^53 - 1

LatIQ == <<I(0), I(1), I(-1), I(2), I(-2), I(3), I(-3), I(7), I(-7), I(10), I(63), I(64), I(-64), I(255),
           Sub(P2(31), One8), P2(31), Neg(P2(31)), P2(32), Sub(P2(53), One8), P2(53), Add(P2(53), One8),
           Neg(P2(53)), Neg(Add(P2(53), One8)), P2(62), Sub(MaxInt, One8), MaxInt, MinInt, Add(MinInt, One8),
           Sub(MaxInt, I(512)), I(5), I(-5)>>
LatIT == LatIQ \o <<I(6), I(9), I(-10), I(62), I(65), I(-63), I(100), I(-100), I(256), Add(P2(31), One8), Neg(Add(P2(31), One8)),
           Sub(P2(32), One8), Neg(P2(32)), Add(P2(32), One8), P2(52), Add(P2(53), I(2)), Add(P2(53), I(3)),
           Neg(Sub(P2(53), One8)), Neg(P2(62)), Add(P2(62), One8), Sub(MaxInt, I(1023)), Sub(MaxInt, I(1024)),
           Sub(MaxInt, I(511)), Add(MinInt, I(1024)), I(1000000007), I(-1000000007),
           <<85, 85, 85, 85, 85, 85, 85, 85>>, <<170, 170, 170, 170, 170, 170, 170, 170>>,
           <<255, 0, 255, 0, 255, 0, 255, 0>>, <<0, 0, 0, 0, 255, 255, 255, 255>>,
           MulN(I(1000000000), I(1000000000), 8), <<52, 243, 4, 181, 0, 0, 0, 0>>>>    \* 10^18 ; 3037000500

LatFQ == <<FZero(FALSE), FZero(TRUE), FL(FALSE, 1, -1), FL(TRUE, 1, -1), FL(FALSE, 1, 0), FL(TRUE, 1, 0),
           FL(FALSE, 3, -1), FL(TRUE, 3, -1), FL(FALSE, 2, 0), FL(FALSE, 3, 0), FL(TRUE, 3, 0), FL(FALSE, 5, -1),
           FL(FALSE, 1, 6), FL(FALSE, 1, 53), FL(TRUE, 1, 53), FLb(FALSE, Add(P2(52), One8), 1),
           FL(FALSE, 1, 63), FL(TRUE, 1, 63), FL(FALSE, 1, 64), FL(TRUE, 1, 64), FLb(FALSE, M53, 10),
           FLb(FALSE, M53, 971), FLb(TRUE, M53, 971), FLb(FALSE, M53, -1), FLb(FALSE, Tenth, -56),
           FL(FALSE, 1, -700), FL(TRUE, 1, -700), FL(FALSE, 3, -700), FL(TRUE, 3, -700), FL(FALSE, 1, -1000),
           FL(FALSE, 1, -1022), FL(FALSE, 1, -1074), FL(TRUE, 3, -1074),           \* smallest normal; subnormals
           FInf(FALSE), FInf(TRUE), FNaN>>
LatFT == LatFQ \o <<FL(TRUE, 2, 0), FL(FALSE, 7, 0), FL(TRUE, 7, 0), FL(TRUE, 5, -1), FL(FALSE, 7, -1), FL(FALSE, 3, -2),
           FL(FALSE, 63, 0), FL(TRUE, 1, 6), FL(FALSE, 65, 0), FL(FALSE, 255, 0), FL(FALSE, 1, 31), FL(FALSE, 1, 32),
           FL(FALSE, 1, 62), FL(TRUE, 1, 62), FLb(FALSE, M53, 0), FLb(TRUE, M53, 0), FLb(FALSE, Add(P2(52), One8), -1),
           FLb(TRUE, M53, 10), FLb(FALSE, Add(P2(52), One8), 11), FLb(TRUE, Add(P2(52), One8), 11),
           FL(FALSE, 1, 1023), FL(TRUE, 1, 1023), FL(TRUE, 1, -1000), FL(TRUE, 1, -1022), FL(FALSE, 1, 100),
           FL(TRUE, 1, -1074), FL(FALSE, 3, -1074), FL(FALSE, 5, -1073), FLb(FALSE, Sub(P2(52), One8), -1074), FLb(FALSE, Tenth, -756),
           FLb(TRUE, Tenth, -56), FL(FALSE, 1, -1), FL(FALSE, 1000000007, 0), FL(FALSE, 1, 52), FL(FALSE, 5, 0), FL(TRUE, 5, 0)>>

MkLat(ints, flts) == [i \in 1..(Len(ints) + Len(flts)) |-> IF i <= Len(ints) THEN VI(ints[i]) ELSE VF(flts[i - Len(ints)])]
=============================================================================

INIT Init
NEXT Next
CHECK_DEADLOCK FALSE
CONSTANTS
  MaxLayers = 6
  LayersBy <- LayersByS
  TermsBy <- TermsByS
  PatsBy <- PatsByS

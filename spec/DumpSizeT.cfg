SPECIFICATION Spec
CHECK_DEADLOCK FALSE
CONSTANTS
  Cases <- CasesT
  Variants <- AllVariants

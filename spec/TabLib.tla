------------------------------- MODULE TabLib -------------------------------
(***************************************************************************)
(* table.insert / remove / move / concat / unpack / pack (Lua 5.4 manual   *)
(* 6.6) on an abstract table: a function from a finite set of integer keys *)
(* to non-nil values; get(t,k) is "nil" outside the domain, assigning      *)
(* "nil" erases.  The manual defines every function through t[k] reads,    *)
(* t[k] = v writes and #t, so the same result is required whether the      *)
(* argument is a plain table or a proxy whose __index / __newindex / __len *)
(* forward to a backing table: the check runs both and compares the        *)
(* returned values and the final (backing) content.  The number and order  *)
(* of the individual accesses are not fixed by the manual: not compared.   *)
(*                                                                         *)
(* Values are tokens: "i1" "i2" integers 1 2, "sa" "sb" strings "a" "b",   *)
(* "T" true, "nil".  BIG stands for math.maxinteger, -BIG-1 for            *)
(* math.mininteger.  Written from the manual, not from golua's code.       *)
(* Decides C19 (binding B, tabular), same emission scheme as StrLib.       *)
(***************************************************************************)
EXTENDS Integers, Sequences, FiniteSets, TLC, Json

CONSTANTS Vals,      \* element values of the lists given to insert/remove/unpack
          MoveVals,  \* element values of the lists given to move (the function is parametric in them)
          CVals,     \* element values of the lists given to concat ("T" is not a string or number)
          PVals,     \* argument values of pack
          MaxLen,    \* lists of length <= MaxLen
          BIG, Fns

VARIABLE c
Emit(v) == PrintT(<<"@@", ToJson(v)>>)

Lists(V, n) == UNION {[1..k -> V] : k \in 0..n}

Get(t, k) == IF k \in DOMAIN t THEN t[k] ELSE "nil"
(* the table holding F(k) at every k in D where F(k) is not nil *)
Mk(D, F(_)) == [k \in {x \in D : F(x) # "nil"} |-> F(k)]
Pairs(t) == {<<k, t[k]>> : k \in DOMAIN t}
(* #t; the arguments used here have exactly one border *)
Border(t) == CHOOSE n \in 0..Cardinality(DOMAIN t) : (n = 0 \/ n \in DOMAIN t) /\ (n + 1) \notin DOMAIN t
(* the list q, optionally with an element at key 0 (which no function may treat as part of the list) *)
Tab(q, z) == IF z THEN Mk((DOMAIN q) \cup {0}, LAMBDA k : IF k = 0 THEN "sb" ELSE q[k]) ELSE q

Positions(n) == {-BIG - 1, -BIG, BIG} \cup (-1..(n + 2))
Pos2(n) == {-BIG - 1, BIG} \cup (-1..(n + 1))

(* a result: k = "ok" (r = returned values, t = final content of the (first) table, u = of the second
   table when n = 1), "error" (an error is raised; the final content is not compared), "resource"
   (legal but needs ~BIG steps: not run) or "unspec" (the manual's precondition is violated and it does
   not say what happens: the call is run, it must end - with or without an error - and not crash).  g = class of the case where it depends on the result.
   All fields always have the same type. *)
Tag(res, g) == [res EXCEPT !.g = g]
Res(r, t) == [k |-> "ok", r |-> r, t |-> Pairs(t), u |-> {}, n |-> 0, g |-> ""]
Res2(r, t, u) == [k |-> "ok", r |-> r, t |-> Pairs(t), u |-> Pairs(u), n |-> 1, g |-> ""]
Err == [k |-> "error", r |-> <<>>, t |-> {}, u |-> {}, n |-> 0, g |-> ""]
Resource == [k |-> "resource", r |-> <<>>, t |-> {}, u |-> {}, n |-> 0, g |-> ""]
Unspec == [k |-> "unspec", r |-> <<>>, t |-> {}, u |-> {}, n |-> 0, g |-> ""]

(***************************************************************************)
(* table.insert (list, [pos,] value): "Inserts element value at position   *)
(* pos in list, shifting up the elements list[pos], ..., list[#list].      *)
(* The default value for pos is #list+1".  pos must be in 1..#list+1.      *)
(***************************************************************************)
Insert(t, args) ==
  LET n == Border(t)
      pos == IF Len(args) = 1 THEN n + 1 ELSE args[1]
      v == args[Len(args)]
  IN IF pos < 1 \/ pos > n + 1 THEN Err
     ELSE Res(<<>>, Mk((DOMAIN t) \cup {pos, n + 1},
                       LAMBDA k : IF k < pos THEN Get(t, k) ELSE IF k = pos THEN v
                                  ELSE IF k <= n + 1 THEN Get(t, k - 1) ELSE Get(t, k)))

(***************************************************************************)
(* table.remove (list [, pos]): "Removes from list the element at position *)
(* pos, returning the value of the removed element.  When pos is an        *)
(* integer between 1 and #list, it shifts down the elements list[pos+1],   *)
(* ..., list[#list] and erases element list[#list]; the index pos can also *)
(* be 0 when #list is 0, or #list + 1.  The default value for pos is       *)
(* #list".                                                                 *)
(***************************************************************************)
Remove(t, args) ==
  LET n == Border(t)
      pos == IF Len(args) = 0 THEN n ELSE args[1]
  IN IF pos >= 1 /\ pos <= n
       THEN Res(<<Get(t, pos)>>, Mk(DOMAIN t, LAMBDA k : IF k < pos THEN Get(t, k) ELSE IF k < n THEN Get(t, k + 1)
                                                        ELSE IF k = n THEN "nil" ELSE Get(t, k)))
     ELSE IF pos = n + 1 \/ (n = 0 /\ pos = 0)
       THEN Res(<<Get(t, pos)>>, Mk(DOMAIN t, LAMBDA k : IF k = pos THEN "nil" ELSE Get(t, k)))
     ELSE Err

(***************************************************************************)
(* table.move (a1, f, e, t [,a2]): "a2[t],... = a1[f],...,a1[e]. The       *)
(* default for a2 is a1.  The destination range can overlap with the       *)
(* source range.  The number of elements to be moved must fit in a Lua     *)
(* integer.  Returns the destination table a2."  It is a multiple          *)
(* assignment: every source element is the ORIGINAL one.  What happens     *)
(* when the number does not fit, or when a destination index would exceed  *)
(* maxinteger, is not said (the reference implementation raises an error). *)
(***************************************************************************)
Move(a1, d, f, e, tp) ==    \* d = [same |-> a2 is absent, q |-> the list a2 otherwise]
  LET same == d.same
      dst == IF same THEN a1 ELSE d.q
      cnt == e - f + 1
  IN IF e < f THEN (IF same THEN Res(<<"dest">>, a1) ELSE Res2(<<"dest">>, a1, dst))
     ELSE IF cnt > BIG THEN Unspec
     ELSE IF tp > BIG - cnt + 1 THEN Unspec
     ELSE IF cnt > 1000 THEN Resource
     ELSE LET d2 == Mk((DOMAIN dst) \cup (tp..(tp + cnt - 1)),
                       LAMBDA k : IF k >= tp /\ k < tp + cnt THEN Get(a1, f + (k - tp)) ELSE Get(dst, k))
          IN IF same THEN Res(<<"dest">>, d2) ELSE Res2(<<"dest">>, a1, d2)

(***************************************************************************)
(* table.concat (list [, sep [, i [, j]]]): "Given a list where all        *)
(* elements are strings or numbers, returns the string list[i]..sep..      *)
(* list[i+1] ... sep..list[j].  The default value for sep is the empty     *)
(* string, the default for i is 1, and the default for j is #list.  If i   *)
(* is greater than j, returns the empty string."  An element of the range  *)
(* that is neither (nil included) is an error.                             *)
(***************************************************************************)
Str(v) == CASE v = "i1" -> <<49>> [] v = "i2" -> <<50>> [] v = "sa" -> <<97>> [] v = "sb" -> <<98>>
IsStrNum(v) == v \in {"i1", "i2", "sa", "sb"}
RECURSIVE Join(_, _, _, _)
Join(t, sep, i, j) == IF i = j THEN Str(t[i]) ELSE Str(t[i]) \o sep \o Join(t, sep, i + 1, j)
Concat(t, args) ==
  LET sep == IF Len(args) >= 1 THEN args[1] ELSE <<>>
      i == IF Len(args) >= 2 THEN args[2] ELSE 1
      j == IF Len(args) >= 3 THEN args[3] ELSE Border(t)
  IN IF i > j THEN Tag(Res(<< <<>> >>, t), "empty")
     (* some list[k], i <= k <= j, is not a string or number <=> fewer than j-i+1 positions of the range hold one
        (said this way because i..j can have ~2*BIG elements, most of them outside the table) *)
     ELSE IF Cardinality({k \in DOMAIN t : i <= k /\ k <= j /\ IsStrNum(t[k])}) < j - i + 1 THEN Tag(Err, "invalid")
     ELSE Tag(Res(<<Join(t, sep, i, j)>>, t), "ok")

(***************************************************************************)
(* table.unpack (list [, i [, j]]): "return list[i], list[i+1], ...,       *)
(* list[j].  By default, i is 1 and j is #list."  A number of results of   *)
(* the order of BIG cannot be returned: error.                             *)
(***************************************************************************)
Unpack(t, args) ==
  LET i == IF Len(args) >= 1 THEN args[1] ELSE 1
      j == IF Len(args) >= 2 THEN args[2] ELSE Border(t)
  IN IF j < i THEN Tag(Res(<<>>, t), "empty")
     ELSE IF j - i + 1 > 1000 THEN Tag(Err, "huge")
     ELSE Tag(Res([k \in 1..(j - i + 1) |-> Get(t, i + k - 1)], t), "some")

(* table.pack (...): "a new table with all arguments stored into keys 1, 2, etc. and with a field "n" with the
   total number of arguments"; the field n carries the expected n *)
Pack(args) == [k |-> "ok", r |-> <<"packed">>, t |-> Pairs(Mk(1..Len(args), LAMBDA k : args[k])), u |-> {}, n |-> Len(args), g |-> "pack"]

-----------------------------------------------------------------------------
(* a case: arguments after the table, the result, and g = the class of the case (coverage counts, signature) *)
Case(a, res, g) == [a |-> a] @@ (IF g = "" THEN res ELSE Tag(res, g))

PosTag(p, n) == IF p >= 1 /\ p <= n THEN "pos-in" ELSE IF p = n + 1 THEN "pos-end" ELSE IF p = 0 THEN "pos-0" ELSE "pos-out"

InsertCases(t) ==
  {Case(<<v>>, Insert(t, <<v>>), "nopos") : v \in {"sb", "nil"}}
    \cup {Case(<<p, v>>, Insert(t, <<p, v>>), PosTag(p, Border(t))) : p \in Positions(Border(t)), v \in {"sb", "nil"}}

RemoveCases(t) == {Case(<<>>, Remove(t, <<>>), "nopos")}
    \cup {Case(<<p>>, Remove(t, <<p>>), PosTag(p, Border(t))) : p \in Positions(Border(t))}

Dests == {[same |-> TRUE, q |-> <<>>], [same |-> FALSE, q |-> <<>>], [same |-> FALSE, q |-> <<"sb", "sb">>]}
MoveTag(d, f, e, tp) == IF e < f THEN "empty" ELSE IF ~d.same THEN "other" ELSE IF tp > f THEN "up" ELSE IF tp < f THEN "down" ELSE "eq"
MoveCases(t) == LET P == Pos2(Border(t)) Q == P \cup {Border(t) + 2} IN
  {Case(IF d.same THEN <<f, e, tp>> ELSE <<f, e, tp, [q |-> d.q, x |-> {}]>>, Move(t, d, f, e, tp), MoveTag(d, f, e, tp)) :
     f \in P, e \in P, tp \in Q, d \in Dests}

Seps == {<<>>, <<44>>, <<0, 255>>}
ConcatCase(t, a) == Case(a, Concat(t, a), "")
ConcatCases(t) == LET P == Pos2(Border(t)) IN
  {ConcatCase(t, <<>>)} \cup {ConcatCase(t, <<s>>) : s \in Seps}
    \cup {ConcatCase(t, <<s, i>>) : s \in Seps, i \in P}
    \cup {ConcatCase(t, <<s, i, j>>) : s \in Seps, i \in P, j \in P}

UnpackCase(t, a) == Case(a, Unpack(t, a), "")
UnpackCases(t) == LET P == Pos2(Border(t)) \cup {-BIG} IN
  {UnpackCase(t, <<>>)} \cup {UnpackCase(t, <<i>>) : i \in P} \cup {UnpackCase(t, <<i, j>>) : i \in P, j \in P}

PackCases == {Case(a, Pack(a), "") : a \in Lists(PVals, MaxLen)}

Cases(fn, q, z) ==
  CASE fn = "insert" -> InsertCases(Tab(q, z))
    [] fn = "remove" -> RemoveCases(Tab(q, z))
    [] fn = "move" -> MoveCases(Tab(q, z))
    [] fn = "concat" -> ConcatCases(Tab(q, z))
    [] fn = "unpack" -> UnpackCases(Tab(q, z))
    [] fn = "pack" -> PackCases

ValsOf(fn) == CASE fn = "move" -> MoveVals [] fn = "concat" -> CVals [] OTHER -> Vals

Init == c \in
  {[fn |-> fn, q |-> q, z |-> z, st |-> 0] :
      fn \in Fns \cap {"insert", "remove", "unpack"}, q \in Lists(Vals, MaxLen), z \in BOOLEAN}
    \cup {[fn |-> "move", q |-> q, z |-> FALSE, st |-> 0] : q \in IF "move" \in Fns THEN Lists(MoveVals, MaxLen) ELSE {}}
    \cup {[fn |-> "concat", q |-> q, z |-> z, st |-> 0] : q \in IF "concat" \in Fns THEN Lists(CVals, MaxLen) ELSE {}, z \in BOOLEAN}
    \cup {[fn |-> "pack", q |-> <<>>, z |-> FALSE, st |-> 0] : x \in IF "pack" \in Fns THEN {1} ELSE {}}

(* the table argument is given as its list part q and extra pairs x *)
Next == /\ c.st = 0
        /\ c' = [c EXCEPT !.st = 1]
        /\ Emit([fn |-> c.fn, tab |-> [q |-> c.q, x |-> IF c.z THEN {<<0, "sb">>} ELSE {}], cs |-> Cases(c.fn, c.q, c.z)])
=============================================================================

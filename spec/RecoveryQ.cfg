SPECIFICATION Spec
CHECK_DEADLOCK FALSE
CONSTANTS
  Counts = {1, 3, 1100}

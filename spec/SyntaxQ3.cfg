INIT Init
NEXT Next
CHECK_DEADLOCK FALSE
INVARIANTS OracleOK
CONSTANTS
  MaxOps = 3
  Fams = {"FM"}
  Valuations <- ValQ
  MaxList = 2
  SimFam = "FM"

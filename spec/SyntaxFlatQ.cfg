SPECIFICATION Spec
CHECK_DEADLOCK FALSE
CONSTANTS
  Sizes = {1, 2, 999, 1000, 1001, 2000, 5000}

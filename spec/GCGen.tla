------------------------------- MODULE GCGen -------------------------------
(* Script generator of GC.tla's family (direction A): see GCTrace.tla for the semantics (direction B). *)
EXTENDS Integers, Sequences, FiniteSets, TLC, Json

CONSTANTS MaxVals, MaxSteps, MaxDepth, EmitAll, CrossRemark

Kinds == {"t", "tr", "ta", "u", "ur", "r", "uk"}   \* table+gc, table+gc resurrecting, table+gc re-arming (its finaliser marks it again), userdata gc+release, same resurrecting, userdata release only,
                                           \* uk: userdata gc+release whose finaliser exhausts the CPU limit of its context (only created inside one)
HasGc(k) == k \in {"t", "tr", "ta", "u", "ur", "uk"}
HasRel(k) == k \in {"u", "ur", "r", "uk"}
Resurrects(k) == k \in {"tr", "ur"}

-----------------------------------------------------------------------------
(* generation *)
VARIABLES nvals, depth, n, hist
gvars == <<nvals, depth, n, hist>>
(* the view distinguishes which kinds of values exist and which have been dropped, so every combination is explored *)
KindsOf(h) == [i \in 1..Len(SelectSeq(h, LAMBDA a : a.a = "mk")) |-> SelectSeq(h, LAMBDA a : a.a = "mk")[i].kind]
DroppedOf(h) == {h[i].id : i \in {j \in 1..Len(h) : h[j].a = "drop"}}
RemarksOf(h) == [i \in 1..Len(SelectSeq(h, LAMBDA a : a.a = "remark")) |-> SelectSeq(h, LAMBDA a : a.a = "remark")[i].id]
(* the value was created outside any limited context *)
RECURSIVE DepthAt(_, _)
DepthAt(h, k) == IF k = 0 THEN 0 ELSE DepthAt(h, k - 1) + (IF h[k].a = "enter" THEN 1 ELSE IF h[k].a = "leave" THEN -1 ELSE 0)
RemarkDepths(h) == {<<h[k].id, DepthAt(h, k)>> : k \in {j \in 1..Len(h) : h[j].a = "remark"}}
TopLevel(h, i) == \E k \in 1..Len(h) : h[k].a = "mk" /\ h[k].id = i /\ DepthAt(h, k) = 0
GView == <<KindsOf(hist), DroppedOf(hist), RemarksOf(hist), RemarkDepths(hist), depth, n, IF n = 0 THEN "-" ELSE hist[n].a>>
Emit(v) == PrintT(<<"@@", ToJson(v)>>)

GInit == nvals = 0 /\ depth = 0 /\ n = 0 /\ hist = <<>>
GStep(act, nv, d) == /\ nvals' = nv /\ depth' = d /\ n' = n + 1 /\ hist' = Append(hist, act)
                     /\ (IF EmitAll \/ n + 1 = MaxSteps THEN Emit([h |-> hist']) ELSE TRUE)
GNext ==
  /\ n < MaxSteps
  /\ \/ \E k \in Kinds : nvals < MaxVals /\ (k = "uk" => depth > 0) /\ GStep([a |-> "mk", id |-> nvals + 1, kind |-> k], nvals + 1, depth)
     \/ \E i \in 1..nvals : GStep([a |-> "drop", id |-> i, kind |-> "-"], nvals, depth)
     \/ \E i \in 1..nvals : /\ i \notin DroppedOf(hist) /\ KindsOf(hist)[i] \in {"t", "tr", "ta"}
                             /\ (CrossRemark \/ (depth = 0 /\ TopLevel(hist, i)))      \* re-marking in another context than the creating one
                             /\ Len(RemarksOf(hist)) < 2
                             /\ GStep([a |-> "remark", id |-> i, kind |-> "-"], nvals, depth)
     \/ GStep([a |-> "collect", id |-> 0, kind |-> "-"], nvals, depth)
     \/ (depth < MaxDepth /\ GStep([a |-> "enter", id |-> 0, kind |-> "-"], nvals, depth + 1))
     \/ \E how \in {"normal", "error", "kill"} : depth > 0 /\ GStep([a |-> "leave", id |-> 0, kind |-> how], nvals, depth - 1)
GSpec == GInit /\ [][GNext]_gvars

------------------------------------------------------------------------=============================================================================

------------------------------- MODULE GCGen -------------------------------
(* Script generator of GC.tla's family (direction A): see GCTrace.tla for the semantics (direction B). *)
EXTENDS Integers, Sequences, FiniteSets, TLC, Json

CONSTANTS MaxVals, MaxSteps, MaxDepth, EmitAll

Kinds == {"t", "tr", "u", "ur", "r", "uk"}   \* table+gc, table+gc resurrecting, userdata gc+release, same resurrecting, userdata release only,
                                           \* uk: userdata gc+release whose finaliser exhausts the CPU limit of its context (only created inside one)
HasGc(k) == k \in {"t", "tr", "u", "ur", "uk"}
HasRel(k) == k \in {"u", "ur", "r", "uk"}
Resurrects(k) == k \in {"tr", "ur"}

-----------------------------------------------------------------------------
(* generation *)
VARIABLES nvals, depth, n, hist
gvars == <<nvals, depth, n, hist>>
GView == <<nvals, depth, n, [j \in 1..(IF n < 2 THEN n ELSE 2) |-> <<hist[n + 1 - j].a, hist[n + 1 - j].kind>>]>>
Emit(v) == PrintT(<<"@@", ToJson(v)>>)

GInit == nvals = 0 /\ depth = 0 /\ n = 0 /\ hist = <<>>
GStep(act, nv, d) == /\ nvals' = nv /\ depth' = d /\ n' = n + 1 /\ hist' = Append(hist, act)
                     /\ (IF EmitAll \/ n + 1 = MaxSteps THEN Emit([h |-> hist']) ELSE TRUE)
GNext ==
  /\ n < MaxSteps
  /\ \/ \E k \in Kinds : nvals < MaxVals /\ (k = "uk" => depth > 0) /\ GStep([a |-> "mk", id |-> nvals + 1, kind |-> k], nvals + 1, depth)
     \/ \E i \in 1..nvals : GStep([a |-> "drop", id |-> i, kind |-> "-"], nvals, depth)
     \/ GStep([a |-> "collect", id |-> 0, kind |-> "-"], nvals, depth)
     \/ (depth < MaxDepth /\ GStep([a |-> "enter", id |-> 0, kind |-> "-"], nvals, depth + 1))
     \/ \E how \in {"normal", "error", "kill"} : depth > 0 /\ GStep([a |-> "leave", id |-> 0, kind |-> how], nvals, depth - 1)
GSpec == GInit /\ [][GNext]_gvars

------------------------------------------------------------------------=============================================================================

INIT Init
NEXT Next
CHECK_DEADLOCK FALSE
CONSTANTS
  Fams = {"short", "long", "num", "bignum", "errpos"}
  ShortItems = 2
  LongItems = 3
  NumLen = 4
  PreMax = 1

SPECIFICATION Spec
CONSTANTS MaxSteps = 3000
INVARIANT LocsWritten
INVARIANT Sane
CHECK_DEADLOCK FALSE

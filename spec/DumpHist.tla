------------------------------ MODULE DumpHist ------------------------------
(***************************************************************************)
(* C13 over histories: string.dump is a function of its argument alone.    *)
(* Whatever dumps happened before - completed, stripped, refused (a Go     *)
(* function), or TERMINATED half-way by a memory or CPU limit of a nested  *)
(* context - the dump of a function is the same byte string as the first   *)
(* time, and loading it gives a function that behaves like the original.   *)
(* TLC enumerates the histories; each is rendered as one Lua program       *)
(* (checks/variants.py, dump_histories).                                   *)
(***************************************************************************)
EXTENDS Integers, Sequences, TLC, Json

CONSTANTS MaxLen
VARIABLES hist
Emit(v) == PrintT(<<"@@", ToJson(v)>>)

Funs == {"small", "big", "upv"}                     \* the functions that are dumped (big: thousands of constants)
Ops == {<<"dump", f>> : f \in Funs} \cup {<<"strip", f>> : f \in {"small", "upv"}} \cup {<<"gofn">>}
       \cup {<<"killmem", f, m>> : f \in {"big"}, m \in {1, 2, 3}}   \* memory limit level: the dump of big is cut at 3 different depths
       \cup {<<"killcpu", f>> : f \in {"big"}}

(* what the program emits after each operation: for dump / strip the comparison with the first dump of that function
   (TRUE) and the value the reloaded function returns; nothing is ever different because of what came before *)
Value(f) == CASE f = "small" -> 42 [] f = "big" -> 5000 [] f = "upv" -> 7
Expect(op) ==
  CASE op[1] = "dump" -> <<"dump", op[2], TRUE, Value(op[2])>>
    [] op[1] = "strip" -> <<"strip", op[2], TRUE, Value(op[2])>>
    [] op[1] = "gofn" -> <<"gofn", "refused">>
    [] op[1] = "killmem" -> <<"killmem">>      \* whether the limit is low enough to cut this dump is not the point
    [] op[1] = "killcpu" -> <<"killcpu">>

Init == hist = <<>>
Next == /\ Len(hist) < MaxLen
        /\ \E op \in Ops :
             /\ hist' = Append(hist, op)
             /\ (IF hist'[Len(hist')][1] \in {"dump", "strip"} /\ \E i \in 1..Len(hist) : hist[i][1] \in {"killmem", "killcpu", "gofn"}
                 THEN Emit([h |-> hist', exp |-> [i \in 1..Len(hist') |-> Expect(hist'[i])]]) ELSE TRUE)
Spec == Init /\ [][Next]_hist
=============================================================================

INIT Init
NEXT Next
VIEW View
CHECK_DEADLOCK FALSE
CONSTANTS
  Keys <- KeysMix
  Alias <- AliasMix
  IntVal <- IntValMix
  Travs <- AllTravs
  LenEnabled = TRUE
  MaxSteps = 4
  ViewHist = 0
  EmitAll = TRUE

------------------------------- MODULE Limits -------------------------------
(***************************************************************************)
(* Implementation limits (C04).  A family of program SHAPES parameterised  *)
(* by a size n (number of locals, upvalues, constants, list items before a *)
(* multi-value tail, arguments, instructions jumped over, nesting depth,   *)
(* recursion depth through Go functions ...).  For every shape and n the   *)
(* manual determines the result when the program is accepted; an           *)
(* implementation may refuse a program that exceeds one of its limits, but *)
(* only with an ordinary error.  So the allowed outcomes are:              *)
(*   - a compile error, or an ordinary runtime error ("stack overflow",    *)
(*     "too many results", a resource termination), or                     *)
(*   - the value Result(shape, n).                                         *)
(* A Go panic, a crash of the process, a hang or a WRONG value (e.g. a     *)
(* silently truncated jump offset) is a violation.  TLC enumerates the     *)
(* shapes at n around the encoding limits of golua and far beyond.         *)
(***************************************************************************)
EXTENDS Integers, Sequences, FiniteSets, TLC, Json

CONSTANTS Shapes, Sizes,  \* Sizes: the set of n to explore
          HugeDeep, HugeChain   \* additional sizes for the nesting shapes / the chain shapes
VARIABLES done
Emit(v) == PrintT(<<"@@", ToJson(v)>>)

(* the value the program of shape s and size n returns when it runs (see checks/limits.py for the text of each shape) *)
Result(s, n) ==
  CASE s = "locals"      -> n + 1            \* local a1..an = 1..n; return a1 + an
    [] s = "upvalues"    -> n + 1            \* inner function returning a1 + an of the enclosing function's locals
    [] s = "constants"   -> n                \* a table of n distinct string constants: returns #t
    [] s = "numconsts"   -> n                \* n distinct integer constants summed pairwise-cancelling: returns n
    [] s = "items-tail"  -> n + 3            \* {1, ..., n, f()} with f returning 3 values: returns #t
    [] s = "args"        -> n                \* select('#', 1, ..., n)
    [] s = "params"      -> n                \* function with n parameters called with n arguments returns the last
    [] s = "returns"     -> n                \* select('#', f()) where f returns n values
    [] s = "jump-forward"  -> 7              \* if false then <n statements> end; return 7
    [] s = "jump-back"   -> 3                \* a loop whose body has n statements, run 3 times, counting iterations
    [] s = "big-function" -> n % 1000        \* n statements x = x + 1 then return x % 1000
    [] s = "nest-do"     -> 5                \* n nested do-blocks around return 5
    [] s = "nest-paren"  -> 5                \* return ((((5))))
    [] s = "nest-table"  -> IF n = 1 THEN 0 ELSE 1   \* #{{{{...}}}}: the outermost table holds one table (none when n = 1)
    [] s = "nest-func"   -> 5                \* n nested function bodies each returning the inner call
    [] s = "nest-if"     -> 5
    [] s = "concat-chain" -> n               \* #("x" .. "x" .. ... n times)
    [] s = "index-chain" -> 9                \* __index chain of n tables ending in a value 9
    [] s = "call-chain"  -> 4                \* __call chain of depth n
    [] s = "pcall-depth" -> 6                \* n nested pcall's around a function returning 6
    [] s = "tostring-depth" -> n             \* __tostring calling tostring on the next of n objects: length of result
    [] s = "lua-recursion" -> n              \* plain Lua recursion of depth n (not a tail call)
    [] s = "gsub-depth"  -> 2                \* string.gsub callback recursion of depth n
    [] s = "sort-depth"  -> 1
    [] s = "long-string" -> n                \* a string literal of n characters: returns its length
    [] s = "long-name"   -> 8                \* an identifier of n characters
    [] s = "bracket-level" -> 2              \* a long string with level n brackets holding "ab"
    [] s = "unpack"      -> n                \* select('#', table.unpack(t, 1, n)) for a table of n items
    [] s = "unary-chain" -> IF n % 2 = 0 THEN 1 ELSE -1   \* return - - - ... 1 with n minus signs
    [] s = "pow-chain"   -> 1                \* math.tointeger(1^1^...^1): n right-associative operators
    [] s = "nest-call"   -> 1                \* id(id(id(...(1)))) with n nested calls
    [] s = "nest-index"  -> 1                \* t[t[t[...[1]]]] with t = {1}
    [] s = "call-suffix" -> 3                \* f()()()...() with f returning itself: n call suffixes, then compared with f
    [] s = "index-suffix" -> 8               \* t.a.a.a....v with t.a = t
    [] s = "method-suffix" -> 2              \* t:m():m()...v with m returning self
    [] s = "and-chain"   -> 6                \* true and true and ... and 6
    [] s = "elseif-chain" -> 9               \* n elseif branches that are not taken, then else return 9
    [] s = "nested-fn-chains" -> 5           \* n nested function expressions, each at the deep end of a chain of 5000 index suffixes
    [] OTHER -> 0

(* Programs that recurse without bound through a route that nests the implementation's own stack (a metamethod
   called by an operator, a chain of __call metamethods that loops, a callback of a library function calling the
   library function again).  They have no value: the only ordinary outcomes are an error ("stack overflow",
   "chain too long") or a resource termination; in particular they must have one of these outcomes when NO
   resource limit is set (div = TRUE: the check runs them both ways). *)
RecShapes == {"rec-index", "rec-newindex", "rec-add", "rec-sub", "rec-mul", "rec-div", "rec-mod", "rec-pow", "rec-idiv", "rec-unm",
              "rec-band", "rec-bor", "rec-bxor", "rec-shl", "rec-shr", "rec-bnot", "rec-concat", "rec-len", "rec-eq", "rec-lt", "rec-le",
              "rec-call-self", "rec-call-pair", "rec-call-cycle3", "rec-index-self", "rec-newindex-self",
              "rec-tostring", "rec-close", "rec-sort", "rec-gsub", "rec-pairs", "rec-xpcall-handler", "rec-load-reader",
              "rec-index-in-coroutine", "rec-add-via-pcall"}

(* shapes whose size is a nesting depth or the length of a chain of operators / suffixes: the parser and the
   compiler are recursive, so these are also explored at sizes far beyond any sensible limit *)
DeepShapes == {"nest-do", "nest-paren", "nest-table", "nest-func", "nest-if", "unary-chain", "pow-chain", "nest-call", "nest-index"}
ChainShapes == {"concat-chain", "call-suffix", "index-suffix", "method-suffix"}
(* depth that adds up across nested function bodies: each body is compiled from inside the recursion over the enclosing
   expression, so a per-function limit does not bound the recursion *)
NestChainSizes == {1, 10, 19, 21, 100, 300}
SizesOf(s) == IF s = "nested-fn-chains" THEN NestChainSizes
              ELSE Sizes \cup (IF s \in DeepShapes THEN HugeDeep ELSE {}) \cup (IF s \in ChainShapes THEN HugeChain ELSE {})

Init == done = FALSE
Next == /\ ~done /\ done' = TRUE
        /\ \A s \in Shapes \ RecShapes : \A n \in SizesOf(s) : Emit([shape |-> s, n |-> n, result |-> Result(s, n), div |-> FALSE])
        /\ \A s \in Shapes \cap RecShapes : Emit([shape |-> s, n |-> 0, result |-> 0, div |-> TRUE])
Spec == Init /\ [][Next]_done
=============================================================================

------------------------------- MODULE Limits -------------------------------
(***************************************************************************)
(* Implementation limits (C04).  A family of program SHAPES parameterised  *)
(* by a size n (number of locals, upvalues, constants, list items before a *)
(* multi-value tail, arguments, instructions jumped over, nesting depth,   *)
(* recursion depth through Go functions ...).  For every shape and n the   *)
(* manual determines the result when the program is accepted; an           *)
(* implementation may refuse a program that exceeds one of its limits, but *)
(* only with an ordinary error.  So the allowed outcomes are:              *)
(*   - a compile error, or an ordinary runtime error ("stack overflow",    *)
(*     "too many results", a resource termination), or                     *)
(*   - the value Result(shape, n).                                         *)
(* A Go panic, a crash of the process, a hang or a WRONG value (e.g. a     *)
(* silently truncated jump offset) is a violation.  TLC enumerates the     *)
(* shapes at n around the encoding limits of golua and far beyond.         *)
(***************************************************************************)
EXTENDS Integers, Sequences, FiniteSets, TLC, Json

CONSTANTS Shapes, Sizes   \* Sizes: the set of n to explore
VARIABLES done
Emit(v) == PrintT(<<"@@", ToJson(v)>>)

(* the value the program of shape s and size n returns when it runs (see checks/limits.py for the text of each shape) *)
Result(s, n) ==
  CASE s = "locals"      -> n + 1            \* local a1..an = 1..n; return a1 + an
    [] s = "upvalues"    -> n + 1            \* inner function returning a1 + an of the enclosing function's locals
    [] s = "constants"   -> n                \* a table of n distinct string constants: returns #t
    [] s = "numconsts"   -> n                \* n distinct integer constants summed pairwise-cancelling: returns n
    [] s = "items-tail"  -> n + 3            \* {1, ..., n, f()} with f returning 3 values: returns #t
    [] s = "args"        -> n                \* select('#', 1, ..., n)
    [] s = "params"      -> n                \* function with n parameters called with n arguments returns the last
    [] s = "returns"     -> n                \* select('#', f()) where f returns n values
    [] s = "jump-forward"  -> 7              \* if false then <n statements> end; return 7
    [] s = "jump-back"   -> 3                \* a loop whose body has n statements, run 3 times, counting iterations
    [] s = "big-function" -> n % 1000        \* n statements x = x + 1 then return x % 1000
    [] s = "nest-do"     -> 5                \* n nested do-blocks around return 5
    [] s = "nest-paren"  -> 5                \* return ((((5))))
    [] s = "nest-table"  -> IF n = 1 THEN 0 ELSE 1   \* #{{{{...}}}}: the outermost table holds one table (none when n = 1)
    [] s = "nest-func"   -> 5                \* n nested function bodies each returning the inner call
    [] s = "nest-if"     -> 5
    [] s = "concat-chain" -> n               \* #("x" .. "x" .. ... n times)
    [] s = "index-chain" -> 9                \* __index chain of n tables ending in a value 9
    [] s = "call-chain"  -> 4                \* __call chain of depth n
    [] s = "pcall-depth" -> 6                \* n nested pcall's around a function returning 6
    [] s = "tostring-depth" -> n             \* __tostring calling tostring on the next of n objects: length of result
    [] s = "lua-recursion" -> n              \* plain Lua recursion of depth n (not a tail call)
    [] s = "gsub-depth"  -> 2                \* string.gsub callback recursion of depth n
    [] s = "sort-depth"  -> 1
    [] s = "long-string" -> n                \* a string literal of n characters: returns its length
    [] s = "long-name"   -> 8                \* an identifier of n characters
    [] s = "bracket-level" -> 2              \* a long string with level n brackets holding "ab"
    [] s = "unpack"      -> n                \* select('#', table.unpack(t, 1, n)) for a table of n items
    [] OTHER -> 0

Init == done = FALSE
Next == /\ ~done /\ done' = TRUE
        /\ \A s \in Shapes : \A n \in Sizes : Emit([shape |-> s, n |-> n, result |-> Result(s, n)])
Spec == Init /\ [][Next]_done
=============================================================================

------------------------------- MODULE Outlive -------------------------------
(***************************************************************************)
(* C08: code set up by a context that requires flags F must not run later  *)
(* with fewer requirements.  A handler installed inside the context by one *)
(* of the mechanisms below either is refused at installation, or never     *)
(* runs after the context has ended, or runs while F is still required.    *)
(* The program records, each time the handler runs, the flags required at  *)
(* that moment; Allowed says which records are acceptable.                 *)
(***************************************************************************)
EXTENDS Integers, Sequences, FiniteSets, TLC, Json

VARIABLE done
Emit(v) == PrintT(<<"@@", ToJson(v)>>)

Flags == {"iosafe", "cpusafe", "memsafe", "timesafe"}
Mechs == {"hook-line", "hook-call", "hook-return", "hook-count", "hook-on-main-from-coroutine", "gc-table", "gc-table-nested",
          "close-lost-sibling", "message-handler"}
(* not a mechanism: a coroutine created inside the context and resumed or closed by the host after it - running it
   outside is the host's own act *)
Reqs == {{"iosafe"}, {"cpusafe"}, {"iosafe", "cpusafe"}, {"iosafe", "memsafe", "cpusafe", "timesafe"}}

(* a record of one run of the handler: the set of flags required when it ran *)
Allowed(F, seen) == F \subseteq seen

Init == done = FALSE
Next == /\ ~done /\ done' = TRUE
        /\ \A m \in Mechs : \A F \in Reqs : Emit([mech |-> m, req |-> F, ok |-> {S \in SUBSET Flags : Allowed(F, S)}])
Spec == Init /\ [][Next]_done
=============================================================================

------------------------------- MODULE DeadCo -------------------------------
(***************************************************************************)
(* Errors that cross Go (library) functions inside coroutines, and what a  *)
(* program can observe of the coroutines that died (C14, round 2).         *)
(*                                                                         *)
(* A program is a CHAIN of hops  main -> hop1 -> hop2 -> ... -> hop<k+1>.  *)
(* Function hop<i> reaches hop<i+1> by the route chain[i]:                 *)
(*   a plain or a tail call; a Go library function that calls back into    *)
(*   Lua (table.sort comparator, __lt from table.sort, string.gsub         *)
(*   replacement function / table with __index, tostring and string.format *)
(*   through __tostring, table.unpack / concat / insert through __index,   *)
(*   __len, __newindex, the ipairs iterator through __index, pairs through *)
(*   __pairs, load through its reader function); a protected call (pcall,  *)
(*   xpcall, pcall of a __call object) that afterwards absorbs or rethrows *)
(*   the error; or a new coroutine (create + resume, resume after a first  *)
(*   yield, coroutine.wrap).  hop<k+1> raises an error of kind err.        *)
(* The manual (2.3 error handling, 2.6 coroutines, 6.2, 6.10) determines   *)
(* the events: which hops are entered, where the error is caught and with  *)
(* which value, which hops return normally, and for every coroutine that   *)
(* it ends up dead, that its status is "dead", that coroutine.close on it  *)
(* returns false plus the error object (true for a normal end), that       *)
(* debug.traceback(co) is a string starting with the given message, that   *)
(* debug.getinfo(co, level) is nil or a table with currentline / source,   *)
(* that its traceback shows no function of another thread, and that        *)
(* nothing of this changes while the program goes on running other calls   *)
(* (the phases: a dead coroutine's frames are frozen).                     *)
(* "STR" stands for any string (message wording and traceback text are not *)
(* determined), "ANY" for any value; the build variants must agree on      *)
(* those byte for byte.  Rendered and run by checks/corpus.py (dc_render).  *)
(***************************************************************************)
EXTENDS Integers, Sequences, FiniteSets, TLC, Json

CONSTANTS GoRoutes,   \* the transparent Go routes to use
          ErrKinds,   \* subset of {"tbl", "str0", "str1", "nil", "rt", "goerr", "none"}
          MaxHops,    \* k <= MaxHops
          EmitShort,  \* TRUE: every chain of length 1..MaxHops is a case; FALSE: only length MaxHops (simulation)
          Phases      \* sequence of [churn, k, under]: what runs before the dead coroutines are inspected again
VARIABLES chain, err
vars == <<chain, err>>
Emit(v) == PrintT(<<"@@", ToJson(v)>>)

Catchers == {"pcall", "xpcall", "pcallmeta"}
Resumes == {"resume", "resumey"}
CoRoutes == Resumes \cup {"wrap"}
Hops == [r : GoRoutes \cup {"lua", "tail", "load", "wrap"}, f : {"-"}]
        \cup [r : Catchers \cup Resumes, f : {"absorb", "rethrow"}]

HasCo(c) == {i \in 1..Len(c) : c[i].r \in {"resume", "resumey", "wrap"}} # {}

(* the error value hop<k+1> raises: "T1" is the table the program emitted first, "nil" the value nil *)
Raise(k) == CASE k = "tbl" -> [m |-> "err", v |-> "T1"]       \* error(E)
              [] k = "str0" -> [m |-> "err", v |-> "boom"]    \* error("boom", 0): no position is added
              [] k = "nil" -> [m |-> "err", v |-> "nil"]      \* error(nil)
              [] k = "none" -> [m |-> "ok", v |-> "nil"]      \* returns normally
              [] OTHER -> [m |-> "err", v |-> "STR"]          \* error("boom") / indexing nil / string.rep(): some message

(* state [m, v] in which control leaves hop h outwards, given the state in which it came back to h from inside *)
After(h, a) ==
  IF a.m = "ok" THEN a
  ELSE CASE h.r = "load" -> [m |-> "err", v |-> "load-failed"]   \* load returns fail; the hop raises error("load-failed", 0)
         [] h.r = "wrap" -> [m |-> "err", v |-> IF a.v \in {"T1", "nil"} THEN a.v ELSE "STR"]  \* wrap may add a position to a string
         [] h.r \in Catchers \cup Resumes -> IF h.f = "absorb" THEN [m |-> "ok", v |-> "nil"] ELSE a   \* error(e, 0)
         [] OTHER -> a                                              \* errors pass through Go functions unchanged

RECURSIVE Arr(_, _, _)
(* the state in which the call of hop<i+1> made by hop<i> comes back *)
Arr(c, i, e) == IF i = Len(c) THEN Raise(e) ELSE After(c[i + 1], Arr(c, i + 1, e))

NPh == Len(Phases)
FirstPhase(h) == IF h.r = "wrap" THEN 2 ELSE 1    \* a wrapped coroutine's handle only becomes inspectable after the chain ended

(* how coroutine i ended *)
Death(c, i, e) == LET a == Arr(c, i, e) IN
  [kind |-> IF a.m = "ok" THEN "normal" ELSE IF c[i].r = "wrap" THEN "wrap-error" ELSE "error", v |-> a.v]

Inspect(c, i, p, e) ==
  LET d == Death(c, i, e) IN
  << <<"status", i, p, "dead">>, <<"tb", i, p, "STR">>, <<"tbmsg", i, p, "MSG">> >>
  \o [l \in 1..3 |-> <<"info", i, p, l - 1, TRUE, "ANY", "ANY", "ANY">>]
  \o << <<"foreign", i, p, FALSE>> >>
  \o (IF p > FirstPhase(c[i]) THEN << <<"same", i, p, TRUE>> >> ELSE <<>>)
  \o << <<"resume-dead", i, p, FALSE, "STR">> >>
  \o (IF p = NPh
      THEN << (CASE d.kind = "error" -> <<"close", i, FALSE, d.v>>
                 [] d.kind = "normal" -> <<"close", i, TRUE, "nil">>
                 [] OTHER -> <<"close", i, "ANY", "ANY">>),      \* wrap has closed the coroutine already
              <<"closed-status", i, "dead">> >>
      ELSE <<>>)

(* events on the way in: every hop is entered exactly once, outermost first *)
InEv(c, i) == << <<"in", i>> >> \o (IF c[i].r = "resumey" THEN << <<"yielded", i, "suspended">> >> ELSE <<>>)

(* events of hop i when control comes back to it *)
OutEv(c, i, e) ==
  LET h == c[i]  a == Arr(c, i, e)
      ret == IF h.r = "tail" THEN <<>> ELSE << <<"ret", i>> >>
      goon == IF h.f = "absorb" THEN ret ELSE <<>>
  IN IF a.m = "ok"
     THEN (IF h.r \in Resumes THEN << <<"resumed", i, TRUE, "nil">> >> \o Inspect(c, i, 1, e) ELSE <<>>) \o ret
     ELSE CASE h.r \in {"pcall", "pcallmeta"} -> << <<"caught", i, a.v>> >> \o goon
            [] h.r = "xpcall" -> << <<"handler", i, a.v>>, <<"caught", i, a.v>> >> \o goon
            [] h.r \in Resumes -> << <<"resumed", i, FALSE, a.v>> >> \o Inspect(c, i, 1, e) \o goon
            [] OTHER -> <<>>

RECURSIVE Flat(_)
Flat(ss) == IF ss = <<>> THEN <<>> ELSE Head(ss) \o Flat(Tail(ss))

CoIdx(c) == {i \in 1..Len(c) : c[i].r \in CoRoutes}
SetToSeq(S) == LET RECURSIVE f(_)
                   f(T) == IF T = {} THEN <<>> ELSE LET m == CHOOSE x \in T : \A y \in T : x <= y IN <<m>> \o f(T \ {m})
               IN f(S)

Top(c, e) == LET a == After(c[1], Arr(c, 1, e)) IN IF a.m = "ok" THEN <<"top", TRUE, "nil">> ELSE <<"top", FALSE, a.v>>

Events(c, e) ==
  LET k == Len(c)  cos == SetToSeq(CoIdx(c)) IN
  << <<"E", "T1">> >>
  \o Flat([i \in 1..k |-> InEv(c, i)]) \o << <<"in", k + 1>> >>
  \o (IF Raise(e).m = "ok" THEN << <<"ret", k + 1>> >> ELSE <<>>)
  \o Flat([j \in 1..k |-> OutEv(c, k + 1 - j, e)])
  \o << Top(c, e) >>
  \o Flat([p \in 1..(NPh - 1) |-> << <<"churn", p + 1, Phases[p + 1].k>> >> \o Flat([j \in 1..Len(cos) |-> Inspect(c, cos[j], p + 1, e)])])

(* the hops whose functions run in coroutine i: hop<i+1> .. the next coroutine hop (which resumes from inside i), or the raiser *)
Own(c, i) == LET nxt == {j \in CoIdx(c) : j > i} IN
  [co |-> i, lo |-> i + 1, hi |-> IF nxt = {} THEN Len(c) + 1 ELSE CHOOSE j \in nxt : \A j2 \in nxt : j <= j2,
   first |-> FirstPhase(c[i])]

Case(c, e) == [chain |-> c, err |-> e, cos |-> [j \in 1..Cardinality(CoIdx(c)) |-> Own(c, SetToSeq(CoIdx(c))[j])],
            phases |-> Phases, ev |-> Events(c, e)]

(* Not determined by the manual, hence not generated: whether an error raised inside load's reader function - which
   load itself catches and turns into "fail, message" - is first shown to the message handler of an enclosing xpcall.
   (The reference implementation and golua both call the handler there.)  A pcall or a coroutine boundary in between
   installs its own (empty) handler, which makes the case determinate again. *)
Legal(c) == \A i \in 1..Len(c) : \A j \in 1..Len(c) :
              (i < j /\ c[i].r = "xpcall" /\ c[j].r = "load") => {m \in (i + 1)..(j - 1) : c[m].r \in Catchers \cup CoRoutes} # {}

Init == chain = <<>> /\ err = "-"
Extend == /\ err = "-" /\ Len(chain) < MaxHops
          /\ \E h \in Hops : chain' = Append(chain, h)
          /\ UNCHANGED err
Finish == /\ err = "-" /\ HasCo(chain) /\ Legal(chain) /\ (IF EmitShort THEN TRUE ELSE Len(chain) = MaxHops)
          /\ \E e \in ErrKinds : err' = e /\ Emit(Case(chain, e))
          /\ UNCHANGED chain
Next == Extend \/ Finish
Spec == Init /\ [][Next]_vars
=============================================================================

SPECIFICATION Spec
CHECK_DEADLOCK FALSE
CONSTANTS
  NRt = 2
  Len1 = 3
  SharedCells = {}

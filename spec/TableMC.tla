------------------------------ MODULE TableMC ------------------------------
EXTENDS TableAbs
(* constant instantiations for the configurations *)
KeysInt == {"i0", "i1", "i2", "i3", "i4", "ib"}
AliasInt == [f2 |-> "i2", fm0 |-> "i0", fb |-> "ib"]
IntValInt == [i0 |-> 0, i1 |-> 1, i2 |-> 2, i3 |-> 3, i4 |-> 4, ib |-> 1073741824]
KeysMix == {"i1", "i2", "f25", "sa", "sl", "bt", "tk", "fk"}
(* string keys of 7, 8 and 9 bytes that differ only in their last byte *)
KeysStr == {"s7a", "s7b", "s8a", "s8b", "s9a", "s9b", "sa", "i1"}
AliasStr == [f1 |-> "i1"]
IntValStr == [i1 |-> 1]
AliasMix == [f2 |-> "i2"]
IntValMix == [i1 |-> 1, i2 |-> 2]
KeysAll == {"i0", "i1", "i2", "i3", "i4", "ib", "f25", "sa", "sb", "sl", "bt", "tk", "fk", "s7a", "s7b", "s8a", "s8b", "s9a", "s9b"}
AliasAll == [f2 |-> "i2", fm0 |-> "i0", fb |-> "ib", f3 |-> "i3"]
(* a family with many integer keys, to drive the array part through growth, shrinking and migration *)
KeysBig == {"n" \o ToString(i) : i \in 1..40} \cup {"i0", "ib", "f25", "sa", "tk"}
AliasBig == [f2 |-> "n2", fm0 |-> "i0", fb |-> "ib", f3 |-> "n3"]
IntValBig == [k \in {"n" \o ToString(i) : i \in 1..40} \cup {"i0", "ib"} |->
                IF k = "i0" THEN 0 ELSE IF k = "ib" THEN 1073741824
                ELSE CHOOSE i \in 1..40 : k = "n" \o ToString(i)]
AllTravs == {"plain", "update", "rawupdate", "clear", "clearothers", "updateothers"}
=============================================================================

------------------------------ MODULE TableMC ------------------------------
EXTENDS TableAbs
(* constant instantiations for the configurations *)
KeysInt == {"i0", "i1", "i2", "i3", "i4", "ib"}
AliasInt == [f2 |-> "i2", fm0 |-> "i0", fb |-> "ib"]
IntValInt == [i0 |-> 0, i1 |-> 1, i2 |-> 2, i3 |-> 3, i4 |-> 4, ib |-> 1073741824]
KeysMix == {"i1", "i2", "f25", "sa", "sl", "bt", "tk", "fk"}
AliasMix == [f2 |-> "i2"]
IntValMix == [i1 |-> 1, i2 |-> 2]
KeysAll == {"i0", "i1", "i2", "i3", "i4", "ib", "f25", "sa", "sb", "sl", "bt", "tk", "fk"}
AliasAll == [f2 |-> "i2", fm0 |-> "i0", fb |-> "ib", f3 |-> "i3"]
AllTravs == {"plain", "update", "clear", "clearothers", "updateothers"}
=============================================================================

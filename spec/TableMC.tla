------------------------------ MODULE TableMC ------------------------------
EXTENDS TableAbs
(* constant instantiations for the configurations *)
KeysInt == {"i0", "i1", "i2", "i3", "i4", "ib"}
AliasInt == [f2 |-> "i2", fm0 |-> "i0", fb |-> "ib"]
IntValInt == [i0 |-> 0, i1 |-> 1, i2 |-> 2, i3 |-> 3, i4 |-> 4, ib |-> 1073741824]
KeysMix == {"i1", "i2", "f25", "sa", "sl", "bt", "tk", "fk"}
(* string keys of 7, 8 and 9 bytes that differ only in their last byte *)
KeysStr == {"s7a", "s7b", "s8a", "s8b", "s9a", "s9b", "sa", "i1"}
AliasStr == [f1 |-> "i1"]
IntValStr == [i1 |-> 1]
AliasMix == [f2 |-> "i2"]
IntValMix == [i1 |-> 1, i2 |-> 2]
KeysAll == {"i0", "i1", "i2", "i3", "i4", "ib", "f25", "sa", "sb", "sl", "bt", "tk", "fk", "s7a", "s7b", "s8a", "s8b", "s9a", "s9b"}
AliasAll == [f2 |-> "i2", fm0 |-> "i0", fb |-> "ib", f3 |-> "i3"]
(* a family with many integer keys, to drive the array part through growth, shrinking and migration *)
KeysBig == {"n" \o ToString(i) : i \in 1..40} \cup {"i0", "ib", "f25", "sa", "tk"}
AliasBig == [f2 |-> "n2", fm0 |-> "i0", fb |-> "ib", f3 |-> "n3"]
IntValBig == [k \in {"n" \o ToString(i) : i \in 1..40} \cup {"i0", "ib"} |->
                IF k = "i0" THEN 0 ELSE IF k = "ib" THEN 1073741824
                ELSE CHOOSE i \in 1..40 : k = "n" \o ToString(i)]
(* extreme numeric keys: the float -> integer key normalisation at its boundaries.  imin/imax = min/maxinteger,
   i53 = 2^53, i53p = 2^53+1 (integers); f63 = 2^63 (a float key: it has no integer representation), finf/fninf = +-inf,
   ftiny = 5e-324.  Spellings that denote another key: fm63 = -2^63 (the float) is the key mininteger, fmaxf =
   maxinteger + 0.0 is the float 2^63, fminf = mininteger + 0.0 is mininteger, f53 = 2^53 (float) is i53, f53p = the
   float nearest 2^53+1, which is 2^53. *)
KeysExt == {"i0", "i1", "imin", "imax", "i53", "i53p", "f63", "finf", "fninf", "f25", "ftiny", "sa"}
AliasExt == [fm0 |-> "i0", f1 |-> "i1", fm63 |-> "imin", fminf |-> "imin", fmaxf |-> "f63", f53 |-> "i53", f53p |-> "i53"]
IntValExt == [i0 |-> 0, i1 |-> 1]
(* two closures of one prototype with the same upvalues: whether they are equal is left open by the manual (3.4.4),
   but a table must agree with ==.  CloEq: the implementation says they are equal, so ck2 is another spelling of the
   key ck1; CloNe: they are different keys.  The check keeps the variant that matches what `ck1 == ck2` evaluates to. *)
KeysCloEq == {"ck1", "i1", "sa", "tk"}
AliasCloEq == [ck2 |-> "ck1", f1 |-> "i1"]
KeysCloNe == {"ck1", "ck2", "i1", "sa", "tk"}
AliasCloNe == [f1 |-> "i1"]
IntValClo == [i1 |-> 1]
KeysBigCloEq == KeysBig \cup {"ck1"}
AliasBigCloEq == [f2 |-> "n2", fm0 |-> "i0", fb |-> "ib", f3 |-> "n3", ck2 |-> "ck1"]
KeysBigCloNe == KeysBig \cup {"ck1", "ck2"}
AllTravs == {"plain", "update", "rawupdate", "clear", "clearothers", "updateothers"}
=============================================================================

INIT Init
NEXT Next
CHECK_DEADLOCK FALSE
CONSTANTS
  Convs <- AllConvs
  Widths = {0, 1, 6}
  Precs <- PrecsQ
  IntVals <- IntsQ
  StrVals <- StrsQ
  ChrVals <- ChrsQ

---------------------------- MODULE DumpSizeMC ----------------------------
EXTENDS DumpSize
AllVariants == <<"direct", "dump", "strip", "redump", "inner">>
Around(l) == (l - 1)..(l + 1)
(* the boundaries: 1, 2, 7-bit, the seeded limit 200, 8-bit, 1000 *)
Small == {1, 2, 127, 128, 199, 200, 201, 255, 256, 257}
Mid1 == {1000}
Big == {32767, 32768, 40000}            \* beyond 15 bits
Huge == {65535, 65536, 65537, 100000}   \* beyond 16 bits
(* shapes whose text grows linearly with n (cheap at every size) / quadratically (two lists of n names) *)
Linear == {"siblings", "nested", "module", "upthread", "deep-consts", "int-consts", "float-consts", "str-consts", "bin-consts",
           "long-string", "long-bracket", "mixed", "instructions", "jump-forward", "jump-back", "lines"}
Lists == {"upvalues", "upvalue-layout", "locals", "vararg", "params", "returns"}
Pairs(S, N) == {<<s, n>> : s \in S, n \in N}
CasesQ == Pairs(Linear \cup Lists, Small \cup Mid1) \cup {<<"edge-consts", 1>>}
          \cup Pairs({"long-string", "long-bracket", "instructions", "jump-forward", "jump-back", "lines", "int-consts"}, {32768, 65536})
          \cup Pairs({"siblings", "nested", "str-consts"}, {10000})
          \cup Pairs({"nested", "upthread", "deep-consts"}, {400, 498})   \* just below golua's limit on syntax nesting (2 levels per function)
CasesT == CasesQ \cup Pairs(Linear, Around(127) \cup Around(200) \cup Around(255) \cup Around(512) \cup {5000, 10000} \cup Big \cup Huge)
          \cup Pairs(Lists, Around(200) \cup Around(255) \cup {5000, 10000})
=============================================================================

INIT Init
NEXT Next
CHECK_DEADLOCK FALSE
INVARIANTS OracleOK
CONSTANTS
  MaxOps = 2
  Fams = {"F1", "F2", "FM", "multi", "forms"}
  Valuations <- ValQ
  MaxList = 2
  SimFam = "FM"

INIT Init
NEXT Next
CHECK_DEADLOCK FALSE
CONSTANTS
  Tier = "Q"
  Family = "numerals"
  MaxLen = 4

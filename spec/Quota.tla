------------------------------- MODULE Quota -------------------------------
(***************************************************************************)
(* The runtime-context manager of golua (runtime/runtimecontextmanager.go, *)
(* runtimecontext.go, Thread.CallContext in thread.go), action by action.  *)
(*                                                                         *)
(* Counters are unsigned M-valued (M = 2^W; the real W is 64).  A context  *)
(* is a record; the stack of contexts is a sequence whose last element is  *)
(* the active manager, the others are the value copies `parent := *m`.     *)
(* 0 as a limit means "unlimited", exactly as in the code.                 *)
(*                                                                         *)
(* Decides C05 (manager part), C06 (manager part), C07.                    *)
(***************************************************************************)
EXTENDS Integers, Sequences, FiniteSets, TLC, Json

CONSTANTS
  M,          \* counters live in 0 .. M-1
  Sat,        \* TRUE: additions saturate at M-1; FALSE: they wrap modulo M
  CpuLim, MemLim,     \* hard limits that a push may request (0 = none)
  CpuSoft, MemSoft,   \* soft limits that a push may request
  CpuAmt, MemAmt,     \* amounts for RequireCPU / RequireMem / ReleaseMem
  MsLim, MsSoft,      \* hard / soft time limits (milliseconds) that a push may request (0 = none)
  Ticks,              \* amounts by which the clock may advance between two calls ({} = time stands still)
  ThrInc,             \* cpuThresholdIncrement: CPU units between two looks at the clock
  MaxClk,             \* bound on the clock
  OldPopOrder,        \* TRUE: PopContext as it was before the repair (charge the parent copy, then reinstate it)
  OldTimeCharge,      \* TRUE: requireCPU as it was before the repair (the CPU is recorded after the clock is looked at)
  OldThrInherit,      \* TRUE: PushContext as it was before the repair (the CPU threshold of the parent is kept by the child)
  NCo,                \* number of coroutines (0: none).  Each coroutine has its own Go stack (its own CallContext frames) but
                      \* the context stack belongs to the runtime: it is shared by all threads
  XFlags,     \* extra compliance flags a push may request (subset of {"iosafe","timesafe"})
  MaxDepth,   \* bound on Len(stack)
  MaxFrames,  \* bound on nested CallContext calls
  RawOps,     \* TRUE: PushContext / PopContext are called directly
  CallOps,    \* TRUE: CallContext is used
  StopOps,    \* TRUE: SetStopLevel is used
  Emitting,   \* TRUE: every transition prints its replayable line and keeps the history (exploration); FALSE: trace validation
  MaxUsed     \* state constraint: counters explored up to this value

VARIABLES
  stack,   \* Seq(context record); stack[Len(stack)] is the active manager
  frames,  \* Seq(frame record): the CallContext calls in progress (Go call stack)
  pan,     \* in-flight Go panic: "none" | "term" (ContextTerminationError) | "other"
  fail,    \* ghost: the request that raised the in-flight termination, [r |-> "cpu"|"mem"|"none", n |-> amount]
  last,    \* what the last completed call returned to its caller (observable)
  hist,    \* history of actions (hidden by the VIEW): the path that is replayed
  clk,     \* the wall clock in ms (the code reads it with now(); the harness drives it through the verif hook)
  cor,     \* coroutines: [cos |-> [1..NCo -> [st |-> "none"|"susp"|"run"|"dead", fr |-> its frames while suspended]],
           \*              chain |-> the coroutines running nested (last = the running one; <<>> = the main thread runs),
           \*              saved |-> the frames of their resumers]
  pv       \* invariant verdicts found while a panic was in flight (a state the replay cannot stop in): reported with
           \* the next quiet state of the path (hidden by the VIEW)

vars == <<stack, frames, pan, fail, last, hist, clk, cor, pv>>
View == <<stack, frames, pan, fail, clk, cor>>      \* `last` and `hist` are outputs only

Emit(v) == IF Emitting THEN PrintT(<<"@@", ToJson(v)>>) ELSE TRUE

-----------------------------------------------------------------------------
(* arithmetic of runtimecontext.go *)

Add(a, b) == IF Sat THEN (IF a + b >= M THEN M - 1 ELSE a + b) ELSE (a + b) % M
SmallerLimit(n, m) == n > 0 /\ (m = 0 \/ n < m)      \* n < m with 0 = +infinity
AtLimit(v, l) == l > 0 /\ v >= l                      \* l <= v with 0 = +infinity
RemoveR(r, v) == IF r >= v THEN r - v ELSE 0
MergeR(r, r1) == IF SmallerLimit(r1, r) THEN r1 ELSE r

NoCtx == [nil |-> TRUE]

RootCtx == [hc |-> 0, hm |-> 0, sc |-> 0, sm |-> 0, uc |-> 0, um |-> 0,
            hms |-> 0, sms |-> 0, ums |-> 0, start |-> 0, tt |-> FALSE, thr |-> 0,
            flags |-> {}, status |-> "live", stop |-> {}, tc |-> FALSE, tm |-> FALSE, cause |-> "none"]

Due(c) == "soft" \in c.stop \/ AtLimit(c.uc, c.sc) \/ AtLimit(c.um, c.sm) \/ AtLimit(c.ums, c.sms)

(* updateTimeUsed at clock value `now`: <<context', panics>>.  The elapsed time is stored first, then compared. *)
UpdTime(c, now) ==
  LET c1 == [c EXCEPT !.ums = now - c.start] IN
  IF AtLimit(c1.ums, c.hms) /\ c.status = "live" THEN <<[c1 EXCEPT !.status = "killed"], TRUE>>
  ELSE <<c1, FALSE>>

(* requireCPU on a context record at clock value `now`: <<context', panics, why>>.
   The clock is only looked at when the CPU used passes the next threshold; a time termination leaves the
   threshold and the elapsed time updated but not the CPU counter. *)
ReqC(c, n, now) ==
  IF ~c.tc THEN <<c, FALSE, "none">>
  ELSE IF "hard" \in c.stop /\ c.status = "live" THEN <<[c EXCEPT !.status = "killed"], TRUE, "stop">>
  ELSE LET u == Add(c.uc, n) IN
       IF AtLimit(u, c.hc) /\ c.status = "live" THEN <<[c EXCEPT !.status = "killed", !.cause = "cpu"], TRUE, "cpu">>
       ELSE IF c.tt /\ c.thr <= u
            THEN (* the CPU is recorded before the clock is looked at (OldTimeCharge: it used to be recorded after, so a
                    termination by time lost it: in particular what a parent was being charged for by PopContext) *)
                 LET r == UpdTime([c EXCEPT !.thr = u + ThrInc, !.uc = IF OldTimeCharge THEN @ ELSE u], now) IN
                 IF r[2] THEN <<r[1], TRUE, "time">> ELSE <<[r[1] EXCEPT !.uc = u], FALSE, "none">>
            ELSE <<[c EXCEPT !.uc = u], FALSE, "none">>

ReqM(c, n) ==
  IF ~c.tm THEN <<c, FALSE>>
  ELSE IF "hard" \in c.stop /\ c.status = "live" THEN <<[c EXCEPT !.status = "killed"], TRUE>>
  ELSE LET u == Add(c.um, n) IN
       IF AtLimit(u, c.hm) /\ c.status = "live" THEN <<[c EXCEPT !.status = "killed", !.cause = "mem"], TRUE>>
       ELSE <<[c EXCEPT !.um = u], FALSE>>

(* PushContext: the new active context computed from the current one (whose elapsed time has just been
   refreshed when it tracks time).  The CPU threshold for the next look at the clock restarts at 0 with the
   CPU counter (OldThrInherit: it used to be inherited, so a child was not checked against the clock until it
   had used as much CPU as its parent had). *)
Child(p, d, now) ==
  LET hc == MergeR(RemoveR(p.hc, p.uc), d.hc)
      hm == MergeR(RemoveR(p.hm, p.um), d.hm)
      hms == MergeR(RemoveR(p.hms, p.ums), d.hms)
      sc == MergeR(MergeR(hc, p.sc), d.sc)
      sm == MergeR(MergeR(hm, p.sm), d.sm)
      sms == MergeR(MergeR(hms, p.sms), d.sms)
      tt == hms > 0 \/ sms > 0
  IN [hc |-> hc, hm |-> hm, sc |-> sc, sm |-> sm, uc |-> 0, um |-> 0,
      hms |-> hms, sms |-> sms, ums |-> 0, start |-> now, tt |-> tt, thr |-> IF OldThrInherit THEN p.thr ELSE 0,
      flags |-> p.flags \cup d.flags \cup (IF d.hc > 0 THEN {"cpusafe"} ELSE {})
                                    \cup (IF d.hm > 0 THEN {"memsafe"} ELSE {})
                                    \cup (IF d.hms > 0 THEN {"timesafe"} ELSE {}),
      status |-> "live", stop |-> p.stop, cause |-> "none",
      tc |-> (hc > 0 \/ sc > 0 \/ tt), tm |-> (hm > 0 \/ sm > 0)]

(* the first half of PushContext: <<parent', panics>> *)
PushPre(p, now) == IF p.tt THEN UpdTime(p, now) ELSE <<p, FALSE>>

(* PopContext on a stack: the parent is reinstated first, then re-charged through its own RequireCPU /
   RequireMem, which may terminate it (only by looking at the clock: the child's use always fits), then
   its elapsed time is refreshed, which may terminate it too.  Whatever terminates the parent, the context
   that is ending is gone (PoppedAtEnd).  OldPopOrder is the order before the repair: the parent copy was
   charged first and a termination left before `*m = *m.parent`. *)
PopRes(st, now) ==
  IF Len(st) = 1 THEN [st |-> st, pan |-> FALSE, ret |-> NoCtx, why |-> "none", n |-> 0]
  ELSE LET n == Len(st)
           child == st[n]
           cp == IF child.status = "live" THEN [child EXCEPT !.status = "done"] ELSE child
           r1 == ReqC(st[n-1], child.uc, now)
           Popped(c) == Append(SubSeq(st, 1, n-2), c)
           After(c) == IF OldPopOrder THEN [st EXCEPT ![n-1] = c] ELSE Popped(c)
       IN IF r1[2] THEN [st |-> After(r1[1]), pan |-> TRUE, ret |-> NoCtx, why |-> r1[3], n |-> child.uc]
          ELSE LET r2 == ReqM(r1[1], child.um) IN
               IF r2[2] THEN [st |-> After(r2[1]), pan |-> TRUE, ret |-> NoCtx, why |-> "mem", n |-> child.um]
               ELSE
               LET r3 == IF r2[1].tt THEN UpdTime(r2[1], now) ELSE <<r2[1], FALSE>> IN
               IF r3[2] THEN [st |-> Popped(r3[1]), pan |-> TRUE, ret |-> NoCtx, why |-> "time", n |-> 0]
               ELSE
               (* popped.  A child killed by a limit it merely inherited (all that its parent had left)
                  means the parent's own limit was reached: the parent is terminated too. *)
               LET par == st[n-1]
                   leftc == RemoveR(par.hc, par.uc)
                   leftm == RemoveR(par.hm, par.um)
                   p2 == r3[1]
                   prop == IF child.status # "killed" \/ p2.status # "live" THEN "none"
                           ELSE IF child.cause = "cpu" /\ leftc > 0 /\ child.hc = leftc THEN "cpu"
                           ELSE IF child.cause = "mem" /\ leftm > 0 /\ child.hm = leftm THEN "mem"
                           ELSE "none"
               IN IF prop = "none"
                  THEN [st |-> Popped(p2), pan |-> FALSE, ret |-> cp, why |-> "none", n |-> 0]
                  ELSE [st |-> Popped([p2 EXCEPT !.status = "killed", !.cause = prop]), pan |-> TRUE, ret |-> NoCtx,
                        why |-> "prop", n |-> 0]

-----------------------------------------------------------------------------
(* observable projection: what the RuntimeContext interface exposes *)

ProjCtx(c) == IF "nil" \in DOMAIN c THEN [nil |-> TRUE]
              ELSE [hc |-> c.hc, hm |-> c.hm, sc |-> c.sc, sm |-> c.sm, uc |-> c.uc, um |-> c.um,
                    hms |-> c.hms, sms |-> c.sms, ums |-> c.ums,
                    status |-> c.status, flags |-> c.flags, due |-> Due(c)]
ProjStack(st) == [i \in 1..Len(st) |-> ProjCtx(st[i])]

Defs == [hc : CpuLim, hm : MemLim, sc : CpuSoft, sm : MemSoft, hms : MsLim, sms : MsSoft, flags : SUBSET XFlags]

-----------------------------------------------------------------------------
(* ghost bookkeeping: each CallContext in progress remembers `base`, the
   index of its context in the stack, and `leffc`/`leffm`, the effective hard
   limits it started with.  `fail` remembers the request that raised the
   termination being unwound.                                             *)
NoFail == [r |-> "none", n |-> 0]
SumC(st, b) == LET F[j \in (b-1)..Len(st)] == IF j < b THEN 0 ELSE F[j-1] + st[j].uc IN F[Len(st)]
SumM(st, b) == LET F[j \in (b-1)..Len(st)] == IF j < b THEN 0 ELSE F[j-1] + st[j].um IN F[Len(st)]

-----------------------------------------------------------------------------
(* Invariants, evaluated by the spec on the post-state of every transition and
   reported in the emitted line (so that TLC keeps exploring after the first
   one): each entry is [inv |-> name, why |-> cause].                       *)

LimLeq(a, b) == b = 0 \/ (a > 0 /\ a <= b)      \* a <= b with 0 = +infinity

CtxViolAt(st, i) ==
  LET c == st[i] IN
          (IF c.status = "live" /\ ~(c.hc = 0 \/ c.uc < c.hc) THEN {[inv |-> "UsedBelowKill", why |-> "live-cpu", lvl |-> i]} ELSE {})
     \cup (IF c.status = "live" /\ ~(c.hm = 0 \/ c.um < c.hm) THEN {[inv |-> "UsedBelowKill", why |-> "live-mem", lvl |-> i]} ELSE {})
     \cup (IF c.status # "live" /\ ~(c.hc = 0 \/ c.uc < c.hc) THEN {[inv |-> "UsedBelowKill", why |-> "ended-cpu", lvl |-> i]} ELSE {})
     \cup (IF c.status # "live" /\ ~(c.hm = 0 \/ c.um < c.hm) THEN {[inv |-> "UsedBelowKill", why |-> "ended-mem", lvl |-> i]} ELSE {})
     \cup (IF ~LimLeq(c.sc, c.hc) \/ ~LimLeq(c.sm, c.hm) THEN {[inv |-> "SoftWithinHard", why |-> "soft>hard", lvl |-> i]} ELSE {})
     \cup (IF i > 1 /\ ~(st[i-1].flags \subseteq c.flags) THEN {[inv |-> "FlagsMonotone", why |-> "lost-flag", lvl |-> i]} ELSE {})
     \cup (IF i > 1 /\ st[i-1].hc > 0 /\ ~LimLeq(c.hc, RemoveR(st[i-1].hc, st[i-1].uc))
             THEN {[inv |-> "BudgetConservation", why |-> "cpu", lvl |-> i]} ELSE {})
     \cup (IF i > 1 /\ st[i-1].hm > 0 /\ ~LimLeq(c.hm, RemoveR(st[i-1].hm, st[i-1].um))
             THEN {[inv |-> "BudgetConservation", why |-> "mem", lvl |-> i]} ELSE {})

CtxViol(st) == UNION { CtxViolAt(st, i) : i \in 1..Len(st) }

(* Time.  The clock is only looked at in PushContext, PopContext and when the CPU threshold is passed; at each
   of those points that completes without a termination, no context in progress may have used up its time
   (a child never has more time than its parent has left, and their clocks advance together), and the budget
   of a child is at most what the parent had left when it was created. *)
TimeViol(st, now, after) ==
  UNION { (IF st[i].hms > 0 /\ st[i].status = "live" /\ now - st[i].start >= st[i].hms
             THEN {[inv |-> "TimeExact", why |-> "over-time-after-" \o after, lvl |-> i]} ELSE {})
     \cup (IF i > 1 /\ st[i-1].hms > 0 /\ ~LimLeq(st[i].hms, RemoveR(st[i-1].hms, st[i].start - st[i-1].start))
             THEN {[inv |-> "BudgetConservation", why |-> "time", lvl |-> i]} ELSE {})
     \cup (IF ~LimLeq(st[i].sms, st[i].hms) THEN {[inv |-> "SoftWithinHard", why |-> "soft>hard-time", lvl |-> i]} ELSE {})
          : i \in 1..Len(st) }

(* Conservation at a pop, whatever happens to the parent: when the context st[n] ends, its parent (tracking CPU) has been
   charged with what it used, also when looking at the clock during that charge terminated the parent. *)
PopChargeViol(st, r) ==
  LET n == Len(st) IN
  IF n > 1 /\ st[n-1].tc /\ r.why \in {"none", "time", "prop"} /\ Len(r.st) = n - 1
     /\ r.st[n-1].uc # st[n-1].uc + st[n].uc /\ r.st[n-1].uc # M - 1
  THEN {[inv |-> "ChargedToParent", why |-> "lost-cpu-charge-" \o r.why, lvl |-> n - 1]} ELSE {}

(* A CallContext that ends pops the context it pushed: the active context is the one at the index the frame remembers.
   With a single Go stack this cannot fail; with coroutines the frames of several Go stacks interleave on the one
   context stack of the runtime. *)
OwnViol(fr, st) ==
  IF fr # <<>> /\ fr[Len(fr)].base # Len(st)
  THEN {[inv |-> "FrameOwnsContext", why |-> IF fr[Len(fr)].base > Len(st) THEN "pops-an-enclosing-context" ELSE "pops-a-context-pushed-by-another-thread",
         lvl |-> Len(st)]}
  ELSE {}

(* Exactness / uninterceptability.  Given that every single request kills exactly when used + n reaches the hard
   limit (conformance of ReqC/ReqM) and that a pop charges the parent with exactly the child's use, a computation
   is killed exactly for the limits L <= u iff a termination can only be recovered by the CallContext that OWNS the
   limit that was reached: when the context being popped was killed by a limit it merely inherited (all that its
   parent had left), the parent's limit has been reached too and the termination must go on.  (A context killed by
   its own, stricter, limit is recovered by its parent whatever the size of the request: the work was not done.) *)
RecoverViol(stBefore, fl) ==
  LET n == Len(stBefore) IN
  IF n < 2 THEN {}
  ELSE LET child == stBefore[n]
           par == stBefore[n-1]
           leftc == RemoveR(par.hc, par.uc)
           leftm == RemoveR(par.hm, par.um)
       IN (IF child.status = "killed" /\ child.cause = "cpu" /\ par.status = "live" /\ leftc > 0 /\ child.hc = leftc
           THEN {[inv |-> "Exact", why |-> "cpu-kill-by-inherited-limit-recovered", lvl |-> n - 1]} ELSE {})
     \cup (IF child.status = "killed" /\ child.cause = "mem" /\ par.status = "live" /\ leftm > 0 /\ child.hm = leftm
           THEN {[inv |-> "Exact", why |-> "mem-kill-by-inherited-limit-recovered", lvl |-> n - 1]} ELSE {})

-----------------------------------------------------------------------------

Init == /\ stack = <<RootCtx>>
        /\ frames = <<>>
        /\ pan = "none"
        /\ fail = NoFail
        /\ last = [op |-> "init"]
        /\ hist = <<>>
        /\ clk = 0
        /\ pv = {}
        /\ cor = [cos |-> [i \in 1..NCo |-> [st |-> "none", fr |-> <<>>]], chain |-> <<>>, saved |-> <<>>]

(* common tail of every action: record the event, emit the replayable line *)
Step(ev, st, fr, p, fl, l, extraViol) ==
  /\ stack' = st
  /\ frames' = fr
  /\ pan' = p
  /\ fail' = IF p = "none" THEN NoFail ELSE fl
  /\ last' = l
  /\ hist' = IF Emitting THEN Append(hist, ev) ELSE hist
  /\ clk' = clk
  /\ cor' = cor
  /\ pv' = IF p = "none" THEN {} ELSE pv \cup CtxViol(st) \cup extraViol
  /\ Emit([h |-> hist', exp |-> [stack |-> ProjStack(st), pan |-> p, last |-> l, nframes |-> Len(fr)],
           viol |-> CtxViol(st) \cup extraViol \cup pv])

(* a panic with no CallContext in progress reaches the embedder (the driver
   recovers it at top level); inside a CallContext it starts unwinding. *)
PanAfter(kind, fr) == IF kind = "none" THEN "none" ELSE IF fr = <<>> THEN "none" ELSE kind
LastPan(op, kind) == [op |-> op, pan |-> kind]

Quiet == pan = "none"
(* Work is only ever requested by code running in a live context: once a
   context is killed nothing of it runs any more (C05).  Real executions are
   checked against this assumption by trace validation (QuotaTrace).        *)
Live == Quiet /\ stack[Len(stack)].status = "live"

(* PushContext refreshes (and enforces) the elapsed time of the current context first: when its time is up the
   termination leaves before anything is pushed *)
Push(d) ==
  /\ RawOps /\ Live /\ Len(stack) < MaxDepth
  /\ LET n == Len(stack)
         pre == PushPre(stack[n], clk)
         st1 == [stack EXCEPT ![n] = pre[1]]
     IN IF pre[2]
        THEN Step([op |-> "push", def |-> d], st1, frames, PanAfter("term", frames), [r |-> "time", n |-> 0],
                  LastPan("push", "term"), {})
        ELSE LET st2 == Append(st1, Child(pre[1], d, clk)) IN
             Step([op |-> "push", def |-> d], st2, frames, "none", NoFail, LastPan("push", "none"), TimeViol(st2, clk, "push"))

(* the ghost record of the request that failed inside a PopContext; a propagated kill keeps the original one *)
PopFail(r) == IF r.why = "prop" THEN fail ELSE [r |-> r.why, n |-> r.n]

Pop ==
  /\ RawOps /\ Quiet
  /\ LET r == PopRes(stack, clk)
         k == IF r.pan THEN "term" ELSE "none"
         (* conservation: a completed pop charges the parent with exactly the child's use *)
         n == Len(stack)
         cons == IF ~r.pan /\ n > 1
                    /\ ((stack[n-1].tc /\ r.st[n-1].uc # (stack[n-1].uc + stack[n].uc) /\ r.st[n-1].uc # M - 1)
                        \/ (stack[n-1].tm /\ r.st[n-1].um # (stack[n-1].um + stack[n].um) /\ r.st[n-1].um # M - 1))
                 THEN {[inv |-> "ChargedToParent", why |-> "lost-charge", lvl |-> n-1]} ELSE {}
         tv == (IF r.pan THEN {} ELSE TimeViol(r.st, clk, "pop")) \cup PopChargeViol(stack, r)
     IN Step([op |-> "pop"], r.st, frames, PanAfter(k, frames), PopFail(r),
             IF r.pan THEN [op |-> "pop", pan |-> k] ELSE [op |-> "pop", pan |-> k, ret |-> ProjCtx(r.ret)], cons \cup tv)

RequireCPU(n) ==
  /\ Live
  /\ LET r == ReqC(stack[Len(stack)], n, clk)
         k == IF r[2] THEN "term" ELSE "none"
         c == stack[Len(stack)]
         st1 == [stack EXCEPT ![Len(stack)] = r[1]]
         looked == c.tc /\ c.tt /\ c.thr <= Add(c.uc, n)
         tv == (IF ~r[2] /\ looked THEN TimeViol(st1, clk, "cpu") ELSE {})
               \cup (IF c.tc /\ c.tt /\ ~looked /\ c.status = "live" /\ Add(c.uc, n) >= ThrInc /\ c.thr > Add(c.uc, n) /\ c.thr - ThrInc > c.uc
                     THEN {[inv |-> "ClockLookedAt", why |-> "no-look-at-the-clock-for-more-than-the-threshold", lvl |-> Len(stack)]} ELSE {})
     IN Step([op |-> "cpu", n |-> n], st1, frames,
             PanAfter(k, frames), [r |-> r[3], n |-> n], LastPan("cpu", k), tv)

RequireMem(n) ==
  /\ Live
  /\ LET r == ReqM(stack[Len(stack)], n)
         k == IF r[2] THEN "term" ELSE "none"
     IN Step([op |-> "mem", n |-> n], [stack EXCEPT ![Len(stack)] = r[1]], frames,
             PanAfter(k, frames), [r |-> "mem", n |-> n], LastPan("mem", k), {})

ReleaseMem(n) ==
  /\ Live
  /\ LET c == stack[Len(stack)]
         c2 == IF c.hm > 0 THEN [c EXCEPT !.um = IF n <= @ THEN @ - n ELSE 0] ELSE c
         k == "none"
     IN Step([op |-> "rel", n |-> n], [stack EXCEPT ![Len(stack)] = c2], frames,
             PanAfter(k, frames), NoFail, LastPan("rel", k), {})

SetStop(lv) ==
  /\ StopOps /\ Live
  /\ LET c == stack[Len(stack)]
         kill == lv = "hard" /\ c.status = "live"
         c2 == [c EXCEPT !.stop = @ \cup {lv}, !.status = IF kill THEN "killed" ELSE @]
         k == IF kill THEN "term" ELSE "none"
     IN Step([op |-> "stop", lv |-> lv], [stack EXCEPT ![Len(stack)] = c2], frames,
             PanAfter(k, frames), NoFail, LastPan("stop", k), {})

CallBegin(d) ==
  /\ CallOps /\ Live /\ Len(stack) < MaxDepth /\ Len(frames) < MaxFrames
  /\ LET n == Len(stack)
         pre == PushPre(stack[n], clk)
         st1 == [stack EXCEPT ![n] = pre[1]]
         c == Child(pre[1], d, clk)
     IN IF pre[2]
        THEN (* the termination leaves PushContext before CallContext has installed its deferred function *)
             Step([op |-> "begin", def |-> d], st1, frames, PanAfter("term", frames), [r |-> "time", n |-> 0],
                  LastPan("begin", "term"), {})
        ELSE Step([op |-> "begin", def |-> d], Append(st1, c),
                  Append(frames, [base |-> n + 1, leffc |-> c.hc, leffm |-> c.hm]),
                  "none", NoFail, LastPan("begin", "none"), TimeViol(Append(st1, c), clk, "begin"))

ButLast(s) == SubSeq(s, 1, Len(s) - 1)

(* f() returned (with a Lua error iff err): setStatus(error), then the deferred PopContext *)
CallEnd(err) ==
  /\ CallOps /\ Quiet /\ frames # <<>>
  /\ LET c == stack[Len(stack)]
         st1 == IF err THEN [stack EXCEPT ![Len(stack)] = [c EXCEPT !.status = "error"]] ELSE stack
         r == PopRes(st1, clk)
         fr == ButLast(frames)
         k == IF r.pan THEN "term" ELSE "none"
         truth == IF ~r.pan /\ r.ret.status # (IF err THEN "error" ELSE "done")
                  THEN {[inv |-> "StatusTruth", why |-> "normal-end-reports-" \o r.ret.status, lvl |-> Len(stack)]} ELSE {}
         (* a CallContext that ends leaves its context behind it, whatever happens to its caller *)
         popped == IF Len(r.st) # Len(stack) - 1
                   THEN {[inv |-> "PoppedAtEnd", why |-> "context-left-installed-after-" \o r.why, lvl |-> Len(stack)]} ELSE {}
         tv == (IF r.pan THEN {} ELSE TimeViol(r.st, clk, "end")) \cup PopChargeViol(st1, r) \cup OwnViol(frames, stack)
     IN Step([op |-> "end", err |-> err], r.st, fr, PanAfter(k, fr), PopFail(r),
             IF r.pan THEN [op |-> "end", pan |-> k]
             ELSE [op |-> "end", pan |-> k, ret |-> ProjCtx(r.ret), err |-> IF err THEN "lua" ELSE "none"], truth \cup popped \cup tv)

(* a panic is in flight: run the deferred function of the innermost CallContext *)
Unwind ==
  /\ CallOps /\ pan # "none" /\ frames # <<>>
  /\ LET r == PopRes(stack, clk)
         fr == ButLast(frames)
         k == IF r.pan THEN "term" ELSE IF pan = "term" THEN "none" ELSE pan
         popped == IF Len(r.st) # Len(stack) - 1
                   THEN {[inv |-> "PoppedAtEnd", why |-> "context-left-installed-after-" \o r.why, lvl |-> Len(stack)]} ELSE {}
         tv == (IF k = "none" THEN TimeViol(r.st, clk, "unwind") ELSE {}) \cup PopChargeViol(stack, r) \cup OwnViol(frames, stack)
         truth == IF ~r.pan /\ pan = "term" /\ r.ret.status # "killed"
                  THEN {[inv |-> "StatusTruth", why |-> "terminated-reports-" \o r.ret.status, lvl |-> Len(stack)]} ELSE {}
         exact == IF ~r.pan /\ pan = "term" THEN RecoverViol(stack, fail) ELSE {}
     IN Step([op |-> "unwind"], r.st, fr, PanAfter(k, fr), IF r.pan THEN PopFail(r) ELSE fail,
             IF k = "none" THEN [op |-> "unwound", pan |-> k, ret |-> ProjCtx(r.ret), err |-> "term"]
             ELSE [op |-> "unwound", pan |-> k], truth \cup exact \cup popped \cup tv)

(* time passes (between two calls of the API: the manager is sequential) *)
Tick(d) ==
  /\ Quiet /\ clk + d <= MaxClk
  /\ clk' = clk + d
  /\ hist' = IF Emitting THEN Append(hist, [op |-> "tick", n |-> d]) ELSE hist
  /\ last' = [op |-> "tick", pan |-> "none"]
  /\ UNCHANGED <<stack, frames, pan, fail, pv, cor>>
  /\ Emit([h |-> hist', exp |-> [stack |-> ProjStack(stack), pan |-> pan, last |-> last', nframes |-> Len(frames)], viol |-> {}])

(* ---- coroutines: each has its own frames; the context stack is shared (it belongs to the runtime) ---- *)
CoStep(ev, fr, c2) ==
  /\ frames' = fr /\ cor' = c2
  /\ hist' = IF Emitting THEN Append(hist, ev) ELSE hist
  /\ last' = [op |-> ev.op, pan |-> "none"]
  /\ UNCHANGED <<stack, pan, fail, clk, pv>>
  /\ Emit([h |-> hist', exp |-> [stack |-> ProjStack(stack), pan |-> "none", last |-> last', nframes |-> Len(fr)], viol |-> {}])

ButLastS(q) == SubSeq(q, 1, Len(q) - 1)

(* coroutine.create + first resume: the body runs at once, on a fresh Go stack *)
CoStart ==
  /\ NCo > 0 /\ Live /\ \E i \in 1..NCo : cor.cos[i].st = "none"
  /\ LET i == CHOOSE j \in 1..NCo : cor.cos[j].st = "none" /\ \A k \in 1..(j-1) : cor.cos[k].st # "none" IN
     CoStep([op |-> "costart", co |-> i], <<>>,
            [cos |-> [cor.cos EXCEPT ![i] = [st |-> "run", fr |-> <<>>]], chain |-> Append(cor.chain, i), saved |-> Append(cor.saved, frames)])

(* the running coroutine yields: its resumer continues, on its own Go stack, with whatever context is active *)
CoYield ==
  /\ NCo > 0 /\ Live /\ cor.chain # <<>>
  /\ LET i == cor.chain[Len(cor.chain)] IN
     CoStep([op |-> "yield"], cor.saved[Len(cor.saved)],
            [cos |-> [cor.cos EXCEPT ![i] = [st |-> "susp", fr |-> frames]], chain |-> ButLastS(cor.chain), saved |-> ButLastS(cor.saved)])

CoResume(i) ==
  /\ NCo > 0 /\ Live /\ cor.cos[i].st = "susp"
  /\ CoStep([op |-> "resume", co |-> i], cor.cos[i].fr,
            [cos |-> [cor.cos EXCEPT ![i] = [st |-> "run", fr |-> <<>>]], chain |-> Append(cor.chain, i), saved |-> Append(cor.saved, frames)])

(* the body of the running coroutine returns (all its CallContext calls have ended) *)
CoEnd ==
  /\ NCo > 0 /\ Live /\ cor.chain # <<>> /\ frames = <<>>
  /\ LET i == cor.chain[Len(cor.chain)] IN
     CoStep([op |-> "coend"], cor.saved[Len(cor.saved)],
            [cos |-> [cor.cos EXCEPT ![i] = [st |-> "dead", fr |-> <<>>]], chain |-> ButLastS(cor.chain), saved |-> ButLastS(cor.saved)])

Next ==
  \/ CoStart \/ CoYield \/ CoEnd \/ (\E i \in 1..NCo : CoResume(i))
  \/ \E d \in Defs : Push(d) \/ CallBegin(d)
  \/ Pop
  \/ \E n \in CpuAmt : RequireCPU(n)
  \/ \E n \in MemAmt : RequireMem(n) \/ ReleaseMem(n)
  \/ \E lv \in {"soft", "hard"} : SetStop(lv)
  \/ \E e \in BOOLEAN : CallEnd(e)
  \/ Unwind
  \/ \E d \in Ticks : Tick(d)

Spec == Init /\ [][Next]_vars

-----------------------------------------------------------------------------
(* The same invariants as TLC invariants, for configurations in which the
   deviations are switched off / for documentation.                         *)
TypeOK == /\ Len(stack) \in 1..MaxDepth
          /\ \A i \in 1..Len(stack) : stack[i].uc \in 0..M-1 /\ stack[i].um \in 0..M-1
          /\ pan \in {"none", "term", "other"}
Bound == \A i \in 1..Len(stack) : stack[i].uc <= MaxUsed /\ stack[i].um <= MaxUsed
NoViolation == CtxViol(stack) = {}
=============================================================================

------------------------------- MODULE Quota -------------------------------
(***************************************************************************)
(* The runtime-context manager of golua (runtime/runtimecontextmanager.go, *)
(* runtimecontext.go, Thread.CallContext in thread.go), action by action.  *)
(*                                                                         *)
(* Counters are unsigned M-valued (M = 2^W; the real W is 64).  A context  *)
(* is a record; the stack of contexts is a sequence whose last element is  *)
(* the active manager, the others are the value copies `parent := *m`.     *)
(* 0 as a limit means "unlimited", exactly as in the code.                 *)
(*                                                                         *)
(* Decides C05 (manager part), C06 (manager part), C07.                    *)
(***************************************************************************)
EXTENDS Integers, Sequences, FiniteSets, TLC, Json

CONSTANTS
  M,          \* counters live in 0 .. M-1
  Sat,        \* TRUE: additions saturate at M-1; FALSE: they wrap modulo M
  CpuLim, MemLim,     \* hard limits that a push may request (0 = none)
  CpuSoft, MemSoft,   \* soft limits that a push may request
  CpuAmt, MemAmt,     \* amounts for RequireCPU / RequireMem / ReleaseMem
  XFlags,     \* extra compliance flags a push may request (subset of {"iosafe","timesafe"})
  MaxDepth,   \* bound on Len(stack)
  MaxFrames,  \* bound on nested CallContext calls
  RawOps,     \* TRUE: PushContext / PopContext are called directly
  CallOps,    \* TRUE: CallContext is used
  StopOps,    \* TRUE: SetStopLevel is used
  Emitting,   \* TRUE: every transition prints its replayable line and keeps the history (exploration); FALSE: trace validation
  MaxUsed     \* state constraint: counters explored up to this value

VARIABLES
  stack,   \* Seq(context record); stack[Len(stack)] is the active manager
  frames,  \* Seq(frame record): the CallContext calls in progress (Go call stack)
  pan,     \* in-flight Go panic: "none" | "term" (ContextTerminationError) | "other"
  fail,    \* ghost: the request that raised the in-flight termination, [r |-> "cpu"|"mem"|"none", n |-> amount]
  last,    \* what the last completed call returned to its caller (observable)
  hist     \* history of actions (hidden by the VIEW): the path that is replayed

vars == <<stack, frames, pan, fail, last, hist>>
View == <<stack, frames, pan, fail>>      \* `last` and `hist` are outputs only

Emit(v) == IF Emitting THEN PrintT(<<"@@", ToJson(v)>>) ELSE TRUE

-----------------------------------------------------------------------------
(* arithmetic of runtimecontext.go *)

Add(a, b) == IF Sat THEN (IF a + b >= M THEN M - 1 ELSE a + b) ELSE (a + b) % M
SmallerLimit(n, m) == n > 0 /\ (m = 0 \/ n < m)      \* n < m with 0 = +infinity
AtLimit(v, l) == l > 0 /\ v >= l                      \* l <= v with 0 = +infinity
RemoveR(r, v) == IF r >= v THEN r - v ELSE 0
MergeR(r, r1) == IF SmallerLimit(r1, r) THEN r1 ELSE r

NoCtx == [nil |-> TRUE]

RootCtx == [hc |-> 0, hm |-> 0, sc |-> 0, sm |-> 0, uc |-> 0, um |-> 0,
            flags |-> {}, status |-> "live", stop |-> {}, tc |-> FALSE, tm |-> FALSE, cause |-> "none"]

Due(c) == "soft" \in c.stop \/ AtLimit(c.uc, c.sc) \/ AtLimit(c.um, c.sm)

(* requireCPU on a context record: <<context', panics>> *)
ReqC(c, n) ==
  IF ~c.tc THEN <<c, FALSE>>
  ELSE IF "hard" \in c.stop /\ c.status = "live" THEN <<[c EXCEPT !.status = "killed"], TRUE>>
  ELSE LET u == Add(c.uc, n) IN
       IF AtLimit(u, c.hc) /\ c.status = "live" THEN <<[c EXCEPT !.status = "killed", !.cause = "cpu"], TRUE>>
       ELSE <<[c EXCEPT !.uc = u], FALSE>>

ReqM(c, n) ==
  IF ~c.tm THEN <<c, FALSE>>
  ELSE IF "hard" \in c.stop /\ c.status = "live" THEN <<[c EXCEPT !.status = "killed"], TRUE>>
  ELSE LET u == Add(c.um, n) IN
       IF AtLimit(u, c.hm) /\ c.status = "live" THEN <<[c EXCEPT !.status = "killed", !.cause = "mem"], TRUE>>
       ELSE <<[c EXCEPT !.um = u], FALSE>>

(* PushContext: the new active context computed from the current one *)
Child(p, d) ==
  LET hc == MergeR(RemoveR(p.hc, p.uc), d.hc)
      hm == MergeR(RemoveR(p.hm, p.um), d.hm)
      sc == MergeR(MergeR(hc, p.sc), d.sc)
      sm == MergeR(MergeR(hm, p.sm), d.sm)
  IN [hc |-> hc, hm |-> hm, sc |-> sc, sm |-> sm, uc |-> 0, um |-> 0,
      flags |-> p.flags \cup d.flags \cup (IF d.hc > 0 THEN {"cpusafe"} ELSE {})
                                    \cup (IF d.hm > 0 THEN {"memsafe"} ELSE {}),
      status |-> "live", stop |-> p.stop, cause |-> "none",
      tc |-> (hc > 0 \/ sc > 0), tm |-> (hm > 0 \/ sm > 0)]

(* PopContext on a stack: the parent copy is re-charged through its own
   RequireCPU / RequireMem, which may terminate it; in that case the panic
   leaves before `*m = *m.parent` and the stack is NOT popped. *)
PopRes(st) ==
  IF Len(st) = 1 THEN [st |-> st, pan |-> FALSE, ret |-> NoCtx]
  ELSE LET n == Len(st)
           child == st[n]
           cp == IF child.status = "live" THEN [child EXCEPT !.status = "done"] ELSE child
           r1 == ReqC(st[n-1], child.uc)
       IN IF r1[2] THEN [st |-> [st EXCEPT ![n-1] = r1[1]], pan |-> TRUE, ret |-> NoCtx]
          ELSE LET r2 == ReqM(r1[1], child.um) IN
               IF r2[2] THEN [st |-> [st EXCEPT ![n-1] = r2[1]], pan |-> TRUE, ret |-> NoCtx]
               ELSE
               (* popped.  A child killed by a limit it merely inherited (all that its parent had left)
                  means the parent's own limit was reached: the parent is terminated too. *)
               LET par == st[n-1]
                   leftc == RemoveR(par.hc, par.uc)
                   leftm == RemoveR(par.hm, par.um)
                   p2 == r2[1]
                   prop == IF child.status # "killed" \/ p2.status # "live" THEN "none"
                           ELSE IF child.cause = "cpu" /\ leftc > 0 /\ child.hc = leftc THEN "cpu"
                           ELSE IF child.cause = "mem" /\ leftm > 0 /\ child.hm = leftm THEN "mem"
                           ELSE "none"
               IN IF prop = "none"
                  THEN [st |-> Append(SubSeq(st, 1, n-2), p2), pan |-> FALSE, ret |-> cp]
                  ELSE [st |-> Append(SubSeq(st, 1, n-2), [p2 EXCEPT !.status = "killed", !.cause = prop]), pan |-> TRUE, ret |-> NoCtx]

-----------------------------------------------------------------------------
(* observable projection: what the RuntimeContext interface exposes *)

ProjCtx(c) == IF "nil" \in DOMAIN c THEN [nil |-> TRUE]
              ELSE [hc |-> c.hc, hm |-> c.hm, sc |-> c.sc, sm |-> c.sm, uc |-> c.uc, um |-> c.um,
                    status |-> c.status, flags |-> c.flags, due |-> Due(c)]
ProjStack(st) == [i \in 1..Len(st) |-> ProjCtx(st[i])]

Defs == [hc : CpuLim, hm : MemLim, sc : CpuSoft, sm : MemSoft, flags : SUBSET XFlags]

-----------------------------------------------------------------------------
(* ghost bookkeeping: each CallContext in progress remembers `base`, the
   index of its context in the stack, and `leffc`/`leffm`, the effective hard
   limits it started with.  `fail` remembers the request that raised the
   termination being unwound.                                             *)
NoFail == [r |-> "none", n |-> 0]
SumC(st, b) == LET F[j \in (b-1)..Len(st)] == IF j < b THEN 0 ELSE F[j-1] + st[j].uc IN F[Len(st)]
SumM(st, b) == LET F[j \in (b-1)..Len(st)] == IF j < b THEN 0 ELSE F[j-1] + st[j].um IN F[Len(st)]

-----------------------------------------------------------------------------
(* Invariants, evaluated by the spec on the post-state of every transition and
   reported in the emitted line (so that TLC keeps exploring after the first
   one): each entry is [inv |-> name, why |-> cause].                       *)

LimLeq(a, b) == b = 0 \/ (a > 0 /\ a <= b)      \* a <= b with 0 = +infinity

CtxViolAt(st, i) ==
  LET c == st[i] IN
          (IF c.status = "live" /\ ~(c.hc = 0 \/ c.uc < c.hc) THEN {[inv |-> "UsedBelowKill", why |-> "live-cpu", lvl |-> i]} ELSE {})
     \cup (IF c.status = "live" /\ ~(c.hm = 0 \/ c.um < c.hm) THEN {[inv |-> "UsedBelowKill", why |-> "live-mem", lvl |-> i]} ELSE {})
     \cup (IF c.status # "live" /\ ~(c.hc = 0 \/ c.uc < c.hc) THEN {[inv |-> "UsedBelowKill", why |-> "ended-cpu", lvl |-> i]} ELSE {})
     \cup (IF c.status # "live" /\ ~(c.hm = 0 \/ c.um < c.hm) THEN {[inv |-> "UsedBelowKill", why |-> "ended-mem", lvl |-> i]} ELSE {})
     \cup (IF ~LimLeq(c.sc, c.hc) \/ ~LimLeq(c.sm, c.hm) THEN {[inv |-> "SoftWithinHard", why |-> "soft>hard", lvl |-> i]} ELSE {})
     \cup (IF i > 1 /\ ~(st[i-1].flags \subseteq c.flags) THEN {[inv |-> "FlagsMonotone", why |-> "lost-flag", lvl |-> i]} ELSE {})
     \cup (IF i > 1 /\ st[i-1].hc > 0 /\ ~LimLeq(c.hc, RemoveR(st[i-1].hc, st[i-1].uc))
             THEN {[inv |-> "BudgetConservation", why |-> "cpu", lvl |-> i]} ELSE {})
     \cup (IF i > 1 /\ st[i-1].hm > 0 /\ ~LimLeq(c.hm, RemoveR(st[i-1].hm, st[i-1].um))
             THEN {[inv |-> "BudgetConservation", why |-> "mem", lvl |-> i]} ELSE {})

CtxViol(st) == UNION { CtxViolAt(st, i) : i \in 1..Len(st) }

(* Exactness / uninterceptability.  Given that every single request kills
   exactly when used + n reaches the hard limit (conformance of ReqC/ReqM) and
   that a pop charges the parent with exactly the child's use, a computation
   is killed exactly for the limits L <= u iff: whenever a termination is
   recovered by a CallContext, no CallContext still in progress around it has
   been asked (including the failed request) for as much as its own limit.  *)
RecoverViol(st, fr, fl) ==
  UNION { (IF fl.r = "cpu" /\ fr[i].leffc > 0 /\ fr[i].base <= Len(st) /\ SumC(st, fr[i].base) + fl.n >= fr[i].leffc
             THEN {[inv |-> "Exact", why |-> "cpu-kill-recovered-below-owner", lvl |-> i]} ELSE {})
     \cup (IF fl.r = "mem" /\ fr[i].leffm > 0 /\ fr[i].base <= Len(st) /\ SumM(st, fr[i].base) + fl.n >= fr[i].leffm
             THEN {[inv |-> "Exact", why |-> "mem-kill-recovered-below-owner", lvl |-> i]} ELSE {})
          : i \in 1..Len(fr) }

-----------------------------------------------------------------------------

Init == /\ stack = <<RootCtx>>
        /\ frames = <<>>
        /\ pan = "none"
        /\ fail = NoFail
        /\ last = [op |-> "init"]
        /\ hist = <<>>

(* common tail of every action: record the event, emit the replayable line *)
Step(ev, st, fr, p, fl, l, extraViol) ==
  /\ stack' = st
  /\ frames' = fr
  /\ pan' = p
  /\ fail' = IF p = "none" THEN NoFail ELSE fl
  /\ last' = l
  /\ hist' = IF Emitting THEN Append(hist, ev) ELSE hist
  /\ Emit([h |-> hist', exp |-> [stack |-> ProjStack(st), pan |-> p, last |-> l, nframes |-> Len(fr)],
           viol |-> CtxViol(st) \cup extraViol])

(* a panic with no CallContext in progress reaches the embedder (the driver
   recovers it at top level); inside a CallContext it starts unwinding. *)
PanAfter(kind, fr) == IF kind = "none" THEN "none" ELSE IF fr = <<>> THEN "none" ELSE kind
LastPan(op, kind) == [op |-> op, pan |-> kind]

Quiet == pan = "none"
(* Work is only ever requested by code running in a live context: once a
   context is killed nothing of it runs any more (C05).  Real executions are
   checked against this assumption by trace validation (QuotaTrace).        *)
Live == Quiet /\ stack[Len(stack)].status = "live"

Push(d) ==
  /\ RawOps /\ Live /\ Len(stack) < MaxDepth
  /\ Step([op |-> "push", def |-> d], Append(stack, Child(stack[Len(stack)], d)), frames, "none", NoFail,
          [op |-> "push"], {})

(* which re-charge of the parent failed in a PopContext that panicked *)
PopFail(st) == LET n == Len(st) IN
               IF n > 1 /\ ReqC(st[n-1], st[n].uc)[2] THEN [r |-> "cpu", n |-> st[n].uc]
               ELSE IF n > 1 THEN [r |-> "mem", n |-> st[n].um] ELSE NoFail

Pop ==
  /\ RawOps /\ Quiet
  /\ LET r == PopRes(stack)
         k == IF r.pan THEN "term" ELSE "none"
         (* conservation: a completed pop charges the parent with exactly the child's use *)
         n == Len(stack)
         cons == IF ~r.pan /\ n > 1
                    /\ ((stack[n-1].tc /\ r.st[n-1].uc # (stack[n-1].uc + stack[n].uc) /\ r.st[n-1].uc # M - 1)
                        \/ (stack[n-1].tm /\ r.st[n-1].um # (stack[n-1].um + stack[n].um) /\ r.st[n-1].um # M - 1))
                 THEN {[inv |-> "ChargedToParent", why |-> "lost-charge", lvl |-> n-1]} ELSE {}
     IN Step([op |-> "pop"], r.st, frames, PanAfter(k, frames), PopFail(stack),
             IF r.pan THEN [op |-> "pop", pan |-> k] ELSE [op |-> "pop", pan |-> k, ret |-> ProjCtx(r.ret)], cons)

RequireCPU(n) ==
  /\ Live
  /\ LET r == ReqC(stack[Len(stack)], n)
         k == IF r[2] THEN "term" ELSE "none"
     IN Step([op |-> "cpu", n |-> n], [stack EXCEPT ![Len(stack)] = r[1]], frames,
             PanAfter(k, frames), [r |-> "cpu", n |-> n], LastPan("cpu", k), {})

RequireMem(n) ==
  /\ Live
  /\ LET r == ReqM(stack[Len(stack)], n)
         k == IF r[2] THEN "term" ELSE "none"
     IN Step([op |-> "mem", n |-> n], [stack EXCEPT ![Len(stack)] = r[1]], frames,
             PanAfter(k, frames), [r |-> "mem", n |-> n], LastPan("mem", k), {})

ReleaseMem(n) ==
  /\ Live
  /\ LET c == stack[Len(stack)]
         c2 == IF c.hm > 0 THEN [c EXCEPT !.um = IF n <= @ THEN @ - n ELSE 0] ELSE c
         k == "none"
     IN Step([op |-> "rel", n |-> n], [stack EXCEPT ![Len(stack)] = c2], frames,
             PanAfter(k, frames), NoFail, LastPan("rel", k), {})

SetStop(lv) ==
  /\ StopOps /\ Live
  /\ LET c == stack[Len(stack)]
         kill == lv = "hard" /\ c.status = "live"
         c2 == [c EXCEPT !.stop = @ \cup {lv}, !.status = IF kill THEN "killed" ELSE @]
         k == IF kill THEN "term" ELSE "none"
     IN Step([op |-> "stop", lv |-> lv], [stack EXCEPT ![Len(stack)] = c2], frames,
             PanAfter(k, frames), NoFail, LastPan("stop", k), {})

CallBegin(d) ==
  /\ CallOps /\ Live /\ Len(stack) < MaxDepth /\ Len(frames) < MaxFrames
  /\ LET c == Child(stack[Len(stack)], d)
     IN Step([op |-> "begin", def |-> d], Append(stack, c),
             Append(frames, [base |-> Len(stack) + 1, leffc |-> c.hc, leffm |-> c.hm]),
             "none", NoFail, [op |-> "begin"], {})

ButLast(s) == SubSeq(s, 1, Len(s) - 1)

(* f() returned (with a Lua error iff err): setStatus(error), then the deferred PopContext *)
CallEnd(err) ==
  /\ CallOps /\ Quiet /\ frames # <<>>
  /\ LET c == stack[Len(stack)]
         st1 == IF err THEN [stack EXCEPT ![Len(stack)] = [c EXCEPT !.status = "error"]] ELSE stack
         r == PopRes(st1)
         fr == ButLast(frames)
         k == IF r.pan THEN "term" ELSE "none"
         truth == IF ~r.pan /\ r.ret.status # (IF err THEN "error" ELSE "done")
                  THEN {[inv |-> "StatusTruth", why |-> "normal-end-reports-" \o r.ret.status, lvl |-> Len(stack)]} ELSE {}
     IN Step([op |-> "end", err |-> err], r.st, fr, PanAfter(k, fr), PopFail(st1),
             IF r.pan THEN [op |-> "end", pan |-> k]
             ELSE [op |-> "end", pan |-> k, ret |-> ProjCtx(r.ret), err |-> IF err THEN "lua" ELSE "none"], truth)

(* a panic is in flight: run the deferred function of the innermost CallContext *)
Unwind ==
  /\ CallOps /\ pan # "none" /\ frames # <<>>
  /\ LET r == PopRes(stack)
         fr == ButLast(frames)
         k == IF r.pan THEN "term" ELSE IF pan = "term" THEN "none" ELSE pan
         truth == IF ~r.pan /\ pan = "term" /\ r.ret.status # "killed"
                  THEN {[inv |-> "StatusTruth", why |-> "terminated-reports-" \o r.ret.status, lvl |-> Len(stack)]} ELSE {}
         exact == IF ~r.pan /\ pan = "term" THEN RecoverViol(r.st, fr, fail) ELSE {}
     IN Step([op |-> "unwind"], r.st, fr, PanAfter(k, fr), IF r.pan THEN PopFail(stack) ELSE fail,
             IF k = "none" THEN [op |-> "unwound", pan |-> k, ret |-> ProjCtx(r.ret), err |-> "term"]
             ELSE [op |-> "unwound", pan |-> k], truth \cup exact)

Next ==
  \/ \E d \in Defs : Push(d) \/ CallBegin(d)
  \/ Pop
  \/ \E n \in CpuAmt : RequireCPU(n)
  \/ \E n \in MemAmt : RequireMem(n) \/ ReleaseMem(n)
  \/ \E lv \in {"soft", "hard"} : SetStop(lv)
  \/ \E e \in BOOLEAN : CallEnd(e)
  \/ Unwind

Spec == Init /\ [][Next]_vars

-----------------------------------------------------------------------------
(* The same invariants as TLC invariants, for configurations in which the
   deviations are switched off / for documentation.                         *)
TypeOK == /\ Len(stack) \in 1..MaxDepth
          /\ \A i \in 1..Len(stack) : stack[i].uc \in 0..M-1 /\ stack[i].um \in 0..M-1
          /\ pan \in {"none", "term", "other"}
Bound == \A i \in 1..Len(stack) : stack[i].uc <= MaxUsed /\ stack[i].um <= MaxUsed
NoViolation == CtxViol(stack) = {}
=============================================================================

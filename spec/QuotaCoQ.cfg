INIT Init
NEXT Next
VIEW View
CONSTRAINT Bound
CHECK_DEADLOCK FALSE
CONSTANTS
  M = 1048576
  Sat = TRUE
  CpuLim = {0}
  MemLim = {0}
  CpuSoft = {0}
  MemSoft = {0}
  CpuAmt = {}
  MemAmt = {}
  MsLim = {0}
  MsSoft = {0}
  Ticks = {}
  ThrInc = 10000
  MaxClk = 0
  OldPopOrder = FALSE
  OldTimeCharge = FALSE
  OldThrInherit = FALSE
  NCo = 2
  XFlags = {"iosafe"}
  MaxDepth = 4
  MaxFrames = 2
  RawOps = FALSE
  CallOps = TRUE
  Emitting = TRUE
  StopOps = FALSE
  MaxUsed = 8

INIT Init
NEXT Next
CHECK_DEADLOCK FALSE
INVARIANT LawHolds
CONSTANTS
  Mode = "str"
  Bytes <- BytesT4
  MaxLen = 4

---------------------------- MODULE LuaCoreVal ----------------------------
(***************************************************************************)
(* Value universe of LuaCore (C01): nil, booleans, small integers, strings *)
(* (sequences of byte codes), tables (by id), closures (by id), modelled   *)
(* builtin functions, and "msg": the text of a runtime error message, an   *)
(* opaque string whose wording the manual does not fix.                    *)
(* Values of different types are records with different field names, so    *)
(* that TLC can compare any two of them for equality.                      *)
(***************************************************************************)
EXTENDS Integers, Sequences, FiniteSets

Nil == [t |-> "nil"]
B(b) == [t |-> "b", b |-> b]
I(i) == [t |-> "i", i |-> i]
S(cs) == [t |-> "s", s |-> cs]
T(id) == [t |-> "t", id |-> id]
F(fid) == [t |-> "f", fid |-> fid]
BI(name) == [t |-> "bi", name |-> name]
Msg(kind) == [t |-> "msg", kind |-> kind]

Truthy(v) == ~(v.t = "nil" \/ (v.t = "b" /\ ~v.b))
First(vs) == IF Len(vs) = 0 THEN Nil ELSE vs[1]
Nth(vs, j) == IF j <= Len(vs) THEN vs[j] ELSE Nil
IsFn(v) == v.t \in {"f", "bi"}
MaxOf(J) == CHOOSE j \in J : \A i \in J : i <= j
MinOf(J) == CHOOSE j \in J : \A i \in J : j <= i
Lim == 1073741824          \* 2^30: results beyond it are outside the model (TLC integers are 32 bit)

C_nil == <<110, 105, 108>>
C_boolean == <<98, 111, 111, 108, 101, 97, 110>>
C_number == <<110, 117, 109, 98, 101, 114>>
C_string == <<115, 116, 114, 105, 110, 103>>
C_table == <<116, 97, 98, 108, 101>>
C_function == <<102, 117, 110, 99, 116, 105, 111, 110>>
C_true == <<116, 114, 117, 101>>
C_false == <<102, 97, 108, 115, 101>>
C___index == <<95, 95, 105, 110, 100, 101, 120>>
C___newindex == <<95, 95, 110, 101, 119, 105, 110, 100, 101, 120>>
C___call == <<95, 95, 99, 97, 108, 108>>
C___add == <<95, 95, 97, 100, 100>>
C___sub == <<95, 95, 115, 117, 98>>
C___mul == <<95, 95, 109, 117, 108>>
C___idiv == <<95, 95, 105, 100, 105, 118>>
C___mod == <<95, 95, 109, 111, 100>>
C___unm == <<95, 95, 117, 110, 109>>
C___concat == <<95, 95, 99, 111, 110, 99, 97, 116>>
C___eq == <<95, 95, 101, 113>>
C___lt == <<95, 95, 108, 116>>
C___le == <<95, 95, 108, 101>>
C___len == <<95, 95, 108, 101, 110>>
C___tostring == <<95, 95, 116, 111, 115, 116, 114, 105, 110, 103>>
C___metatable == <<95, 95, 109, 101, 116, 97, 116, 97, 98, 108, 101>>
C_emit == <<101, 109, 105, 116>>
C_select == <<115, 101, 108, 101, 99, 116>>
C_type == <<116, 121, 112, 101>>
C_tostring == <<116, 111, 115, 116, 114, 105, 110, 103>>
C_rawget == <<114, 97, 119, 103, 101, 116>>
C_rawset == <<114, 97, 119, 115, 101, 116>>
C_rawequal == <<114, 97, 119, 101, 113, 117, 97, 108>>
C_rawlen == <<114, 97, 119, 108, 101, 110>>
C_setmetatable == <<115, 101, 116, 109, 101, 116, 97, 116, 97, 98, 108, 101>>
C_getmetatable == <<103, 101, 116, 109, 101, 116, 97, 116, 97, 98, 108, 101>>
C_pcall == <<112, 99, 97, 108, 108>>
C_error == <<101, 114, 114, 111, 114>>
C_ipairs == <<105, 112, 97, 105, 114, 115>>
C_assert == <<97, 115, 115, 101, 114, 116>>
C_hash == <<35>>

TypeName(v) ==
  CASE v.t = "nil" -> C_nil
    [] v.t = "b" -> C_boolean
    [] v.t = "i" -> C_number
    [] v.t \in {"s", "msg"} -> C_string
    [] v.t = "t" -> C_table
    [] v.t \in {"f", "bi"} -> C_function

(* ---- strings <-> integers (section 3.4.3) ---- *)
IsDigit(c) == c >= 48 /\ c <= 57
AllDigits(cs) == Len(cs) > 0 /\ \A j \in 1..Len(cs) : IsDigit(cs[j])
NoDigit(cs) == \A j \in 1..Len(cs) : ~IsDigit(cs[j])
RECURSIVE DigitsVal(_, _)
DigitsVal(cs, acc) == IF cs = <<>> THEN acc ELSE DigitsVal(Tail(cs), acc * 10 + (Head(cs) - 48))
RECURSIVE NatStr(_)
NatStr(n) == IF n < 10 THEN <<48 + n>> ELSE Append(NatStr(n \div 10), 48 + (n % 10))
IntStr(n) == IF n < 0 THEN <<45>> \o NatStr(0 - n) ELSE NatStr(n)

(* ToNum(v): "int" with the integer, "no" (surely not a number), or "undef" (a string whose numeric reading this
   model does not decide: signs, spaces, hex, fractions, exponents, more than 6 digits) *)
ToNum(v) ==
  IF v.t = "i" THEN [r |-> "int", i |-> v.i]
  ELSE IF v.t = "s" THEN
    (IF AllDigits(v.s) /\ Len(v.s) <= 6 THEN [r |-> "int", i |-> DigitsVal(v.s, 0)]
     ELSE IF NoDigit(v.s) THEN [r |-> "no"] ELSE [r |-> "undef"])
  ELSE IF v.t = "msg" THEN [r |-> "undef"]
  ELSE [r |-> "no"]

(* floor division and modulo on integers (section 3.4.1): quotient rounded towards minus infinity, and
   a % b == a - (a // b) * b, so the result has the sign of the divisor.  b # 0. *)
Abs(x) == IF x < 0 THEN 0 - x ELSE x
FloorDiv(a, b) ==
  LET q == Abs(a) \div Abs(b)
      exact == (Abs(a) % Abs(b)) = 0
  IN IF (a >= 0) = (b > 0) THEN q ELSE (IF exact THEN 0 - q ELSE 0 - q - 1)
FloorMod(a, b) == a - FloorDiv(a, b) * b

(* byte-wise lexicographic order of strings *)
RECURSIVE StrLt(_, _)
StrLt(a, b) ==
  IF b = <<>> THEN FALSE
  ELSE IF a = <<>> THEN TRUE
  ELSE IF Head(a) # Head(b) THEN Head(a) < Head(b)
  ELSE StrLt(Tail(a), Tail(b))

(* ---- tables: association lists in insertion order (the order is never observable) ---- *)
NewTable == [kv |-> <<>>, mt |-> 0]
KeyIdx(tb, k) == LET J == {j \in 1..Len(tb.kv) : tb.kv[j][1] = k} IN IF J = {} THEN 0 ELSE CHOOSE j \in J : TRUE
RawGetT(tb, k) == LET j == KeyIdx(tb, k) IN IF j = 0 THEN Nil ELSE tb.kv[j][2]
RawSetT(tb, k, v) ==
  LET j == KeyIdx(tb, k) IN
  IF v = Nil THEN
    (IF j = 0 THEN tb ELSE [tb EXCEPT !.kv = SubSeq(@, 1, j - 1) \o SubSeq(@, j + 1, Len(@))])
  ELSE IF j = 0 THEN [tb EXCEPT !.kv = Append(@, <<k, v>>)]
  ELSE [tb EXCEPT !.kv[j] = <<k, v>>]
(* the positive integer keys of a table; the length operator is determined only when they are exactly 1..n *)
PosKeys(tb) == {tb.kv[j][1].i : j \in {x \in 1..Len(tb.kv) : tb.kv[x][1].t = "i" /\ tb.kv[x][1].i >= 1}}
IsSeq(tb) == LET P == PosKeys(tb) IN P = 1..Cardinality(P)
Border(tb) == Cardinality(PosKeys(tb))
(* values that cannot be used as table keys in this model: message texts and closures (whether two closures
   of one function expression are the same value is not determined, section 3.4.4) *)
BadKey(k) == k.t \in {"msg", "f"}
=============================================================================

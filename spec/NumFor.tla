------------------------------- MODULE NumFor -------------------------------
(***************************************************************************)
(* The numeric for loop of the Lua 5.4 manual (3.3.5) on top of LuaNum:    *)
(*   for v = e1, e2, e3 do body end                                        *)
(* - the loop is done with integers iff e1 and e3 are integers (the limit  *)
(*   may be any number), otherwise the three values are converted to       *)
(*   floats;                                                               *)
(* - the control variable goes through the arithmetic progression from e1  *)
(*   by e3 and "the loop continues while the value is less than or equal   *)
(*   to the limit (greater than or equal to for a negative step)";         *)
(* - a zero step is an error; "for integer loops, the control variable     *)
(*   never wraps around; instead, the loop ends in case of an overflow";   *)
(* - assignments to v in the body do not affect the progression (the       *)
(*   rendered body assigns to v: the expected values are the same).        *)
(* Layer 1 (Loop) states exactly that with the exact mixed comparison of   *)
(* LuaNum.  Layer 2 (LoopClipped) is the formulation of the reference      *)
(* implementation for integer loops: the limit is first clipped to an      *)
(* integer (floor / ceiling by the sign of the step, saturating, or the    *)
(* loop is skipped).  TLC asserts that the layers agree on every triple.   *)
(* The case (start, limit, step) is the state; each case is emitted with   *)
(* the first K values the body must see.                                   *)
(***************************************************************************)
EXTENDS LuaNum, TLC, Json

CONSTANTS Tier,     \* "Q" / "T": size of the three lattices
          K         \* number of iterations observed (the rendered body breaks after K)

VARIABLE c
Emit(v) == PrintT(<<"@@", ToJson(v)>>)

(* ------------------------------------------------------------------------ *)
AddOvf(v, s) == IsNegS(v) = IsNegS(s) /\ IsNegS(Add(v, s)) # IsNegS(v)       \* v + s leaves the int64 range

(* layer 1, integer loop: values seen by the body (at most k), limit is any number value *)
RECURSIVE IntSeq(_, _, _, _, _)
IntSeq(v, lim, step, k, acc) ==
  IF k = 0 THEN acc
  ELSE IF ~(IF IsNegS(step) THEN NumLe(lim, VI(v)) ELSE NumLe(VI(v), lim)) THEN acc
  ELSE IF AddOvf(v, step) THEN Append(acc, VI(v))
  ELSE IntSeq(Add(v, step), lim, step, k - 1, Append(acc, VI(v)))

(* layer 2: clip the limit to an integer first.  [run, lim] *)
ClipLimit(lim, step) ==
  IF lim.k = "i" THEN [run |-> TRUE, lim |-> lim.v]
  ELSE LET f == lim.f
           up == IsNegS(step)            \* ceiling for a negative step
       IN IF f.c = "nan" THEN [run |-> FALSE, lim |-> Z8]
          ELSE IF f.c = "zero" THEN [run |-> TRUE, lim |-> Z8]
          ELSE IF f.c = "fin" /\ f.e < 0 THEN [run |-> TRUE, lim |-> FRoundInt(f, up)]
          ELSE IF f.c = "fin" /\ FToI(f).ok THEN [run |-> TRUE, lim |-> FToI(f).v]
          ELSE IF f.n THEN (IF up THEN [run |-> TRUE, lim |-> MinInt] ELSE [run |-> FALSE, lim |-> Z8])   \* below every integer
          ELSE (IF up THEN [run |-> FALSE, lim |-> Z8] ELSE [run |-> TRUE, lim |-> MaxInt])              \* above every integer
RECURSIVE IntSeqC(_, _, _, _, _)
IntSeqC(v, lim, step, k, acc) ==
  IF k = 0 THEN acc
  ELSE IF ~(IF IsNegS(step) THEN ILe(lim, v) ELSE ILe(v, lim)) THEN acc
  ELSE IF AddOvf(v, step) THEN Append(acc, VI(v))
  ELSE IntSeqC(Add(v, step), lim, step, k - 1, Append(acc, VI(v)))
IntLoopClipped(start, lim, step, k) ==
  LET cl == ClipLimit(lim, step) IN IF cl.run THEN IntSeqC(start, cl.lim, step, k, <<>>) ELSE <<>>

(* float loop: [vals, und]; und = the next value is not determined by the model (subnormal) *)
RECURSIVE FloatSeq(_, _, _, _, _)
FloatSeq(v, lim, step, k, acc) ==
  IF k = 0 THEN [vals |-> acc, und |-> FALSE]
  ELSE IF v.c = "und" THEN [vals |-> acc, und |-> TRUE]
  ELSE IF ~(IF step.n THEN FCmp(lim, v) \in {-1, 0} ELSE FCmp(v, lim) \in {-1, 0}) THEN [vals |-> acc, und |-> FALSE]
  ELSE FloatSeq(FAdd(v, step), lim, step, k - 1, Append(acc, VF(v)))

RVals(vals, und) == [k |-> "vals", v |-> vals, und |-> und]

(* operand classes *)
IsNaNV(v) == v.k = "f" /\ v.f.c = "nan"
NumericStr(v) == v.k = "s" /\ Str2Num(v.s).k # "nil"

Loop(e1, e2, e3, k) ==
  IF NumericStr(e1) \/ NumericStr(e2) \/ NumericStr(e3) THEN RSkip     \* the manual does not say whether strings are coerced here
  ELSE IF ~IsNumV(e1) \/ ~IsNumV(e2) \/ ~IsNumV(e3) THEN RErr
  ELSE IF e1.k = "i" /\ e3.k = "i" THEN
         (IF IsZero(e3.v) THEN RErr
          \* a NaN limit: no value is <= NaN, so no iteration.  The reference implementation agrees for a positive step
          \* and deviates for a negative one (it clips NaN to the minimum integer): that case is left open
          ELSE IF IsNaNV(e2) /\ IsNegS(e3.v) THEN RSkip
          ELSE RVals(IntSeq(e1.v, e2, e3.v, k, <<>>), FALSE))
  ELSE LET a == ToFs(e1)
           l == ToFs(e2)
           s == ToFs(e3)
       IN IF Len(s) = 1 /\ s[1].c = "zero" THEN RErr
          ELSE IF Len(a) > 1 \/ Len(l) > 1 \/ Len(s) > 1 THEN RSkip     \* an inexact integer -> float conversion has two legal results
          \* NaN in a float loop: by the manual's wording no iteration; the reference implementation runs the body once
          \* (it skips only when limit < start); a NaN step has no sign.  Left open.
          ELSE IF a[1].c = "nan" \/ l[1].c = "nan" \/ s[1].c = "nan" THEN RSkip
          ELSE LET r == FloatSeq(a[1], l[1], s[1], k, <<>>) IN RVals(r.vals, r.und)

(* the two layers agree (integer loops) *)
LayersAgree(e1, e2, e3, k) ==
  IF IsNumV(e1) /\ IsNumV(e2) /\ IsNumV(e3) /\ e1.k = "i" /\ e3.k = "i" /\ ~IsZero(e3.v)
  THEN Assert(IntSeq(e1.v, e2, e3.v, k, <<>>) = IntLoopClipped(e1.v, e2, e3.v, k), <<"layers", e1, e2, e3>>)
  ELSE TRUE
(* an integer loop never produces a value outside the progression start + i*step and never wraps *)
RECURSIVE Monotone(_, _, _)
Monotone(vals, neg, i) ==
  IF i >= Len(vals) THEN TRUE
  ELSE (IF neg THEN ILt(vals[i + 1].v, vals[i].v) ELSE ILt(vals[i].v, vals[i + 1].v)) /\ Monotone(vals, neg, i + 1)
NoWrap(e1, e2, e3, k) ==
  IF IsNumV(e1) /\ IsNumV(e2) /\ IsNumV(e3) /\ e1.k = "i" /\ e3.k = "i" /\ ~IsZero(e3.v)
  THEN Assert(Monotone(IntSeq(e1.v, e2, e3.v, k, <<>>), IsNegS(e3.v), 1), <<"monotone", e1, e2, e3>>)
  ELSE TRUE

EncRes(r) == IF r.k = "vals" THEN [k |-> "vals", v |-> [i \in 1..Len(r.v) |-> EncV(r.v[i])], und |-> r.und] ELSE [k |-> r.k]

(* ------------------------------------------------------------------------ *)
(* lattices per position *)
S(t) == VS(t)
StartQ == <<VI(I(1)), VI(I(0)), VI(I(-1)), VI(Sub(MaxInt, One8)), VI(MaxInt), VI(MinInt), VI(Add(MinInt, One8)),
            VF(FL(FALSE, 1, 0)), VF(FL(FALSE, 1, -1)), VF(FL(FALSE, 1, 53)), VF(FLb(FALSE, M53, 10)), VF(FInf(FALSE)), VNil,
            (* integer starts just below a float limit of magnitude >= 2^53 (where float64(int) rounds): the comparison of the
               integer control variable with a float limit must be exact *)
            VI(Sub(P2(53), I(2))), VI(Neg(Sub(P2(53), I(2)))), VI(Sub(P2(62), I(2)))>>
StartT == StartQ \o <<VI(I(3)), VI(P2(53)), VI(Add(P2(53), One8)), VI(Sub(MaxInt, I(2))), VI(Add(MinInt, I(2))), VF(FL(TRUE, 1, 63)),
            VF(FL(FALSE, 1, 63)), VF(FZero(TRUE)), VF(FInf(TRUE)), VF(FNaN), VF(FLb(FALSE, M53, 971)),
            S(<<"1">>), S(<<"x">>), VOther("tbl")>>
LimitQ == <<VI(I(3)), VI(I(0)), VI(I(-3)), VI(MaxInt), VI(MinInt), VF(FL(FALSE, 5, -1)), VF(FL(TRUE, 5, -1)),
            VF(FL(FALSE, 1, 63)), VF(FL(TRUE, 1, 64)), VF(FInf(FALSE)), VF(FNaN), S(<<"x">>),
            VF(FL(FALSE, 1, 53)), VF(FL(TRUE, 1, 53)), VF(FL(FALSE, 1, 62))>>
LimitT == LimitQ \o <<VI(Sub(MaxInt, One8)), VI(Add(MinInt, One8)), VI(I(1)), VI(Add(P2(53), One8)), VI(Add(P2(53), I(3))),
            VF(FL(TRUE, 1, 63)), VF(FL(FALSE, 1, 64)), VF(FInf(TRUE)), VF(FLb(FALSE, M53, 10)), VF(FLb(TRUE, Add(P2(52), One8), 11)),
            VF(FLb(FALSE, M53, 971)), VF(FL(FALSE, 1, 53)), VF(FLb(FALSE, Add(P2(52), One8), 1)), VF(FZero(TRUE)), VF(FL(FALSE, 3, 0)),
            S(<<"3">>), VNil>>
StepQ == <<VI(I(1)), VI(I(-1)), VI(I(2)), VI(I(0)), VI(MaxInt), VI(MinInt), VF(FL(FALSE, 1, 0)), VF(FL(TRUE, 1, 0)),
           VF(FL(FALSE, 1, -1)), VF(FZero(FALSE)), VF(FL(FALSE, 1, 10)), VF(FInf(TRUE)), S(<<"x">>)>>
StepT == StepQ \o <<VI(I(-2)), VI(I(3)), VI(P2(62)), VI(Neg(P2(62))), VI(Sub(MaxInt, One8)), VI(Add(MinInt, One8)), VF(FL(FALSE, 2, 0)),
           VF(FZero(TRUE)), VF(FInf(FALSE)), VF(FNaN), VF(FL(FALSE, 1, 62)), VF(FL(TRUE, 1, 10)), VF(FLb(FALSE, M53, 971)),
           S(<<"1">>), VNil>>
Starts == IF Tier = "Q" THEN StartQ ELSE StartT
Limits == IF Tier = "Q" THEN LimitQ ELSE LimitT
Steps == IF Tier = "Q" THEN StepQ ELSE StepT

EncLat(v) == IF v.k = "o" THEN [k |-> "o", t |-> v.t] ELSE EncV(v)
(* label of an operand (only used to label discrepancies) *)
VClass(v) ==
  IF v.k = "i" THEN "int"
  ELSE IF v.k = "f" THEN (IF v.f.c # "fin" THEN v.f.c ELSE IF FToI(v.f).ok THEN "float-int" ELSE IF v.f.e >= 0 THEN "float-beyond-int64" ELSE "float-frac")
  ELSE IF v.k = "s" THEN (IF Str2Num(v.s).k # "nil" THEN "str-numeric" ELSE "str-nonnumeric")
  ELSE v.k

Init == c = <<"start">>
Next ==
  \/ /\ c = <<"start">>
     /\ \/ c' = <<"lat">> /\ Emit([t |-> "lat", k |-> K,
                                   starts |-> [i \in 1..Len(Starts) |-> EncLat(Starts[i])], limits |-> [i \in 1..Len(Limits) |-> EncLat(Limits[i])],
                                   steps |-> [i \in 1..Len(Steps) |-> EncLat(Steps[i])],
                                   cstarts |-> [i \in 1..Len(Starts) |-> VClass(Starts[i])], climits |-> [i \in 1..Len(Limits) |-> VClass(Limits[i])],
                                   csteps |-> [i \in 1..Len(Steps) |-> VClass(Steps[i])]])
        \/ \E i \in 1..Len(Starts), s \in 1..Len(Steps) : c' = <<"p", i, s>>
  \/ /\ c[1] = "p"
     /\ \E j \in 1..Len(Limits) :
          /\ c' = <<"t", c[2], j, c[3]>>
          /\ LET e1 == Starts[c[2]]
                 e2 == Limits[j]
                 e3 == Steps[c[3]]
             IN /\ Emit([t |-> "for", a |-> c[2], b |-> j, s |-> c[3], r |-> EncRes(Loop(e1, e2, e3, K))])
                /\ LayersAgree(e1, e2, e3, K)
                /\ NoWrap(e1, e2, e3, K)
=============================================================================

------------------------------ MODULE QuoteMC ------------------------------
EXTENDS Quote
(* byte alphabets: a printable character, the double and single quote, backslash, newline, CR, NUL, a control character,
   a digit, DEL, bytes >= 0x80 that are invalid UTF-8 on their own (200, 255) and that form the non-printable code points
   U+0080 (194 128) and U+2028 (226 128 168) *)
BytesQ == {97, 34, 92, 10, 13, 0, 1, 49, 127, 200, 255, 194, 128}
BytesT == BytesQ \cup {39, 226, 168, 9}
=============================================================================

------------------------------ MODULE QuoteMC ------------------------------
EXTENDS Quote
(* byte alphabets: a printable character, the double and single quote, backslash, newline, CR, NUL, a control character,
   a digit, DEL, bytes >= 0x80 that are invalid UTF-8 on their own (200, 255) and that form the non-printable code points
   U+0080 (194 128) and U+2028 (226 128 168) *)
(* after a control byte written as a short decimal escape the next byte matters when it is a digit: every class of
   digit (0, 1, 8, 9) and control bytes at the edges of the escape forms (6, 7 = \a, 14, 25, 31) *)
BytesQ == {97, 34, 92, 10, 13, 0, 1, 49, 127, 200, 255, 194, 128, 48, 56, 57, 6, 7, 14, 25, 31}
BytesT == BytesQ \cup {39, 226, 168, 9}
(* the longer strings of the thorough tier use the first alphabet without the extra digits and control bytes *)
BytesT4 == {97, 34, 92, 10, 13, 0, 1, 49, 57, 127, 200, 255, 194, 128, 39, 226, 168, 9}
=============================================================================

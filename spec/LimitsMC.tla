------------------------------ MODULE LimitsMC ------------------------------
EXTENDS Limits
AllShapes == {"locals", "upvalues", "constants", "numconsts", "items-tail", "args", "params", "returns", "jump-forward", "jump-back",
              "big-function", "nest-do", "nest-paren", "nest-table", "nest-func", "nest-if", "concat-chain", "index-chain", "call-chain",
              "pcall-depth", "tostring-depth", "lua-recursion", "gsub-depth", "long-string", "long-name", "bracket-level", "unpack",
              "unary-chain", "pow-chain", "nest-call", "nest-index", "call-suffix", "index-suffix", "method-suffix", "and-chain", "elseif-chain", "nested-fn-chains"} \cup RecShapes
Around(l) == (l - 2)..(l + 2)
SizesQ == {1, 2, 10, 100} \cup Around(200) \cup Around(255) \cup Around(1000) \cup {5000} \cup Around(32767) \cup {40000} \cup Around(65535) \cup {100000}
SizesT == SizesQ \cup Around(127) \cup Around(249) \cup Around(512) \cup Around(16383) \cup {20000, 50000, 70000, 200000, 1000000}
HugeDeepQ == {300000, 1000000}
HugeChainQ == {300000, 1000000}
HugeDeepT == {300000, 1000000, 3000000}
HugeChainT == {300000, 1000000, 2000000}
=============================================================================

INIT Init
NEXT Next
CHECK_DEADLOCK FALSE
CONSTANTS
  Convs <- AllConvs
  Widths = {0, 1, 2, 5, 12, 25}
  Precs <- PrecsT
  IntVals <- IntsT
  StrVals <- StrsT
  ChrVals <- ChrsT

SPECIFICATION Spec
CHECK_DEADLOCK FALSE
CONSTANTS
  NRt = 3
  Len1 = 3
  SharedCells = {}

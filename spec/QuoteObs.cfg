INIT Init
NEXT Next
CHECK_DEADLOCK FALSE
INVARIANT LawHolds
CONSTANTS
  Mode = "obs"
  Bytes <- BytesQ
  MaxLen = 0

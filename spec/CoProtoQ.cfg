SPECIFICATION Spec
INVARIANTS AccessOwnership OneRunner StatusLegal MutexSane
PROPERTIES DeadIsFinal 
CONSTANTS
  N = 3
  MaxOps = 4
  ReleaseEarly = TRUE
  HandlerOps = FALSE

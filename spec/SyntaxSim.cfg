INIT SimInit
NEXT SimNext
CHECK_DEADLOCK FALSE
INVARIANTS SimOracleOK
CONSTANTS
  MaxOps = 7
  Fams = {}
  Valuations <- ValT
  MaxList = 1
  SimFam = "FM"

INIT Init
NEXT Next
CHECK_DEADLOCK FALSE
CONSTANTS
  Keys <- KeysBigCloEq
  Alias <- AliasBigCloEq
  IntVal <- IntValBig
  Travs <- AllTravs
  LenEnabled = TRUE
  MaxSteps = 60
  ViewHist = 0
  EmitAll = FALSE

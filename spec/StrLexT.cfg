INIT Init
NEXT Next
CHECK_DEADLOCK FALSE
CONSTANTS
  Fams = {"short", "long", "num", "bignum", "errpos"}
  ShortItems = 3
  LongItems = 4
  NumLen = 5
  PreMax = 2

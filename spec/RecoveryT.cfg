SPECIFICATION Spec
CHECK_DEADLOCK FALSE
CONSTANTS
  Counts = {1, 2, 99, 100, 101, 999, 1000, 1001, 1100, 3000}

------------------------------ MODULE Pattern ------------------------------
(***************************************************************************)
(* Lua 5.4 patterns (reference manual 6.4.1) and the four functions that   *)
(* use them (6.4: string.find, string.match, string.gmatch, string.gsub).  *)
(* A pattern is a sequence of characters; Parse turns it into a list of    *)
(* pattern items or rejects it; M is the matching relation written as a    *)
(* function that returns the FIRST success in the priority order the       *)
(* manual fixes (leftmost start, `* + ?` longest first, `-` shortest       *)
(* first, later items vary fastest).  Written from the manual, not from    *)
(* golua's matcher.  Where the manual is silent the reference              *)
(* implementation is followed and the case is flagged strict = FALSE.      *)
(* Decides C15 (binding B, tabular: every (pattern, subject) pair is a     *)
(* case; the expected results of a fixed battery of calls are emitted).    *)
(***************************************************************************)
EXTENDS Integers, Sequences, FiniteSets, TLC, Json

CONSTANTS Tokens,     \* set of character sequences; a pattern is a concatenation of at most MaxTok of them
          MaxTok,
          Shard, NShards,   \* the patterns are divided over NShards TLC runs by a hash of their first three tokens
          EmitFrom,   \* patterns with fewer tokens are extended but not emitted
          FullUpTo,   \* patterns of at most this many tokens get the long battery and the subjects Subjects
          TokensLong, \* the tokens of longer patterns (a subset of Tokens)
          Subjects, SubjectsLong,   \* sets of character sequences
          Univ        \* every character a subject may contain (printable ASCII, no space)

VARIABLES pat       \* sequence of tokens, or Sink

Emit(v) == PrintT(<<"@@", ToJson(v)>>)

NUL == "NUL"          \* stands for the character '\0' (only relevant for %f at the ends of the subject)
U == Univ \cup {NUL}

Lower == {"a","b","c","d","e","f","g","h","i","j","k","l","m","n","o","p","q","r","s","t","u","v","w","x","y","z"}
Upper == {"A","B","C","D","E","F","G","H","I","J","K","L","M","N","O","P","Q","R","S","T","U","V","W","X","Y","Z"}
Digit == {"0","1","2","3","4","5","6","7","8","9"}
Alnum == Lower \cup Upper \cup Digit
DigitVal == [c \in Digit |-> CHOOSE k \in 0..9 : ToString(k) = c]
(* printable ASCII in code order, for ranges *)
AsciiSeq == <<"!","\"","#","$","%","&","'","(",")","*","+",",","-",".","/","0","1","2","3","4","5","6","7","8","9",
              ":",";","<","=",">","?","@","A","B","C","D","E","F","G","H","I","J","K","L","M","N","O","P","Q","R",
              "S","T","U","V","W","X","Y","Z","[","\\","]","^","_","`","a","b","c","d","e","f","g","h","i","j","k",
              "l","m","n","o","p","q","r","s","t","u","v","w","x","y","z","{","|","}","~">>
Ord == TLCEval([c \in {AsciiSeq[i] : i \in 1..Len(AsciiSeq)} |-> CHOOSE i \in 1..Len(AsciiSeq) : AsciiSeq[i] = c])
Code(c) == Ord[c] + 32                       \* the ASCII code
Codes(cs) == [j \in 1..Len(cs) |-> Code(cs[j])]

ASSUME Univ \subseteq DOMAIN Ord
ASSUME \A s \in Subjects \cup SubjectsLong : \A i \in 1..Len(s) : s[i] \in Univ
ASSUME TokensLong \subseteq Tokens

(* ----------------------------------------------------------------------- *)
(* character classes (6.4.1 "Character Class"), as subsets of U            *)
ClassLower == {"a","c","d","g","l","p","s","u","w","x"}
ClassUpper == ("A" :> "a") @@ ("C" :> "c") @@ ("D" :> "d") @@ ("G" :> "g") @@ ("L" :> "l") @@ ("P" :> "p") @@ ("S" :> "s") @@ ("U" :> "u") @@ ("W" :> "w") @@ ("X" :> "x")
ClassLetters == ClassLower \cup DOMAIN ClassUpper
HexDigits == Digit \cup {"a","b","c","d","e","f","A","B","C","D","E","F"}
ClassSetL(x) ==
  CASE x = "a" -> Univ \cap (Lower \cup Upper)
    [] x = "c" -> {NUL}                       \* control characters: U has no other
    [] x = "d" -> Univ \cap Digit
    [] x = "g" -> Univ                        \* printable except space: U has no space
    [] x = "l" -> Univ \cap Lower
    [] x = "p" -> Univ \ Alnum                \* punctuation
    [] x = "s" -> {}                          \* space characters: none in U
    [] x = "u" -> Univ \cap Upper
    [] x = "w" -> Univ \cap Alnum
    [] x = "x" -> Univ \cap HexDigits
ClassSet(x) == IF x \in ClassLower THEN ClassSetL(x) ELSE U \ ClassSetL(ClassUpper[x])

(* why a pattern is malformed: an index into BadReasons *)
BadReasons == <<"missing-]", "ends-with-%", "unfinished-capture", "unmatched-)", "%b-without-two-chars", "%f-without-set", "bad-capture-index">>
Bad(why, strict) == [st |-> "bad", why |-> why, strict |-> strict]
Undef == [st |-> "undef", strict |-> FALSE]

(* [set]: the union of its elements: ranges x-y, classes %x, escaped and plain characters; [^set] the complement. *)
(* j: index of the next element; first: nothing consumed yet (a "]" there is a member of the set).             *)
(* Returns [st, set, next, strict].                                                                             *)
RECURSIVE SetElems(_, _, _, _, _)
SetElems(p, j, first, acc, strict) ==
  IF j > Len(p) THEN Bad(1, TRUE)                                      \* missing "]"
  ELSE IF p[j] = "]" /\ ~first THEN [st |-> "ok", set |-> acc, next |-> j + 1, strict |-> strict]
  ELSE IF p[j] = "%" THEN
    IF j + 1 > Len(p) THEN Bad(1, TRUE)
    ELSE LET x == p[j + 1] IN
         IF x \in ClassLetters THEN
            \* "the interaction between ranges and classes is not defined": %a-z
            SetElems(p, j + 2, FALSE, acc \cup ClassSet(x),
                     strict /\ ~(j + 3 <= Len(p) /\ p[j + 2] = "-" /\ p[j + 3] # "]"))
         ELSE IF x \notin Alnum THEN SetElems(p, j + 2, FALSE, acc \cup {x}, strict)
         ELSE Undef
  ELSE IF j + 2 <= Len(p) /\ p[j + 1] = "-" /\ p[j + 2] # "]" THEN      \* range
    IF p[j + 2] = "%" THEN Undef
    ELSE SetElems(p, j + 3, FALSE, acc \cup {c \in Univ : Ord[p[j]] <= Ord[c] /\ Ord[c] <= Ord[p[j + 2]]},
                  strict /\ p[j] \notin {"]", "-"})
  ELSE SetElems(p, j + 1, FALSE, acc \cup {p[j]},
                \* 6.4.1: "You can put a closing square bracket in a set by positioning it as the first character in the
                \* set.  You can put a hyphen in a set by positioning it as the first or the last character in the set."
                strict /\ (p[j] = "]" => first) /\ (p[j] = "-" => (first \/ (j + 1 <= Len(p) /\ p[j + 1] = "]"))))

(* p[i] = "[" *)
ParseSet(p, i) ==
  LET neg == i + 1 <= Len(p) /\ p[i + 1] = "^"
      r == SetElems(p, IF neg THEN i + 2 ELSE i + 1, TRUE, {}, TRUE)
  IN IF r.st = "ok" /\ neg THEN [r EXCEPT !.set = U \ r.set] ELSE r

MagicQ == {"*", "+", "-", "?"}
(* a single character class starting at p[i]; returns [st, set, next, strict] *)
Single(p, i) ==
  LET c == p[i] IN
  CASE c = "." -> [st |-> "ok", set |-> U, next |-> i + 1, strict |-> TRUE]
    [] c = "[" -> ParseSet(p, i)
    [] c = "%" -> IF i + 1 > Len(p) THEN Bad(2, TRUE)                   \* pattern ends with "%"
                  ELSE LET x == p[i + 1] IN
                       IF x \in ClassLetters THEN [st |-> "ok", set |-> ClassSet(x), next |-> i + 2, strict |-> TRUE]
                       ELSE IF x \notin Alnum THEN [st |-> "ok", set |-> {x}, next |-> i + 2, strict |-> TRUE]
                       ELSE Undef                                       \* %e, %0 ...: not a pattern item of the manual
    [] OTHER -> \* a plain character; "^" and "$" away from the ends "represent themselves";
                \* other magic characters in a position where they cannot have their special meaning:
                \* the manual is silent, the reference implementation takes them literally
                [st |-> "ok", set |-> {c}, next |-> i + 1, strict |-> c \notin (MagicQ \cup {"]"})]

Range(f) == {f[i] : i \in DOMAIN f}

(* items: [t |-> "char", set, q] | "open"/"close"/"pos"/"ref" with n | "bal" x y | "front" set *)
RECURSIVE PItems(_, _, _, _, _, _, _, _)
PItems(p, i, items, ncap, open, posc, as, strict) ==
  LET n == Len(p)
      Done(ae) == IF open # <<>> THEN Bad(3, TRUE)                      \* unfinished capture
                  ELSE [st |-> "ok", items |-> items, ncap |-> ncap, as |-> as, ae |-> ae, strict |-> strict]
  IN
  IF i > n THEN Done(FALSE)
  ELSE LET c == p[i] IN
  CASE c = "(" ->
         IF i < n /\ p[i + 1] = ")"
         THEN PItems(p, i + 2, Append(items, [t |-> "pos", n |-> ncap + 1]), ncap + 1, open, posc \cup {ncap + 1}, as, strict)
         ELSE PItems(p, i + 1, Append(items, [t |-> "open", n |-> ncap + 1]), ncap + 1, <<ncap + 1>> \o open, posc, as, strict)
    [] c = ")" ->
         IF open = <<>> THEN Bad(4, TRUE)
         ELSE PItems(p, i + 1, Append(items, [t |-> "close", n |-> Head(open)]), ncap, Tail(open), posc, as, strict)
    [] c = "$" /\ i = n -> Done(TRUE)
    [] c = "%" /\ i < n /\ p[i + 1] = "b" ->
         IF i + 3 > n THEN Bad(5, TRUE)                                 \* %b needs two characters
         ELSE PItems(p, i + 4, Append(items, [t |-> "bal", x |-> p[i + 2], y |-> p[i + 3]]), ncap, open, posc, as,
                     strict /\ p[i + 2] # p[i + 3])                     \* "two distinct characters"
    [] c = "%" /\ i < n /\ p[i + 1] = "f" ->
         IF i + 2 > n \/ p[i + 2] # "[" THEN Bad(6, TRUE)               \* %f needs a [set]
         ELSE LET r == ParseSet(p, i + 2) IN
              IF r.st # "ok" THEN r
              ELSE PItems(p, r.next, Append(items, [t |-> "front", set |-> r.set]), ncap, open, posc, as, strict /\ r.strict)
    [] c = "%" /\ i < n /\ p[i + 1] \in Digit ->
         LET k == DigitVal[p[i + 1]] IN
         IF k = 0 \/ k > ncap \/ k \in Range(open) THEN Bad(7, k # 0)   \* no such capture, or still open
         ELSE PItems(p, i + 2, Append(items, [t |-> "ref", n |-> k]), ncap, open, posc, as,
                     strict /\ k \notin posc)                           \* %n of a position capture: manual silent
    [] OTHER ->
         LET r == Single(p, i) IN
         IF r.st # "ok" THEN r
         ELSE LET q == IF r.next <= n /\ p[r.next] \in MagicQ THEN p[r.next] ELSE "1" IN
              PItems(p, IF q = "1" THEN r.next ELSE r.next + 1, Append(items, [t |-> "char", set |-> r.set, q |-> q]),
                     ncap, open, posc, as, strict /\ r.strict)

Parse(p) ==
  IF Len(p) >= 1 /\ p[1] = "^" THEN PItems(p, 2, <<>>, 0, <<>>, {}, TRUE, TRUE)
  ELSE PItems(p, 1, <<>>, 0, <<>>, {}, FALSE, TRUE)

(* ----------------------------------------------------------------------- *)
(* matching.  Positions are offsets 0..Len(s); a capture is [b, e] with    *)
(* e = -1 while open and e = -2 for a position capture.                    *)
Fail == [ok |-> FALSE]

(* the number of consecutive characters of s from offset pos that belong to set *)
RunLen(set, s, pos) ==
  CHOOSE k \in 0..(Len(s) - pos) :
    /\ \A j \in 1..k : s[pos + j] \in set
    /\ (pos + k = Len(s) \/ s[pos + k + 1] \notin set)

(* %bxy from offset pos: the offset after the y that brings the count back to 0, or -1 *)
RECURSIVE BalScan(_, _, _, _, _)
BalScan(s, j, depth, x, y) ==
  IF j > Len(s) THEN -1
  ELSE IF s[j] = y THEN (IF depth = 1 THEN j ELSE BalScan(s, j + 1, depth - 1, x, y))
  ELSE IF s[j] = x THEN BalScan(s, j + 1, depth + 1, x, y)
  ELSE BalScan(s, j + 1, depth, x, y)
BalEnd(s, pos, x, y) == IF pos < Len(s) /\ s[pos + 1] = x THEN BalScan(s, pos + 2, 1, x, y) ELSE -1

At0(s, pos) == IF pos = 0 THEN NUL ELSE s[pos]               \* character before offset pos
At1(s, pos) == IF pos < Len(s) THEN s[pos + 1] ELSE NUL      \* character at offset pos

RECURSIVE M(_, _, _, _, _)
RECURSIVE Down(_, _, _, _, _, _, _)
RECURSIVE Up(_, _, _, _, _, _, _)
(* the first success of items i.. of P from offset pos *)
M(P, s, i, pos, caps) ==
  IF i > Len(P.items) THEN
     IF P.ae /\ pos # Len(s) THEN Fail ELSE [ok |-> TRUE, e |-> pos, caps |-> caps]
  ELSE LET it == P.items[i] IN
  CASE it.t = "char" ->
         IF it.q = "1" THEN (IF pos < Len(s) /\ s[pos + 1] \in it.set THEN M(P, s, i + 1, pos + 1, caps) ELSE Fail)
         ELSE LET mx == RunLen(it.set, s, pos) IN
              (CASE it.q = "*" -> Down(P, s, i, pos, mx, 0, caps)
                 [] it.q = "+" -> Down(P, s, i, pos, mx, 1, caps)
                 [] it.q = "?" -> Down(P, s, i, pos, IF mx >= 1 THEN 1 ELSE 0, 0, caps)
                 [] it.q = "-" -> Up(P, s, i, pos, 0, mx, caps))
    [] it.t = "open" -> M(P, s, i + 1, pos, [caps EXCEPT ![it.n] = [b |-> pos, e |-> -1]])
    [] it.t = "close" -> M(P, s, i + 1, pos, [caps EXCEPT ![it.n] = [b |-> caps[it.n].b, e |-> pos]])
    [] it.t = "pos" -> M(P, s, i + 1, pos, [caps EXCEPT ![it.n] = [b |-> pos, e |-> -2]])
    [] it.t = "ref" ->
         LET c == caps[it.n]
             l == c.e - c.b
         IN IF c.e >= 0 /\ pos + l <= Len(s) /\ \A j \in 1..l : s[c.b + j] = s[pos + j]
            THEN M(P, s, i + 1, pos + l, caps) ELSE Fail     \* (a position capture never matches: reference implementation)
    [] it.t = "bal" ->
         LET e == BalEnd(s, pos, it.x, it.y) IN IF e < 0 THEN Fail ELSE M(P, s, i + 1, e, caps)
    [] it.t = "front" ->
         IF At0(s, pos) \notin it.set /\ At1(s, pos) \in it.set THEN M(P, s, i + 1, pos, caps) ELSE Fail

(* item i repeated k times, then k-1, ... down to lo *)
Down(P, s, i, pos, k, lo, caps) ==
  IF k < lo THEN Fail
  ELSE LET r == M(P, s, i + 1, pos + k, caps) IN IF r.ok THEN r ELSE Down(P, s, i, pos, k - 1, lo, caps)
(* item i repeated k times, then k+1, ... up to hi *)
Up(P, s, i, pos, k, hi, caps) ==
  IF k > hi THEN Fail
  ELSE LET r == M(P, s, i + 1, pos + k, caps) IN IF r.ok THEN r ELSE Up(P, s, i, pos, k + 1, hi, caps)

MatchAt(P, s, k) == M(P, s, 1, k, [j \in 1..P.ncap |-> [b |-> 0, e |-> -1]])

(* ----------------------------------------------------------------------- *)
(* Lua values: a string (sequence of one-character strings) or an integer.  What is emitted consists of       *)
(* integers only (no string is built: TLC interns every string in a global table, and the bridge has to       *)
(* unescape every quote): a Lua integer n is the JSON integer n, a Lua string is the JSON array of its        *)
(* character codes; the check prints them as #n and 'text'.                                                    *)
Sub(s, b, e) == SubSeq(s, b + 1, e)                          \* offsets b..e
NotDet == <<-1>>      \* emitted in place of a result the manual does not determine: the call is only required to return
Err == <<-2>>         \* emitted in place of a result: the call raises an error
StrV(cs) == [k |-> "s", v |-> cs]
IntV(n) == [k |-> "i", v |-> n]
Js(vs) == [j \in 1..Len(vs) |-> IF vs[j].k = "i" THEN vs[j].v ELSE Codes(vs[j].v)]   \* what is emitted for a list of values

CapVal(s, c) == IF c.e = -2 THEN IntV(c.b + 1) ELSE StrV(Sub(s, c.b, c.e))
CapVals(P, s, m) == [j \in 1..P.ncap |-> CapVal(s, m.caps[j])]
Whole(s, k, m) == Sub(s, k, m.e)
(* "if the pattern has no captures, the whole match" *)
CapsOrWhole(P, s, k, m) == IF P.ncap = 0 THEN <<StrV(Whole(s, k, m))>> ELSE CapVals(P, s, m)

(* init: default 1, negative counts from the end; corrected into 1..; beyond len+1 there is no match.        *)
(* Offsets 0..len are search starts, len+1 stands for every start beyond the end.                             *)
StartOf(init, len) ==
  LET k == IF init > 0 THEN init - 1 ELSE IF init = 0 \/ init < -len THEN 0 ELSE len + init
  IN IF k > len THEN len + 1 ELSE k

(* first offset >= k where the pattern matches (only k itself when anchored), or -1.  A is the table of MatchAt. *)
RECURSIVE FirstFrom(_, _, _, _)
FirstFrom(A, P, k, len) == IF k > len THEN -1 ELSE IF A[k].ok THEN k ELSE IF P.as THEN -1 ELSE FirstFrom(A, P, k + 1, len)

(* string.find / string.match searching from offset k0: <<>> is nil *)
FindFrom(A, F, P, s, k0) ==
  IF k0 > Len(s) \/ F[k0] < 0 THEN <<>>
  ELSE LET k == F[k0] IN <<k + 1, A[k].e>> \o Js(CapVals(P, s, A[k]))
MatchFrom(A, F, P, s, k0) ==
  IF k0 > Len(s) \/ F[k0] < 0 THEN <<>> ELSE Js(CapsOrWhole(P, s, F[k0], A[F[k0]]))

(* gmatch / gsub iterate as Lua 5.4 does: try at src; a match that ends where the previous match ended is not *)
(* a match; otherwise move one character on.                                                                  *)
RECURSIVE GmatchL(_, _, _, _, _, _)
GmatchL(A, P, s, src, last, acc) ==
  IF src > Len(s) THEN acc
  ELSE IF A[src].ok /\ A[src].e # last
       THEN GmatchL(A, P, s, A[src].e, A[src].e, Append(acc, Js(CapsOrWhole(P, s, src, A[src]))))
       ELSE GmatchL(A, P, s, src + 1, last, acc)
(* for gmatch "a '^' at the start of a pattern does not work as an anchor": what it does instead is not said *)
GmatchFrom(A, P, s, k0) == IF P.as THEN NotDet ELSE GmatchL(A, P, s, k0, -1, <<>>)

(* rendering of values inside replacement results of the function / table variants *)
DigitStr == <<"0", "1", "2", "3", "4", "5", "6", "7", "8", "9">>
NumChars(n) == IF n < 10 THEN <<DigitStr[n + 1]>> ELSE <<DigitStr[(n \div 10) + 1], DigitStr[(n % 10) + 1]>>
RenderV(x) == IF x.k = "i" THEN <<"#">> \o NumChars(x.v) ELSE <<"'">> \o x.v \o <<"'">>
RECURSIVE RenderL(_)
RenderL(vs) == IF vs = <<>> THEN <<>> ELSE IF Len(vs) = 1 THEN RenderV(vs[1]) ELSE RenderV(vs[1]) \o <<",">> \o RenderL(Tail(vs))

(* replacement strings: %0 whole match, %1..%9 captures (%1 the whole match when there are no captures),      *)
(* %% a percent sign; anything else after % is an error                                                       *)
RECURSIVE Expand(_, _, _, _, _, _)
Expand(r, j, P, s, k, m) ==        \* returns [ok, str]
  IF j > Len(r) THEN [ok |-> TRUE, str |-> <<>>]
  ELSE IF r[j] # "%" THEN
         LET t == Expand(r, j + 1, P, s, k, m) IN IF t.ok THEN [ok |-> TRUE, str |-> <<r[j]>> \o t.str] ELSE t
  ELSE IF j = Len(r) THEN [ok |-> FALSE]
  ELSE LET x == r[j + 1]
           t == Expand(r, j + 2, P, s, k, m)
           good == x = "%" \/ (x \in Digit /\ (DigitVal[x] <= P.ncap \/ (DigitVal[x] = 1 /\ P.ncap = 0)))
           v == IF x = "%" THEN <<"%">>
                ELSE IF x = "0" \/ P.ncap = 0 THEN Whole(s, k, m)
                ELSE LET cv == CapVal(s, m.caps[DigitVal[x]]) IN IF cv.k = "i" THEN NumChars(cv.v) ELSE cv.v
       IN IF ~good \/ ~t.ok THEN [ok |-> FALSE] ELSE [ok |-> TRUE, str |-> v \o t.str]

(* the replacement for one match; kinds: <<"str", template>>, <<"fn">>, <<"tbl">>.                             *)
(* fn: function(...) if (...) == "a" then return nil end return "{" .. render(...) .. "}" end                  *)
(* tbl: a table whose __index does the same with its key (first capture, or the whole match) but yields false *)
(* a false/nil result keeps the match.  Returns [ok, str]                                                      *)
ReplOf(kind, P, s, k, m) ==
  IF kind[1] = "str" THEN Expand(kind[2], 1, P, s, k, m)
  ELSE LET vs == CapsOrWhole(P, s, k, m)
           args == IF kind[1] = "fn" THEN vs ELSE <<vs[1]>>
       IN IF vs[1].k = "s" /\ vs[1].v = <<"a">> THEN [ok |-> TRUE, str |-> Whole(s, k, m)]
          ELSE [ok |-> TRUE, str |-> <<"{">> \o RenderL(args) \o <<"}">>]

RECURSIVE GsubL(_, _, _, _, _, _, _, _, _)
GsubL(A, P, s, kind, src, last, n, max, acc) ==       \* returns [ok, str, n]
  LET fin == [ok |-> TRUE, str |-> acc \o Sub(s, src, Len(s)), n |-> n] IN
  IF n >= max THEN fin
  ELSE IF A[src].ok /\ A[src].e # last THEN
         LET r == ReplOf(kind, P, s, src, A[src]) IN
         IF ~r.ok THEN [ok |-> FALSE]
         ELSE IF P.as THEN [ok |-> TRUE, str |-> acc \o r.str \o Sub(s, A[src].e, Len(s)), n |-> n + 1]
         ELSE GsubL(A, P, s, kind, A[src].e, A[src].e, n + 1, max, acc \o r.str)
  ELSE IF src < Len(s) /\ ~P.as THEN GsubL(A, P, s, kind, src + 1, last, n, max, Append(acc, s[src + 1]))
  ELSE fin
(* <<result, count>>, or Err.  Without the optional n every occurrence is replaced (at most len+1).             *)
(* NotDet: the manual does not say what %1 stands for when the pattern has no captures                         *)
UsesCap(kind) == kind[1] = "str" /\ \E j \in 1..(Len(kind[2]) - 1) : kind[2][j] = "%" /\ kind[2][j + 1] \in (Digit \ {"0"}) /\ (j = 1 \/ kind[2][j - 1] # "%")
GsubOf(A, P, s, kind, max) ==
  IF P.ncap = 0 /\ UsesCap(kind) THEN NotDet
  ELSE LET r == GsubL(A, P, s, kind, 0, -1, 0, max, <<>>) IN IF r.ok THEN <<Codes(r.str), r.n>> ELSE Err

(* ----------------------------------------------------------------------- *)
(* The calls made for every case with a subject of length len, and where the expected result of each is found *)
(* in the emitted case (`at`: 0-based position in the case tuple, 1-based index there): find / match / gmatch  *)
(* searching from offset k are at index k+1 (offset len+1: beyond the end), then the gsub variants.            *)
(* The check builds the Lua side from this list.                                                               *)
Inits(len) == [j \in 1..(2 * len + 4) |-> j - len - 2]                \* -len-1 .. len+2
ReplS0 == <<"<", "%", "0", ">">>
ReplS1 == <<"[", "%", "1", "]">>
ReplS2 == <<"%", "%", "%", "2">>
ReplSx == <<"%", "x">>
ReplSe == <<"x", "%">>
(* gsub variants: <<kind, n, strict>>; n = -2: not given; strict = FALSE: that such a replacement string is an *)
(* error is the reference implementation's choice, the manual does not say.  full: the long battery.          *)
ReplEmpty == <<>>        \* every match is deleted: the result may be the empty string
GsubVariants(full) ==
  << <<<<"str", ReplS0>>, -2, TRUE>>, <<<<"str", ReplS1>>, -2, TRUE>>, <<<<"str", ReplS0>>, 1, TRUE>>, <<<<"str", ReplEmpty>>, -2, TRUE>> >>
  \o (IF full
      THEN << <<<<"fn">>, -2, TRUE>>, <<<<"tbl">>, -2, TRUE>>, <<<<"str", ReplS0>>, 0, TRUE>>, <<<<"str", ReplS0>>, 2, TRUE>>,
              <<<<"str", ReplS0>>, -1, TRUE>>, <<<<"str", ReplS2>>, -2, FALSE>>, <<<<"str", ReplSx>>, -2, FALSE>>,
              <<<<"str", ReplSe>>, -2, FALSE>> >>
      ELSE <<>>)
GmatchInits(len, full) == IF full THEN <<2, -1, len + 2>> ELSE <<>>
Battery(len, full) ==
  LET is == Inits(len)
      gi == GmatchInits(len, full)
      gv == GsubVariants(full)
  IN << [lua |-> <<"find">>, at |-> <<5, 1>>, strict |-> TRUE], [lua |-> <<"match">>, at |-> <<6, 1>>, strict |-> TRUE],
        [lua |-> <<"gmatch">>, at |-> <<7, 1>>, strict |-> TRUE] >>
     \o [j \in 1..Len(is) |-> [lua |-> <<"find", is[j]>>, at |-> <<5, StartOf(is[j], len) + 1>>, strict |-> TRUE]]
     \o [j \in 1..Len(is) |-> [lua |-> <<"match", is[j]>>, at |-> <<6, StartOf(is[j], len) + 1>>, strict |-> TRUE]]
     \o [j \in 1..Len(gi) |-> [lua |-> <<"gmatch", gi[j]>>, at |-> <<7, StartOf(gi[j], len) + 1>>, strict |-> TRUE]]
     \o [j \in 1..Len(gv) |-> [lua |-> <<"gsub", gv[j][1], gv[j][2]>>, at |-> <<8, j>>, strict |-> gv[j][3]]]

RECURSIVE Flatten(_)
Flatten(ts) == IF ts = <<>> THEN <<>> ELSE ts[1] \o Flatten(Tail(ts))

(* a case: <<pattern, subject, st, strict, ncap, f, m, gm, g, why, full, "c">>; st: 0 well-formed, 1 malformed,   *)
(* 2 not a pattern the manual defines; f, m, gm are indexed by search offset + 1; full: 1 = the long battery.    *)
(* (The trailing string keeps TLC's pretty-printer from re-formatting the line: it gives up on the escaped quote.) *)
B2I(b) == IF b THEN 1 ELSE 0
CaseOf(ptext, P, s, full) ==
  IF P.st = "undef" THEN <<Codes(ptext), Codes(s), 2, 0, 0, <<>>, <<>>, <<>>, <<>>, 0, B2I(full), "c">>
  ELSE IF P.st = "bad" THEN
       \* a malformed pattern is an error; a search that starts beyond the end may also just fail before the
       \* pattern is looked at (as the reference implementation does)
       LET len == Len(s)
           e == [k \in 1..(len + 2) |-> IF k = len + 2 THEN NotDet ELSE Err]
       IN <<Codes(ptext), Codes(s), 1, B2I(P.strict), 0, e, e, [k \in 1..(IF full THEN len + 2 ELSE 1) |-> e[k]],
            [j \in 1..Len(GsubVariants(full)) |-> Err], P.why, B2I(full), "c">>
  ELSE LET len == Len(s)
           A == TLCEval([k \in 0..len |-> MatchAt(P, s, k)])
           F == TLCEval([k \in 0..len |-> FirstFrom(A, P, k, len)])
           gv == GsubVariants(full)
       IN <<Codes(ptext), Codes(s), 0, B2I(P.strict), P.ncap,
            [k \in 1..(len + 2) |-> FindFrom(A, F, P, s, k - 1)],
            [k \in 1..(len + 2) |-> MatchFrom(A, F, P, s, k - 1)],
            [k \in 1..(IF full THEN len + 2 ELSE 1) |-> GmatchFrom(A, P, s, k - 1)],
            [j \in 1..Len(gv) |-> GsubOf(A, P, s, gv[j][1], IF gv[j][2] = -2 THEN len + 1 ELSE gv[j][2])],
            0, B2I(full), "c">>

(* patterns of at most FullUpTo tokens: tokens from Tokens, subjects from Subjects, the long battery;           *)
(* longer patterns: every token from TokensLong, subjects from SubjectsLong, the short battery                 *)
EmitPattern(toks) ==
  LET ptext == Flatten(toks)
      P == Parse(ptext)
      full == Len(toks) <= FullUpTo
  IN \A s \in (IF full THEN Subjects ELSE SubjectsLong) : Emit(CaseOf(ptext, P, s, full))

Sink == << <<"DONE">> >>
Lens == {Len(s) : s \in Subjects \cup SubjectsLong}
(* sharding: a pattern belongs to the shard its first three tokens hash to; every shard walks the patterns of *)
(* fewer than three tokens (cheap), deeper ones only if they are its own                                      *)
RECURSIVE HashChars(_, _)
HashChars(cs, j) == IF j > Len(cs) THEN 0 ELSE (Code(cs[j]) * (3 * j + 1) + HashChars(cs, j + 1)) % 1000003
RECURSIVE FlattenSep(_)
FlattenSep(ts) == IF ts = <<>> THEN <<>> ELSE ts[1] \o <<"|">> \o FlattenSep(Tail(ts))
Mine(p) == HashChars(FlattenSep(IF Len(p) <= 3 THEN p ELSE SubSeq(p, 1, 3)), 1) % NShards = Shard
Init == /\ pat = <<>>
        /\ \A l \in Lens : \A full \in BOOLEAN : Emit([hdr |-> l, full |-> B2I(full), calls |-> Battery(l, full), bad |-> BadReasons])
Extend(p, t) == LET q == Append(p, t) IN
  /\ Len(q) <= FullUpTo \/ \A i \in 1..Len(q) : q[i] \in TokensLong
  /\ Len(q) < 3 \/ Mine(q)
  /\ pat' = q
Next == /\ pat # Sink
        /\ (Len(pat) >= EmitFrom /\ Mine(pat) => EmitPattern(pat))
        /\ IF Len(pat) < MaxTok THEN \E t \in Tokens : Extend(pat, t) ELSE pat' = Sink
Spec == Init /\ [][Next]_pat
=============================================================================

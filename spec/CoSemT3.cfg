INIT Init
NEXT Next
VIEW View
CHECK_DEADLOCK FALSE
INVARIANT StatusLegal
PROPERTIES DeadIsFinal OnlySuspendedResumes
CONSTANTS
  NCo = 3
  WrapSet = {3}
  MaxSteps = 7
  MaxVals = 1
  Tbc = TRUE
  ViewHist = 1
  EmitAll = TRUE
  WithKill = TRUE

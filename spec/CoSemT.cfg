INIT Init
NEXT Next
VIEW View
CHECK_DEADLOCK FALSE
INVARIANT StatusLegal
PROPERTIES DeadIsFinal OnlySuspendedResumes
CONSTANTS
  NCo = 2
  WrapSet = {2}
  MaxSteps = 8
  MaxVals = 2
  Tbc = TRUE
  ViewHist = 2
  EmitAll = TRUE
  WithKill = TRUE

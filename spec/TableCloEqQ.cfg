INIT Init
NEXT Next
VIEW View
CHECK_DEADLOCK FALSE
CONSTANTS
  Keys <- KeysCloEq
  Alias <- AliasCloEq
  IntVal <- IntValClo
  Travs <- AllTravs
  LenEnabled = TRUE
  MaxSteps = 3
  ViewHist = 0
  EmitAll = TRUE

------------------------------ MODULE LuaCore ------------------------------
(***************************************************************************)
(* C01: a small-step abstract machine (CEK style) for the core of Lua 5.4. *)
(*                                                                         *)
(* The machine state is one record `st`:                                   *)
(*   p     index of the program (several programs are explored in          *)
(*         parallel, each is one deterministic behaviour)                  *)
(*   c     control: what happens next (evaluate an expression node,        *)
(*         execute a statement node, deliver values to the continuation,   *)
(*         apply a function, index / assign an indexed variable, or one    *)
(*         of the non-local exits break / goto / return / error)           *)
(*   e     environment: sequence of [n |-> name, l |-> location], the      *)
(*         innermost declaration of a name is the last one                 *)
(*   k     continuation stack (one frame kind per syntactic form)          *)
(*   st    store: location -> value; a location is allocated for every     *)
(*         local variable each time its declaration is executed (so every  *)
(*         loop iteration has fresh variables)                             *)
(*   h     heap: table id -> [kv, mt]                                      *)
(*   fs    closures: id -> [n |-> function node, e |-> captured env]       *)
(*   va    the variadic arguments of the running function                  *)
(*   out   the events: argument tuples of the calls of `emit`              *)
(*   n     steps taken                                                     *)
(* Programs are read from the file named by the environment variable       *)
(* ASTFILE: one JSON object per line, {id, root, nodes}; nodes is the      *)
(* abstract syntax tree as a table of records [k, a, s, i, ps, cs] (kind,  *)
(* children, name, integer, parameter names, string bytes).                *)
(*                                                                         *)
(* Anything the reference manual leaves open ends the run with fin =       *)
(* "undef" (such a program is a generator error, never a verdict).         *)
(***************************************************************************)
EXTENDS LuaCoreVal, TLC, Json, IOUtils

CONSTANTS MaxSteps

Progs == ndJsonDeserialize(IOEnv.ASTFILE)

VARIABLE st

Emit(v) == PrintT(<<"@@", ToJson(v)>>)

Nd(s, n) == Progs[s.p].nodes[n]

(* ---- control constructors ---- *)
Ret(s, vs) == [s EXCEPT !.c = [m |-> "v", vs |-> vs]]
Ret1(s, v) == [s EXCEPT !.c = [m |-> "v", vs |-> <<v>>]]
Next_(s) == [s EXCEPT !.c = [m |-> "n"]]
Err(s, v) == [s EXCEPT !.c = [m |-> "err", v |-> v]]
RErr(s, kind) == Err(s, Msg(kind))
Undef(s, why) == [s EXCEPT !.c = [m |-> "done", fin |-> "undef", why |-> why, vs |-> <<>>]]
CallC(f, args) == [m |-> "call", f |-> f, args |-> args]
PushCall(s, fr, f, args) == [s EXCEPT !.k = Append(@, fr), !.c = CallC(f, args)]
EvalC(n) == [m |-> "e", n |-> n]
PushEval(s, fr, n) == [s EXCEPT !.k = Append(@, fr), !.c = EvalC(n)]
Top(s) == s.k[Len(s.k)]
Pop(s) == [s EXCEPT !.k = SubSeq(@, 1, Len(@) - 1)]
SetTop(s, fr) == [s EXCEPT !.k[Len(s.k)] = fr]

(* evaluate an expression list: every expression but the last is adjusted to one value, the last one
   contributes all its values (section 3.4.12); the values go to the frame that is on top now *)
EvalList(s, ns) ==
  IF Len(ns) = 0 THEN Ret(s, <<>>)
  ELSE PushEval(s, [f |-> "el", ns |-> Tail(ns), acc |-> <<>>], Head(ns))

(* ---- environment and store ---- *)
Lookup(e, name) == LET J == {j \in 1..Len(e) : e[j].n = name} IN IF J = {} THEN 0 ELSE MaxOf(J)
(* bind names to fresh locations holding vs adjusted to the number of names *)
Bind(s, names, vs) ==
  LET base == Len(s.st) IN
  [s EXCEPT !.st = @ \o [j \in 1..Len(names) |-> Nth(vs, j)],
            !.e = @ \o [j \in 1..Len(names) |-> [n |-> names[j], l |-> base + j]]]

(* ---- metatables ---- *)
MetaOf(s, v, ev) == IF v.t = "t" /\ s.h[v.id].mt # 0 THEN RawGetT(s.h[s.h[v.id].mt], S(ev)) ELSE Nil
Meta2(s, a, b, ev) == LET h == MetaOf(s, a, ev) IN IF h # Nil THEN h ELSE MetaOf(s, b, ev)
(* closures of the same function expression created at different times: equal or not is not determined *)
AmbigFn(s, a, b) == a.t = "f" /\ b.t = "f" /\ a.fid # b.fid /\ s.fs[a.fid].n = s.fs[b.fid].n

(* ---- indexing (section 2.4, __index / __newindex) ---- *)
DoIndex(s, o, key) ==
  IF o.t = "msg" \/ BadKey(key) THEN Undef(s, "index-opaque")
  ELSE IF o.t = "t" THEN
    LET v == RawGetT(s.h[o.id], key) IN
    IF v # Nil THEN Ret1(s, v)
    ELSE LET h == MetaOf(s, o, C___index) IN
         IF h = Nil THEN Ret1(s, Nil)
         ELSE IF IsFn(h) THEN PushCall(s, [f |-> "t1"], h, <<o, key>>)
         ELSE [s EXCEPT !.c = [m |-> "idx", o |-> h, key |-> key]]
  ELSE IF o.t = "s" THEN Undef(s, "index-string")
  ELSE RErr(s, "index")

RawSet(s, id, key, v) == [s EXCEPT !.h[id] = RawSetT(@, key, v)]

DoSetIndex(s, o, key, v) ==
  IF o.t = "msg" \/ BadKey(key) THEN Undef(s, "setindex-opaque")
  ELSE IF o.t = "t" THEN
    IF RawGetT(s.h[o.id], key) # Nil THEN Ret(RawSet(s, o.id, key, v), <<>>)
    ELSE LET h == MetaOf(s, o, C___newindex) IN
         IF h = Nil THEN (IF key = Nil THEN RErr(s, "index-nil") ELSE Ret(RawSet(s, o.id, key, v), <<>>))
         ELSE IF IsFn(h) THEN PushCall(s, [f |-> "t0"], h, <<o, key, v>>)
         ELSE [s EXCEPT !.c = [m |-> "setidx", o |-> h, key |-> key, v |-> v]]
  ELSE RErr(s, "index")

(* ---- operators (sections 3.4.1 - 3.4.7, metamethods section 2.4) ---- *)
ArithEv(op) == CASE op = "+" -> C___add [] op = "-" -> C___sub [] op = "*" -> C___mul
                 [] op = "//" -> C___idiv [] op = "%" -> C___mod

Arith(s, op, a, b) ==
  LET na == ToNum(a)  nb == ToNum(b) IN
  IF na.r = "undef" \/ nb.r = "undef" THEN Undef(s, "numeric-string")
  ELSE IF na.r = "int" /\ nb.r = "int" THEN
    LET x == na.i  y == nb.i IN
    IF Abs(x) >= 32768 * 1024 \/ Abs(y) >= 32768 * 1024 THEN Undef(s, "big-number")
    ELSE IF op = "*" /\ (Abs(x) >= 32768 \/ Abs(y) >= 32768) THEN Undef(s, "big-number")
    ELSE IF op \in {"//", "%"} /\ y = 0 THEN Undef(s, "division-by-zero")
    ELSE Ret1(s, I(CASE op = "+" -> x + y [] op = "-" -> x - y [] op = "*" -> x * y
                     [] op = "//" -> FloorDiv(x, y) [] op = "%" -> FloorMod(x, y)))
  ELSE LET h == Meta2(s, a, b, ArithEv(op)) IN
       IF h = Nil THEN RErr(s, "arith") ELSE PushCall(s, [f |-> "t1"], h, <<a, b>>)

Concat(s, a, b) ==
  IF a.t = "msg" \/ b.t = "msg" THEN Undef(s, "concat-opaque")
  ELSE IF a.t \in {"s", "i"} /\ b.t \in {"s", "i"} THEN
    LET x == IF a.t = "i" THEN IntStr(a.i) ELSE a.s
        y == IF b.t = "i" THEN IntStr(b.i) ELSE b.s
    IN IF Len(x) + Len(y) > 60 THEN Undef(s, "long-string") ELSE Ret1(s, S(x \o y))
  ELSE LET h == Meta2(s, a, b, C___concat) IN
       IF h = Nil THEN RErr(s, "concat") ELSE PushCall(s, [f |-> "t1"], h, <<a, b>>)

Equals(s, a, b, neg) ==
  IF a.t = "msg" \/ b.t = "msg" \/ AmbigFn(s, a, b) THEN Undef(s, "eq-opaque")
  ELSE IF a = b THEN Ret1(s, B(~neg))
  ELSE IF a.t = "t" /\ b.t = "t" THEN
    LET h == Meta2(s, a, b, C___eq) IN
    IF h = Nil THEN Ret1(s, B(neg)) ELSE PushCall(s, [f |-> "tobool", neg |-> neg], h, <<a, b>>)
  ELSE Ret1(s, B(neg))

(* a < b and a <= b; a > b is b < a and a >= b is b <= a (section 3.4.4) *)
Order(s, strict, a, b) ==
  IF a.t = "msg" \/ b.t = "msg" THEN Undef(s, "cmp-opaque")
  ELSE IF a.t = "i" /\ b.t = "i" THEN Ret1(s, B(IF strict THEN a.i < b.i ELSE a.i <= b.i))
  ELSE IF a.t = "s" /\ b.t = "s" THEN Ret1(s, B(IF strict THEN StrLt(a.s, b.s) ELSE ~StrLt(b.s, a.s)))
  ELSE LET h == Meta2(s, a, b, IF strict THEN C___lt ELSE C___le) IN
       IF h = Nil THEN RErr(s, "compare") ELSE PushCall(s, [f |-> "tobool", neg |-> FALSE], h, <<a, b>>)

BinOp(s, op, a, b) ==
  CASE op \in {"+", "-", "*", "//", "%"} -> Arith(s, op, a, b)
    [] op = ".." -> Concat(s, a, b)
    [] op = "==" -> Equals(s, a, b, FALSE)
    [] op = "~=" -> Equals(s, a, b, TRUE)
    [] op = "<" -> Order(s, TRUE, a, b)
    [] op = "<=" -> Order(s, FALSE, a, b)
    [] op = ">" -> Order(s, TRUE, b, a)
    [] op = ">=" -> Order(s, FALSE, b, a)

(* a metamethod of a unary operation: the manual passes the operand; implementations pass it twice, which a
   handler with more than one parameter or a variadic one could observe *)
UnaryHandlerOk(s, h) == h.t = "f" /\ Nd(s, s.fs[h.fid].n).i = 0 /\ Len(Nd(s, s.fs[h.fid].n).ps) <= 1

UnOp(s, op, a) ==
  IF a.t = "msg" THEN Undef(s, "unop-opaque")
  ELSE IF op = "-" THEN
    LET na == ToNum(a) IN
    IF na.r = "undef" THEN Undef(s, "numeric-string")
    ELSE IF na.r = "int" THEN Ret1(s, I(0 - na.i))
    ELSE LET h == MetaOf(s, a, C___unm) IN
         IF h = Nil THEN RErr(s, "arith")
         ELSE IF ~UnaryHandlerOk(s, h) THEN Undef(s, "unary-handler-arity")
         ELSE PushCall(s, [f |-> "t1"], h, <<a>>)
  ELSE \* op = "#"
    IF a.t = "s" THEN Ret1(s, I(Len(a.s)))
    ELSE LET h == MetaOf(s, a, C___len) IN
         IF h # Nil THEN (IF ~UnaryHandlerOk(s, h) THEN Undef(s, "unary-handler-arity")
                          ELSE PushCall(s, [f |-> "t1"], h, <<a>>))
         ELSE IF a.t = "t" THEN (IF IsSeq(s.h[a.id]) THEN Ret1(s, I(Border(s.h[a.id]))) ELSE Undef(s, "border"))
         ELSE RErr(s, "len")

(* ---- the modelled part of the basic library (section 6.1) ---- *)
Builtin(s, name, args) ==
  LET a1 == Nth(args, 1)  a2 == Nth(args, 2)  a3 == Nth(args, 3)  na == Len(args) IN
  CASE name = "emit" -> Ret([s EXCEPT !.out = Append(@, args)], <<>>)
    [] name = "type" -> IF na = 0 THEN Undef(s, "arg") ELSE Ret1(s, S(TypeName(a1)))
    [] name = "select" ->
         IF a1 = S(C_hash) THEN Ret1(s, I(na - 1))
         ELSE IF a1.t # "i" \/ a1.i = 0 THEN Undef(s, "select-arg")
         ELSE IF a1.i > 0 THEN Ret(s, SubSeq(args, a1.i + 1, na))
         ELSE IF 0 - a1.i > na - 1 THEN Undef(s, "select-range")
         ELSE Ret(s, SubSeq(args, na + a1.i + 1, na))
    [] name = "tostring" ->
         IF na = 0 THEN Undef(s, "arg")
         ELSE CASE a1.t = "i" -> Ret1(s, S(IntStr(a1.i)))
                [] a1.t \in {"s", "msg"} -> Ret1(s, a1)
                [] a1.t = "b" -> Ret1(s, S(IF a1.b THEN C_true ELSE C_false))
                [] a1.t = "nil" -> Ret1(s, S(C_nil))
                [] a1.t = "t" -> (LET h == MetaOf(s, a1, C___tostring) IN
                                  IF h = Nil THEN Undef(s, "tostring-address") ELSE PushCall(s, [f |-> "tostr"], h, <<a1>>))
                [] OTHER -> Undef(s, "tostring-address")
    [] name = "rawget" -> IF a1.t # "t" \/ BadKey(a2) \/ na < 2 THEN Undef(s, "arg") ELSE Ret1(s, RawGetT(s.h[a1.id], a2))
    [] name = "rawset" -> IF a1.t # "t" \/ BadKey(a2) \/ a2 = Nil \/ na < 3 THEN Undef(s, "arg")
                          ELSE Ret1(RawSet(s, a1.id, a2, a3), a1)
    [] name = "rawequal" -> IF na < 2 \/ a1.t = "msg" \/ a2.t = "msg" \/ AmbigFn(s, a1, a2) THEN Undef(s, "arg")
                            ELSE Ret1(s, B(a1 = a2))
    [] name = "rawlen" -> IF a1.t = "s" THEN Ret1(s, I(Len(a1.s)))
                          ELSE IF a1.t = "t" /\ IsSeq(s.h[a1.id]) THEN Ret1(s, I(Border(s.h[a1.id])))
                          ELSE Undef(s, "arg")
    [] name = "setmetatable" ->
         IF na < 2 \/ a1.t # "t" \/ a2.t \notin {"nil", "t"} THEN Undef(s, "arg")
         ELSE IF MetaOf(s, a1, C___metatable) # Nil THEN RErr(s, "protected")
         ELSE Ret1([s EXCEPT !.h[a1.id].mt = IF a2.t = "t" THEN a2.id ELSE 0], a1)
    [] name = "getmetatable" ->
         IF na = 0 \/ a1.t \in {"s", "msg"} THEN Undef(s, "arg")
         ELSE IF a1.t # "t" \/ s.h[a1.id].mt = 0 THEN Ret1(s, Nil)
         ELSE (LET p == MetaOf(s, a1, C___metatable) IN IF p # Nil THEN Ret1(s, p) ELSE Ret1(s, T(s.h[a1.id].mt)))
    [] name = "pcall" -> IF na = 0 THEN Undef(s, "arg")
                         ELSE PushCall(s, [f |-> "pcall", e |-> s.e, va |-> s.va], a1, Tail(args))
    [] name = "error" ->
         IF a1.t = "s" /\ a2 # I(0) THEN
           (IF a2 = Nil \/ a2 = I(1) \/ a2 = I(2) THEN Err(s, Msg("user")) ELSE Undef(s, "error-level"))
         ELSE IF a2.t \notin {"nil", "i"} THEN Undef(s, "error-level")
         ELSE Err(s, a1)
    [] name = "assert" ->
         IF na = 0 THEN Undef(s, "arg")
         ELSE IF Truthy(a1) THEN Ret(s, args)
         ELSE IF na >= 2 THEN Err(s, a2) ELSE Err(s, Msg("assert"))
    [] name = "ipairs" -> IF a1.t # "t" THEN Undef(s, "arg") ELSE Ret(s, <<BI("ipairs_iter"), a1, I(0)>>)
    [] name = "ipairs_iter" ->
         IF a2.t # "i" THEN Undef(s, "arg")
         ELSE [s EXCEPT !.k = Append(@, [f |-> "ipk", i |-> a2.i + 1]), !.c = [m |-> "idx", o |-> a1, key |-> I(a2.i + 1)]]

GlobalNames == << <<C_emit, "emit">>, <<C_select, "select">>, <<C_type, "type">>, <<C_tostring, "tostring">>,
                  <<C_rawget, "rawget">>, <<C_rawset, "rawset">>, <<C_rawequal, "rawequal">>, <<C_rawlen, "rawlen">>,
                  <<C_setmetatable, "setmetatable">>, <<C_getmetatable, "getmetatable">>, <<C_pcall, "pcall">>,
                  <<C_error, "error">>, <<C_assert, "assert">>, <<C_ipairs, "ipairs">> >>
Globals == [kv |-> [j \in 1..Len(GlobalNames) |-> <<S(GlobalNames[j][1]), BI(GlobalNames[j][2])>>], mt |-> 0]

(* ---- function application (section 3.4.10, 3.4.11) ---- *)
BlkFrame(n, e, keep) == [f |-> "blk", n |-> n, i |-> 1, e |-> e, keep |-> keep]

Apply(s, fv, args) ==
  IF fv.t = "f" THEN
    LET cl == s.fs[fv.fid]
        fn == Nd(s, cl.n)
        np == Len(fn.ps)
        s1 == Bind([s EXCEPT !.e = cl.e], fn.ps, args)
    IN [s1 EXCEPT !.k = @ \o << [f |-> "fn", e |-> s.e, va |-> s.va], BlkFrame(fn.a[1], s1.e, FALSE) >>,
                  !.va = IF fn.i = 1 /\ Len(args) > np THEN SubSeq(args, np + 1, Len(args)) ELSE <<>>,
                  !.c = [m |-> "n"]]
  ELSE IF fv.t = "bi" THEN Builtin(s, fv.name, args)
  ELSE IF fv.t = "msg" THEN Undef(s, "call-opaque")
  ELSE LET h == MetaOf(s, fv, C___call) IN
       IF h = Nil THEN RErr(s, "call") ELSE [s EXCEPT !.c = CallC(h, <<fv>> \o args)]

Done(s, fin, vs) == [s EXCEPT !.c = [m |-> "done", fin |-> fin, why |-> "", vs |-> vs]]
ExecBlock(s, n) == [s EXCEPT !.k = Append(@, BlkFrame(n, s.e, FALSE)), !.c = [m |-> "n"]]

(* ---- table constructors (section 3.4.9) ---- *)
RECURSIVE SetMany(_, _, _)
SetMany(tb, pos, vs) == IF vs = <<>> THEN tb ELSE SetMany(RawSetT(tb, I(pos), Head(vs)), pos + 1, Tail(vs))
HasPos(s, fields) == \E j \in 1..Len(fields) : Nd(s, fields[j]).k = "fpos"

TabNext(s) ==
  LET fr == Top(s)  fields == Nd(s, fr.n).a IN
  IF fr.j > Len(fields) THEN Ret1(Pop(s), T(fr.id))
  ELSE LET fd == Nd(s, fields[fr.j]) IN
       [SetTop(s, [fr EXCEPT !.ph = IF fd.k = "fpos" THEN "p" ELSE "k"]) EXCEPT !.c = EvalC(fd.a[1])]

TabRecv(s, vs) ==
  LET fr == Top(s)  fields == Nd(s, fr.n).a  fd == Nd(s, fields[fr.j]) IN
  CASE fr.ph = "p" ->
         IF fr.j = Len(fields) THEN Ret1(Pop([s EXCEPT !.h[fr.id] = SetMany(@, fr.pos, vs)]), T(fr.id))
         ELSE TabNext(SetTop(RawSet(s, fr.id, I(fr.pos), First(vs)), [fr EXCEPT !.j = @ + 1, !.pos = @ + 1]))
    [] fr.ph = "k" -> [SetTop(s, [fr EXCEPT !.ph = "kv", !.key = First(vs)]) EXCEPT !.c = EvalC(fd.a[2])]
    [] fr.ph = "kv" ->
         IF fr.key = Nil THEN RErr(s, "index-nil")
         ELSE IF BadKey(fr.key) THEN Undef(s, "key-opaque")
         \* the order of the assignments in a constructor is undefined: no key may be given twice
         ELSE IF RawGetT(s.h[fr.id], fr.key) # Nil \/ (fr.key.t = "i" /\ fr.key.i >= 1 /\ HasPos(s, fields))
           THEN Undef(s, "constructor-dup")
         ELSE TabNext(SetTop(RawSet(s, fr.id, fr.key, First(vs)), [fr EXCEPT !.j = @ + 1]))

(* ---- expressions ---- *)
EvalExpr(s, n) ==
  LET nd == Nd(s, n) IN
  CASE nd.k = "nil" -> Ret1(s, Nil)
    [] nd.k = "true" -> Ret1(s, B(TRUE))
    [] nd.k = "false" -> Ret1(s, B(FALSE))
    [] nd.k = "int" -> Ret1(s, I(nd.i))
    [] nd.k = "str" -> Ret1(s, S(nd.cs))
    [] nd.k = "vararg" -> Ret(s, s.va)
    [] nd.k = "name" ->
         (LET j == Lookup(s.e, nd.s) IN
          IF j > 0 THEN Ret1(s, s.st[s.e[j].l])
          ELSE [s EXCEPT !.c = [m |-> "idx", o |-> T(1), key |-> S(nd.cs)]])     \* a free name is _ENV.name
    [] nd.k = "func" -> Ret1([s EXCEPT !.fs = Append(@, [n |-> n, e |-> s.e])], F(Len(s.fs) + 1))
    [] nd.k = "paren" -> PushEval(s, [f |-> "t1"], nd.a[1])                       \* (e) is always one value
    [] nd.k \in {"and", "or"} -> PushEval(s, [f |-> "andor", op |-> nd.k, r |-> nd.a[2]], nd.a[1])
    [] nd.k = "not" -> PushEval(s, [f |-> "not"], nd.a[1])
    [] nd.k = "binop" -> PushEval(s, [f |-> "bin1", op |-> nd.s, r |-> nd.a[2]], nd.a[1])
    [] nd.k = "unop" -> PushEval(s, [f |-> "un", op |-> nd.s], nd.a[1])
    [] nd.k = "index" -> PushEval(s, [f |-> "ix1", r |-> nd.a[2]], nd.a[1])
    [] nd.k = "call" -> PushEval(s, [f |-> "callf", n |-> n], nd.a[1])
    [] nd.k = "method" -> PushEval(s, [f |-> "meth1", n |-> n], nd.a[1])
    [] nd.k = "table" ->
         TabNext([s EXCEPT !.h = Append(@, NewTable),
                           !.k = Append(@, [f |-> "tab", n |-> n, id |-> Len(s.h) + 1, j |-> 1, pos |-> 1, ph |-> "p", key |-> Nil])])

(* ---- assignment (section 3.3.3): all expressions are evaluated before any assignment ---- *)
RECURSIVE AsgNext(_)
AsgNext(s) ==
  LET fr == Top(s)  nd == Nd(s, fr.n) IN
  IF fr.j > nd.i THEN EvalList(SetTop(s, [fr EXCEPT !.ph = "rhs"]), SubSeq(nd.a, nd.i + 1, Len(nd.a)))
  ELSE LET tg == Nd(s, nd.a[fr.j]) IN
       IF tg.k = "name" THEN
         LET j == Lookup(s.e, tg.s)
             r == IF j > 0 THEN [k |-> "loc", l |-> s.e[j].l] ELSE [k |-> "idx", o |-> T(1), key |-> S(tg.cs)]
         IN AsgNext(SetTop(s, [fr EXCEPT !.j = @ + 1, !.refs = Append(@, r)]))
       ELSE [SetTop(s, [fr EXCEPT !.ph = "o"]) EXCEPT !.c = EvalC(tg.a[1])]

RECURSIVE AsgDo(_)
AsgDo(s) ==
  LET fr == Top(s) IN
  IF fr.j > Len(fr.refs) THEN Next_(Pop(s))
  ELSE LET r == fr.refs[fr.j]
           v == Nth(fr.vs, fr.j)
           s1 == SetTop(s, [fr EXCEPT !.j = @ + 1])
       IN IF r.k = "loc" THEN AsgDo([s1 EXCEPT !.st[r.l] = v]) ELSE DoSetIndex(s1, r.o, r.key, v)

(* ---- numeric for (section 3.3.5), integer loops only ---- *)
ForTest(s) ==
  LET fr == Top(s)  nd == Nd(s, fr.n) IN
  IF (fr.stp > 0 /\ fr.cur <= fr.lim) \/ (fr.stp < 0 /\ fr.cur >= fr.lim)
  THEN ExecBlock(Bind([s EXCEPT !.e = fr.e], <<nd.s>>, <<I(fr.cur)>>), nd.a[Len(nd.a)])   \* a fresh variable per iteration
  ELSE Next_([Pop(s) EXCEPT !.e = fr.e])

(* ---- statements ---- *)
ExecStmt(s, n) ==
  LET nd == Nd(s, n) IN
  CASE nd.k = "local" -> EvalList([s EXCEPT !.k = Append(@, [f |-> "loc", n |-> n])], nd.a)
    [] nd.k = "localfunc" ->          \* local function f: the name is in scope inside the body
         (LET s1 == Bind(s, <<nd.s>>, <<Nil>>) IN
          Next_([s1 EXCEPT !.fs = Append(@, [n |-> nd.a[1], e |-> s1.e]), !.st[Len(s1.st)] = F(Len(s.fs) + 1)]))
    [] nd.k = "assign" -> AsgNext([s EXCEPT !.k = Append(@, [f |-> "asg", n |-> n, j |-> 1, ph |-> "o", refs |-> <<>>, o |-> Nil])])
    [] nd.k = "callstat" -> PushEval(s, [f |-> "cs"], nd.a[1])
    [] nd.k = "do" -> ExecBlock(s, nd.a[1])
    [] nd.k = "while" -> PushEval(s, [f |-> "loop", kind |-> "while", n |-> n, e |-> s.e, ph |-> "c"], nd.a[1])
    [] nd.k = "repeat" ->
         [s EXCEPT !.k = @ \o << [f |-> "loop", kind |-> "repeat", n |-> n, e |-> s.e, ph |-> "b"], BlkFrame(nd.a[1], s.e, TRUE) >>,
                   !.c = [m |-> "n"]]
    [] nd.k = "if" -> PushEval(s, [f |-> "if", n |-> n, j |-> 1], nd.a[1])
    [] nd.k = "fornum" -> PushEval(s, [f |-> "for3", n |-> n, vals |-> <<>>], nd.a[1])
    [] nd.k = "forin" -> EvalList([s EXCEPT !.k = Append(@, [f |-> "fi0", n |-> n])], SubSeq(nd.a, 1, Len(nd.a) - 1))
    [] nd.k = "return" -> EvalList([s EXCEPT !.k = Append(@, [f |-> "retk"])], nd.a)
    [] nd.k = "break" -> [s EXCEPT !.c = [m |-> "brk"]]
    [] nd.k = "goto" -> [s EXCEPT !.c = [m |-> "goto", s |-> nd.s]]
    [] nd.k = "label" -> Next_(s)

(* ---- a statement has finished: what the frame on top does next ---- *)
StmtDone(s) ==
  IF Len(s.k) = 0 THEN Done(s, "done", <<>>)
  ELSE LET fr == Top(s) IN
  CASE fr.f = "blk" ->
         (LET stmts == Nd(s, fr.n).a IN
          IF fr.i > Len(stmts) THEN (IF fr.keep THEN Next_(Pop(s)) ELSE Next_([Pop(s) EXCEPT !.e = fr.e]))
          ELSE [SetTop(s, [fr EXCEPT !.i = @ + 1]) EXCEPT !.c = [m |-> "s", n |-> stmts[fr.i]]])
    [] fr.f = "loop" ->
         (LET nd == Nd(s, fr.n) IN
          CASE fr.kind = "while" -> [SetTop(s, [fr EXCEPT !.ph = "c"]) EXCEPT !.c = EvalC(nd.a[1])]
            [] fr.kind = "repeat" -> [SetTop(s, [fr EXCEPT !.ph = "c"]) EXCEPT !.c = EvalC(nd.a[2])]   \* the condition sees the body's locals
            [] fr.kind = "fornum" -> ForTest(SetTop(s, [fr EXCEPT !.cur = @ + fr.stp]))
            [] fr.kind = "forin" -> [SetTop(s, [fr EXCEPT !.ph = "call"]) EXCEPT !.e = fr.e, !.c = CallC(fr.fv, <<fr.sv, fr.ctl>>)])
    [] fr.f = "fn" -> Ret([Pop(s) EXCEPT !.e = fr.e, !.va = fr.va], <<>>)

(* ---- values arrive at the frame on top ---- *)
Recv(s, vs) ==
  LET fr == Top(s)  v1 == First(vs) IN
  CASE fr.f = "el" ->
         IF fr.ns = <<>> THEN Ret(Pop(s), fr.acc \o vs)
         ELSE [SetTop(s, [fr EXCEPT !.ns = Tail(@), !.acc = Append(@, v1)]) EXCEPT !.c = EvalC(Head(fr.ns))]
    [] fr.f = "t1" -> Ret1(Pop(s), v1)
    [] fr.f = "t0" -> Ret(Pop(s), <<>>)
    [] fr.f = "cs" -> Next_(Pop(s))
    [] fr.f = "tobool" -> Ret1(Pop(s), B(Truthy(v1) # fr.neg))
    [] fr.f = "tostr" -> IF v1.t \in {"s", "msg"} THEN Ret1(Pop(s), v1) ELSE Undef(s, "tostring-result")
    [] fr.f = "not" -> Ret1(Pop(s), B(~Truthy(v1)))
    [] fr.f = "andor" -> IF (fr.op = "and") = Truthy(v1) THEN PushEval(Pop(s), [f |-> "t1"], fr.r) ELSE Ret1(Pop(s), v1)
    [] fr.f = "bin1" -> [SetTop(s, [f |-> "bin2", op |-> fr.op, a |-> v1]) EXCEPT !.c = EvalC(fr.r)]
    [] fr.f = "bin2" -> BinOp(Pop(s), fr.op, fr.a, v1)
    [] fr.f = "un" -> UnOp(Pop(s), fr.op, v1)
    [] fr.f = "ix1" -> [SetTop(s, [f |-> "ix2", o |-> v1]) EXCEPT !.c = EvalC(fr.r)]
    [] fr.f = "ix2" -> DoIndex(Pop(s), fr.o, v1)
    [] fr.f = "callf" -> EvalList(SetTop(s, [f |-> "calla", fv |-> v1, pre |-> <<>>]), Tail(Nd(s, fr.n).a))
    [] fr.f = "calla" -> [Pop(s) EXCEPT !.c = CallC(fr.fv, fr.pre \o vs)]
    [] fr.f = "meth1" -> DoIndex(SetTop(s, [f |-> "meth2", n |-> fr.n, o |-> v1]), v1, S(Nd(s, fr.n).cs))   \* receiver evaluated once
    [] fr.f = "meth2" -> EvalList(SetTop(s, [f |-> "calla", fv |-> v1, pre |-> <<fr.o>>]), Tail(Nd(s, fr.n).a))
    [] fr.f = "tab" -> TabRecv(s, vs)
    [] fr.f = "loc" -> Next_(Bind(Pop(s), Nd(s, fr.n).ps, vs))
    [] fr.f = "asg" ->
         (LET nd == Nd(s, fr.n) IN
          CASE fr.ph = "o" -> [SetTop(s, [fr EXCEPT !.ph = "key", !.o = v1]) EXCEPT !.c = EvalC(Nd(s, nd.a[fr.j]).a[2])]
            [] fr.ph = "key" -> AsgNext(SetTop(s, [fr EXCEPT !.j = @ + 1, !.refs = Append(@, [k |-> "idx", o |-> fr.o, key |-> v1])]))
            [] fr.ph = "rhs" ->
                 \* the order of the assignments is undefined: no variable may be assigned twice
                 IF \E x, y \in 1..Len(fr.refs) : x < y /\ fr.refs[x] = fr.refs[y] THEN Undef(s, "assign-dup")
                 ELSE AsgDo(SetTop(s, [f |-> "asg2", refs |-> fr.refs, vs |-> vs, j |-> 1])))
    [] fr.f = "asg2" -> AsgDo(s)
    [] fr.f = "retk" -> [Pop(s) EXCEPT !.c = [m |-> "ret", vs |-> vs]]
    [] fr.f = "if" ->
         (LET a == Nd(s, fr.n).a IN
          IF Truthy(v1) THEN ExecBlock(Pop(s), a[fr.j + 1])
          ELSE IF fr.j + 2 > Len(a) THEN Next_(Pop(s))
          ELSE IF fr.j + 2 = Len(a) THEN ExecBlock(Pop(s), a[fr.j + 2])
          ELSE [SetTop(s, [fr EXCEPT !.j = @ + 2]) EXCEPT !.c = EvalC(a[fr.j + 2])])
    [] fr.f = "for3" ->
         (LET nd == Nd(s, fr.n)
              vals == Append(fr.vals, v1)
              cnt == IF nd.i = 1 THEN 3 ELSE 2
          IN IF Len(vals) < cnt THEN [SetTop(s, [fr EXCEPT !.vals = vals]) EXCEPT !.c = EvalC(nd.a[Len(vals) + 1])]
             ELSE IF \E j \in 1..cnt : vals[j].t # "i" THEN Undef(s, "for-nonint")
             ELSE IF cnt = 3 /\ vals[3].i = 0 THEN Undef(s, "for-step-zero")
             ELSE ForTest(SetTop(s, [f |-> "loop", kind |-> "fornum", n |-> fr.n, e |-> s.e, ph |-> "b", cur |-> vals[1].i,
                                     lim |-> vals[2].i, stp |-> IF cnt = 3 THEN vals[3].i ELSE 1])))
    [] fr.f = "fi0" ->
         IF Nth(vs, 4) # Nil THEN Undef(s, "for-closing")
         ELSE [SetTop(s, [f |-> "loop", kind |-> "forin", n |-> fr.n, e |-> s.e, ph |-> "call", fv |-> Nth(vs, 1),
                          sv |-> Nth(vs, 2), ctl |-> Nth(vs, 3)])
               EXCEPT !.c = CallC(Nth(vs, 1), <<Nth(vs, 2), Nth(vs, 3)>>)]
    [] fr.f = "loop" ->
         (LET nd == Nd(s, fr.n) IN
          CASE fr.kind = "while" ->
                 IF Truthy(v1) THEN ExecBlock(SetTop(s, [fr EXCEPT !.ph = "b"]), nd.a[2]) ELSE Next_([Pop(s) EXCEPT !.e = fr.e])
            [] fr.kind = "repeat" ->
                 IF Truthy(v1) THEN Next_([Pop(s) EXCEPT !.e = fr.e])
                 ELSE [s EXCEPT !.e = fr.e, !.k = Append(SubSeq(@, 1, Len(@) - 1), [fr EXCEPT !.ph = "b"]) \o <<BlkFrame(nd.a[1], fr.e, TRUE)>>,
                                !.c = [m |-> "n"]]
            [] fr.kind = "forin" ->
                 IF v1 = Nil THEN Next_([Pop(s) EXCEPT !.e = fr.e])
                 ELSE ExecBlock(Bind([SetTop(s, [fr EXCEPT !.ph = "b", !.ctl = v1]) EXCEPT !.e = fr.e], nd.ps, vs), nd.a[Len(nd.a)]))
    [] fr.f = "pcall" -> Ret([Pop(s) EXCEPT !.e = fr.e, !.va = fr.va], <<B(TRUE)>> \o vs)
    [] fr.f = "ipk" -> IF v1 = Nil THEN Ret1(Pop(s), Nil) ELSE Ret(Pop(s), <<I(fr.i), v1>>)

(* ---- non-local exits ---- *)
Nearest(s, kind) == LET J == {j \in 1..Len(s.k) : s.k[j].f = kind} IN IF J = {} THEN 0 ELSE MaxOf(J)
CutTo(s, j) == [s EXCEPT !.k = SubSeq(@, 1, j - 1), !.e = s.k[j].e]

DoRet(s, vs) ==
  LET j == Nearest(s, "fn") IN
  IF j = 0 THEN Done(s, "done", vs) ELSE Ret([CutTo(s, j) EXCEPT !.va = s.k[j].va], vs)

DoBreak(s) == LET j == Nearest(s, "loop") IN IF j = 0 THEN Undef(s, "break-outside-loop") ELSE Next_(CutTo(s, j))

DoErr(s, v) ==
  LET j == Nearest(s, "pcall") IN
  IF j = 0 THEN Done(s, "error", <<v>>) ELSE Ret([CutTo(s, j) EXCEPT !.va = s.k[j].va], <<B(FALSE), v>>)

LabelIdx(s, bn, lab) ==
  LET a == Nd(s, bn).a
      X == {i \in 1..Len(a) : Nd(s, a[i]).k = "label" /\ Nd(s, a[i]).s = lab}
  IN IF X = {} THEN 0 ELSE MinOf(X)
RECURSIVE CountLocals(_, _, _)
CountLocals(s, a, upto) ==
  IF upto = 0 THEN 0
  ELSE CountLocals(s, a, upto - 1) +
       (LET nd == Nd(s, a[upto]) IN IF nd.k = "local" THEN Len(nd.ps) ELSE IF nd.k = "localfunc" THEN 1 ELSE 0)

(* goto (section 3.3.4): the label is visible in the block that contains it and in the blocks nested in it (not
   in nested functions).  Control continues after the label; the local variables declared after the label in
   that block go out of scope.  Every environment inside a function extends the environment of the enclosing block. *)
DoGoto(s, lab) ==
  LET base == Nearest(s, "fn")
      J == {j \in (base + 1)..Len(s.k) : s.k[j].f = "blk" /\ LabelIdx(s, s.k[j].n, lab) > 0}
  IN IF J = {} THEN Undef(s, "no-visible-label")
     ELSE LET j == MaxOf(J)
              fr == s.k[j]
              li == LabelIdx(s, fr.n, lab)
              keepn == Len(fr.e) + CountLocals(s, Nd(s, fr.n).a, li - 1)
          IN [s EXCEPT !.k = Append(SubSeq(@, 1, j - 1), [fr EXCEPT !.i = li + 1]),
                       !.e = SubSeq(@, 1, IF keepn < Len(@) THEN keepn ELSE Len(@)),
                       !.c = [m |-> "n"]]

(* ---- the machine ---- *)
Step(s0) ==
  LET s == [s0 EXCEPT !.n = @ + 1]
      c == s.c
  IN IF s.n > MaxSteps THEN Done(s, "bound", <<>>)
     ELSE CASE c.m = "e" -> EvalExpr(s, c.n)
            [] c.m = "s" -> ExecStmt(s, c.n)
            [] c.m = "v" -> Recv(s, c.vs)
            [] c.m = "n" -> StmtDone(s)
            [] c.m = "call" -> Apply(s, c.f, c.args)
            [] c.m = "idx" -> DoIndex(s, c.o, c.key)
            [] c.m = "setidx" -> DoSetIndex(s, c.o, c.key, c.v)
            [] c.m = "ret" -> DoRet(s, c.vs)
            [] c.m = "brk" -> DoBreak(s)
            [] c.m = "goto" -> DoGoto(s, c.s)
            [] c.m = "err" -> DoErr(s, c.v)

InitState(p) ==
  [p |-> p, c |-> [m |-> "n"], e |-> <<>>, k |-> <<BlkFrame(Progs[p].root, <<>>, FALSE)>>, st |-> <<>>,
   h |-> <<Globals>>, fs |-> <<>>, va |-> <<>>, out |-> <<>>, n |-> 0]

Init == st \in {InitState(p) : p \in 1..Len(Progs)}

Next ==
  /\ st.c.m # "done"
  /\ st' = Step(st)
  /\ (st'.c.m = "done" =>
        Emit([id |-> Progs[st.p].id, fin |-> st'.c.fin, why |-> st'.c.why, vs |-> st'.c.vs, ev |-> st'.out, steps |-> st'.n,
              protos |-> [j \in 1..Len(st'.fs) |-> st'.fs[j].n]]))

Spec == Init /\ [][Next]_st

(* design-level checks: every location an environment refers to has been written (allocation writes), every
   table / closure id in the control is allocated, the continuation never underflows *)
LocsWritten == \A j \in 1..Len(st.e) : st.e[j].l \in 1..Len(st.st)
Sane == st.c.m \in {"v"} => Len(st.k) > 0
=============================================================================

SPECIFICATION Spec
CHECK_DEADLOCK FALSE
CONSTANTS
  GoRoutes <- AllGo
  ErrKinds <- AllErr
  MaxHops = 3
  EmitShort = TRUE
  Phases <- StdPhases

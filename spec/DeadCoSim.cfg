SPECIFICATION Spec
CHECK_DEADLOCK FALSE
CONSTANTS
  GoRoutes <- AllGo
  ErrKinds <- AllErr
  MaxHops = 5
  EmitShort = FALSE
  Phases <- StdPhases

SPECIFICATION Spec
CHECK_DEADLOCK FALSE
CONSTANTS
  GoRoutes <- AllGo
  ErrKinds <- AllErr
  MaxHops = 2
  EmitShort = TRUE
  Phases <- StdPhases

INIT Init
NEXT Next
CHECK_DEADLOCK FALSE
INVARIANT LawHolds
CONSTANTS
  Mode = "unp"
  Alphabet <- AlphaSeq
  MaxToks = 1
  MaxValToks = 1
  Boundary = FALSE

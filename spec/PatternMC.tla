----------------------------- MODULE PatternMC -----------------------------
EXTENDS Pattern
(* token alphabets: a pattern is the concatenation of its tokens' characters and is parsed character by character, *)
(* so "%" followed by "a" is the class %a, "[" "a" "]" is a set, "%b" "a" "b" is %bab, and so on.                  *)
TokCore == { <<"a">>, <<"b">>, <<".">>, <<"%","a">>, <<"%","d">>, <<"[","a","b","]">>, <<"[","^","a","]">>,
             <<"[","a","-","b","]">>, <<"[","%","d","a","]">>, <<"*">>, <<"+">>, <<"-">>, <<"?">>, <<"(">>, <<")">>,
             <<"(",")">>, <<"%","1">>, <<"%","b","a","b">>, <<"%","f","[","a","]">>, <<"^">>, <<"$">>, <<"%">>, <<"%",".">> }
TokExtra == { <<"%","A">>, <<"[">>, <<"]">>, <<"%","b">>, <<"%","f">>,
              (* sets at their edges: a reversed range (empty), a one-character range, a negated range, a trailing and a
                 leading "-", "]" as the first element *)
              <<"[","b","-","a","]">>, <<"[","c","-","c","]">>, <<"[","^","a","-","b","]">>, <<"[","a","-","]">>, <<"[","-","a","]">>,
              <<"[","]","a","]">>, <<"[","^","]","]">>, <<"[","^","]","a","]">>, <<"[","]","]">>, <<"[","^","-","]">>, <<"[","^","^","]">> }
TokFull == TokCore \cup TokExtra
(* a smaller alphabet for longer patterns: one representative per construct *)
TokSmall == { <<"a">>, <<".">>, <<"[","^","a","]">>, <<"*">>, <<"-">>, <<"?">>, <<"(">>, <<")">>, <<"(",")">>, <<"%","1">>,
              <<"%","b","a","b">>, <<"%","f","[","a","]">>, <<"^">>, <<"$">> }

(* the three-token patterns of the quick tier *)
TokQ3 == { <<"a">>, <<".">>, <<"%","a">>, <<"[","a","b","]">>, <<"[","^","a","]">>, <<"*">>, <<"+">>, <<"-">>, <<"?">>, <<"(">>, <<")">>,
           <<"(",")">>, <<"%","1">>, <<"%","b","a","b">>, <<"%","f","[","a","]">>, <<"^">>, <<"$">>, <<"%">> }

Strs(A, n) == UNION {[1..k -> A] : k \in 0..n}
UnivAll == {"a", "b", "c", "1", "-", "]", "^", "$", "%", "*", ".", "("}
SubjABC(n) == Strs({"a", "b", "c"}, n)
SubjDig(n) == Strs({"a", "1"}, n)
SubjPun(n) == Strs({"a", "-", "]", "^", "$", "%", "*", "."}, n)
SubjQ == SubjABC(3) \cup SubjDig(2) \cup SubjPun(1)           \* 51
SubjQL == SubjABC(3) \cup SubjDig(2)                          \* 44
SubjT == SubjABC(4) \cup SubjDig(3) \cup SubjPun(2)           \* 203
SubjTL == SubjABC(4)                                          \* 121
SubjT4 == SubjABC(2) \cup Strs({"a", "b"}, 3)                 \* 21
=============================================================================

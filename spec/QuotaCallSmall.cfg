INIT Init
NEXT Next
VIEW View
CONSTRAINT Bound
CHECK_DEADLOCK FALSE
CONSTANTS
  M = 1048576
  Sat = TRUE
  CpuLim = {0, 9}
  MemLim = {0, 7}
  CpuSoft = {0}
  MemSoft = {0}
  CpuAmt = {1, 4}
  MemAmt = {3}
  MsLim = {0}
  MsSoft = {0}
  Ticks = {}
  ThrInc = 10000
  MaxClk = 0
  OldPopOrder = FALSE
  OldTimeCharge = FALSE
  OldThrInherit = FALSE
  NCo = 0
  XFlags = {}
  MaxDepth = 3
  MaxFrames = 2
  RawOps = FALSE
  CallOps = TRUE
  Emitting = TRUE
  StopOps = TRUE
  MaxUsed = 9

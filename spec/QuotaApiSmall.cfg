INIT Init
NEXT Next
VIEW View
CONSTRAINT Bound
CHECK_DEADLOCK FALSE
CONSTANTS
  M = 1048576
  Sat = TRUE
  CpuLim = {0, 5, 9}
  MemLim = {0, 7}
  CpuSoft = {0, 3}
  MemSoft = {0}
  CpuAmt = {1, 4}
  MemAmt = {3}
  MsLim = {0}
  MsSoft = {0}
  Ticks = {}
  ThrInc = 10000
  MaxClk = 0
  OldPopOrder = FALSE
  OldTimeCharge = FALSE
  OldThrInherit = FALSE
  NCo = 0
  XFlags = {"iosafe"}
  MaxDepth = 3
  MaxFrames = 0
  RawOps = TRUE
  CallOps = FALSE
  Emitting = TRUE
  StopOps = FALSE
  MaxUsed = 9

-------------------------------- MODULE Pack --------------------------------
(***************************************************************************)
(* string.pack / string.unpack / string.packsize, Lua 5.4 manual 6.4.2.    *)
(* A format is a sequence of one-character strings; a packed string is a   *)
(* sequence of bytes 0..255; a Lua integer is 8 two's-complement limbs     *)
(* (Limbs.tla).  Values: [t |-> "i", l |-> limbs], [t |-> "s", b |-> bytes] *)
(* and [t |-> "f", id |-> name] for a few exactly representable floats.    *)
(*                                                                         *)
(* The manual leaves the "native" sizes, alignment and endianness to the    *)
(* implementation: they are CONSTANTS (the check measures them with         *)
(* string.packsize and passes them in).  Everything else is fixed here.    *)
(* Decides the pack part of C17.                                            *)
(***************************************************************************)
EXTENDS Integers, Sequences, FiniteSets, TLC, Json, Limbs

CONSTANTS NatShort, NatInt, NatLong, NatSizeT,  \* sizes of h, i, l, T (and of the default length prefix of s)
          NatAlign,                             \* maximum alignment set by a bare "!"
          NatLittle,                            \* BOOLEAN: "=" is little endian
          Mode,                                 \* "seq": formats built from tokens; "unp": directed unpack cases
          Alphabet,                             \* set of tokens (each a sequence of characters)
          MaxToks, MaxValToks,                  \* tokens per format, value-carrying tokens per format
          Boundary                              \* TRUE: boundary value sets; FALSE: one or two plain values per option

Emit(v) == PrintT(<<"@@", ToJson(v)>>)
Min(a, b) == IF a < b THEN a ELSE b
(* an error; `why` and `at` (the option character) only label the case for the report, they are not compared *)
E(why, at) == [ok |-> FALSE, why |-> why, at |-> at]

(* ------------------------------------------------------------------ *)
(* the format reader                                                  *)

DigitVal == [c \in {"0", "1", "2", "3", "4", "5", "6", "7", "8", "9"} |->
              CASE c = "0" -> 0 [] c = "1" -> 1 [] c = "2" -> 2 [] c = "3" -> 3 [] c = "4" -> 4
                [] c = "5" -> 5 [] c = "6" -> 6 [] c = "7" -> 7 [] c = "8" -> 8 [] c = "9" -> 9]
IsDigit(c) == c \in DOMAIN DigitVal
RECURSIVE ReadNumFrom(_, _, _)
ReadNumFrom(f, i, acc) ==
  IF i <= Len(f) /\ IsDigit(f[i])
  THEN ReadNumFrom(f, i + 1, IF acc > 100000 THEN acc ELSE acc * 10 + DigitVal[f[i]])
  ELSE [n |-> acc, nxt |-> i]
(* "[n]": an optional integral numeral *)
ReadNum(f, i) == LET r == ReadNumFrom(f, i, 0) IN [has |-> r.nxt > i, n |-> r.n, nxt |-> r.nxt]

(* one option starting at f[i]: kind, size in bytes, numeric argument, index of the next option, well-formedness.
   "For options !n, sn, in and In, n can be any integer between 1 and 16". *)
Details(f, i) ==
  LET c == f[i]
      num == ReadNum(f, i + 1)
      plain(k, sz) == [k |-> k, size |-> sz, arg |-> 0, nxt |-> i + 1, ok |-> TRUE, why |-> ""]
      sized(k, dflt) == [k |-> k, size |-> IF num.has THEN num.n ELSE dflt, arg |-> 0, nxt |-> num.nxt,
                         ok |-> (~num.has) \/ num.n \in 1..16, why |-> "limit"]
  IN CASE c = "b" -> plain("int", 1)
       [] c = "B" -> plain("uint", 1)
       [] c = "h" -> plain("int", NatShort)
       [] c = "H" -> plain("uint", NatShort)
       [] c = "l" -> plain("int", NatLong)
       [] c = "L" -> plain("uint", NatLong)
       [] c = "j" -> plain("int", 8)           \* a lua_Integer: 64 bits
       [] c = "J" -> plain("uint", 8)
       [] c = "T" -> plain("uint", NatSizeT)
       [] c = "i" -> sized("int", NatInt)
       [] c = "I" -> sized("uint", NatInt)
       [] c = "f" -> plain("float", 4)
       [] c = "d" -> plain("double", 8)
       [] c = "n" -> plain("double", 8)        \* a lua_Number: a double
       [] c = "s" -> sized("string", NatSizeT)
       [] c = "z" -> plain("zstr", 0)
       [] c = "x" -> plain("pad", 1)
       [] c = "X" -> plain("padalign", 0)
       [] c = " " -> plain("nop", 0)
       [] c = "<" -> plain("little", 0)
       [] c = ">" -> plain("big", 0)
       [] c = "=" -> plain("native", 0)
       [] c = "!" -> [k |-> "maxalign", size |-> 0, arg |-> IF num.has THEN num.n ELSE NatAlign, nxt |-> num.nxt,
                      ok |-> (~num.has) \/ num.n \in 1..16, why |-> "limit"]
       [] c = "c" -> [k |-> "char", size |-> num.n, arg |-> 0, nxt |-> num.nxt, ok |-> num.has, why |-> "missingsize"]   \* cn
       [] OTHER -> [k |-> "bad", size |-> 0, arg |-> 0, nxt |-> i + 1, ok |-> FALSE, why |-> "badopt"]

FormatErrors == {"badopt", "limit", "missingsize", "xnext", "align"}
ValueKinds == {"int", "uint", "float", "double", "char", "string", "zstr"}
IsPow2(a) == a \in {1, 2, 4, 8, 16}

(* The option at f[i] together with its alignment padding when `total` bytes precede it:
   "the format gets extra padding until the data starts at an offset that is a multiple of the minimum between the
   option size and the maximum alignment; this minimum must be a power of 2.  Options c and z are not aligned; option
   s follows the alignment of its starting integer."  "Xop: an empty item that aligns according to option op (which is
   otherwise ignored)": op must be an option that has an alignment. *)
Item(f, i, total, maxal) ==
  LET d == Details(f, i) IN
  IF ~d.ok THEN [k |-> d.k, size |-> 0, arg |-> 0, nxt |-> d.nxt, ok |-> FALSE, pad |-> 0, why |-> d.why]
  ELSE
  LET isX == d.k = "padalign"
      dx == IF isX /\ d.nxt <= Len(f) THEN Details(f, d.nxt) ELSE d
      xok == (~isX) \/ (d.nxt <= Len(f) /\ dx.ok /\ dx.k # "char" /\ dx.size > 0)
      al == IF isX THEN dx.size ELSE d.size
      a == Min(al, maxal)
      nxt == IF isX THEN dx.nxt ELSE d.nxt
  IN IF ~xok THEN [k |-> d.k, size |-> 0, arg |-> 0, nxt |-> nxt, ok |-> FALSE, pad |-> 0, why |-> "xnext"]
     ELSE IF al <= 1 \/ d.k = "char"
       THEN [k |-> d.k, size |-> d.size, arg |-> d.arg, nxt |-> nxt, ok |-> TRUE, pad |-> 0, why |-> ""]
     ELSE [k |-> d.k, size |-> d.size, arg |-> d.arg, nxt |-> nxt, ok |-> IsPow2(a),
           pad |-> IF IsPow2(a) THEN (a - (total % a)) % a ELSE 0, why |-> "align"]

Ord(b, little) == IF little THEN b ELSE Rev(b)

(* IEEE 754 images (little endian) of the floats used *)
F32 == ("0.0" :> <<0, 0, 0, 0>>) @@ ("0.5" :> <<0, 0, 0, 63>>) @@ ("1.0" :> <<0, 0, 128, 63>>) @@ ("-2.0" :> <<0, 0, 0, 192>>) @@ ("1.5" :> <<0, 0, 192, 63>>)
F64 == ("0.0" :> <<0, 0, 0, 0, 0, 0, 0, 0>>) @@ ("0.5" :> <<0, 0, 0, 0, 0, 0, 224, 63>>) @@ ("1.0" :> <<0, 0, 0, 0, 0, 0, 240, 63>>)
         @@ ("-2.0" :> <<0, 0, 0, 0, 0, 0, 0, 192>>) @@ ("1.5" :> <<0, 0, 0, 0, 0, 0, 248, 63>>)
FloatIds == DOMAIN F64

(* ------------------------------------------------------------------ *)
(* string.pack                                                        *)

(* "string.pack checks whether the given value fits in the given size"; "for the unsigned options, Lua integers are
   treated as unsigned values too" *)
Encode(it, v, little, c) ==
  CASE it.k = "int" ->
         IF v.t = "i" /\ (it.size >= 8 \/ FitsSigned(v.l, it.size))
         THEN [ok |-> TRUE, b |-> Ord(ImgSigned(v.l, it.size), little)] ELSE E("overflow", c)
    [] it.k = "uint" ->
         IF v.t = "i" /\ (it.size >= 8 \/ FitsUnsigned(v.l, it.size))
         THEN [ok |-> TRUE, b |-> Ord(ImgUnsigned(v.l, it.size), little)] ELSE E("overflow", c)
    [] it.k = "float" -> IF v.t = "f" THEN [ok |-> TRUE, b |-> Ord(F32[v.id], little)] ELSE E("type", c)
    [] it.k = "double" -> IF v.t = "f" THEN [ok |-> TRUE, b |-> Ord(F64[v.id], little)] ELSE E("type", c)
    [] it.k = "char" ->
         IF v.t = "s" /\ Len(v.b) <= it.size THEN [ok |-> TRUE, b |-> v.b \o Rep(0, it.size - Len(v.b))] ELSE E("toolong", c)
    [] it.k = "string" ->
         IF v.t = "s" /\ (it.size >= 4 \/ Len(v.b) < 256 ^ it.size)
         THEN [ok |-> TRUE, b |-> Ord(ImgUnsigned(FromNat(Len(v.b), 8), it.size), little) \o v.b] ELSE E("toolong", c)
    [] it.k = "zstr" ->
         IF v.t = "s" /\ \A j \in 1..Len(v.b) : v.b[j] # 0 THEN [ok |-> TRUE, b |-> v.b \o <<0>>] ELSE E("zero", c)

(* lv: the last byte of out was written by a value option (not padding) *)
RECURSIVE PackFrom(_, _, _, _, _, _, _, _)
PackFrom(f, vs, i, little, maxal, out, vi, lv) ==
  IF i > Len(f) THEN [ok |-> TRUE, bytes |-> out, lv |-> lv]
  ELSE
  LET it == Item(f, i, Len(out), maxal) IN
  IF ~it.ok THEN E(it.why, f[i])
  ELSE
  LET o2 == out \o Rep(0, it.pad)
      lv2 == lv /\ it.pad = 0
  IN CASE it.k = "little" -> PackFrom(f, vs, it.nxt, TRUE, maxal, o2, vi, lv2)
       [] it.k = "big" -> PackFrom(f, vs, it.nxt, FALSE, maxal, o2, vi, lv2)
       [] it.k = "native" -> PackFrom(f, vs, it.nxt, NatLittle, maxal, o2, vi, lv2)
       [] it.k = "maxalign" -> PackFrom(f, vs, it.nxt, little, it.arg, o2, vi, lv2)
       [] it.k \in {"nop", "padalign"} -> PackFrom(f, vs, it.nxt, little, maxal, o2, vi, lv2)
       [] it.k = "pad" -> PackFrom(f, vs, it.nxt, little, maxal, Append(o2, 0), vi, FALSE)
       [] OTHER ->
            IF vi > Len(vs) THEN E("novalue", f[i])
            ELSE LET e == Encode(it, vs[vi], little, f[i]) IN
                 IF ~e.ok THEN e
                 ELSE PackFrom(f, vs, it.nxt, little, maxal, o2 \o e.b, vi + 1, IF e.b = <<>> THEN lv2 ELSE TRUE)
Pack(f, vs) == PackFrom(f, vs, 1, NatLittle, 1, <<>>, 1, FALSE)   \* "starts as if prefixed by !1="

(* ------------------------------------------------------------------ *)
(* string.unpack: "checks whether the read value fits in a Lua integer"; padding is ignored *)

FirstZero(data, p) ==
  IF \E j \in p..Len(data) : data[j] = 0
  THEN CHOOSE j \in p..Len(data) : data[j] = 0 /\ \A k \in p..(j - 1) : data[k] # 0
  ELSE 0
FloatOf(tab, b) == IF \E id \in DOMAIN tab : tab[id] = b THEN [ok |-> TRUE, id |-> CHOOSE id \in DOMAIN tab : tab[id] = b]
                   ELSE [ok |-> FALSE]

RECURSIVE UnpackFrom(_, _, _, _, _, _, _)
UnpackFrom(f, data, i, little, maxal, pos, acc) ==
  IF i > Len(f) THEN [ok |-> TRUE, vals |-> acc, next |-> pos]
  ELSE
  LET it == Item(f, i, pos - 1, maxal) IN
  IF ~it.ok THEN E(it.why, f[i])
  ELSE IF it.pad + it.size > Len(data) - (pos - 1) THEN E("short", f[i])       \* data string too short
  ELSE
  LET p == pos + it.pad
      raw == Ord(SubSeq(data, p, p + it.size - 1), little)
      go(v, np) == UnpackFrom(f, data, it.nxt, little, maxal, np, Append(acc, v))
  IN CASE it.k = "little" -> UnpackFrom(f, data, it.nxt, TRUE, maxal, p, acc)
       [] it.k = "big" -> UnpackFrom(f, data, it.nxt, FALSE, maxal, p, acc)
       [] it.k = "native" -> UnpackFrom(f, data, it.nxt, NatLittle, maxal, p, acc)
       [] it.k = "maxalign" -> UnpackFrom(f, data, it.nxt, little, it.arg, p, acc)
       [] it.k \in {"nop", "padalign"} -> UnpackFrom(f, data, it.nxt, little, maxal, p, acc)
       [] it.k = "pad" -> UnpackFrom(f, data, it.nxt, little, maxal, p + 1, acc)
       [] it.k = "int" -> LET r == ReadSigned(raw) IN IF r.ok THEN go([t |-> "i", l |-> r.l], p + it.size) ELSE E("nofit", f[i])
       [] it.k = "uint" -> LET r == ReadUnsigned(raw) IN
                             IF r.ok THEN go([t |-> "i", l |-> r.l], p + it.size) ELSE E("nofit", f[i])
       [] it.k = "float" -> LET r == FloatOf(F32, raw) IN IF r.ok THEN go([t |-> "f", id |-> r.id], p + 4) ELSE E("otherfloat", f[i])
       [] it.k = "double" -> LET r == FloatOf(F64, raw) IN IF r.ok THEN go([t |-> "f", id |-> r.id], p + 8) ELSE E("otherfloat", f[i])
       [] it.k = "char" -> go([t |-> "s", b |-> SubSeq(data, p, p + it.size - 1)], p + it.size)
       [] it.k = "string" ->
            LET r == ReadUnsigned(raw)
                n == Small(r.l)
                q == p + it.size
            IN IF r.ok /\ n >= 0 /\ n <= Len(data) - (q - 1) THEN go([t |-> "s", b |-> SubSeq(data, q, q + n - 1)], q + n)
               ELSE E(IF r.ok THEN "short" ELSE "nofit", f[i])
       [] it.k = "zstr" ->
            LET z == FirstZero(data, p) IN
            IF z = 0 THEN E("unterminated", f[i]) ELSE go([t |-> "s", b |-> SubSeq(data, p, z - 1)], z + 1)
(* init is a position 1..Len(data)+1; alignment is relative to the start of the data string *)
Unpack(f, data, init) == UnpackFrom(f, data, 1, NatLittle, 1, init, <<>>)

(* ------------------------------------------------------------------ *)
(* string.packsize: "the format string cannot have the variable-length options s or z" *)
RECURSIVE PackSizeFrom(_, _, _, _)
PackSizeFrom(f, i, maxal, total) ==
  IF i > Len(f) THEN [ok |-> TRUE, n |-> total]
  ELSE
  LET it == Item(f, i, total, maxal) IN
  IF ~it.ok THEN E(it.why, f[i])
  ELSE IF it.k \in {"string", "zstr"} THEN E("variable", f[i])
  ELSE PackSizeFrom(f, it.nxt, IF it.k = "maxalign" THEN it.arg ELSE maxal, total + it.pad + it.size)
PackSize(f) == PackSizeFrom(f, 1, 1, 0)

(* ------------------------------------------------------------------ *)
(* one case: everything the check compares with the real code         *)

ButLast(s) == SubSeq(s, 1, Len(s) - 1)
RECURSIVE Flatten(_)
Flatten(ts) == IF ts = <<>> THEN <<>> ELSE Head(ts) \o Flatten(Tail(ts))
IsPrefixPad(u, v) ==   \* u = v followed by zeros (the result of reading back a "cn" item)
  Len(u) >= Len(v) /\ \A j \in 1..Len(u) : u[j] = (IF j <= Len(v) THEN v[j] ELSE 0)
SameUpToPad(u, v) == u = v \/ (u.t = "s" /\ v.t = "s" /\ IsPrefixPad(u.b, v.b))
HasVar(f) == \E i \in 1..Len(f) : f[i] \in {"s", "z"}
NoBang(f) == \A i \in 1..Len(f) : f[i] # "!"

Case(f, vs) ==
  LET p == Pack(f, vs)
      u == IF p.ok THEN Unpack(f, p.bytes, 1) ELSE [ok |-> FALSE]
      sz == PackSize(f)
      trunc == IF p.ok /\ p.lv /\ p.bytes # <<>> THEN [on |-> TRUE, r |-> Unpack(f, ButLast(p.bytes), 1)] ELSE [on |-> FALSE]
      off == IF p.ok /\ NoBang(f) THEN [on |-> TRUE, r |-> Unpack(f, <<85>> \o p.bytes, 2)] ELSE [on |-> FALSE]
      short == IF vs # <<>> THEN [on |-> TRUE, r |-> Pack(f, ButLast(vs)).ok] ELSE [on |-> FALSE]   \* a value is missing
      (* a format that string.pack rejects as malformed is rejected by string.unpack as well when it reads far enough:
         40 zero bytes decode as zeros / empty strings under every option *)
      zeros == IF (~p.ok) /\ p.why \in FormatErrors THEN [on |-> TRUE, r |-> Unpack(f, Rep(0, 40), 1)] ELSE [on |-> FALSE]
      law == /\ p.ok => /\ u.ok /\ u.next = Len(p.bytes) + 1 /\ Len(u.vals) = Len(vs)
                        /\ \A j \in 1..Len(vs) : SameUpToPad(u.vals[j], vs[j])
                        /\ sz.ok => sz.n = Len(p.bytes)
                        /\ (~sz.ok) => HasVar(f)        \* a format that packs has a size unless it has s or z
             /\ trunc.on => ~trunc.r.ok
             /\ short.on => ~short.r
             /\ zeros.on => ~zeros.r.ok
             /\ off.on => off.r.ok /\ off.r.vals = u.vals /\ off.r.next = Len(p.bytes) + 2
  IN [f |-> f, vs |-> vs, pack |-> IF p.ok THEN [ok |-> TRUE, bytes |-> p.bytes] ELSE p, unp |-> u, size |-> sz,
      trunc |-> trunc, off |-> off, short |-> short, zeros |-> zeros, law |-> law]

(* ------------------------------------------------------------------ *)
(* value sets                                                          *)

Str(b) == [t |-> "s", b |-> b]
I(l) == [t |-> "i", l |-> l]
SizeBounds(n) ==   \* the six values around the limits of an n-byte field (n in 1..7)
  {Dec(Pow2(8 * n - 1)), Pow2(8 * n - 1), Neg(Pow2(8 * n - 1)), Dec(Neg(Pow2(8 * n - 1))), Dec(Pow2(8 * n)), Pow2(8 * n)}
General == {IntL(0), IntL(1), IntL(-1), IntL(-2), IntL(258), MaxInt, MinInt}
BoundInts(n) == General \cup SizeBounds(1) \cup SizeBounds(2) \cup SizeBounds(4) \cup (IF n < 8 THEN SizeBounds(n) ELSE {})

ValuesFor(d) ==
  IF Boundary THEN
    CASE d.k \in {"int", "uint"} -> {I(l) : l \in BoundInts(d.size)}
      [] d.k \in {"float", "double"} -> {[t |-> "f", id |-> id] : id \in FloatIds}
      [] d.k = "char" -> {Str(Rep(97, n)) : n \in {m \in {d.size - 1, d.size, d.size + 1} : m >= 0 /\ m < 40}}
                           \cup {Str(<<0>>), Str(<<>>)}
      [] d.k = "zstr" -> {Str(<<>>), Str(<<97, 98>>), Str(<<97, 0, 98>>), Str(<<200, 255>>)}
      [] d.k = "string" -> {Str(<<>>), Str(<<97, 98>>), Str(<<0>>)}
                             \cup (IF d.size = 1 THEN {Str(Rep(120, 255)), Str(Rep(120, 256))} ELSE {})
  ELSE
    CASE d.k = "int" -> IF d.size = 1 THEN {I(IntL(-2)), I(IntL(100))} ELSE {I(IntL(-2)), I(IntL(258))}
      [] d.k = "uint" -> IF d.size = 1 THEN {I(IntL(200))} ELSE {I(IntL(258))}
      [] d.k = "float" -> {[t |-> "f", id |-> "-2.0"]}
      [] d.k = "double" -> {[t |-> "f", id |-> "0.5"]}
      [] d.k = "char" -> {Str(<<97>>)}
      [] d.k = "zstr" -> {Str(<<97, 98>>)}
      [] d.k = "string" -> {Str(<<97, 98, 99>>)}

(* ------------------------------------------------------------------ *)
(* directed unpack cases: images that string.pack cannot produce       *)
UnpOpts == {<<"i", "9">>, <<"i", "1", "0">>, <<"i", "1", "6">>, <<"I", "9">>, <<"I", "1", "0">>, <<"I", "1", "6">>}
Lows == {IntL(0), IntL(1), IntL(-1), MaxInt, MinInt, IntL(-256)}
Exts(n) == {Rep(0, n), Rep(255, n), <<1>> \o Rep(0, n - 1), Rep(255, n - 1) \o <<0>>, Rep(0, n - 1) \o <<255>>, Rep(128, n)}
UnpInt == UNION {UNION {{[f |-> e \o o, data |-> Ord(lo \o x, e = <<"<">>)]
                         : x \in Exts(Details(o, 1).size - 8)} : lo \in Lows} : <<e, o>> \in {<<"<">>, <<">">>} \X UnpOpts}
UnpStr == {[f |-> <<"s", "1">>, data |-> <<3, 97, 98>>], [f |-> <<"s", "1">>, data |-> <<2, 97, 98, 99>>],
           [f |-> <<"z">>, data |-> <<97, 98>>], [f |-> <<"z">>, data |-> <<97, 0, 98>>], [f |-> <<"z">>, data |-> <<>>],
           [f |-> <<"<", "s", "1", "6">>, data |-> <<1>> \o Rep(0, 14) \o <<1, 97>>],
           [f |-> <<"<", "s", "1", "6">>, data |-> <<1>> \o Rep(0, 15) \o <<97>>],
           \* length prefixes far beyond the data (nothing of that size may be allocated or read)
           [f |-> <<"<", "s", "8">>, data |-> <<0, 0, 0, 0, 0, 0, 0, 64, 97>>], [f |-> <<"<", "s", "8">>, data |-> Rep(255, 8) \o <<97>>],
           [f |-> <<"<", "s", "8">>, data |-> Rep(255, 7) \o <<127, 97>>], [f |-> <<">", "s", "8">>, data |-> <<64, 0, 0, 0, 0, 0, 0, 0, 97>>],
           [f |-> <<"<", "s", "1", "6">>, data |-> <<0, 0, 0, 0, 0, 0, 0, 64>> \o Rep(0, 8) \o <<97>>],
           [f |-> <<"<", "s">>, data |-> <<0, 0, 0, 0, 0, 0, 0, 64, 97>>], [f |-> <<"<", "s", "4">>, data |-> <<0, 0, 16, 0, 97>>],
           [f |-> <<"<", "s", "2">>, data |-> <<0, 1, 97>>], [f |-> <<">", "s", "2">>, data |-> <<0, 1, 97>>],
           [f |-> <<"c", "3">>, data |-> <<97, 98>>], [f |-> <<"c", "0">>, data |-> <<>>], [f |-> <<"c", "2">>, data |-> <<0, 97, 98>>],
           [f |-> <<"b">>, data |-> <<>>], [f |-> <<"x">>, data |-> <<>>], [f |-> <<"<", "i", "3">>, data |-> <<255, 255>>],
           [f |-> <<"<", "i", "3">>, data |-> <<0, 0, 128>>], [f |-> <<">", "I", "3">>, data |-> <<128, 0, 1>>],
           [f |-> <<"<", "d">>, data |-> <<0, 0, 0, 0, 0, 0, 224>>], [f |-> <<"<", "f">>, data |-> <<0, 0, 0>>],
           [f |-> <<"!", "4", "b", "<", "i", "4">>, data |-> <<1, 9, 9, 9, 2, 0, 0, 0>>],
           [f |-> <<"!", "4", "b", "<", "i", "4">>, data |-> <<1, 9, 9, 2, 0, 0, 0>>],
           [f |-> <<"!", "4", "b", "X", "i", "4">>, data |-> <<1, 9, 9>>],
           [f |-> <<"!", "4", "b", "X", "i", "4">>, data |-> <<1, 9, 9, 9>>]}
UnpCases == UnpInt \cup {[f |-> c.f, data |-> ButLast(c.data)] : c \in UnpInt} \cup UnpStr

(* ------------------------------------------------------------------ *)
(* enumeration                                                         *)
VARIABLES toks, vals, dead, lawok
vars == <<toks, vals, dead, lawok>>

Init == toks = <<>> /\ vals = <<>> /\ dead = FALSE /\ lawok = TRUE

Step(t, vv) ==
  /\ toks' = Append(toks, t)
  /\ vals' = vals \o vv
  /\ LET c == Case(Flatten(toks'), vals') IN
     /\ dead' = ~c.pack.ok
     /\ lawok' = c.law
     /\ Emit(c)

SeqNext ==
  /\ ~dead /\ Len(toks) < MaxToks
  /\ \E t \in Alphabet :
       LET d == Details(t, 1) IN
       IF d.ok /\ d.k \in ValueKinds
       THEN Len(vals) < MaxValToks /\ \E v \in ValuesFor(d) : Step(t, <<v>>)
       ELSE Step(t, <<>>)

UnpNext ==
  /\ toks = <<>> /\ ~dead
  /\ \E c \in UnpCases :
       /\ toks' = <<c.f>> /\ vals' = <<[t |-> "s", b |-> c.data]>> /\ dead' = TRUE /\ lawok' = TRUE
       /\ Emit([f |-> c.f, data |-> c.data, unp |-> Unpack(c.f, c.data, 1)])

Next == IF Mode = "seq" THEN SeqNext ELSE UnpNext
LawHolds == lawok
=============================================================================

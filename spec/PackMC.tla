------------------------------- MODULE PackMC -------------------------------
EXTENDS Pack
(* token alphabets for the configurations; a token is a sequence of characters *)
D == <<"0", "1", "2", "3", "4", "5", "6", "7", "8", "9">>
Num(n) == IF n < 10 THEN <<D[n + 1]>> ELSE <<D[(n \div 10) + 1], D[(n % 10) + 1]>>
Ch(S) == {<<c>> : c \in S}
Sized(c, S) == {<<c>> \o Num(n) : n \in S}

Config == Ch({"<", ">", "=", "!", " "}) \cup Sized("!", {0, 1, 2, 3, 4, 8, 16, 17})
IntOpts == Ch({"b", "B", "h", "H", "l", "L", "j", "J", "T", "i", "I"}) \cup Sized("i", 0..17) \cup Sized("I", 0..17)
             \cup {<<"i", "0", "3">>}
FloatOpts == Ch({"f", "d", "n"})
StrOpts == Ch({"s", "z", "c"}) \cup Sized("s", {0, 1, 2, 4, 8, 16, 17}) \cup Sized("c", {0, 1, 2, 5})
PadOpts == Ch({"x", "X"}) \cup {<<"X">> \o t : t \in Ch({"b", "h", "d", "j"}) \cup Sized("i", {3, 4, 8, 16}) \cup Sized("I", {2})}
BadOpts == Ch({"q", "y", "1", "[", "a"})
AlphaAll == Config \cup IntOpts \cup FloatOpts \cup StrOpts \cup PadOpts \cup BadOpts

(* reduced alphabet for longer formats: every kind of option, alignment-relevant sizes *)
AlphaSeq == Ch({"<", ">", " ", "b", "j", "d", "f", "z", "x"}) \cup Sized("!", {2, 3, 4, 8})
              \cup Sized("i", {3, 4}) \cup Sized("I", {2, 16}) \cup Sized("s", {1, 4}) \cup Sized("c", {2})
              \cup {<<"X", "i", "4">>, <<"X", "h">>, <<"X", "j">>}

(* medium alphabet for three-token formats with boundary values *)
AlphaMid == Config \cup Ch({"x", "b", "B", "h", "H", "j", "J", "T", "i", "I", "f", "d", "s", "z"})
              \cup Sized("i", {1, 2, 3, 4, 7, 8, 9, 16}) \cup Sized("I", {1, 2, 3, 4, 7, 8, 9, 16})
              \cup Sized("s", {1, 2}) \cup Sized("c", {0, 2})
              \cup {<<"X", "i", "4">>, <<"X", "h">>, <<"X", "i", "3">>, <<"X", "d">>, <<"X">>}
=============================================================================

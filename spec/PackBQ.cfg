INIT Init
NEXT Next
CHECK_DEADLOCK FALSE
INVARIANT LawHolds
CONSTANTS
  Mode = "seq"
  Alphabet <- AlphaSeq
  MaxToks = 3
  MaxValToks = 3
  Boundary = FALSE

INIT Init
NEXT Next
VIEW View
CHECK_DEADLOCK FALSE
CONSTANTS
  Keys <- KeysExt
  Alias <- AliasExt
  IntVal <- IntValExt
  Travs <- AllTravs
  LenEnabled = FALSE
  MaxSteps = 2
  ViewHist = 0
  EmitAll = TRUE

INIT InitM
NEXT NextM
CHECK_DEADLOCK FALSE
CONSTANTS
  Tier = "Q"
  K = 4

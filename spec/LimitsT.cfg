SPECIFICATION Spec
CHECK_DEADLOCK FALSE
CONSTANTS
  Shapes <- AllShapes
  Sizes <- SizesT
  HugeDeep <- HugeDeepT
  HugeChain <- HugeChainT

INIT Init
NEXT Next
CHECK_DEADLOCK FALSE
CONSTANTS
  Tokens <- TokFull
  MaxTok = 2
  EmitFrom = 0
  Subjects <- SubjQ
  Univ <- UnivAll
  Bat = "full"

INIT Init
NEXT Next
CHECK_DEADLOCK FALSE
CONSTANTS
  Tokens <- TokFull
  TokensLong <- TokQ3
  MaxTok = 3
  FullUpTo = 2
  EmitFrom = 0
  Subjects <- SubjQ
  SubjectsLong <- SubjQL
  Univ <- UnivAll

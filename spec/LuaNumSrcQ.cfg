INIT InitS
NEXT NextS
CHECK_DEADLOCK FALSE
CONSTANTS
  Tier = "Q"
  K = 4

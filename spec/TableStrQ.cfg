INIT Init
NEXT Next
VIEW View
CHECK_DEADLOCK FALSE
CONSTANTS
  Keys <- KeysStr
  Alias <- AliasStr
  IntVal <- IntValStr
  Travs <- AllTravs
  LenEnabled = TRUE
  MaxSteps = 4
  ViewHist = 0
  EmitAll = TRUE

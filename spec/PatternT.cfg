INIT Init
NEXT Next
CHECK_DEADLOCK FALSE
CONSTANTS
  Tokens <- TokFull
  TokensLong <- TokFull
  MaxTok = 3
  FullUpTo = 2
  EmitFrom = 0
  Subjects <- SubjT
  SubjectsLong <- SubjTL
  Univ <- UnivAll

----------------------------- MODULE ErrPosMC -----------------------------
(* constant definitions for the ErrPos configurations *)
EXTENDS ErrPos

L0 == [inv |-> "-", hk |-> "-", act |-> "-", lvl |-> 0, imp |-> FALSE]
Plain(invs) == { [L0 EXCEPT !.inv = i] : i \in invs }
TbcErr(lvls) == { [L0 EXCEPT !.inv = "tbcerr", !.lvl = L] : L \in lvls }
(* acts: records [act, lvl, imp] *)
ErrAct(L, imp) == [act |-> "err", lvl |-> L, imp |-> imp]
OtherAct(a) == [act |-> a, lvl |-> (IF a = "cat" THEN 1 ELSE 0), imp |-> FALSE]
Catch(invs, hks, acts) ==
  { [L0 EXCEPT !.inv = i, !.act = a.act, !.lvl = a.lvl, !.imp = a.imp] : i \in invs, a \in acts }
  \cup { [L0 EXCEPT !.inv = "xpcall", !.hk = h, !.act = a.act, !.lvl = a.lvl, !.imp = a.imp] : h \in hks, a \in acts }

T0 == [kind |-> "-", val |-> "plain", lvl |-> 0, imp |-> FALSE, form |-> "direct", op |-> "-"]
ErrTerm(vals, lvls, forms) == { [T0 EXCEPT !.kind = "error", !.val = v, !.lvl = L, !.form = f] : v \in vals, L \in lvls, f \in forms }
ErrImp(vals, forms) == { [T0 EXCEPT !.kind = "error", !.val = v, !.lvl = 1, !.imp = TRUE, !.form = f] : v \in vals, f \in forms }
AssertTerm(vals) == { [T0 EXCEPT !.kind = "assert", !.val = v] : v \in vals }
RtTerm(ops) == { [T0 EXCEPT !.kind = "rt", !.op = o] : o \in ops }

StrVals == {"plain", "empty", "numstr", "cn", "cnl", "cn0", "other", "q", "q1", "colon"}
NonStr == {"int", "flt", "tbl", "nil", "true", "false"}
RtOps == {"arith", "call", "index", "compare", "concat", "len", "unm", "forinit", "lib", "method", "idiv0", "setnil",
          "bitfloat", "gometa", "strarith", "strunm"}

ActsQ == {ErrAct(1, TRUE), ErrAct(0, FALSE), ErrAct(2, FALSE), OtherAct("cat"), OtherAct("rt")}
ActsT == ActsQ \cup {ErrAct(1, FALSE), ErrAct(3, FALSE), ErrAct(9, FALSE), OtherAct("assert")}
HksQ == {"id", "new", "cat", "err"}
HksT == HksQ \cup {"tbl", "nil"}

LayersQ == Plain({"call", "tail", "tbc", "wrap"}) \cup TbcErr({0, 1, 2})
           \cup Catch({"pcall", "resume", "close"}, HksQ, ActsQ)
LayersT == Plain({"call", "tail", "tbc", "wrap"}) \cup TbcErr({0, 1, 2, 3})
           \cup Catch({"pcall", "resume", "close"}, HksT, ActsT)
(* deeper chains: the routes, with the re-raising acts that add a position *)
LayersDeepQ == Plain({"call", "wrap"}) \cup TbcErr({1})
           \cup Catch({"pcall", "resume"}, {"id", "cat"}, {ErrAct(1, TRUE), ErrAct(2, FALSE)})

(* ---- quick ---- *)
TermsQ0 == ErrImp(StrVals \cup NonStr, {"direct", "meta"}) \cup ErrTerm(StrVals \cup {"int", "tbl", "nil"}, {0, 1, 2, 3}, {"direct"})
          \cup ErrTerm({"plain", "cn"}, {1, 2, 3}, {"inner", "meta", "iter"})
          \cup AssertTerm(StrVals \cup NonStr) \cup RtTerm(RtOps)
TermsQ1 == ErrImp(StrVals \cup NonStr, {"direct"}) \cup ErrTerm({"plain", "cn", "int"}, {0, 2, 3}, {"direct"})
          \cup ErrTerm({"plain"}, {2, 3}, {"inner", "meta", "iter"}) \cup ErrTerm({"cnl", "numstr", "tbl", "nil"}, {2}, {"direct"})
          \cup AssertTerm({"plain", "int"}) \cup RtTerm({"arith", "index", "lib", "strarith"})
TermsQ2 == ErrImp({"plain", "cn", "int"}, {"direct"}) \cup ErrTerm({"plain"}, {3}, {"direct"}) \cup RtTerm({"arith"})
PatsQ1 == { <<0>>, <<1>>, <<2>>, <<3>>, <<4>>, <<5>>, <<6>> }
PatsQ2 == { <<0, 0>>, <<1, 1>>, <<3, 3>>, <<0, 1>>, <<1, 0>>, <<2, 4>>, <<6, 5>> }
PatsQ3 == { <<0, 0, 0>>, <<1, 1, 1>>, <<6, 5, 0>> }
LayersByQ == <<LayersQ, LayersDeepQ>>
TermsByQ == <<TermsQ0, TermsQ1, TermsQ2>>
PatsByQ == <<PatsQ1, PatsQ2, PatsQ3>>
(* ---- thorough ---- *)
LayersT2 == (Plain({"call", "tail", "tbc", "wrap"}) \cup TbcErr({1, 2})
           \cup Catch({"pcall", "resume", "close"}, {"id", "cat"}, {ErrAct(1, TRUE), ErrAct(2, FALSE), ErrAct(3, FALSE)}))
           \ { [L0 EXCEPT !.inv = "close", !.act = "err", !.lvl = 3] }
LayersT3 == (Plain({"call", "wrap"}) \cup TbcErr({1}) \cup Catch({"pcall", "resume"}, {"id"}, {ErrAct(1, TRUE), ErrAct(2, FALSE)}))
           \ { [L0 EXCEPT !.inv = "resume", !.act = "err", !.lvl = 2] }
TermsT0 == ErrImp(StrVals \cup NonStr, {"direct", "inner", "meta", "iter"})
          \cup ErrTerm(StrVals \cup NonStr, {0, 1, 2, 3, 4, 9}, {"direct"})
          \cup ErrTerm({"plain", "cn", "cnl", "int"}, {0, 1, 2, 3, 4}, {"inner", "meta", "iter"})
          \cup AssertTerm(StrVals \cup NonStr) \cup RtTerm(RtOps)
TermsT1 == ErrImp(StrVals \cup NonStr, {"direct"}) \cup ErrTerm(StrVals \cup {"int", "tbl", "nil"}, {0, 2, 3, 4}, {"direct"})
          \cup ErrTerm({"plain", "cn"}, {1, 2, 3, 4}, {"inner", "meta", "iter"})
          \cup AssertTerm({"plain", "cn", "int", "nil"}) \cup RtTerm(RtOps)
TermsT2 == ErrImp({"plain", "cn", "cnl", "other", "numstr", "int", "tbl"}, {"direct"})
          \cup ErrTerm({"plain", "cn"}, {2, 3, 4}, {"direct"}) \cup AssertTerm({"plain"}) \cup RtTerm({"arith", "lib"})
TermsT3 == ErrImp({"plain", "cn", "int"}, {"direct"}) \cup ErrTerm({"plain"}, {4}, {"direct"}) \cup RtTerm({"arith"})
PatsT2 == { <<0, 0>>, <<1, 1>>, <<2, 2>>, <<3, 3>>, <<4, 4>>, <<6, 6>>, <<0, 1>>, <<1, 0>>, <<2, 4>>, <<6, 5>> }
PatsT3 == { <<0, 0, 0>>, <<1, 1, 1>>, <<3, 0, 3>>, <<6, 5, 0>> }
PatsT4 == { <<0, 0, 0, 0>>, <<4, 0, 3, 1>> }
LayersByT == <<LayersT, LayersT2, LayersT3>>
TermsByT == <<TermsT0, TermsT1, TermsT2, TermsT3>>
PatsByT == <<PatsQ1, PatsT2, PatsT3, PatsT4>>
(* ---- simulation: long chains ---- *)
TermsS == ErrImp({"plain", "cn", "cnl", "numstr", "int", "tbl"}, {"direct"}) \cup ErrTerm({"plain", "cn"}, {0, 2, 3, 4}, {"direct"})
          \cup ErrTerm({"plain"}, {2, 3}, {"meta"}) \cup AssertTerm({"plain"}) \cup RtTerm({"arith", "lib", "index"})
PatsS == { <<0, 0, 0, 0, 0, 0, 0>>, <<1, 1, 1, 1, 1, 1, 1>>, <<3, 3, 3, 3, 3, 3, 3>>, <<0, 1, 0, 1, 0, 1, 0>>, <<1, 0, 2, 0, 3, 0, 4>>,
           <<2, 4, 5, 6, 1, 3, 0>>, <<5, 0, 3, 0, 5, 5, 3>>, <<6, 5, 4, 3, 2, 1, 0>>, <<0, 0, 1, 1, 2, 2, 3>> }
LayersByS == <<LayersT, LayersT, LayersT, LayersT, LayersT, LayersT>>
TermsByS == <<TermsS, TermsS, TermsS, TermsS, TermsS, TermsS, TermsS>>
PatsByS == [k \in 1..7 |-> { SubSeq(q, 1, k) : q \in PatsS }]
=============================================================================

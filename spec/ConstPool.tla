----------------------------- MODULE ConstPool ------------------------------
(***************************************************************************)
(* C12 / C01: the denotation of a literal does not depend on the other     *)
(* literals of the chunk.  Literals that differ only in type or in the     *)
(* sign of zero (0, 0.0, -0.0, 1, 1.0, "1", 2^53 as integer and as float,  *)
(* true ...) are the ones a constant table can conflate.  Every sequence   *)
(* of up to MaxLen such literals is one chunk, once in the main function   *)
(* and once split over nested functions; each literal is observed by its   *)
(* (sub)type, by the sign of its zero and by equality with an integer.     *)
(***************************************************************************)
EXTENDS Integers, Sequences, TLC, Json

CONSTANTS MaxLen
VARIABLE done
Emit(v) == PrintT(<<"@@", ToJson(v)>>)

(* literal text |-> what the program must observe: type, "z" sign of zero ("pos", "neg", "nz" = not zero), integral value *)
Lits == << [txt |-> "0",     t |-> "integer", z |-> "pos", v |-> 0],
           [txt |-> "0.0",   t |-> "float",   z |-> "pos", v |-> 0],
           [txt |-> "-0.0",  t |-> "float",   z |-> "neg", v |-> 0],
           [txt |-> "-0",    t |-> "integer", z |-> "pos", v |-> 0],
           [txt |-> "0x0p0", t |-> "float",   z |-> "pos", v |-> 0],
           [txt |-> "-0e0",  t |-> "float",   z |-> "neg", v |-> 0],
           [txt |-> "1",     t |-> "integer", z |-> "nz",  v |-> 1],
           [txt |-> "1.0",   t |-> "float",   z |-> "nz",  v |-> 1],
           [txt |-> "\"1\"", t |-> "string",  z |-> "nz",  v |-> 1],
           [txt |-> "-1",    t |-> "integer", z |-> "nz",  v |-> -1],
           [txt |-> "-1.0",  t |-> "float",   z |-> "nz",  v |-> -1],
           [txt |-> "true",  t |-> "boolean", z |-> "nz",  v |-> 1],
           [txt |-> "3",     t |-> "integer", z |-> "nz",  v |-> 3],
           [txt |-> "3.0",   t |-> "float",   z |-> "nz",  v |-> 3],
           [txt |-> "0x3",   t |-> "integer", z |-> "nz",  v |-> 3],
           [txt |-> "3e0",   t |-> "float",   z |-> "nz",  v |-> 3] >>
N == Len(Lits)
Seqs == UNION {[1..k -> 1..N] : k \in 2..MaxLen}
(* only sequences that contain two different literals denoting values that are == or both zeros: the interesting ones *)
Related(i, j) == i # j /\ Lits[i].v = Lits[j].v
Interesting(s) == \E a, b \in DOMAIN s : a < b /\ Related(s[a], s[b])

Init == done = FALSE
Next == /\ ~done /\ done' = TRUE
        /\ \A s \in {q \in Seqs : Interesting(q)} :
             Emit([fam |-> "constpool", lits |-> [i \in DOMAIN s |-> Lits[s[i]].txt],
                   exp |-> [i \in DOMAIN s |-> <<Lits[s[i]].t, Lits[s[i]].z, Lits[s[i]].v>>]])
Spec == Init /\ [][Next]_done
=============================================================================

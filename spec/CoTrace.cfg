SPECIFICATION Spec
INVARIANT OneRunner
POSTCONDITION Accepted
CHECK_DEADLOCK FALSE

SPECIFICATION Spec
INVARIANT OneRunner
CONSTRAINT MarkC
POSTCONDITION Accepted
CHECK_DEADLOCK FALSE

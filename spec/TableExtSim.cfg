INIT Init
NEXT Next
CHECK_DEADLOCK FALSE
CONSTANTS
  Keys <- KeysExt
  Alias <- AliasExt
  IntVal <- IntValExt
  Travs <- AllTravs
  LenEnabled = FALSE
  MaxSteps = 30
  ViewHist = 0
  EmitAll = FALSE

------------------------------- MODULE Quote -------------------------------
(***************************************************************************)
(* string.format("%q", v) (Lua 5.4 manual 6.4.1) as a ROUND TRIP through   *)
(* the Lua lexer (manual 3.1).  Texts and strings are sequences of bytes.  *)
(*   Quote(s)     one way of writing the byte string s as a literal        *)
(*   Denote(text) the string a double- or single-quoted literal denotes    *)
(*   QuoteInt / NumDenote  the same for integer numerals                   *)
(* Law checked by TLC on the spec: Denote(Quote(s)) = s.  The real         *)
(* implementation may quote differently: its observed output is fed back   *)
(* (Mode = "obs") and must satisfy Denote(observed) = s.                    *)
(* Mode = "num" also supplies the number lattice for the                    *)
(* tonumber(tostring(n)) == n law, which is checked on the real code only. *)
(* Decides the %q part of C17.                                              *)
(***************************************************************************)
EXTENDS Integers, Sequences, FiniteSets, TLC, Json, Limbs

CONSTANTS Mode,      \* "str" | "num" | "obs"
          Bytes,     \* byte alphabet of the strings
          MaxLen,    \* maximal string length
          ObsFile    \* Mode = "obs": ndjson file with records [k, s, q] (kind, value, observed text)

Emit(v) == PrintT(<<"@@", ToJson(v)>>)

(* character codes *)
DQ == 34  SQ == 39  BS == 92  NL == 10  CR == 13
IsDigit(c) == c \in 48..57
IsHex(c) == c \in 48..57 \/ c \in 65..70 \/ c \in 97..102
HexVal(c) == IF c \in 48..57 THEN c - 48 ELSE IF c \in 65..70 THEN c - 55 ELSE c - 87
IsCntrl(c) == c < 32 \/ c = 127            \* iscntrl in the C locale
IsSpace(c) == c \in {32, 9, 10, 11, 12, 13}
Dec3(n) == <<48 + (n \div 100), 48 + ((n \div 10) % 10), 48 + (n % 10)>>
DecMin(n) == IF n >= 100 THEN Dec3(n) ELSE IF n >= 10 THEN <<48 + (n \div 10), 48 + (n % 10)>> ELSE <<48 + n>>

(* ------------------------------------------------------------------ *)
(* %q of a string: between double quotes; double quote, backslash and newline are escaped with a backslash; control
   characters are written \ddd, with three digits when a digit follows; all other bytes are copied *)
RECURSIVE QuoteFrom(_, _)
QuoteFrom(s, i) ==
  IF i > Len(s) THEN <<DQ>>
  ELSE LET c == s[i]
           piece == IF c \in {DQ, BS, NL} THEN <<BS, c>>
                    ELSE IF IsCntrl(c) THEN (IF i < Len(s) /\ IsDigit(s[i + 1]) THEN <<BS>> \o Dec3(c) ELSE <<BS>> \o DecMin(c))
                    ELSE <<c>>
       IN piece \o QuoteFrom(s, i + 1)
Quote(s) == <<DQ>> \o QuoteFrom(s, 1)

(* ------------------------------------------------------------------ *)
(* the lexer on a short literal string (manual 3.1) *)
(* a text that is not a literal; `why` and `ch` label the report only *)
B(why, ch) == [ok |-> FALSE, s |-> <<>>, why |-> why, ch |-> ch]
Utf8(cp) ==   \* the UTF-8 encoding Lua uses for \u{XXX}, XXX < 2^31
  IF cp < 128 THEN <<cp>>
  ELSE IF cp < 2048 THEN <<192 + (cp \div 64), 128 + (cp % 64)>>
  ELSE IF cp < 65536 THEN <<224 + (cp \div 4096), 128 + ((cp \div 64) % 64), 128 + (cp % 64)>>
  ELSE IF cp < 2097152 THEN <<240 + (cp \div 262144), 128 + ((cp \div 4096) % 64), 128 + ((cp \div 64) % 64), 128 + (cp % 64)>>
  ELSE IF cp < 67108864 THEN <<248 + (cp \div 16777216), 128 + ((cp \div 262144) % 64), 128 + ((cp \div 4096) % 64),
                               128 + ((cp \div 64) % 64), 128 + (cp % 64)>>
  ELSE <<252 + (cp \div 1073741824), 128 + ((cp \div 16777216) % 64), 128 + ((cp \div 262144) % 64), 128 + ((cp \div 4096) % 64),
         128 + ((cp \div 64) % 64), 128 + (cp % 64)>>

RECURSIVE SkipSpace(_, _)
SkipSpace(t, i) == IF i <= Len(t) /\ IsSpace(t[i]) THEN SkipSpace(t, i + 1) ELSE i
(* \u{XXX}: i is at the first hex digit; returns [ok, cp, nxt] with nxt after the closing brace *)
RECURSIVE HexRun(_, _, _, _)
HexRun(t, i, acc, n) ==
  IF i <= Len(t) /\ IsHex(t[i])
  THEN (IF acc >= 134217728 THEN [ok |-> FALSE, cp |-> 0, nxt |-> i]     \* would exceed 2^31
        ELSE HexRun(t, i + 1, (acc * 16) + HexVal(t[i]), n + 1))
  ELSE [ok |-> n > 0 /\ i <= Len(t) /\ t[i] = 125, cp |-> acc, nxt |-> i + 1]

RECURSIVE DenoteFrom(_, _, _, _)
DenoteFrom(t, i, q, acc) ==
  IF i > Len(t) THEN B("unfinished", 0)                                         \* unfinished string
  ELSE
  LET c == t[i] IN
  IF c = q THEN (IF i = Len(t) THEN [ok |-> TRUE, s |-> acc] ELSE B("trailing", t[i + 1]))   \* the literal must be the whole text
  ELSE IF c \in {NL, CR} THEN B("rawnewline", c)                                \* unescaped line break
  ELSE IF c # BS THEN DenoteFrom(t, i + 1, q, Append(acc, c))
  ELSE IF i = Len(t) THEN B("unfinished", 0)
  ELSE
  LET e == t[i + 1]
      one(b) == DenoteFrom(t, i + 2, q, Append(acc, b))
  IN CASE e = 97 -> one(7) [] e = 98 -> one(8) [] e = 102 -> one(12) [] e = 110 -> one(10) [] e = 114 -> one(13)
       [] e = 116 -> one(9) [] e = 118 -> one(11) [] e = BS -> one(BS) [] e = DQ -> one(DQ) [] e = SQ -> one(SQ)
       [] e \in {NL, CR} ->      \* backslash-newline is a newline; \r\n and \n\r count as one line break
            LET pair == i + 2 <= Len(t) /\ t[i + 2] \in {NL, CR} /\ t[i + 2] # e
            IN DenoteFrom(t, IF pair THEN i + 3 ELSE i + 2, q, Append(acc, NL))
       [] e = 120 ->             \* \xXX: exactly two hexadecimal digits
            IF i + 3 <= Len(t) /\ IsHex(t[i + 2]) /\ IsHex(t[i + 3])
            THEN DenoteFrom(t, i + 4, q, Append(acc, (HexVal(t[i + 2]) * 16) + HexVal(t[i + 3]))) ELSE B("escape", e)
       [] e = 122 -> DenoteFrom(t, SkipSpace(t, i + 2), q, acc)       \* \z skips the following white space
       [] IsDigit(e) ->          \* \ddd: up to three decimal digits
            LET n1 == e - 48
                has2 == i + 2 <= Len(t) /\ IsDigit(t[i + 2])
                n2 == IF has2 THEN (n1 * 10) + t[i + 2] - 48 ELSE n1
                has3 == has2 /\ i + 3 <= Len(t) /\ IsDigit(t[i + 3])
                n3 == IF has3 THEN (n2 * 10) + t[i + 3] - 48 ELSE n2
            IN IF n3 > 255 THEN B("escape", e) ELSE DenoteFrom(t, i + 2 + (IF has2 THEN 1 ELSE 0) + (IF has3 THEN 1 ELSE 0), q, Append(acc, n3))
       [] e = 117 ->             \* \u{XXX}
            IF i + 2 <= Len(t) /\ t[i + 2] = 123
            THEN LET r == HexRun(t, i + 3, 0, 0) IN IF r.ok THEN DenoteFrom(t, r.nxt, q, acc \o Utf8(r.cp)) ELSE B("escape", e)
            ELSE B("escape", e)
       [] OTHER -> B("escape", e)           \* invalid escape sequence
Denote(t) == IF Len(t) >= 2 /\ t[1] \in {DQ, SQ} THEN DenoteFrom(t, 2, t[1], <<>>) ELSE B("noquote", 0)

(* ------------------------------------------------------------------ *)
(* integer numerals *)
DigitText(ds) == [i \in 1..Len(ds) |-> IF ds[i] < 10 THEN 48 + ds[i] ELSE 87 + ds[i]]
(* %q of an integer: decimal; mininteger is written in hexadecimal since -9223372036854775808 would be read as a float *)
QuoteInt(l) == IF l = MinInt THEN <<48, 120>> \o DigitText(Digits(l, 16))
               ELSE (IF IsNeg(l) THEN <<45>> ELSE <<>>) \o DigitText(Digits(Mag(l), 10))

RECURSIVE AccNum(_, _, _, _, _)
AccNum(t, i, base, l, ovf) ==     \* the digits t[i..] in the given base as an unsigned 64-bit number
  IF i > Len(t) THEN [l |-> l, ovf |-> ovf]
  ELSE LET r == MulAdd(l, base, HexVal(t[i])) IN AccNum(t, i + 1, base, r.l, ovf \/ r.ovf)
(* "A numeric constant with a radix point or an exponent denotes a float; otherwise, if its value fits in an integer or
   it is a hexadecimal constant, it denotes an integer [hexadecimal wraps around]; otherwise it denotes a float."
   A leading minus is the unary operator applied to the constant.  kind = "other": the text is not a plain numeral. *)
NumDenote(t) ==
  LET neg == Len(t) >= 1 /\ t[1] = 45
      b == IF neg THEN Tail(t) ELSE t
      ishex == Len(b) >= 2 /\ b[1] = 48 /\ b[2] \in {120, 88}
      body == IF ishex THEN SubSeq(b, 3, Len(b)) ELSE b
      digs == \A i \in 1..Len(body) : IF ishex THEN IsHex(body[i]) ELSE IsDigit(body[i])
      floaty == \A i \in 1..Len(body) : IF ishex THEN IsHex(body[i]) \/ body[i] \in {46, 112, 80, 43, 45}
                                                 ELSE IsDigit(body[i]) \/ body[i] \in {46, 101, 69, 43, 45}
  IN IF body = <<>> THEN [kind |-> "other"]
     ELSE IF digs THEN
       LET r == AccNum(body, 1, IF ishex THEN 16 ELSE 10, Zero8, FALSE) IN
       IF ishex THEN [kind |-> "int", l |-> IF neg THEN Neg(r.l) ELSE r.l]
       ELSE IF r.ovf \/ IsNeg(r.l) THEN [kind |-> "float"]               \* a decimal numeral that overflows
       ELSE [kind |-> "int", l |-> IF neg THEN Neg(r.l) ELSE r.l]
     ELSE IF floaty /\ (IsDigit(body[1]) \/ body[1] = 46) THEN [kind |-> "float"]
     ELSE [kind |-> "other"]

(* ------------------------------------------------------------------ *)
(* the number lattice: boundary integers and float expressions (Lua source text) *)
SizeBounds(n) == {Dec(Pow2(8 * n - 1)), Pow2(8 * n - 1), Neg(Pow2(8 * n - 1)), Dec(Neg(Pow2(8 * n - 1))), Dec(Pow2(8 * n)), Pow2(8 * n)}
LatInts == {IntL(0), IntL(1), IntL(-1), IntL(7), IntL(-10), IntL(100), IntL(1000000), MaxInt, MinInt, Inc(MinInt), Dec(MaxInt)}
             \cup UNION {SizeBounds(n) : n \in {1, 2, 4, 7}} \cup {Pow2(53), Inc(Pow2(53)), Pow2(62), Neg(Pow2(62))}
(* floats for %q: every class named by the property; finite ones also serve the tostring law *)
LatFloats == {"1.5", "-0.0", "0.0", "1e100", "2.0", "-3.0", "0.1", "1/3", "2^53", "2^63", "-(2^63)", "1e15", "1e16", "1e21",
              "123456789012345.0", "5e-324", "2.2250738585072014e-308", "1.7976931348623157e308", "-1e-7", "100.0",
              "0.30000000000000004", "6.02214076e23", "2^-1074", "2^1023", "3.141592653589793", "1e-5", "255.0", "-1.5e300"}
NonFinite == {"math.huge", "-math.huge", "0/0"}

(* ------------------------------------------------------------------ *)
(* enumeration *)
VARIABLES phase, c, lawok
vars == <<phase, c, lawok>>

Strings(n) == UNION {[1..k -> Bytes] : k \in 0..n}

Obs == IF Mode = "obs" THEN ndJsonDeserialize(ObsFile) ELSE <<>>

Init == phase = "start" /\ c = <<>> /\ lawok = TRUE

StrNext ==
  \E h \in Bytes \cup {-1} :      \* two levels so that several workers share the enumeration
    \E s \in (IF h = -1 THEN {<<>>} ELSE {<<h>> \o r : r \in Strings(MaxLen - 1)}) :
      LET q == Quote(s)
          d == Denote(q)
      IN /\ c' = <<"s", s>>
         /\ lawok' = (d.ok /\ d.s = s)
         /\ Emit([k |-> "str", s |-> s, q |-> q])

NumNext ==
  \/ \E l \in LatInts :
       LET q == QuoteInt(l)
           d == NumDenote(q)
       IN /\ c' = <<"i", l>>
          /\ lawok' = (d.kind = "int" /\ d.l = l)
          /\ Emit([k |-> "int", l |-> l, q |-> q])
  \/ \E e \in LatFloats \cup NonFinite :
       /\ c' = <<"f", e>> /\ lawok' = TRUE
       /\ Emit([k |-> "float", e |-> e, finite |-> e \in LatFloats])

(* second pass: the texts the real string.format produced *)
ObsNext ==
  \E i \in 1..Len(Obs) :
    LET o == Obs[i] IN
    /\ c' = <<"o", i>> /\ lawok' = TRUE
    /\ Emit([i |-> i,
             good |-> CASE o.k = "str" -> LET d == Denote(o.q) IN d.ok /\ d.s = o.s
                        [] o.k = "int" -> LET d == NumDenote(o.q) IN d.kind = "int" /\ d.l = o.l
                        [] o.k = "float" -> NumDenote(o.q).kind # "int",
             den |-> CASE o.k = "str" -> Denote(o.q) [] OTHER -> NumDenote(o.q)])

Next == /\ phase = "start" /\ phase' = "done"
        /\ CASE Mode = "str" -> StrNext [] Mode = "num" -> NumNext [] Mode = "obs" -> ObsNext
LawHolds == lawok
=============================================================================

SPECIFICATION GSpec
CHECK_DEADLOCK FALSE
CONSTANTS
  MaxVals = 6
  MaxSteps = 16
  MaxDepth = 2
  EmitAll = FALSE
  CrossRemark = TRUE

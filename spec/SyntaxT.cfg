INIT Init
NEXT Next
CHECK_DEADLOCK FALSE
INVARIANTS OracleOK
CONSTANTS
  MaxOps = 3
  Fams = {"F2", "FM", "multi", "forms"}
  Valuations <- ValT
  MaxList = 3
  SimFam = "FM"

------------------------------ MODULE LuaNumSrc ------------------------------
(***************************************************************************)
(* C02, family "srcnum": numerals WRITTEN IN THE PROGRAM TEXT.             *)
(*                                                                         *)
(* Manual 3.1: "A numeric constant with a radix point or an exponent       *)
(* denotes a float; otherwise, if its value fits in an integer or it is a  *)
(* hexadecimal constant, it denotes an integer; otherwise (that is, a      *)
(* decimal integer numeral that overflows), it denotes a float.            *)
(* Hexadecimal numerals with neither a radix point nor an exponent always  *)
(* denote an integer value; if the value overflows, it wraps around to fit *)
(* into a valid integer."  A numeral has no sign: -32768 is the unary      *)
(* minus applied to the numeral 32768 (so -9223372036854775808 is a float).*)
(*                                                                         *)
(* For every natural n = 2^k + d (k in 0..64, d in Deltas: all powers of   *)
(* two and their neighbours, which includes every boundary of an 8, 16,    *)
(* 24, 32, 53, 63, 64 bit signed or unsigned encoding) the module builds   *)
(*   - the spellings of n (decimal, leading zeros, hexadecimal in both     *)
(*     cases, float forms with radix point / decimal exponent / binary     *)
(*     exponent, power-of-two hex floats),                                 *)
(*   - expressions over such numerals (negations -N, - N, -(N), - -N;      *)
(*     constant expressions (n-1)+1, (n+1)-1, 1<<k, 2*(n/2), ~N, N<N+1 ..),*)
(*   - and places each expression in a list of syntactic positions         *)
(*     (contexts: operand of arithmetic / bitwise / relational operators,  *)
(*     conditional jump, table constructor item / key / field, index,      *)
(*     call argument, vararg, local, <const> local, upvalue, nested        *)
(*     function, start / limit / step of a numeric for).                   *)
(* The value of a numeral is computed twice: from n directly (Direct) and  *)
(* from its text with the numeral grammar Str2Num of LuaNum; TLC asserts   *)
(* that they agree.  The expected result of every (expression, context) is *)
(* computed with the operators of LuaNum / NumFor and emitted; nothing is  *)
(* evaluated outside this module.                                          *)
(*                                                                         *)
(* Text is a tuple of string pieces (numerals are built from one-character *)
(* pieces); the piece "@" in a context template stands for the expression  *)
(* (in parentheses unless it is an atom).                                  *)
(***************************************************************************)
EXTENDS NumFor

W == 9                                    \* limbs of the naturals n (2^64 + 2 needs 9)
N1 == FromNat(1, W)
Deltas == IF Tier = "Q" THEN {-1, 0, 1} ELSE {-2, -1, 0, 1, 2}
KMax == 64
KS == 3                                   \* iterations observed in the for-loop contexts

ValidKD(k, d) == d >= 0 \/ (d = -1) \/ (d = -2 /\ k >= 1)          \* 2^k + d >= 0
NatOf(k, d) == IF d >= 0 THEN Add(Pow2(k, W), FromNat(d, W)) ELSE Sub(Pow2(k, W), FromNat(-d, W))

(* ------------------------------------------------------------------------ *)
(* spelling                                                                 *)
DigitCh(d) == <<"0", "1", "2", "3", "4", "5", "6", "7", "8", "9">>[d + 1]
HexCh(d, up) == IF d < 10 THEN DigitCh(d)
                ELSE IF up THEN <<"A", "B", "C", "D", "E", "F">>[d - 9] ELSE <<"a", "b", "c", "d", "e", "f">>[d - 9]
RECURSIVE DecAcc(_, _)
DecAcc(x, acc) == IF IsZero(x) THEN acc ELSE LET qr == DivSmall(x, 10) IN DecAcc(qr[1], <<DigitCh(qr[2])>> \o acc)
Dec(x) == IF IsZero(x) THEN <<"0">> ELSE DecAcc(x, <<>>)
DecNat(k) == Dec(FromNat(k, W))           \* native k >= 0
RECURSIVE HexAcc(_, _, _, _)
HexAcc(x, i, up, acc) ==
  IF i = 0 THEN acc
  ELSE LET hi == x[i] \div 16
           lo == x[i] % 16
           a1 == IF acc = <<>> /\ hi = 0 THEN acc ELSE Append(acc, HexCh(hi, up))
           a2 == IF a1 = <<>> /\ lo = 0 THEN a1 ELSE Append(a1, HexCh(lo, up))
       IN HexAcc(x, i - 1, up, a2)
Hex(x, up) == LET h == HexAcc(x, Len(x), up, <<>>) IN IF h = <<>> THEN <<"0">> ELSE h

IntDecForms == {"dec", "dec00"}
IntHexForms == {"hex", "HEX0"}
FormsAll == <<"dec", "dec00", "hex", "HEX0", "dec.0", "dec.", "dece0", "sci", "dec0e-1", "hexp0", "hex.0", "HEX0P-4">>
FormsPow == <<"0x1pK", "0x.8p+K1", "0x8pK-3">>          \* only for n = 2^k

Spell(n, k, f) ==
  CASE f = "dec" -> Dec(n)
    [] f = "dec00" -> <<"0", "0">> \o Dec(n)
    [] f = "hex" -> <<"0", "x">> \o Hex(n, FALSE)
    [] f = "HEX0" -> <<"0", "X", "0">> \o Hex(n, TRUE)
    [] f = "dec.0" -> Dec(n) \o <<".", "0">>
    [] f = "dec." -> Dec(n) \o <<".">>
    [] f = "dece0" -> Dec(n) \o <<"e", "0">>
    [] f = "sci" -> LET D == Dec(n) IN <<D[1], ".">> \o SubSeq(D, 2, Len(D)) \o <<"E", "+">> \o DecNat(Len(D) - 1)
    [] f = "dec0e-1" -> Dec(n) \o <<"0", "e", "-", "1">>
    [] f = "hexp0" -> <<"0", "x">> \o Hex(n, FALSE) \o <<"p", "0">>
    [] f = "hex.0" -> <<"0", "x">> \o Hex(n, FALSE) \o <<".", "0">>
    [] f = "HEX0P-4" -> <<"0", "X">> \o Hex(n, TRUE) \o <<"0", "P", "-", "4">>
    [] f = "0x1pK" -> <<"0", "x", "1", "p">> \o DecNat(k)
    [] f = "0x.8p+K1" -> <<"0", "x", ".", "8", "p", "+">> \o DecNat(k + 1)
    [] f = "0x8pK-3" -> <<"0", "x", "8", "p">> \o (IF k >= 3 THEN DecNat(k - 3) ELSE <<"-">> \o DecNat(3 - k))

(* ------------------------------------------------------------------------ *)
(* the value a numeral for the natural n denotes, from n itself             *)
NatFAlts(n) == \* n as a float: exact, or the two neighbouring doubles
  LET L == BitLen(n)
      tz == TrailingZeros(n)
  IN IF L = 0 THEN <<VF(FZero(FALSE))>>
     ELSE IF L - tz <= 53 THEN <<VF(RoundF(FALSE, n, 0))>>
     ELSE LET dd == L - 53
              q == Shr(n, dd)
          IN <<VF(RoundF(FALSE, q, dd)), VF(RoundF(FALSE, Add(q, N1), dd))>>
Low8(n) == SubSeq(n, 1, 8)
Direct(n, f) ==
  IF f \in IntHexForms THEN R1(VI(Low8(n)))                           \* wraps around modulo 2^64
  ELSE IF f \in IntDecForms /\ BitLen(n) <= 63 THEN R1(VI(Low8(n)))   \* fits in an integer
  ELSE RAlts(NatFAlts(n))                                             \* float numeral, or overflowing decimal integer
(* the grammar-directed evaluation agrees *)
NumeralLawSrc(n, f, s) ==
  LET v == Str2Num(s)
      dr == Direct(n, f)
  IN Assert(IF v.k = "fk" THEN dr.a[1].k = "f" ELSE Len(dr.a) = 1 /\ dr.a[1] = v, <<"numeral text vs value", s, v, dr>>)

(* ------------------------------------------------------------------------ *)
(* results and lifting                                                      *)
Det(r) == r.k = "alts" /\ Len(r.a) = 1 /\ r.a[1].k \in {"i", "f", "b", "s", "nil"}
L1(Op(_), r) == IF r.k = "err" THEN RErr ELSE IF ~Det(r) THEN RSkip ELSE Op(r.a[1])
L2(Op(_, _), ra, rb) == IF ra.k = "err" \/ rb.k = "err" THEN RErr ELSE IF ~Det(ra) \/ ~Det(rb) THEN RSkip ELSE Op(ra.a[1], rb.a[1])
Op2(op, a, b) ==
  IF op \in {"add", "sub", "mul", "div", "idiv", "mod", "pow"} THEN Arith(op, a, b)
  ELSE IF op \in {"band", "bor", "bxor", "shl", "shr"} THEN Bitwise(op, a, b)
  ELSE IF op = "ult" THEN MathUlt(a, b)
  ELSE Rel(op, a, b)
RBin(op, ra, rb) == L2(LAMBDA a, b : Op2(op, a, b), ra, rb)
RUnm(r) == L1(Unm, r)
RBnot(r) == L1(Bnot, r)
VInt(k) == VI(I(k))
RInt(k) == R1(VInt(k))

(* expressions: text, result, atom (can stand without parentheses in every context), label *)
Ex(s, r, atom, f) == [s |-> s, r |-> r, atom |-> atom, f |-> f]
Leaf(n, k, f) == Ex(Spell(n, k, f), Direct(n, f), TRUE, f)
Small(j) == Ex(DecNat(j), RInt(j), TRUE, "small")                      \* the numeral of a small natural
EBin(op, a, txt, b, f) == Ex(a.s \o <<txt>> \o b.s, RBin(op, a.r, b.r), FALSE, f)
Par(a) == Ex(<<"(">> \o a.s \o <<")">>, a.r, TRUE, a.f)

LeafExprs(n, k, d) ==
  [i \in 1..(Len(FormsAll) + (IF d = 0 THEN Len(FormsPow) ELSE 0)) |->
     Leaf(n, k, IF i <= Len(FormsAll) THEN FormsAll[i] ELSE FormsPow[i - Len(FormsAll)])]

NegExprs(n, k) ==
  LET dec == Leaf(n, k, "dec")
      hex == Leaf(n, k, "hex")
      flt == Leaf(n, k, "dec.0")
      hxf == Leaf(n, k, "hexp0")
      d00 == Leaf(n, k, "dec00")
  IN << Ex(<<"-">> \o dec.s, RUnm(dec.r), TRUE, "-dec"),
        Ex(<<"- ">> \o dec.s, RUnm(dec.r), TRUE, "- dec"),
        Ex(<<"-(">> \o dec.s \o <<")">>, RUnm(dec.r), TRUE, "-(dec)"),
        Ex(<<"- -">> \o dec.s, RUnm(RUnm(dec.r)), TRUE, "- -dec"),
        Ex(<<"-">> \o d00.s, RUnm(d00.r), TRUE, "-dec00"),
        Ex(<<"-">> \o hex.s, RUnm(hex.r), TRUE, "-hex"),
        Ex(<<"- ">> \o hex.s, RUnm(hex.r), TRUE, "- hex"),
        Ex(<<"-">> \o flt.s, RUnm(flt.r), TRUE, "-dec.0"),
        Ex(<<"-">> \o hxf.s, RUnm(hxf.r), TRUE, "-hexp0") >>

(* constant expressions: what a folding compiler would evaluate at compile time *)
FoldExprs(n, k, d) ==
  LET dec == Leaf(n, k, "dec")
      hex == Leaf(n, k, "hex")
      flt == Leaf(n, k, "dec.0")
      up == Leaf(Add(n, N1), k, "dec")
      upf == Leaf(Add(n, N1), k, "dec.0")
      uphex == Leaf(Add(n, N1), k, "hex")
      one == Small(1)
      zero == Small(0)
      ndec == Ex(<<"-">> \o dec.s, RUnm(dec.r), TRUE, "-dec")
      nup == Ex(<<"-">> \o up.s, RUnm(up.r), TRUE, "-dec")
      common ==
        << EBin("sub", up, "-", one, "(n+1)-1"),
           EBin("sub", up, " - ", one, "(n+1) - 1"),
           EBin("sub", uphex, "-", one, "hex(n+1)-1"),
           EBin("sub", ndec, "-", one, "-n-1"),
           EBin("add", nup, "+", one, "-(n+1)+1"),
           EBin("mul", dec, "*", one, "n*1"),
           EBin("idiv", dec, "//", one, "n//1"),
           EBin("bor", dec, "|", zero, "n|0"),
           EBin("sub", dec, "-", zero, "n-0"),
           Ex(<<"~">> \o dec.s, RBnot(dec.r), FALSE, "~n"),
           Ex(<<"~">> \o hex.s, RBnot(hex.r), FALSE, "~hex"),
           EBin("lt", dec, "<", up, "n<n+1"),
           EBin("lt", dec, " < ", upf, "n<(n+1).0"),
           EBin("lt", flt, "<", up, "n.0<n+1"),
           EBin("le", up, "<=", dec, "n+1<=n"),
           EBin("eq", dec, "==", hex, "n==hex"),
           EBin("eq", dec, "==", flt, "n==n.0"),
           EBin("ne", dec, "~=", up, "n~=n+1"),
           EBin("gt", up, ">", hex, "n+1>hex"),
           EBin("gt", ndec, ">", nup, "-n>-(n+1)"),
           EBin("ge", dec, ">=", dec, "n>=n"),
           Ex(<<"math.ult(">> \o dec.s \o <<",">> \o uphex.s \o <<")">>, RBin("ult", dec.r, uphex.r), TRUE, "ult(n,hex(n+1))") >>
      pred == IF IsZero(n) THEN <<>>
              ELSE LET dn == Leaf(Sub(n, N1), k, "dec")
                       dnh == Leaf(Sub(n, N1), k, "hex")
                   IN << EBin("add", dn, "+", one, "(n-1)+1"),
                         EBin("add", one, "+", dn, "1+(n-1)"),
                         EBin("add", dnh, " + ", Ex(<<"0x1">>, RInt(1), TRUE, "hex"), "hex(n-1) + 0x1"),
                         EBin("lt", dn, "<", dec, "n-1<n"),
                         EBin("gt", dec, ">", dn, "n>n-1") >>
      kk == Small(k)
      shl == EBin("shl", one, "<<", kk, "1<<k")
      pw == IF d = 0 THEN
              << shl,
                 EBin("shl", one, " << ", kk, "1 << k"),
                 EBin("pow", Small(2), "^", kk, "2^k"),
                 EBin("eq", shl, "==", dec, "1<<k==n") >>
              \o (IF k >= 1 THEN LET h == Leaf(Pow2(k - 1, W), k, "dec") IN
                                 << EBin("mul", Small(2), "*", h, "2*(n/2)"), EBin("add", h, "+", h, "n/2+n/2"),
                                    EBin("shr", Leaf(Pow2(k, W), k, "hex"), ">>", one, "hex>>1") >>
                  ELSE <<>>)
            ELSE IF d = 1 THEN << EBin("add", Par(shl), "+", one, "(1<<k)+1"), EBin("bor", shl, "|", one, "1<<k|1") >>
            ELSE IF d = -1 THEN << EBin("sub", Par(shl), "-", one, "(1<<k)-1"),
                                   Ex(<<"~(-1<<">> \o kk.s \o <<")">>, RBnot(RBin("shl", RInt(-1), kk.r)), FALSE, "~(-1<<k)") >>
            ELSE <<>>
  IN common \o pred \o pw

(* ------------------------------------------------------------------------ *)
(* contexts: template ("@" = the expression) and the list of values the function body returns *)
Zero == VInt(0)
OneV == VInt(1)
Ar(op, r, v) == L1(LAMBDA a : Arith(op, a, v), r)
ArL(op, v, r) == L1(LAMBDA a : Arith(op, v, a), r)
Bw(op, r, v) == L1(LAMBDA a : Bitwise(op, a, v), r)
Rl(op, r, v) == L1(LAMBDA a : Rel(op, a, v), r)
RlL(op, v, r) == L1(LAMBDA a : Rel(op, v, a), r)
Pick(rb) == L1(LAMBDA b : R1(IF b.b THEN VInt(1) ELSE VInt(2)), rb)            \* if c then return 1 else return 2 end
(* a float with an integral value used as a table key is converted to that integer (manual 3.4.9 / 2.1); NaN is an error *)
KeyOf(r) == L1(LAMBDA v : IF v.k = "f" THEN (IF v.f.c = "nan" THEN RErr ELSE LET cv == FToI(v.f) IN IF cv.ok THEN R1(VI(cv.v)) ELSE R1(v)) ELSE R1(v), r)
(* for i = a, b, s do collect i (at most KS) end return #collected, collected[1..KS] *)
LoopList(ra, rb, rs) ==
  IF ra.k = "err" \/ rb.k = "err" \/ rs.k = "err" THEN <<RErr>>
  ELSE IF ~Det(ra) \/ ~Det(rb) \/ ~Det(rs) THEN <<RSkip>>
  ELSE LET l == Loop(ra.a[1], rb.a[1], rs.a[1], KS) IN
       IF l.k = "err" THEN <<RErr>>
       ELSE IF l.k = "skip" THEN <<RSkip>>
       ELSE IF l.und THEN <<RSkip>>
       ELSE <<RInt(Len(l.v))>> \o [i \in 1..KS |-> IF i <= Len(l.v) THEN R1(l.v[i]) ELSE R1(VNil)]

ForHead == "local r = {} for i = "
ForTail == " do r[#r + 1] = i if #r >= 3 then break end end return #r, r[1], r[2], r[3]"

CtxAll == <<
  [n |-> "ret",      t |-> <<"return ", "@">>],
  [n |-> "ret2",     t |-> <<"return ", "@", ", ", "@">>],
  [n |-> "mtype",    t |-> <<"return math.type(", "@", ")">>],
  [n |-> "addz",     t |-> <<"return ", "@", " + z">>],
  [n |-> "zadd",     t |-> <<"return z + ", "@">>],
  [n |-> "add0",     t |-> <<"return ", "@", " + 0">>],
  [n |-> "sub1",     t |-> <<"return ", "@", " - 1">>],
  [n |-> "add1",     t |-> <<"return ", "@", " + 1">>],
  [n |-> "mulo",     t |-> <<"return ", "@", " * o">>],
  [n |-> "idiv1",    t |-> <<"return ", "@", " // 1">>],
  [n |-> "mod1000",  t |-> <<"return ", "@", " % 1000">>],
  [n |-> "div1",     t |-> <<"return ", "@", " / 1">>],
  [n |-> "bor0",     t |-> <<"return ", "@", " | 0">>],
  [n |-> "bxorz",    t |-> <<"return ", "@", " ~ z">>],
  [n |-> "shr1",     t |-> <<"return ", "@", " >> 1">>],
  [n |-> "shl1",     t |-> <<"return ", "@", " << 1">>],
  [n |-> "bnot",     t |-> <<"return ~ ", "@">>],
  [n |-> "unm",      t |-> <<"return - ", "@">>],
  [n |-> "eqself",   t |-> <<"return ", "@", " == ", "@">>],
  [n |-> "ltz",      t |-> <<"return ", "@", " < z">>],
  [n |-> "lez",      t |-> <<"return ", "@", " <= z">>],
  [n |-> "zlt",      t |-> <<"return z < ", "@">>],
  [n |-> "eqz",      t |-> <<"return ", "@", " == z">>],
  [n |-> "neo",      t |-> <<"return ", "@", " ~= o">>],
  [n |-> "ifgt",     t |-> <<"if ", "@", " > z then return 1 else return 2 end">>],
  [n |-> "ifeq",     t |-> <<"if ", "@", " == o then return 1 else return 2 end">>],
  [n |-> "andor",    t |-> <<"return o == 1 and ", "@", " or 5">>],
  [n |-> "tbl1",     t |-> <<"return ({", "@", "})[1]">>],
  [n |-> "tbl2",     t |-> <<"return ({10, ", "@", ", 30})[2]">>],
  [n |-> "tblkey",   t |-> <<"local t = {[", "@", "] = 7} return (next(t))">>],
  [n |-> "tblfield", t |-> <<"return ({f = ", "@", "}).f">>],
  [n |-> "tblidx",   t |-> <<"local t = {} t[", "@", "] = 7 return t[", "@", "], (next(t))">>],
  [n |-> "call",     t |-> <<"return id(", "@", ")">>],
  [n |-> "call2",    t |-> <<"return (select(2, z, ", "@", "))">>],
  [n |-> "vararg",   t |-> <<"return (function(...) return ... end)(", "@", ", ", "@", ")">>],
  [n |-> "nested",   t |-> <<"return (function() return ", "@", " end)()">>],
  [n |-> "local",    t |-> <<"local x = ", "@", " return x">>],
  [n |-> "const",    t |-> <<"local x <const> = ", "@", " return x">>],
  [n |-> "upval",    t |-> <<"local x = ", "@", " return (function() return x end)()">>],
  [n |-> "massign",  t |-> <<"local a, b = ", "@", ", ", "@", " return b, a">>],
  [n |-> "forboth",  t |-> <<ForHead, "@", ", ", "@", ForTail>>],
  [n |-> "forlimit", t |-> <<ForHead, "@", " - 2, ", "@", ForTail>>],
  [n |-> "forstep",  t |-> <<ForHead, "z, ", "@", ", ", "@", ForTail>>],
  [n |-> "fordown",  t |-> <<ForHead, "@", ", ", "@", " - 2, -1", ForTail>>]
>>
CtxShort == {"ret", "mtype", "add0", "tbl1", "call", "local", "const", "ifgt", "forboth"}

CtxVals(cn, r) ==
  CASE cn = "ret" -> <<r>>
    [] cn = "ret2" -> <<r, r>>
    [] cn = "mtype" -> <<L1(MathType, r)>>
    [] cn \in {"addz", "add0"} -> <<Ar("add", r, Zero)>>
    [] cn = "zadd" -> <<ArL("add", Zero, r)>>
    [] cn = "sub1" -> <<Ar("sub", r, OneV)>>
    [] cn = "add1" -> <<Ar("add", r, OneV)>>
    [] cn = "mulo" -> <<Ar("mul", r, OneV)>>
    [] cn = "idiv1" -> <<Ar("idiv", r, OneV)>>
    [] cn = "mod1000" -> <<Ar("mod", r, VInt(1000))>>
    [] cn = "div1" -> <<Ar("div", r, OneV)>>
    [] cn = "bor0" -> <<Bw("bor", r, Zero)>>
    [] cn = "bxorz" -> <<Bw("bxor", r, Zero)>>
    [] cn = "shr1" -> <<Bw("shr", r, OneV)>>
    [] cn = "shl1" -> <<Bw("shl", r, OneV)>>
    [] cn = "bnot" -> <<RBnot(r)>>
    [] cn = "unm" -> <<RUnm(r)>>
    [] cn = "eqself" -> <<RBin("eq", r, r)>>
    [] cn = "ltz" -> <<Rl("lt", r, Zero)>>
    [] cn = "lez" -> <<Rl("le", r, Zero)>>
    [] cn = "zlt" -> <<RlL("lt", Zero, r)>>
    [] cn = "eqz" -> <<Rl("eq", r, Zero)>>
    [] cn = "neo" -> <<Rl("ne", r, OneV)>>
    [] cn = "ifgt" -> <<Pick(Rl("gt", r, Zero))>>
    [] cn = "ifeq" -> <<Pick(Rl("eq", r, OneV))>>
    [] cn \in {"andor", "tbl1", "tbl2", "tblfield", "call", "call2", "nested", "local", "const", "upval"} -> <<r>>
    [] cn = "tblkey" -> <<KeyOf(r)>>
    [] cn = "tblidx" -> <<IF KeyOf(r).k = "err" THEN RErr ELSE RInt(7), KeyOf(r)>>
    [] cn \in {"vararg", "massign"} -> <<r, r>>
    [] cn = "forboth" -> LoopList(r, r, R1(OneV))
    [] cn = "forlimit" -> LoopList(Ar("sub", r, VInt(2)), r, R1(OneV))
    [] cn = "forstep" -> LoopList(R1(Zero), r, r)
    [] cn = "fordown" -> LoopList(r, Ar("sub", r, VInt(2)), RInt(-1))

(* a raised error anywhere makes the body raise; an undetermined value makes the case not comparable *)
EncExp(vals) ==
  IF \E i \in 1..Len(vals) : vals[i].k = "err" THEN [k |-> "err"]
  ELSE IF \E i \in 1..Len(vals) : EncR(vals[i]).k = "skip" THEN [k |-> "skip"]
  ELSE [k |-> "vals", v |-> [i \in 1..Len(vals) |-> EncR(vals[i])]]

CtxIdx(short) == IF short THEN {i \in 1..Len(CtxAll) : CtxAll[i].n \in CtxShort} ELSE 1..Len(CtxAll)
RECURSIVE SetToSeq(_, _, _)
SetToSeq(S0, i, acc) == IF i > Len(CtxAll) THEN acc ELSE SetToSeq(S0, i + 1, IF i \in S0 THEN Append(acc, i) ELSE acc)
CtxSeq(short) == SetToSeq(CtxIdx(short), 1, <<>>)

ExprCase(e, short) ==
  LET cs == CtxSeq(short) IN
  [f |-> e.f, s |-> e.s, atom |-> e.atom, cx |-> cs, exp |-> [j \in 1..Len(cs) |-> EncExp(CtxVals(CtxAll[cs[j]].n, e.r))]]

(* expressions of one group that denote the same result share one table of expectations (same = index of the first) *)
RECURSIVE FirstSame(_, _, _)
FirstSame(es, i, j) == IF j >= i THEN 0 ELSE IF es[j].r = es[i].r THEN j ELSE FirstSame(es, i, j + 1)
ExprCaseAt(es, i, short) ==
  LET j == FirstSame(es, i, 1)
      e == es[i]
  IN IF j > 0 THEN [f |-> e.f, s |-> e.s, atom |-> e.atom, same |-> j] ELSE ExprCase(e, short)

Group(n, k, d, g) ==
  IF g = 1 THEN LeafExprs(n, k, d) ELSE IF g = 2 THEN NegExprs(n, k) ELSE FoldExprs(n, k, d)

LeafLaws(n, k, d) ==
  \A i \in 1..(Len(FormsAll) + (IF d = 0 THEN Len(FormsPow) ELSE 0)) :
     LET f == IF i <= Len(FormsAll) THEN FormsAll[i] ELSE FormsPow[i - Len(FormsAll)]
     IN NumeralLawSrc(n, f, Spell(n, k, f))

InitS == c = <<"start">>
NextS ==
  \/ /\ c = <<"start">>
     /\ \/ c' = <<"ctx">> /\ Emit([t |-> "ctx", ctx |-> CtxAll, ks |-> KS, dump |-> CtxShort])    \* dump: contexts also run through string.dump / load
        \/ \E k \in 0..KMax, d \in Deltas : ValidKD(k, d) /\ c' = <<"v", k, d>>
  \/ /\ c[1] = "v"
     /\ \E g \in 1..3 :
          /\ c' = <<"g", c[2], c[3], g>>
          /\ LET n == NatOf(c[2], c[3])
                 es == Group(n, c[2], c[3], g)
             IN /\ Emit([t |-> "src", k |-> c[2], d |-> c[3], g |-> g, ex |-> [i \in 1..Len(es) |-> ExprCaseAt(es, i, g = 3)]])
                /\ (g # 1 \/ LeafLaws(n, c[2], c[3]))
=============================================================================

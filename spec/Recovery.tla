------------------------------ MODULE Recovery ------------------------------
(***************************************************************************)
(* C11, last clause: after a caught error the runtime is in a consistent   *)
(* state - later calls work.  A thread catches the same kind of error k    *)
(* times in a row and then runs a battery (calls from Lua into Go and back,*)
(* a coroutine, a metamethod, a to-be-closed variable, a sort with a       *)
(* comparator): the battery's result does not depend on the kind of error  *)
(* nor on k.  In particular nothing may be used up by catching errors:     *)
(* k goes beyond every per-thread limit of the implementation (the depth   *)
(* limits are 1000 and 100).                                               *)
(* The text of each raiser and of the battery is in checks/closestack.py.  *)
(***************************************************************************)
EXTENDS Integers, Sequences, TLC, Json

CONSTANTS Counts
VARIABLE done
Emit(v) == PrintT(<<"@@", ToJson(v)>>)

Raisers == {"error-string", "error-table", "runtime-arith", "runtime-index", "runtime-call", "overflow-index", "overflow-add",
            "overflow-pcall", "overflow-sort", "overflow-gsub", "overflow-tostring", "overflow-call-chain", "overflow-close",
            "coroutine-error", "wrap-error", "close-handler-error", "xpcall-handler-error", "load-syntax-error", "context-killed",
            "error-in-iterator", "error-in-gc-less-metamethod"}

(* what the battery emits, whatever happened before *)
Battery == <<"battery", 42, "co", 7, "meta", 9, "closed", 1, "sorted", 3, "str", "aXb", "depth", 500>>

Init == done = FALSE
Next == /\ ~done /\ done' = TRUE
        /\ \A r \in Raisers : \A k \in Counts : Emit([fam |-> "recovery", raiser |-> r, k |-> k, caught |-> k, battery |-> Battery])
Spec == Init /\ [][Next]_done
=============================================================================

INIT Init
NEXT Next
CHECK_DEADLOCK FALSE
CONSTANTS
  Keys <- KeysBig
  Alias <- AliasBig
  IntVal <- IntValBig
  Travs <- AllTravs
  MaxSteps = 100
  ViewHist = 0
  EmitAll = FALSE

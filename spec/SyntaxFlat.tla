----------------------------- MODULE SyntaxFlat -----------------------------
(***************************************************************************)
(* C12, "every syntactically valid chunk is accepted": chunks that repeat  *)
(* one construct n times side by side (not nested).  However large n is,   *)
(* the nesting depth of such a chunk is constant, so no limit on syntactic *)
(* nesting may refuse it; the value each chunk returns is given here.  The *)
(* sizes straddle the parser's nesting limit (1000 levels): a parser that  *)
(* forgets to leave a level it entered counts siblings as nesting.         *)
(* The text of each construct is in checks/syntax.py (flat_src).           *)
(***************************************************************************)
EXTENDS Integers, Sequences, TLC, Json

CONSTANTS Sizes
VARIABLE done
Emit(v) == PrintT(<<"@@", ToJson(v)>>)

Constructs == {"neg", "bnot", "len", "not", "negtable", "nottable", "paren", "tablector", "funcs", "ifs", "dos", "whiles", "fors",
               "calls", "methods", "index", "pow", "concatpairs", "strcalls", "locals", "assigns", "returns-in-funcs", "gotos", "repeat"}

(* the value returned by the chunk with n repetitions *)
Value(c, n) ==
  CASE c = "neg" -> 0 - n                \* -1 + -1 + ... (n unary minus)
    [] c = "bnot" -> 0 - n               \* ~0 + ~0 + ...
    [] c = "len" -> n                    \* #"a" + #"a" + ...
    [] c = "not" -> n                    \* n statements: if not false then c = c + 1 end
    [] c = "negtable" -> n               \* #{-1, -2, ..., -n}
    [] c = "nottable" -> n               \* #{not false, not false, ...}
    [] c = "paren" -> n                  \* (1) + (1) + ...
    [] c = "tablector" -> n              \* #{{}, {}, ...}
    [] c = "funcs" -> n                  \* #{function() end, ...}
    [] c = "ifs" -> n
    [] c = "dos" -> n
    [] c = "whiles" -> n                 \* n loops each running once
    [] c = "fors" -> n                   \* n numeric for loops of one iteration
    [] c = "calls" -> n
    [] c = "methods" -> n
    [] c = "index" -> n                  \* t[1] + t[1] + ...
    [] c = "pow" -> n                    \* math.tointeger(1^1 + 1^1 + ...)
    [] c = "concatpairs" -> 2 * n        \* #("a" .. "b") + ...
    [] c = "strcalls" -> n               \* f"x" + f"x" + ... with f returning 1
    [] c = "locals" -> n                 \* n local statements, the last value is n
    [] c = "assigns" -> n
    [] c = "returns-in-funcs" -> n       \* n local functions each with a return, summed
    [] c = "gotos" -> n                  \* n goto/label pairs that skip nothing, counting
    [] c = "repeat" -> n                 \* n repeat ... until true blocks

Init == done = FALSE
Next == /\ ~done /\ done' = TRUE
        /\ \A c \in Constructs : \A n \in Sizes : Emit([fam |-> "flat", c |-> c, n |-> n, val |-> Value(c, n)])
Spec == Init /\ [][Next]_done
=============================================================================

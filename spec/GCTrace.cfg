SPECIFICATION TSpec
CONSTRAINT MarkC
POSTCONDITION Accepted
CHECK_DEADLOCK FALSE

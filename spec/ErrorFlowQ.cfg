INIT Init
NEXT Next
VIEW View
CHECK_DEADLOCK FALSE
INVARIANTS ClosedOnce NoPendingLost
CONSTANTS
  MaxDepth = 3
  MaxSteps = 6
  MaxPend = 1
  Kinds = {"do","loop","fn","pcall","xpcall","co"}
  Handlers = {"ok"}
  ViewHist = 0
  ErrKinds = {"str","tbl","pos","pos2","num","nilv","rt"}
  XHandlers = {"val","none","nilval"}
  Battery = TRUE
  EmitAll = TRUE

INIT Init
NEXT Next
CHECK_DEADLOCK FALSE
INVARIANTS ClosedOnce NoPendingLost
CONSTANTS
  MaxDepth = 5
  MaxSteps = 14
  MaxPend = 2
  Kinds = {"do","loop","forin","fn","pcall","co"}
  Handlers = {"ok","raise","raisetbc","nil","false","nometa","lost"}
  ViewHist = 0
  ErrKinds = {"str","tbl"}
  XHandlers = {}
  Battery = FALSE
  EmitAll = FALSE

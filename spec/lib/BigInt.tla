------------------------------- MODULE BigInt -------------------------------
(***************************************************************************)
(* Natural numbers and two's-complement integers as little-endian base-256 *)
(* limb vectors (tuples of 0..255).  TLC integers are 32-bit Java ints, so *)
(* every 64-bit quantity of the Lua number model (LuaNum.tla) lives here.  *)
(*                                                                         *)
(* Evaluation discipline: every operator builds concrete tuples (Append /  *)
(* explicit <<..>>), never lazily applied [i \in S |-> e] functions, and   *)
(* recursion is bounded by the limb count (or by 64 for the restoring      *)
(* division).  All heavy evaluation is meant to happen inside Next, where  *)
(* TLC caches LET definitions and operator arguments.                      *)
(***************************************************************************)
EXTENDS Integers, Sequences

B == 256

Pow2s(k) == \* 2^k for 0 <= k <= 30, native
  CASE k = 0 -> 1 [] k = 1 -> 2 [] k = 2 -> 4 [] k = 3 -> 8 [] k = 4 -> 16 [] k = 5 -> 32 [] k = 6 -> 64 [] k = 7 -> 128
    [] k = 8 -> 256 [] k = 9 -> 512 [] k = 10 -> 1024 [] k = 11 -> 2048 [] k = 12 -> 4096 [] k = 13 -> 8192
    [] k = 14 -> 16384 [] k = 15 -> 32768 [] k = 16 -> 65536 [] k = 17 -> 131072 [] k = 18 -> 262144
    [] k = 19 -> 524288 [] k = 20 -> 1048576 [] k = 21 -> 2097152 [] k = 22 -> 4194304 [] k = 23 -> 8388608
    [] k = 24 -> 16777216 [] k = 25 -> 33554432 [] k = 26 -> 67108864 [] k = 27 -> 134217728
    [] k = 28 -> 268435456 [] k = 29 -> 536870912 [] k = 30 -> 1073741824

RECURSIVE ZerosAcc(_, _)
ZerosAcc(n, acc) == IF n = 0 THEN acc ELSE ZerosAcc(n - 1, Append(acc, 0))
Zeros(n) == ZerosAcc(n, <<>>)

(* k (native, 0 <= k < 2^31) as an n-limb vector (truncated to n limbs) *)
RECURSIVE FromNatAcc(_, _, _)
FromNatAcc(k, n, acc) == IF n = 0 THEN acc ELSE FromNatAcc(k \div B, n - 1, Append(acc, k % B))
FromNat(k, n) == FromNatAcc(k, n, <<>>)

RECURSIVE IsZeroFrom(_, _)
IsZeroFrom(x, i) == IF i > Len(x) THEN TRUE ELSE IF x[i] # 0 THEN FALSE ELSE IsZeroFrom(x, i + 1)
IsZero(x) == IsZeroFrom(x, 1)

(* x < 2^24 (so that the native value certainly fits) *)
IsSmall(x) == IsZeroFrom(x, 4)
ToNat(x) == x[1] + B * x[2] + 65536 * x[3]      \* meaningful when IsSmall(x) (Len(x) >= 3)

(* zero-extend or truncate to n limbs *)
RECURSIVE ResizeAcc(_, _, _, _)
ResizeAcc(x, n, i, acc) ==
  IF i > n THEN acc ELSE ResizeAcc(x, n, i + 1, Append(acc, IF i <= Len(x) THEN x[i] ELSE 0))
Resize(x, n) == ResizeAcc(x, n, 1, <<>>)

(* ---------------- addition / subtraction, Len(x) = Len(y) ---------------- *)
RECURSIVE AddAcc(_, _, _, _, _)
AddAcc(x, y, i, c, acc) ==
  IF i > Len(x) THEN <<acc, c>>
  ELSE LET s == x[i] + y[i] + c IN AddAcc(x, y, i + 1, s \div B, Append(acc, s % B))
AddC(x, y, cin) == AddAcc(x, y, 1, cin, <<>>)    \* <<sum mod 256^n, carry out>>
Add(x, y) == AddC(x, y, 0)[1]

RECURSIVE NotAcc(_, _, _)
NotAcc(x, i, acc) == IF i > Len(x) THEN acc ELSE NotAcc(x, i + 1, Append(acc, 255 - x[i]))
Not(x) == NotAcc(x, 1, <<>>)

Sub(x, y) == AddC(x, Not(y), 1)[1]               \* x - y mod 256^n
Neg(x) == AddC(Zeros(Len(x)), Not(x), 1)[1]      \* -x mod 256^n
GeqU(x, y) == AddC(x, Not(y), 1)[2] = 1          \* x >= y as naturals (no borrow)

(* unsigned comparison: -1, 0, 1 *)
RECURSIVE CmpFrom(_, _, _)
CmpFrom(x, y, i) ==
  IF i = 0 THEN 0 ELSE IF x[i] < y[i] THEN -1 ELSE IF x[i] > y[i] THEN 1 ELSE CmpFrom(x, y, i - 1)
CmpU(x, y) == CmpFrom(x, y, Len(x))

(* x + k, x * k for a small native k (0 <= k < 2^20), result has n limbs, second component = overflow limb *)
RECURSIVE MulSmallAcc(_, _, _, _, _)
MulSmallAcc(x, k, i, c, acc) ==
  IF i > Len(x) THEN <<acc, c>>
  ELSE LET p == x[i] * k + c IN MulSmallAcc(x, k, i + 1, p \div B, Append(acc, p % B))
MulSmallC(x, k, add) == MulSmallAcc(x, k, 1, add, <<>>)   \* x * k + add

(* ---------------- multiplication ---------------- *)
RECURSIVE ColSum(_, _, _, _, _)
ColSum(x, y, k, i, acc) == \* sum of x[i] * y[k + 1 - i] over the valid i
  IF i > k \/ i > Len(x) THEN acc
  ELSE ColSum(x, y, k, i + 1, IF k + 1 - i <= Len(y) THEN acc + x[i] * y[k + 1 - i] ELSE acc)

RECURSIVE MulAcc(_, _, _, _, _, _)
MulAcc(x, y, n, k, c, acc) ==
  IF k > n THEN acc
  ELSE LET s == ColSum(x, y, k, 1, c) IN MulAcc(x, y, n, k + 1, s \div B, Append(acc, s % B))
MulN(x, y, n) == MulAcc(x, y, n, 1, 0, <<>>)      \* low n limbs of x * y
MulFull(x, y) == MulN(x, y, Len(x) + Len(y))

(* ---------------- bits ---------------- *)
Bit(x, i) == (x[(i \div 8) + 1] \div Pow2s(i % 8)) % 2      \* bit i (0-based) of x

ByteLen(b) == IF b >= 128 THEN 8 ELSE IF b >= 64 THEN 7 ELSE IF b >= 32 THEN 6 ELSE IF b >= 16 THEN 5
              ELSE IF b >= 8 THEN 4 ELSE IF b >= 4 THEN 3 ELSE IF b >= 2 THEN 2 ELSE b
RECURSIVE BitLenFrom(_, _)
BitLenFrom(x, i) == IF i = 0 THEN 0 ELSE IF x[i] # 0 THEN 8 * (i - 1) + ByteLen(x[i]) ELSE BitLenFrom(x, i - 1)
BitLen(x) == BitLenFrom(x, Len(x))               \* 0 for zero

ByteTz(b) == IF b % 2 = 1 THEN 0 ELSE IF b % 4 # 0 THEN 1 ELSE IF b % 8 # 0 THEN 2 ELSE IF b % 16 # 0 THEN 3
             ELSE IF b % 32 # 0 THEN 4 ELSE IF b % 64 # 0 THEN 5 ELSE IF b % 128 # 0 THEN 6 ELSE 7
RECURSIVE TzFrom(_, _)
TzFrom(x, i) == IF i > Len(x) THEN 8 * Len(x) ELSE IF x[i] # 0 THEN 8 * (i - 1) + ByteTz(x[i]) ELSE TzFrom(x, i + 1)
TrailingZeros(x) == TzFrom(x, 1)                 \* 8 * Len(x) for zero

Limb(x, i) == IF i >= 1 /\ i <= Len(x) THEN x[i] ELSE 0

(* logical shifts by k >= 0 bits inside Len(x) limbs *)
RECURSIVE ShlAcc(_, _, _, _, _)
ShlAcc(x, q, p, i, acc) == \* p = 2^r
  IF i > Len(x) THEN acc
  ELSE ShlAcc(x, q, p, i + 1, Append(acc, ((Limb(x, i - q) * p) + ((Limb(x, i - q - 1) * p) \div B)) % B))
Shl(x, k) == IF k >= 8 * Len(x) THEN Zeros(Len(x)) ELSE ShlAcc(x, k \div 8, Pow2s(k % 8), 1, <<>>)

RECURSIVE ShrAcc(_, _, _, _, _)
ShrAcc(x, q, p, i, acc) == \* p = 2^r ; result limb i = x[i+q] >> r | (x[i+q+1] << (8-r)) & 255
  IF i > Len(x) THEN acc
  ELSE ShrAcc(x, q, p, i + 1, Append(acc, ((Limb(x, i + q) \div p) + ((Limb(x, i + q + 1) * (B \div p)) % B)) % B))
Shr(x, k) == IF k >= 8 * Len(x) THEN Zeros(Len(x)) ELSE ShrAcc(x, k \div 8, Pow2s(k % 8), 1, <<>>)

(* the low k bits of x are all zero *)
LowBitsZero(x, k) == TrailingZeros(x) >= k

Pow2(k, n) == Shl(FromNat(1, n), k)              \* 2^k as n limbs (0 when k >= 8n)

(* bytewise boolean operations: op = 1 and, 2 or, 3 xor *)
RECURSIVE ByteOp(_, _, _, _)
ByteOp(op, a, b, n) ==
  IF n = 0 THEN 0
  ELSE LET p == a % 2
           q == b % 2
           z == IF op = 1 THEN p * q ELSE IF op = 2 THEN (IF p + q > 0 THEN 1 ELSE 0) ELSE (p + q) % 2
       IN z + 2 * ByteOp(op, a \div 2, b \div 2, n - 1)
RECURSIVE BoolAcc(_, _, _, _, _)
BoolAcc(op, x, y, i, acc) == IF i > Len(x) THEN acc ELSE BoolAcc(op, x, y, i + 1, Append(acc, ByteOp(op, x[i], y[i], 8)))
And(x, y) == BoolAcc(1, x, y, 1, <<>>)
Or(x, y) == BoolAcc(2, x, y, 1, <<>>)
Xor(x, y) == BoolAcc(3, x, y, 1, <<>>)

(* ---------------- unsigned division (restoring, bit by bit), y # 0 ---------------- *)
(* state: quotient q and remainder r, both Len(x) + 1 limbs wide is not needed: r < y <= 256^n - 1 and
   2r + 1 < 2 * 256^n, so r is kept in n + 1 limbs *)
RECURSIVE DivStep(_, _, _, _, _)
DivStep(x, y1, i, q, r) == \* y1 = y extended to n + 1 limbs ; i = index of the next bit of x (from the top)
  IF i < 0 THEN <<q, r>>
  ELSE LET r2 == MulSmallC(r, 2, Bit(x, i))[1]
           ge == GeqU(r2, y1)
           r3 == IF ge THEN Sub(r2, y1) ELSE r2
           q2 == MulSmallC(q, 2, IF ge THEN 1 ELSE 0)[1]
       IN IF Len(r3) = Len(y1) /\ Len(q2) = Len(x) THEN DivStep(x, y1, i - 1, q2, r3) ELSE <<>>
DivModU(x, y) == \* <<quotient, remainder>>, n limbs each
  LET n == Len(x)
      bl == BitLen(x)
      res == DivStep(x, Resize(y, n + 1), bl - 1, Zeros(n), Zeros(n + 1))
  IN <<res[1], Resize(res[2], n)>>

(* ---------------- unsigned division, schoolbook in base 256 (Knuth D), y # 0 ---------------- *)
(* Same function as DivModU, about ten times fewer steps: the divisor is shifted so that its top significant
   limb is >= 128; each quotient digit is estimated from the top two limbs of the running remainder and
   decreased until digit * divisor fits (at most twice).  LuaNumMC asserts DivModK = DivModU on the lattice. *)
SigLimbs(x) == (BitLen(x) + 7) \div 8
RECURSIVE KFix(_, _, _)
KFix(r1, ys, qh) ==
  LET p == MulSmallC(ys, qh, 0)[1]
  IN IF GeqU(r1, p) THEN <<qh, Sub(r1, p)>> ELSE KFix(r1, ys, qh - 1)
RECURSIVE KStep(_, _, _, _, _, _)
KStep(xs, ys, ny, i, r, q) == \* xs, ys, r: n + 1 limbs; r < ys; i: next limb of xs to bring down
  IF i = 0 THEN <<q, r>>
  ELSE LET r1 == <<xs[i]>> \o SubSeq(r, 1, Len(r) - 1)
           e0 == (r1[ny + 1] * B + r1[ny]) \div ys[ny]
           fix == KFix(r1, ys, IF e0 > 255 THEN 255 ELSE e0)
       IN KStep(xs, ys, ny, i - 1, fix[2], <<fix[1]>> \o q)
DivModK(x, y) == \* <<quotient, remainder>>, Len(x) limbs each; Len(y) = Len(x)
  LET n == Len(x)
      ny == SigLimbs(y)
      s == 8 - ByteLen(y[ny])
      xs == Shl(Resize(x, n + 1), s)
      ys == Shl(Resize(y, n + 1), s)
      res == KStep(xs, ys, ny, SigLimbs(xs), Zeros(n + 1), <<>>)
  IN <<Resize(res[1], n), Resize(Shr(res[2], s), n)>>

(* ---------------- two's complement view ---------------- *)
IsNegS(x) == x[Len(x)] >= 128
CmpS(x, y) == IF IsNegS(x) # IsNegS(y) THEN (IF IsNegS(x) THEN -1 ELSE 1) ELSE CmpU(x, y)
MagS(x) == IF IsNegS(x) THEN Neg(x) ELSE x        \* |x| as a natural (2^(8n-1) for the minimum)
(* sign extension to n limbs *)
RECURSIVE SextAcc(_, _, _, _, _)
SextAcc(x, n, f, i, acc) == IF i > n THEN acc ELSE SextAcc(x, n, f, i + 1, Append(acc, IF i <= Len(x) THEN x[i] ELSE f))
Sext(x, n) == SextAcc(x, n, IF IsNegS(x) THEN 255 ELSE 0, 1, <<>>)
=============================================================================

------------------------------- MODULE Syntax -------------------------------
(***************************************************************************)
(* Lua 5.4 expression syntax as the reference manual states it:            *)
(*   3.4.8  operator precedence and associativity (the table, as data),    *)
(*   2.4    which operators consult metamethods and what they do with the  *)
(*          result (used to make the parse observable through evaluation), *)
(*   3.4.12 which expressions are multi-valued and where.                  *)
(* An expression tree is rendered to text (minimal parentheses, or         *)
(* redundant ones); a reference parser reads the text back (TLC checks     *)
(* Parse(Render(t)) = t: the oracle is self-consistent); the VALUE of the  *)
(* tree is defined by three evaluation semantics:                          *)
(*   FM/F1: every leaf is a table whose metamethods build a term string,   *)
(*          so the value spells the tree the implementation evaluated;     *)
(*   F2:    leaves are small integers / false / nil, ordinary semantics.   *)
(* Also: the multiple-results rules on small statement templates, and one  *)
(* small program per statement / expression form of the grammar.           *)
(* TLC emits, per tree, the texts and the expected value; checks/syntax.py *)
(* evaluates the texts on the real front end + runtime.  Decides C12.      *)
(***************************************************************************)
EXTENDS Integers, Sequences, FiniteSets, TLC, Json

CONSTANTS MaxOps,    \* operators per expression tree (exhaustive mode: all trees with 0..MaxOps operators)
          Fams,      \* subset of {"F1", "F2", "FM", "multi", "forms"}
          Valuations,\* F2: sequence of 4-tuples of leaf values, e.g. << <<"i",1>>, <<"i",2>>, <<"b",FALSE>>, <<"nil">> >>
          MaxList,   \* multi: longest expression list
          SimFam     \* family used by the growing (simulation) behaviour

VARIABLES c
vars == <<c>>

Emit(v) == PrintT(<<"@@", ToJson(v)>>)

(***************************************************************************)
(* 3.4.8 -- "Operator precedence in Lua follows the table below, from      *)
(* lower to higher priority ... the concatenation ('..') and               *)
(* exponentiation ('^') operators are right associative.  All other        *)
(* binary operators are left associative."                                 *)
(***************************************************************************)
Levels == << {"or"},
             {"and"},
             {"<", ">", "<=", ">=", "~=", "=="},
             {"|"},
             {"~"},
             {"&"},
             {"<<", ">>"},
             {".."},
             {"+", "-"},
             {"*", "/", "//", "%"},
             {"not", "#", "-", "~"},      \* the unary operators
             {"^"} >>
UnLevel == 11
BinLevels == (1..Len(Levels)) \ {UnLevel}
RightAssoc == {"..", "^"}
AllBin == UNION {Levels[i] : i \in BinLevels}
AllUn == Levels[UnLevel]
Prec == [op \in AllBin |-> CHOOSE i \in BinLevels : op \in Levels[i]]

TermOps == {"|", "~", "&", "<<", ">>", "..", "+", "-", "*", "/", "//", "%", "^"}   \* results come from the operands' metamethod
CmpOps == {"<", ">", "<=", ">=", "~=", "=="}
BinOf(f) == CASE f = "F1" -> TermOps
              [] f = "F2" -> AllBin \ {"/", "^", ".."}     \* no floats, no strings in F2
              [] OTHER -> AllBin
UnOf(f) == CASE f = "F1" -> {"-", "~", "#"}
             [] f = "F2" -> {"not", "-", "~"}
             [] OTHER -> AllUn

(***************************************************************************)
(* Trees: <<"leaf", name>>, <<"un", op, e>>, <<"bin", op, l, r>>.          *)
(***************************************************************************)
Names == <<"a", "b", "c", "d", "e", "f", "g", "h", "i", "j">>
Hole == <<"leaf", "_">>
Un(o, e) == <<"un", o, e>>
Bin(o, l, r) == <<"bin", o, l, r>>

RECURSIVE TreesN(_, _)
TreesN(f, k) ==
  IF k = 0 THEN {Hole}
  ELSE {Un(u, e) : u \in UnOf(f), e \in TreesN(f, k - 1)}
       \cup UNION {{Bin(b, l, r) : b \in BinOf(f), l \in TreesN(f, i), r \in TreesN(f, k - 1 - i)} : i \in 0..(k - 1)}

(* trees with exactly k operators whose root is the given operator *)
RootedAt(f, k, kind, op) ==
  IF kind = "un" THEN {Un(op, e) : e \in TreesN(f, k - 1)}
  ELSE UNION {{Bin(op, l, r) : l \in TreesN(f, i), r \in TreesN(f, k - 1 - i)} : i \in 0..(k - 1)}

RECURSIVE NLeaves(_)
NLeaves(t) == IF t[1] = "leaf" THEN 1 ELSE IF t[1] = "un" THEN NLeaves(t[3]) ELSE NLeaves(t[3]) + NLeaves(t[4])
RECURSIVE NOps(_)
NOps(t) == IF t[1] = "leaf" THEN 0 ELSE IF t[1] = "un" THEN 1 + NOps(t[3]) ELSE 1 + NOps(t[3]) + NOps(t[4])

(* name the leaves a, b, c, ... from left to right *)
RECURSIVE Label(_, _)
Label(t, n) ==
  IF t[1] = "leaf" THEN <<"leaf", Names[n + 1]>>
  ELSE IF t[1] = "un" THEN Un(t[2], Label(t[3], n))
  ELSE Bin(t[2], Label(t[3], n), Label(t[4], n + NLeaves(t[3])))

(***************************************************************************)
(* Rendering.  "min": only the parentheses the grammar requires;           *)
(* "full": every operand that is not a leaf is parenthesised;              *)
(* "extra": every sub-expression, leaves and the root included.            *)
(***************************************************************************)
NeedLeft(p, ch) ==   \* ch is the left operand of binary operator p
  \/ ch[1] = "bin" /\ (Prec[ch[2]] < Prec[p] \/ (Prec[ch[2]] = Prec[p] /\ p \in RightAssoc))
  \/ ch[1] = "un" /\ UnLevel < Prec[p]
NeedRight(p, ch) ==  \* ch is the right operand of binary operator p
  ch[1] = "bin" /\ (Prec[ch[2]] < Prec[p] \/ (Prec[ch[2]] = Prec[p] /\ p \notin RightAssoc))
NeedUn(ch) == ch[1] = "bin" /\ Prec[ch[2]] < UnLevel

RECURSIVE Toks(_, _)
Wrap(t, style, need) ==
  IF style = "extra" \/ (style = "full" /\ t[1] # "leaf") \/ (style = "min" /\ need)
  THEN <<"(">> \o Toks(t, style) \o <<")">> ELSE Toks(t, style)
Toks(t, style) ==
  IF t[1] = "leaf" THEN <<t[2]>>
  ELSE IF t[1] = "un" THEN <<t[2]>> \o Wrap(t[3], style, NeedUn(t[3]))
  ELSE Wrap(t[3], style, NeedLeft(t[2], t[3])) \o <<t[2]>> \o Wrap(t[4], style, NeedRight(t[2], t[4]))
Render(t, style) == IF style = "extra" THEN <<"(">> \o Toks(t, style) \o <<")">> ELSE Toks(t, style)

RECURSIVE Join(_, _)
Join(ts, sep) == IF Len(ts) = 0 THEN "" ELSE IF Len(ts) = 1 THEN ts[1] ELSE ts[1] \o sep \o Join(Tail(ts), sep)
Text(t, style) == Join(Render(t, style), " ")

(***************************************************************************)
(* Reference parser (precedence climbing straight from the table).  A      *)
(* token that can be both unary and binary is unary where an operand is    *)
(* expected.  The operand of a unary operator extends over operators of    *)
(* higher precedence only (that is, '^').  Returns <<tree, next index>>.   *)
(***************************************************************************)
RECURSIVE PExp(_, _, _), PClimb(_, _, _, _)
PPrimary(ts, i) ==
  IF ts[i] = "(" THEN LET r == PExp(ts, i + 1, 1) IN
       IF r[2] <= Len(ts) /\ ts[r[2]] = ")" THEN <<r[1], r[2] + 1>> ELSE << <<"leaf", "?">>, Len(ts) + 2>>
  ELSE IF ts[i] \in AllUn THEN LET r == PExp(ts, i + 1, UnLevel) IN <<Un(ts[i], r[1]), r[2]>>
  ELSE << <<"leaf", ts[i]>>, i + 1>>
PExp(ts, i, minp) == LET p == PPrimary(ts, i) IN PClimb(ts, p[1], p[2], minp)
PClimb(ts, lhs, i, minp) ==
  IF i > Len(ts) THEN <<lhs, i>>
  ELSE IF ts[i] \notin AllBin THEN <<lhs, i>>
  ELSE IF Prec[ts[i]] < minp THEN <<lhs, i>>
  ELSE LET op == ts[i]
           r == PExp(ts, i + 1, IF op \in RightAssoc THEN Prec[op] ELSE Prec[op] + 1)
       IN PClimb(ts, Bin(op, lhs, r[1]), r[2], minp)
Parse(ts) == LET r == PExp(ts, 1, 1) IN IF r[2] = Len(ts) + 1 THEN r[1] ELSE <<"leaf", "?">>

OracleOKFor(t) == /\ Parse(Render(t, "min")) = t
                  /\ Parse(Render(t, "full")) = t
                  /\ Parse(Render(t, "extra")) = t

(***************************************************************************)
(* FM / F1 semantics (manual 2.4, 3.4.1-3.4.7).  Every leaf is a table     *)
(* with one shared metatable; values are                                   *)
(*   <<"t", term>>  a table carrying the string `term`,                    *)
(*   <<"b", B>>     a boolean,   <<"err">>  evaluation raised an error.    *)
(* __add ... __concat, __unm, __bnot, __len return a NEW table whose term  *)
(* is "(" x op y ")" (an operand that is a boolean prints as true/false).  *)
(* They are called when either operand is a table (2.4: "if any operand    *)
(* ... is not a number / string"), in the original operand order.          *)
(* __lt, __le, __eq record the call and return LtRet / LeRet / EqRet; the  *)
(* result is converted to a boolean.  a > b is b < a, a >= b is b <= a,    *)
(* a ~= b is not (a == b).  __eq is tried only when both operands are      *)
(* tables (they are never the same table here).  and/or/not have no        *)
(* metamethods; and/or are short-circuit and return an operand.            *)
(* Result: <<value, set of recorded comparison calls>>.                    *)
(***************************************************************************)
LtRet == TRUE
LeRet == FALSE
EqRet == TRUE
Err == <<"err">>
IsT(v) == v[1] = "t"
IsB(v) == v[1] = "b"
Truthy(v) == IF IsB(v) THEN v[2] ELSE v[1] # "nil"
StrV(v) == IF IsT(v) THEN v[2] ELSE IF v[2] THEN "true" ELSE "false"
BoolV(b) == <<"b", b>>

CmpM(op, l, r) ==
  CASE op = "==" -> IF IsT(l) /\ IsT(r) THEN <<BoolV(EqRet), {"(" \o l[2] \o "==" \o r[2] \o ")"}>>
                    ELSE <<BoolV(IsB(l) /\ IsB(r) /\ l[2] = r[2]), {}>>
    [] op = "<"  -> IF IsT(l) \/ IsT(r) THEN <<BoolV(LtRet), {"(" \o StrV(l) \o "<" \o StrV(r) \o ")"}>> ELSE <<Err, {}>>
    [] op = "<=" -> IF IsT(l) \/ IsT(r) THEN <<BoolV(LeRet), {"(" \o StrV(l) \o "<=" \o StrV(r) \o ")"}>> ELSE <<Err, {}>>

RECURSIVE EvalM(_)
EvalM(t) ==
  IF t[1] = "leaf" THEN << <<"t", t[2]>>, {} >>
  ELSE IF t[1] = "un" THEN
    LET r == EvalM(t[3])
        v == r[1]
    IN IF v = Err THEN r
       ELSE IF t[2] = "not" THEN <<BoolV(~Truthy(v)), r[2]>>
       ELSE IF IsT(v) THEN << <<"t", "(" \o t[2] \o v[2] \o ")">>, r[2] >>
       ELSE <<Err, {}>>
  ELSE
    LET op == t[2]
        L == EvalM(t[3])
    IN IF L[1] = Err THEN L
       ELSE IF op = "and" /\ ~Truthy(L[1]) THEN L
       ELSE IF op = "or" /\ Truthy(L[1]) THEN L
       ELSE
         LET R == EvalM(t[4])
             l == L[1]
             r == R[1]
             log == L[2] \cup R[2]
         IN IF r = Err THEN R
            ELSE IF op \in {"and", "or"} THEN <<r, log>>
            ELSE IF op \in TermOps THEN
               IF IsT(l) \/ IsT(r) THEN << <<"t", "(" \o StrV(l) \o op \o StrV(r) \o ")">>, log >> ELSE <<Err, {}>>
            ELSE LET q == CASE op \in {"==", "<", "<="} -> CmpM(op, l, r)
                            [] op = ">"  -> CmpM("<", r, l)
                            [] op = ">=" -> CmpM("<=", r, l)
                            [] op = "~=" -> LET e == CmpM("==", l, r) IN <<BoolV(~e[1][2]), e[2]>>
                 IN IF q[1] = Err THEN q ELSE <<q[1], log \cup q[2]>>

TokM(v) == IF v = Err THEN "error" ELSE IF IsT(v) THEN "t:" \o v[2] ELSE "b:" \o StrV(v)

(***************************************************************************)
(* F2 semantics: leaves are integers, false or nil (a valuation gives the  *)
(* value of the i-th leaf); operators as in 3.4.1-3.4.5 on 64-bit          *)
(* integers.  TLC integers are 32-bit, so a result is <<"skip">> (not      *)
(* compared) when an intermediate value leaves [-2^30, 2^30], and also     *)
(* for integer division / modulo by zero (the manual does not say what     *)
(* happens).  <<"err">>: arithmetic / bitwise / order comparison on a      *)
(* value that is not a number.                                             *)
(***************************************************************************)
Lim == 1073741824
Skip == <<"skip">>
IsI(v) == v[1] = "i"
IntV(n) == IF n > Lim \/ n < -Lim THEN Skip ELSE <<"i", n>>
Abs(n) == IF n < 0 THEN -n ELSE n

FloorDiv(a, b) == IF b > 0 THEN a \div b ELSE (-a) \div (-b)
FloorMod(a, b) == a - FloorDiv(a, b) * b

BitF(f, x, y) == CASE f = "&" -> x /\ y [] f = "|" -> x \/ y [] f = "~" -> x # y
RECURSIVE BitOp(_, _, _)
BitOp(f, x, y) ==     \* two's complement, arbitrary width
  IF x \in {0, -1} /\ y \in {0, -1} THEN (IF BitF(f, x = -1, y = -1) THEN -1 ELSE 0)
  ELSE 2 * BitOp(f, x \div 2, y \div 2) + (IF BitF(f, x % 2 = 1, y % 2 = 1) THEN 1 ELSE 0)

RECURSIVE Shl(_, _), Shr(_, _)
Shl(x, n) == IF n <= -64 \/ n >= 64 THEN <<"i", 0>>
             ELSE IF n < 0 THEN Shr(x, -n)
             ELSE IF x = 0 THEN <<"i", 0>>
             ELSE IF n > 30 THEN Skip
             ELSE IF Abs(x) > Lim \div (2 ^ n) THEN Skip
             ELSE IntV(x * (2 ^ n))
Shr(x, n) == IF n <= -64 \/ n >= 64 THEN <<"i", 0>>
             ELSE IF n < 0 THEN Shl(x, -n)
             ELSE IF n = 0 THEN <<"i", x>>
             ELSE IF x < 0 THEN Skip                      \* logical shift of a negative number: a huge positive one
             ELSE IF n > 30 THEN <<"i", 0>>
             ELSE <<"i", x \div (2 ^ n)>>

ArithN(op, a, b) ==
  CASE op = "+" -> IntV(a + b)
    [] op = "-" -> IntV(a - b)
    [] op = "*" -> IF Abs(a) > 32768 \/ Abs(b) > 32768 THEN Skip ELSE IntV(a * b)
    [] op = "//" -> IF b = 0 THEN Skip ELSE IntV(FloorDiv(a, b))
    [] op = "%" -> IF b = 0 THEN Skip ELSE IntV(FloorMod(a, b))
    [] op \in {"&", "|", "~"} -> IntV(BitOp(op, a, b))
    [] op = "<<" -> Shl(a, b)
    [] op = ">>" -> Shr(a, b)

SameV(l, r) == l[1] = r[1] /\ (l[1] = "nil" \/ l[2] = r[2])

LeafIdx(nm) == CHOOSE i \in 1..Len(Names) : Names[i] = nm

RECURSIVE EvalN(_, _)
EvalN(t, V) ==
  IF t[1] = "leaf" THEN V[((LeafIdx(t[2]) - 1) % Len(V)) + 1]
  ELSE IF t[1] = "un" THEN
    LET v == EvalN(t[3], V)
    IN IF v = Skip \/ v = Err THEN v
       ELSE IF t[2] = "not" THEN BoolV(~Truthy(v))
       ELSE IF ~IsI(v) THEN Err
       ELSE IF t[2] = "-" THEN IntV(-v[2])
       ELSE IntV(-v[2] - 1)                                \* ~x
  ELSE
    LET op == t[2]
        l == EvalN(t[3], V)
    IN IF l = Skip \/ l = Err THEN l
       ELSE IF op = "and" /\ ~Truthy(l) THEN l
       ELSE IF op = "or" /\ Truthy(l) THEN l
       ELSE
         LET r == EvalN(t[4], V)
         IN IF r = Skip \/ r = Err THEN r
            ELSE IF op \in {"and", "or"} THEN r
            ELSE IF op = "==" THEN BoolV(SameV(l, r))
            ELSE IF op = "~=" THEN BoolV(~SameV(l, r))
            ELSE IF ~(IsI(l) /\ IsI(r)) THEN Err
            ELSE CASE op = "<" -> BoolV(l[2] < r[2])
                   [] op = "<=" -> BoolV(l[2] <= r[2])
                   [] op = ">" -> BoolV(l[2] > r[2])
                   [] op = ">=" -> BoolV(l[2] >= r[2])
                   [] OTHER -> ArithN(op, l[2], r[2])

TokN(v) == CASE v = Err -> "error" [] v = Skip -> "skip" [] v[1] = "nil" -> "nil"
             [] IsB(v) -> "b:" \o StrV(v) [] IsI(v) -> "i:" \o ToString(v[2])

(***************************************************************************)
(* What is emitted for one tree of family f.                               *)
(***************************************************************************)
CaseOf(f, t0) ==
  LET t == Label(t0, 0)
      base == [fam |-> f, nops |-> NOps(t), min |-> Text(t, "min"), full |-> Text(t, "full"), extra |-> Text(t, "extra")]
  IN IF f = "F2"
     THEN base @@ [vals |-> [j \in 1..Len(Valuations) |-> TokN(EvalN(t, Valuations[j]))]]
     ELSE LET r == EvalM(t) IN base @@ [val |-> TokM(r[1]), log |-> IF r[1] = Err THEN {} ELSE r[2]]

(***************************************************************************)
(* 3.4.12 multiple results.  Atoms of an expression list:                  *)
(*   f()  -> 11 12 13      z() -> (nothing)     ...  -> 21 22 23           *)
(*   o:m() -> 31 32        (e) -> exactly one value (nil if none)   7      *)
(* A list's values: every element but the last is adjusted to one value;   *)
(* the last contributes all its values if it is a call or `...`.           *)
(***************************************************************************)
AtomVals == [fcall |-> <<11, 12, 13>>, zcall |-> <<>>, dots |-> <<21, 22, 23>>, mcall |-> <<31, 32>>, k |-> <<7>>]
AtomText == [fcall |-> "f()", zcall |-> "z()", dots |-> "...", mcall |-> "o:m()", k |-> "7"]
BaseAtoms == {"fcall", "zcall", "dots", "mcall", "k"}
Atoms == {<<b, p>> : b \in BaseAtoms, p \in {FALSE, TRUE}} \ {<<"k", TRUE>>}
NilV == -1      \* nil inside value lists (printed as "nil" when emitted)
One(vs) == IF Len(vs) = 0 THEN <<NilV>> ELSE <<vs[1]>>
AVals(a) == IF a[2] THEN One(AtomVals[a[1]]) ELSE AtomVals[a[1]]
AText(a) == IF a[2] THEN "(" \o AtomText[a[1]] \o ")" ELSE AtomText[a[1]]

RECURSIVE ListVals(_)
ListVals(L) == IF Len(L) = 1 THEN AVals(L[1]) ELSE One(AVals(L[1])) \o ListVals(Tail(L))
ListText(L) == Join([i \in 1..Len(L) |-> AText(L[i])], ", ")
Adjust(vs, n) == [i \in 1..n |-> IF i <= Len(vs) THEN vs[i] ELSE NilV]
OutVals(vs) == [i \in 1..Len(vs) |-> IF vs[i] = NilV THEN "nil" ELSE ToString(vs[i])]
Lists == UNION {[1..n -> Atoms] : n \in 1..MaxList}

MultiCtx == {"ret", "tab", "tabk", "ktab", "arg", "marg", "loc1", "loc2", "loc4", "asg2", "idx", "opnd"}
(* the program receives 21, 22, 23 as its varargs; cnt(...) returns select('#', ...), ...; o:cm(...) likewise *)
MultiCase(ctx, L) ==
  LET lt == ListText(L)
      vs == ListVals(L)
  IN CASE ctx = "ret"  -> [text |-> "return " \o lt, exp |-> vs]
       [] ctx = "tab"  -> [text |-> "local t = {" \o lt \o "} return t[1], t[2], t[3], t[4], t[5], t[6], t[7]", exp |-> Adjust(vs, 7)]
       \* a keyed field after the list: the list's last expression is no longer the last field, so it is truncated
       [] ctx = "tabk" -> [text |-> "local t = {" \o lt \o ", x = 1} return t[1], t[2], t[3], t[4], t[5], t[6], t[7]",
                           exp |-> Adjust(ListVals(Append(L, <<"k", FALSE>>)), Len(L))
                                   \o [i \in 1..(7 - Len(L)) |-> NilV]]
       [] ctx = "ktab" -> [text |-> "local t = {x = 1; " \o lt \o "} return t[1], t[2], t[3], t[4], t[5], t[6], t[7]", exp |-> Adjust(vs, 7)]
       [] ctx = "arg"  -> [text |-> "return cnt(" \o lt \o ")", exp |-> <<Len(vs)>> \o vs]
       [] ctx = "marg" -> [text |-> "return o:cm(" \o lt \o ")", exp |-> <<Len(vs)>> \o vs]
       [] ctx = "loc1" -> [text |-> "local v1 = " \o lt \o " return v1", exp |-> Adjust(vs, 1)]
       [] ctx = "loc2" -> [text |-> "local v1, v2 = " \o lt \o " return v1, v2", exp |-> Adjust(vs, 2)]
       [] ctx = "loc4" -> [text |-> "local v1, v2, v3, v4 = " \o lt \o " return v1, v2, v3, v4", exp |-> Adjust(vs, 4)]
       [] ctx = "asg2" -> [text |-> "local t = {} t.x, t.y = " \o lt \o " return t.x, t.y", exp |-> Adjust(vs, 2)]
       \* an index expression and an operand are single-valued contexts (only lists of one element)
       [] ctx = "idx"  -> [text |-> "return cnt(ID[" \o lt \o "])", exp |-> <<1>> \o One(vs)]
       [] ctx = "opnd" -> [text |-> "return cnt(" \o lt \o " or 99)", exp |-> IF One(vs) = <<NilV>> THEN <<1, 99>> ELSE <<1>> \o One(vs)]

(***************************************************************************)
(* Statement and expression FORMS of the grammar (manual 3.3, 3.4.9-11,    *)
(* 9): one small program per form; its observable behaviour (the calls of  *)
(* the host function emit, values written "i:<int>", "s:<text>", "b:true", *)
(* "nil") follows directly from the manual's description of the form.      *)
(***************************************************************************)
Forms == <<
  [text |-> ";;; emit(1); ;", ev |-> << <<"i:1">> >>],
  [text |-> "local a <const> = 5 emit(a)", ev |-> << <<"i:5">> >>],
  [text |-> "local a <close> = nil local b <const>, c <close> = 1, false emit(b, c)", ev |-> << <<"i:1", "b:false">> >>],
  [text |-> "do local t = setmetatable({}, {__close = function() emit(3) end}) local c <close> = t emit(4) end emit(5)",
   ev |-> << <<"i:4">>, <<"i:3">>, <<"i:5">> >>],
  [text |-> "do goto skip emit(1) ::skip:: emit(2) end", ev |-> << <<"i:2">> >>],
  [text |-> "for i = 1, 3 do if i == 2 then goto cont end emit(i) ::cont:: end", ev |-> << <<"i:1">>, <<"i:3">> >>],
  [text |-> "for i = 1, 3 do emit(i) end", ev |-> << <<"i:1">>, <<"i:2">>, <<"i:3">> >>],
  [text |-> "for i = 3, 1, -1 do emit(i) end", ev |-> << <<"i:3">>, <<"i:2">>, <<"i:1">> >>],
  [text |-> "for i = 1, 0 do emit(i) end emit(9)", ev |-> << <<"i:9">> >>],
  [text |-> "for k, v in pairs({10}) do emit(k, v) end", ev |-> << <<"i:1", "i:10">> >>],
  [text |-> "for k, v in next, {7} do emit(k, v) end", ev |-> << <<"i:1", "i:7">> >>],
  [text |-> "local s = 0 for _, v in ipairs{1, 2, 3} do s = s + v end emit(s)", ev |-> << <<"i:6">> >>],
  [text |-> "local i = 0 while i < 2 do i = i + 1 emit(i) end", ev |-> << <<"i:1">>, <<"i:2">> >>],
  [text |-> "local i = 0 repeat local j = i + 1 i = j emit(j) until j >= 2", ev |-> << <<"i:1">>, <<"i:2">> >>],
  [text |-> "local i = 0 while true do i = i + 1 if i > 2 then break end emit(i) end", ev |-> << <<"i:1">>, <<"i:2">> >>],
  [text |-> "if false then emit(1) elseif nil then emit(2) elseif 0 then emit(3) else emit(4) end", ev |-> << <<"i:3">> >>],
  [text |-> "if nil then emit(1) else emit(2) end if 1 then emit(3) end", ev |-> << <<"i:2">>, <<"i:3">> >>],
  [text |-> "local t = {a = {}} function t.a.f(x) return x + 1 end emit(t.a.f(1))", ev |-> << <<"i:2">> >>],
  [text |-> "local t = {v = 5} function t:get(d) return self.v + d end emit(t:get(1), t.get(t, 2))", ev |-> << <<"i:6", "i:7">> >>],
  [text |-> "local function fact(n) if n <= 1 then return 1 end return n * fact(n - 1) end emit(fact(5))", ev |-> << <<"i:120">> >>],
  [text |-> "function G(a) return a end emit(G(4)) G = nil", ev |-> << <<"i:4">> >>],
  [text |-> "local f = function(...) local a, b = ... return b, a end emit(f(1, 2))", ev |-> << <<"i:2", "i:1">> >>],
  [text |-> "local function f(a, ...) return select('#', ...), a end emit(f(1, 2, 3))", ev |-> << <<"i:2", "i:1">> >>],
  [text |-> "emit(type\"x\", type[[y]], type{}, type'z')", ev |-> << <<"s:string", "s:string", "s:table", "s:string">> >>],
  [text |-> "local s = \"abc\" emit(s:upper(), (\"x\"):rep(3), #s)", ev |-> << <<"s:ABC", "s:xxx", "i:3">> >>],
  [text |-> "local t = {1, 2; 3, [10] = 4, x = 5, [\"y z\"] = 6,} emit(t[1], t[2], t[3], t[10], t.x, t[\"y z\"])",
   ev |-> << <<"i:1", "i:2", "i:3", "i:4", "i:5", "i:6">> >>],
  [text |-> "local t = {{1}, {2};} emit(t[2][1], #t, #{})", ev |-> << <<"i:2", "i:2", "i:0">> >>],
  [text |-> "local a, b, c = 1 emit(a, b, c)", ev |-> << <<"i:1", "nil", "nil">> >>],
  [text |-> "local a, b = 1, 2, 3 emit(a, b)", ev |-> << <<"i:1", "i:2">> >>],
  [text |-> "local a, b = 1, 2 a, b = b, a emit(a, b)", ev |-> << <<"i:2", "i:1">> >>],
  [text |-> "local t = {} t.x, t.y = 1 emit(t.x, t.y)", ev |-> << <<"i:1", "nil">> >>],
  [text |-> "local i = 1 local t = {} i, t[i] = i + 1, 20 emit(i, t[1], t[2])", ev |-> << <<"i:2", "i:20", "nil">> >>],
  [text |-> "emit(2^3^2 == 512, -2^2 == -4, 2^-1 == 0.5, 2^-2^2 == 0.0625)", ev |-> << <<"b:true", "b:true", "b:true", "b:true">> >>],
  [text |-> "emit(1 .. 2, \"a\" .. \"b\" .. \"c\", 1 .. 2 == \"12\")", ev |-> << <<"s:12", "s:abc", "b:true">> >>],
  [text |-> "emit(not nil == true, not (nil == true), 1 < 2 == true, not 1 == 2)", ev |-> << <<"b:true", "b:true", "b:true", "b:false">> >>],
  [text |-> "emit(1 + 2 * 3 - 4 // 2, 7 % 3, 7 // 2, -7 // 2, -7 % 3, 7 % -3)", ev |-> << <<"i:5", "i:1", "i:3", "i:-4", "i:2", "i:-2">> >>],
  [text |-> "emit(1 << 2 + 1, 1 | 2 & 3, 5 ~ 1, ~0, 6 >> 1, 1 << 63 >> 63, 3 & 2 | 4 ~ 1)", ev |-> << <<"i:8", "i:3", "i:4", "i:-1", "i:3", "i:1", "i:7">> >>],
  [text |-> "emit(\"10\" + 5, \"3\" * \"4\", 10 .. \"\", \"0x10\" + 0)", ev |-> << <<"i:15", "i:12", "s:10", "i:16">> >>],
  [text |-> "emit(#\"abc\", #{1, 2, 3}, -(-3), - -3, - - -3, not not nil)", ev |-> << <<"i:3", "i:3", "i:3", "i:3", "i:-3", "b:false">> >>],
  [text |-> "emit((function() return 1, 2 end)())", ev |-> << <<"i:1", "i:2">> >>],
  [text |-> "do local function g() return end emit(g()) emit((g())) end", ev |-> << <<>>, <<"nil">> >>],
  [text |-> "emit(--[[ inline ]] 1 --[==[ x ]] ]==], 2) -- tail", ev |-> << <<"i:1", "i:2">> >>],
  [text |-> "local t = setmetatable({}, {__index = function(_, k) return k .. \"!\" end, __call = function(self, a) return a + 1 end}) emit(t.foo, t(1), t[\"a b\"])",
   ev |-> << <<"s:foo!", "i:2", "s:a b!">> >>],
  [text |-> "local x = 1 do local x = 2 emit(x) end emit(x) local x = x + 2 emit(x)", ev |-> << <<"i:2">>, <<"i:1">>, <<"i:3">> >>],
  [text |-> "local function outer() local n = 0 return function() n = n + 1 return n end end local c = outer() c() emit(c())", ev |-> << <<"i:2">> >>],
  [text |-> "emit(0xff, 0XA, 1e2 == 100, 0x.8p1 == 1, 3 == 3.0, math.type(3), math.type(3.0), math.type(1e2), math.type(0x10))",
   ev |-> << <<"i:255", "i:10", "b:true", "b:true", "b:true", "s:integer", "s:float", "s:float", "s:integer">> >>],
  [text |-> "do return emit(1); end emit(2)", ev |-> << <<"i:1">> >>],
  [text |-> "do return end emit(2)", ev |-> <<>>],
  [text |-> "local t = {f = function(self, x) return x end} emit(t:f(1), t.f(t, 2), t:f\"s\", t:f{} ~= nil, t:f[[l]])",
   ev |-> << <<"i:1", "i:2", "s:s", "b:true", "s:l">> >>],
  [text |-> "local a = {n = 0} function a:inc() self.n = self.n + 1 return self end emit(a:inc():inc().n)", ev |-> << <<"i:2">> >>],
  [text |-> "local g = emit g\n(3)\nlocal t = {g = g} t\n.g\n\"s\"", ev |-> << <<"i:3">>, <<"s:s">> >>],
  [text |-> "local t = {} t.a = {} t.a.b = {c = 7} emit(t.a.b.c, t[\"a\"][\"b\"][\"c\"], (t).a[(\"b\")].c)", ev |-> << <<"i:7", "i:7", "i:7">> >>],
  [text |-> "local a <const> = 10 local function f() return a + 1 end emit(f())", ev |-> << <<"i:11">> >>],
  [text |-> "local n = 0 for i = 10, 1, -3 do n = n + i end emit(n) for i = 1, 3 do local i = i * 2 emit(i) end",
   ev |-> << <<"i:22">>, <<"i:2">>, <<"i:4">>, <<"i:6">> >>],
  [text |-> "emit(1 < 2, 2 <= 2, 3 > 4, 4 >= 4, 1 ~= 1, 1 == 1.0, \"a\" < \"b\", \"a\" == \"a\")",
   ev |-> << <<"b:true", "b:true", "b:false", "b:true", "b:false", "b:true", "b:true", "b:true">> >>],
  [text |-> "emit(nil and 1, false or nil, 1 and 2, nil or false, 1 or error(\"no\"), false and error(\"no\"))",
   ev |-> << <<"nil", "nil", "i:2", "b:false", "i:1", "b:false">> >>]
>>

(***************************************************************************)
(* Behaviours.  Exhaustive mode: start -> a coarse key (family, size, root *)
(* operator) -> every tree of that class (emitted; the reference parser is *)
(* checked on it by the invariant).  The two levels let TLC's workers      *)
(* share the table.                                                        *)
(***************************************************************************)
TreeFams == Fams \cap {"F1", "F2", "FM"}
Keys == {<<"key", f, 0, "leaf", "_">> : f \in TreeFams}
        \cup {<<"key", f, k, "un", u>> : f \in TreeFams, k \in 1..MaxOps, u \in UNION {UnOf(g) : g \in TreeFams}}
        \cup {<<"key", f, k, "bin", b>> : f \in TreeFams, k \in 1..MaxOps, b \in AllBin}
        \cup (IF "multi" \in Fams THEN {<<"mkey", ctx>> : ctx \in MultiCtx} ELSE {})
        \cup {<<"conf">>} \cup (IF "forms" \in Fams THEN {<<"forms">>} ELSE {})

(* what the test program must be built from: the leaf values of F2 and the constants returned by __lt, __le, __eq *)
Conf == [fam |-> "conf", valuations |-> [j \in 1..Len(Valuations) |-> [i \in 1..Len(Valuations[j]) |-> TokN(Valuations[j][i])]],
         lt |-> LtRet, le |-> LeRet, eq |-> EqRet, names |-> Names]

Init == c = <<"start">>

PickKey == /\ c = <<"start">>
           /\ \E key \in Keys :
                /\ key[1] = "key" => IF key[4] = "un" THEN key[5] \in UnOf(key[2])
                                     ELSE IF key[4] = "bin" THEN key[5] \in BinOf(key[2]) ELSE TRUE
                /\ c' = key
                /\ IF key = <<"conf">> THEN Emit(Conf) ELSE TRUE

PickTree == /\ c[1] = "key"
            /\ \E t \in (IF c[4] = "leaf" THEN {Hole} ELSE RootedAt(c[2], c[3], c[4], c[5])) :
                 /\ c' = <<"tree", c[2], t>>
                 /\ Emit(CaseOf(c[2], t))

PickMulti == /\ c[1] = "mkey"
             /\ \E L \in Lists :
                  /\ c[2] \in {"idx", "opnd"} => Len(L) = 1
                  /\ c' = <<"multi", c[2], L>>
                  /\ LET mc == MultiCase(c[2], L) IN
                     Emit([fam |-> "multi", ctx |-> c[2], text |-> mc.text, exp |-> OutVals(mc.exp)])

PickForm == /\ c = <<"forms">>
            /\ \E i \in 1..Len(Forms) : c' = <<"form", i>> /\ Emit([fam |-> "forms", text |-> Forms[i].text, ev |-> Forms[i].ev])

Next == PickKey \/ PickTree \/ PickMulti \/ PickForm
Spec == Init /\ [][Next]_vars

OracleOK == c[1] = "tree" => OracleOKFor(Label(c[3], 0))

(***************************************************************************)
(* Growing behaviour (simulation): start from one leaf, replace a leaf by  *)
(* an operator node MaxOps times, emit the final tree.                     *)
(***************************************************************************)
RECURSIVE GrowAt(_, _, _)
(* replace the i-th leaf (1-based, left to right) of t by node nd *)
GrowAt(t, i, nd) ==
  IF t[1] = "leaf" THEN nd
  ELSE IF t[1] = "un" THEN Un(t[2], GrowAt(t[3], i, nd))
  ELSE LET nl == NLeaves(t[3]) IN
       IF i <= nl THEN Bin(t[2], GrowAt(t[3], i, nd), t[4]) ELSE Bin(t[2], t[3], GrowAt(t[4], i - nl, nd))

SimInit == c = <<"grow", Hole>>
SimNext == /\ c[1] = "grow"
           /\ NOps(c[2]) < MaxOps
           /\ \E i \in 1..NLeaves(c[2]) :
              \E nd \in {Un(u, Hole) : u \in UnOf(SimFam)} \cup {Bin(b, Hole, Hole) : b \in BinOf(SimFam)} :
                LET t == GrowAt(c[2], i, nd) IN
                /\ c' = <<"grow", t>>
                /\ IF NOps(t) = MaxOps THEN Emit(CaseOf(SimFam, t)) ELSE TRUE
                /\ IF c[2] = Hole THEN Emit(Conf) ELSE TRUE
SimOracleOK == c[1] = "grow" => OracleOKFor(Label(c[2], 0))

=============================================================================

SPECIFICATION TSpec
CONSTRAINT MarkC
POSTCONDITION Accepted
CHECK_DEADLOCK FALSE
CONSTANTS
  M = 2147483647
  Sat = TRUE
  CpuLim = {}
  MemLim = {}
  CpuSoft = {}
  MemSoft = {}
  CpuAmt = {}
  MemAmt = {}
  XFlags = {}
  MaxDepth = 64
  MaxFrames = 64
  RawOps = FALSE
  CallOps = TRUE
  StopOps = TRUE
  Emitting = FALSE
  MaxUsed = 2147483647

SPECIFICATION TSpec
CONSTRAINT MarkC
POSTCONDITION Accepted
CHECK_DEADLOCK FALSE
CONSTANTS
  M = 2147483647
  Sat = TRUE
  CpuLim = {}
  MemLim = {}
  CpuSoft = {}
  MemSoft = {}
  CpuAmt = {}
  MemAmt = {}
  MsLim = {}
  MsSoft = {}
  Ticks = {}
  ThrInc = 10000
  MaxClk = 0
  OldPopOrder = FALSE
  OldTimeCharge = FALSE
  OldThrInherit = FALSE
  NCo = 0
  XFlags = {}
  MaxDepth = 64
  MaxFrames = 64
  RawOps = FALSE
  CallOps = TRUE
  StopOps = TRUE
  Emitting = FALSE
  MaxUsed = 2147483647

INIT InitM
NEXT NextM
CHECK_DEADLOCK FALSE
CONSTANTS
  Tier = "T"
  K = 4

------------------------------ MODULE TableAbs ------------------------------
(***************************************************************************)
(* A Lua table as the manual defines it (2.1, 3.4.7, 6.1 next/pairs): a    *)
(* partial map from normalised keys to non-nil values.  Key spellings that *)
(* denote the same key (a float with an integer value and that integer)    *)
(* are different members of Spell with the same Norm.  The table under     *)
(* test carries a metatable whose __index / __newindex only record that    *)
(* they were consulted (and __newindex then does the raw assignment), so   *)
(* "consulted exactly when the raw key is absent" is observable.           *)
(* Decides C03 (binding A: histories rendered as Lua programs).            *)
(***************************************************************************)
EXTENDS Integers, Sequences, FiniteSets, TLC, Json

CONSTANTS Keys,      \* normalised keys (strings naming them)
          Alias,     \* function: alternative spelling -> normalised key, e.g. [f2 |-> "i2"]
          IntVal,    \* function: integer keys -> their value (for borders), e.g. [i1 |-> 1, ...]
          MaxSteps,
          ViewHist,
          EmitAll,   \* TRUE: emit a line per transition (exploration); FALSE: only when the history is complete (simulation)
          LenEnabled,\* FALSE for key families whose borders cannot be enumerated here (keys near maxinteger)
          Travs      \* traversal policies allowed: subset of {"plain","update","rawupdate","clear","clearothers","updateothers"}

VARIABLES map,   \* [Keys -> {"nil","v1","v2"}]
          n, out, hist

vars == <<map, n, out, hist>>
View == <<map, n, [j \in 1..(IF n < ViewHist THEN n ELSE ViewHist) |-> <<hist[n + 1 - j].a, hist[n + 1 - j].s>>]>>

Emit(v) == PrintT(<<"@@", ToJson(v)>>)

Spell == Keys \cup DOMAIN Alias
Norm(s) == IF s \in DOMAIN Alias THEN Alias[s] ELSE s
Present(m) == {k \in Keys : m[k] # "nil"}

(* the borders of m: n >= 0 with (n = 0 or m[n] present) and m[n+1] absent, over integer keys *)
IntKeys == DOMAIN IntVal
HasInt(m, i) == \E k \in IntKeys : IntVal[k] = i /\ m[k] # "nil"
Cand == {0} \cup {IntVal[k] : k \in IntKeys}
Borders(m) == {b \in Cand : b >= 0 /\ (b = 0 \/ HasInt(m, b)) /\ ~HasInt(m, b + 1)}

Init == map = [k \in Keys |-> "nil"] /\ n = 0 /\ out = <<>> /\ hist = <<>>

Step(act, m, evs) ==
  /\ map' = m /\ n' = n + 1 /\ out' = out \o evs
  /\ hist' = Append(hist, [k |-> n + 1] @@ act)
  /\ (IF EmitAll \/ n + 1 = MaxSteps THEN Emit([h |-> hist', ev |-> out', final |-> m, borders |-> Borders(m)]) ELSE TRUE)

Can == n < MaxSteps

(* t[s] = v : __newindex is consulted iff the raw key is absent; the handler then rawsets *)
Set(s, v) ==
  /\ Can
  /\ LET k == Norm(s) IN
     Step([a |-> "set", s |-> s, v |-> v], [map EXCEPT ![k] = v],
          IF map[k] = "nil" THEN << <<"newindex", n + 1, s>> >> ELSE <<>>)

RawSet(s, v) == /\ Can /\ Step([a |-> "rawset", s |-> s, v |-> v], [map EXCEPT ![Norm(s)] = v], <<>>)

(* t[s] : __index is consulted iff the raw key is absent (and returns nil) *)
Get(s) ==
  /\ Can
  /\ LET k == Norm(s) IN
     Step([a |-> "get", s |-> s, v |-> "-"], map,
          (IF map[k] = "nil" THEN << <<"index", n + 1, s>> >> ELSE <<>>) \o << <<"get", n + 1, map[k]>> >>)

(* #t : some border; the program reports it and the check tests membership in `lenok` *)
LenOp == /\ Can /\ Step([a |-> "len", s |-> "-", v |-> "-", lenok |-> Borders(map)], map, <<>>)

(* a full traversal with next; `pol` says what the body does at each visited key.
   Expected (order-independent): which keys must be visited, and the map afterwards. *)
Trav(pol) ==
  /\ Can /\ pol \in Travs
  /\ LET P == Present(map)
         m2 == CASE pol = "plain" -> map
                 [] pol = "update" -> [k \in Keys |-> IF k \in P THEN "v2" ELSE "nil"]
                 [] pol = "rawupdate" -> [k \in Keys |-> IF k \in P THEN "v2" ELSE "nil"]   \* the same with rawset
                 [] pol = "updateothers" -> [k \in Keys |-> IF k \in P /\ Cardinality(P) > 1 THEN "v2" ELSE map[k]]
                 [] pol = "clear" -> [k \in Keys |-> "nil"]
                 [] pol = "clearothers" -> [k \in Keys |-> "nil"]  \* the body clears every other key at the first visit, the program then clears the survivor
     IN Step([a |-> "trav", s |-> "-", v |-> "-", pol |-> pol, present |-> P], m2, <<>>)

Next ==
  \/ \E s \in Spell, v \in {"v1", "nil"} : Set(s, v) \/ RawSet(s, v)
  \/ \E s \in Spell : Get(s)
  \/ (LenEnabled /\ LenOp)
  \/ \E p \in Travs : Trav(p)

Spec == Init /\ [][Next]_vars
=============================================================================

------------------------------- MODULE StrLib -------------------------------
(***************************************************************************)
(* The non-pattern functions of the string library (Lua 5.4 manual 6.4) as *)
(* operators on BYTE strings: a string is a sequence of integers 0..255.   *)
(* sub, byte, char, rep, reverse, upper, lower, len and find without       *)
(* pattern facilities (plain = true, or a pattern without magic            *)
(* characters).  Written from the manual, not from golua's code.           *)
(*                                                                         *)
(* Extreme positions: BIG stands for math.maxinteger and -BIG-1 for        *)
(* math.mininteger.  The manual's definitions only compare positions with  *)
(* the length, so every result is the same for any BIG > MaxLen + 1; the   *)
(* check instantiates BIG -> maxinteger when it renders the Lua call.      *)
(*                                                                         *)
(* Decides C19 (binding B, tabular): one state per (function, leading      *)
(* arguments); its single transition emits every remaining argument tuple  *)
(* of the bounded domain with the result the manual defines.               *)
(***************************************************************************)
EXTENDS Integers, Sequences, FiniteSets, TLC, Json

CONSTANTS Alpha,      \* bytes strings are made of, e.g. {97, 66, 0, 255}
          MaxLen,     \* subject strings: every string over Alpha of length <= MaxLen
          MaxPat,     \* find: patterns of length <= MaxPat
          MaxSep,     \* rep: separators of length <= MaxSep
          Counts,     \* rep: the small counts n
          HugeLen,    \* rep with n = BIG: subject strings of length <= HugeLen (separators <= 1)
          CharCodes,  \* char: argument values
          MaxChars,   \* char: number of arguments <= MaxChars
          BIG,        \* symbolic maxinteger
          Fns,        \* which functions to enumerate
          SimLen,     \* simulation: length of the random strings
          SimPat      \* simulation: length of random patterns is 0..SimPat

VARIABLE c
Emit(v) == PrintT(<<"@@", ToJson(v)>>)

Max(a, b) == IF a > b THEN a ELSE b
Min(a, b) == IF a < b THEN a ELSE b
Strs(n) == UNION {[1..k -> Alpha] : k \in 0..n}

(* every position worth distinguishing for a string of length l, plus the extremes *)
Positions(l) == {-BIG - 1, -BIG, BIG} \cup ((-l - 1)..(l + 1))

(***************************************************************************)
(* 6.4: "Indices are allowed to be negative and are interpreted as         *)
(* indexing backwards, from the end of the string."                        *)
(***************************************************************************)
Rel(p, l) == IF p < 0 THEN l + p + 1 ELSE p

(* a result is the tuple of returned values; Error (a tuple no function returns) stands for "raises an error" *)
Error == <<"error">>

(* string.sub: "If, after the translation of negative indices, i is less than 1, it is corrected to 1.
   If j is greater than the string length, it is corrected to that length.  If, after these corrections,
   i is greater than j, the function returns the empty string." *)
Sub(s, i, j) ==
  LET l == Len(s)
      a == Max(Rel(i, l), 1)
      b == Min(Rel(j, l), l)
  IN IF a > b THEN <<>> ELSE SubSeq(s, a, b)

(* string.byte: codes of s[i..j], default i = 1, default j = i, "corrected following the same rules of string.sub";
   a character's code is the byte itself *)
ByteR(s, args) ==
  LET i == IF Len(args) >= 1 THEN args[1] ELSE 1
      j == IF Len(args) >= 2 THEN args[2] ELSE i
  IN Sub(s, i, j)

(* string.char: one character per argument with that code; codes outside a byte cannot be represented *)
CharOk(codes) == \A k \in 1..Len(codes) : codes[k] \in 0..255
CharR(codes) == IF CharOk(codes) THEN <<codes>> ELSE Error

(* string.rep: n copies of s separated by sep; "" if n is not positive.  A result that cannot exist
   (longer than any string the machine can hold) is an error: with the domain used here the length is
   either tiny or of the order of BIG. *)
RECURSIVE Copies(_, _, _)
Copies(s, n, sep) == IF n = 1 THEN s ELSE s \o sep \o Copies(s, n - 1, sep)
RepLen(s, n, sep) == n * Len(s) + (n - 1) * Len(sep)
RepR(s, n, sep) ==
  IF n <= 0 THEN << <<>> >>
  ELSE IF RepLen(s, n, sep) = 0 THEN << <<>> >>
  ELSE IF RepLen(s, n, sep) > 1000 THEN Error
  ELSE << Copies(s, n, sep) >>

Reverse(s) == [k \in 1..Len(s) |-> s[Len(s) + 1 - k]]
(* upper/lower: only letters change ("C" locale: a-z / A-Z), every other byte is left unchanged, so the length is kept *)
Upper(s) == [k \in 1..Len(s) |-> IF s[k] \in 97..122 THEN s[k] - 32 ELSE s[k]]
Lower(s) == [k \in 1..Len(s) |-> IF s[k] \in 65..90 THEN s[k] + 32 ELSE s[k]]

(* string.find without pattern facilities: the first occurrence of p in s at or after init (translated like
   every position, corrected to 1), as start and end index; fail (nil) if there is none.  The empty string
   occurs at every position 1..#s+1. *)
FindR(s, p, init) ==
  LET l == Len(s)
      m == Len(p)
      st == Max(Rel(init, l), 1)
      cand == {q \in st..(l - m + 1) : SubSeq(s, q, q + m - 1) = p}
  IN IF cand = {} THEN <<"nil">>
     ELSE LET q == CHOOSE x \in cand : \A y \in cand : x <= y IN <<q, q + m - 1>>

-----------------------------------------------------------------------------
(* the case table: a line is [fn, pre, cs] meaning: for every <<args, r, tag>> in cs,
   fn(pre..., args...) returns the values r, or raises an error when r = Error = <<"error">>.
   A value is an integer, a byte string (sequence of integers), "nil" or "true".
   tag names the class of the case (coverage counts, and the signature of a discrepancy). *)

(* class of a position for a string of length l: B extreme, n negative, z zero, p inside, o beyond the end *)
PC(p, l) == IF p >= BIG \/ p <= -BIG THEN "B" ELSE IF p < 0 THEN "n" ELSE IF p = 0 THEN "z" ELSE IF p <= l THEN "p" ELSE "o"

SubCases(s) == LET P == Positions(Len(s)) l == Len(s) IN
  {<< <<i>>, <<Sub(s, i, -1)>>, PC(i, l) >> : i \in P}
     \cup {<< <<i, j>>, <<Sub(s, i, j)>>, PC(i, l) \o PC(j, l) >> : i \in P, j \in P}

ByteCases(s) == LET P == Positions(Len(s)) l == Len(s) IN
  {<< <<>>, ByteR(s, <<>>), "-" >>} \cup {<< <<i>>, ByteR(s, <<i>>), PC(i, l) >> : i \in P}
     \cup {<< <<i, j>>, ByteR(s, <<i, j>>), PC(i, l) \o PC(j, l) >> : i \in P, j \in P}

RepTag(s, n, sep) == IF n < 0 THEN "n<0" ELSE IF n = 0 THEN "n=0" ELSE IF n < BIG THEN "n>0"
                     ELSE IF RepLen(s, n, sep) = 0 THEN "huge-empty" ELSE "huge"
RepCases(s) ==
  {<< <<n>>, RepR(s, n, <<>>), RepTag(s, n, <<>>) >> : n \in Counts}
     \cup {<< <<n, sep>>, RepR(s, n, sep), RepTag(s, n, sep) >> : n \in Counts, sep \in Strs(MaxSep)}

HugeCases(s) == {<< <<BIG>>, RepR(s, BIG, <<>>), RepTag(s, BIG, <<>>) >>}
     \cup {<< <<BIG, sep>>, RepR(s, BIG, sep), RepTag(s, BIG, sep) >> : sep \in Strs(1)}

(* plain = true for every pattern; a pattern without magic characters must give the same without the
   fourth argument: exercised for the empty pattern, also without init *)
FindTag(s, p, init) == (IF Max(Rel(init, Len(s)), 1) > 1 THEN "init>1" ELSE "init=1")
                          \o (IF FindR(s, p, init) = <<"nil">> THEN ":fail" ELSE ":match") \o (IF p = <<>> THEN ":empty" ELSE "")
FindCases(s, p) == LET P == Positions(Len(s)) IN
  {<< <<i, "true">>, FindR(s, p, i), FindTag(s, p, i) >> : i \in P}
     \cup (IF p = <<>> THEN {<< <<i>>, FindR(s, p, i), FindTag(s, p, i) >> : i \in P}
                               \cup {<< <<>>, FindR(s, p, 1), FindTag(s, p, 1) >>} ELSE {})

CharCases == {<< a, CharR(a), IF CharOk(a) THEN "ok" ELSE "range" >> : a \in UNION {[1..k -> CharCodes] : k \in 0..MaxChars}}

Singles == {<<b>> : b \in 0..255}
ByteTag(s) == IF \E k \in 1..Len(s) : s[k] >= 128 THEN "byte>=0x80" ELSE "ascii"
OneArg(S, F(_)) == {<< <<s>>, <<F(s)>>, ByteTag(s) >> : s \in S}

Cases(fn, pre) ==
  CASE fn = "sub" -> SubCases(pre[1])
    [] fn = "byte" -> ByteCases(pre[1])
    [] fn = "rep" -> RepCases(pre[1])
    [] fn = "rephuge" -> HugeCases(pre[1])
    [] fn = "find" -> FindCases(pre[1], pre[2])
    [] fn = "char" -> CharCases
    [] fn = "len" -> {<< <<s>>, <<Len(s)>>, ByteTag(s) >> : s \in Strs(MaxLen)}
    [] fn = "reverse" -> OneArg(Strs(MaxLen), Reverse)
    [] fn = "upper" -> OneArg(Strs(MaxLen) \cup Singles, Upper)
    [] fn = "lower" -> OneArg(Strs(MaxLen) \cup Singles, Lower)

Start(fn, pre) == [fn |-> fn, pre |-> pre, st |-> 0]

Init == c \in
  {Start(fn, <<s>>) : fn \in Fns \cap {"sub", "byte", "rep"}, s \in Strs(MaxLen)}
    \cup {Start("rephuge", <<s>>) : s \in IF "rephuge" \in Fns THEN Strs(HugeLen) ELSE {}}
    \cup {Start("find", <<s, p>>) : s \in IF "find" \in Fns THEN Strs(MaxLen) ELSE {}, p \in Strs(MaxPat)}
    \cup {Start(fn, <<>>) : fn \in Fns \cap {"char", "len", "reverse", "upper", "lower"}}

Next == /\ c.st = 0
        /\ c' = [c EXCEPT !.st = 1]
        /\ Emit([fn |-> c.fn, pre |-> c.pre, cs |-> Cases(c.fn, c.pre)])

-----------------------------------------------------------------------------
(* simulation beyond the exhaustive bounds: random strings of length SimLen; every position tuple *)
RandStr(n) == [k \in 1..n |-> RandomElement(Alpha)]

SimInit == c = [fn |-> "start", pre |-> <<>>, st |-> 0]
(* two phases so that the random subject is a state value before patterns are cut out of it *)
SimNext ==
  \/ /\ c.fn # "pick"
     /\ c' = [fn |-> "pick", pre |-> <<RandStr(SimLen)>>, st |-> c.st + 1]
  \/ /\ c.fn = "pick"
     /\ LET s == c.pre[1] IN
        \/ \E fn \in Fns \cap {"sub", "byte"} :
              /\ c' = [fn |-> fn, pre |-> <<s>>, st |-> c.st + 1]
              /\ Emit([fn |-> fn, pre |-> <<s>>, cs |-> Cases(fn, <<s>>)])
        \/ /\ "find" \in Fns
           (* half of the patterns are cut out of the subject so that matches are frequent *)
           /\ \E m \in 0..SimPat, at \in {0, RandomElement(1..(SimLen - SimPat))} :
                /\ c' = [fn |-> "find", st |-> c.st + 1,
                         pre |-> <<s, IF at = 0 THEN RandStr(m) ELSE SubSeq(s, at, at + m - 1)>>]
                /\ Emit([fn |-> "find", pre |-> c'.pre, cs |-> Cases("find", c'.pre)])
=============================================================================

INIT Init
NEXT Next
CHECK_DEADLOCK FALSE
CONSTANTS
  Tier = "Q"
  K = 4

------------------------------ MODULE NumForMut ------------------------------
(***************************************************************************)
(* C16, family "formut": the three control expressions of a numeric for    *)
(* are evaluated ONCE, before the loop starts (manual 3.3.5: "The loop     *)
(* starts by evaluating once the three control expressions"); nothing the  *)
(* body does afterwards - assigning to the variables the expressions       *)
(* mention, or to the control variable ("changing its value does not       *)
(* affect the loop": the body works on a copy) - changes the progression,  *)
(* and the loop itself never writes to those variables (a numeric string   *)
(* or an integer that the loop converts stays what it was).                *)
(*                                                                         *)
(* Program model.  Three variables A, B, S hold the start, the limit and   *)
(* the step.  Where each variable lives and how the control expression     *)
(* mentions it is a "kind" (a literal, a local, a parenthesised local, an  *)
(* upvalue, a global, a table field, the argument of a call); the          *)
(* semantics below does not depend on it - that is the property - so one   *)
(* expectation is emitted per (triple, body, effects) and the check        *)
(* renders it under every tuple of kinds listed in KindTuples.             *)
(*                                                                         *)
(*   <A, B, S := a0, b0, s0>                                               *)
(*   for v = <A>, <B>, <S> do       -- optionally: evaluating the          *)
(*                                  -- expression of position p also       *)
(*                                  -- assigns Fx[p].v to variable Fx[p].x *)
(*      emit("v", v)                                                       *)
(*      <body: assignments X = c / X = X + c, X in A, B, S, V (= v)>       *)
(*      emit("w", A, B, S)                                                 *)
(*      stop after K iterations                                            *)
(*   end                                                                   *)
(*   emit("end", A, B, S)                                                  *)
(*                                                                         *)
(* Expected: the values of v are Loop(a, b, s) of NumFor for the values    *)
(* a, b, s the expressions had when they were evaluated; the store evolves *)
(* by the assignments only.  The manual does not fix the order in which    *)
(* the three expressions are evaluated: with side effects every order is   *)
(* a legal outcome (alternatives).  A numeric string as a control value is *)
(* converted once, either following its syntax or to a float (the manual   *)
(* says "converted to floats" only for non-integer start / step; both      *)
(* readings are accepted as alternatives).                                 *)
(***************************************************************************)
EXTENDS NumFor

MV == <<"A", "B", "S">>                     \* the variable of each position
MStore(a, b, s) == [A |-> a, B |-> b, S |-> s]

MSet(x, v) == [op |-> "set", x |-> x, v |-> v]
MInc(x, v) == [op |-> "add", x |-> x, v |-> v]
MAddV(a, b) == LET r == Arith("add", a, b) IN IF r.k = "alts" /\ Len(r.a) = 1 THEN r.a[1] ELSE Assert(FALSE, <<"body addition not determined", a, b>>)
MApply(st, sg) == \* one assignment; V is the control variable: a copy, the store is not affected
  IF sg.x = "V" THEN st
  ELSE IF sg.op = "set" THEN [st EXCEPT ![sg.x] = sg.v]
  ELSE [st EXCEPT ![sg.x] = MAddV(st[sg.x], sg.v)]
RECURSIVE MBody(_, _, _)
MBody(st, body, i) == IF i > Len(body) THEN st ELSE MBody(MApply(st, body[i]), body, i + 1)
RECURSIVE MIter(_, _, _)
MIter(st, body, n) == IF n = 0 THEN st ELSE MIter(MBody(st, body, 1), body, n - 1)

(* evaluation of the control expressions in the order pi *)
NoFx == [x |-> "", v |-> VNil]
MStep(cs, p, fx) ==
  [vals |-> [cs.vals EXCEPT ![p] = cs.st[MV[p]]],
   st |-> IF fx[p].x = "" THEN cs.st ELSE [cs.st EXCEPT ![fx[p].x] = fx[p].v]]
MEval(st, fx, pi) == MStep(MStep(MStep([vals |-> <<VNil, VNil, VNil>>, st |-> st], pi[1], fx), pi[2], fx), pi[3], fx)
Perms == << <<1, 2, 3>>, <<1, 3, 2>>, <<2, 1, 3>>, <<2, 3, 1>>, <<3, 1, 2>>, <<3, 2, 1>> >>

(* numeric strings: converted once *)
MNum(v) == IF NumericStr(v) THEN Str2Num(v.s) ELSE v
MFlt(v) == IF v.k = "i" /\ IToFExact(v.v) THEN VF(IToFRne(v.v)) ELSE v
MLoops(e1, e2, e3) ==
  IF NumericStr(e1) \/ NumericStr(e2) \/ NumericStr(e3)
  THEN <<Loop(MNum(e1), MNum(e2), MNum(e3), K)>>
       \o (IF NumericStr(e1) \/ NumericStr(e3) THEN <<Loop(MFlt(MNum(e1)), MNum(e2), MNum(e3), K)>> ELSE <<>>)
  ELSE <<Loop(e1, e2, e3, K)>>

EncSt(st) == <<EncV(st.A), EncV(st.B), EncV(st.S)>>
MOutcome(l, st0, body) ==
  IF l.k = "err" THEN [k |-> "err"]
  ELSE IF l.k = "skip" THEN [k |-> "skip"]
  ELSE IF l.und THEN [k |-> "skip"]
  ELSE [k |-> "run", v |-> [i \in 1..Len(l.v) |-> EncV(l.v[i])],
        w |-> [i \in 1..Len(l.v) |-> EncSt(MIter(st0, body, i))],
        end |-> EncSt(MIter(st0, body, Len(l.v)))]

HasFx(fx) == fx[1].x # "" \/ fx[2].x # "" \/ fx[3].x # ""
(* the distinct (values of the control expressions, store at loop entry) over the evaluation orders *)
MEntries(st, fx) == IF HasFx(fx) THEN {MEval(st, fx, Perms[i]) : i \in 1..Len(Perms)} ELSE {MEval(st, fx, Perms[1])}
(* ... each with the progressions the loop may follow; computed once per triple, shared by all bodies *)
MPairs(st, fx) == {<<e.st, MLoops(e.vals[1], e.vals[2], e.vals[3])>> : e \in MEntries(st, fx)}
MAltsB(pairs, body) == UNION {{MOutcome(pr[2][i], pr[1], body) : i \in 1..Len(pr[2])} : pr \in pairs}

(* ------------------------------------------------------------------------ *)
(* the lattices of this family *)
MI(k) == VI(I(k))
MStr(t) == VS(t)
Half == VF(FL(FALSE, 1, -1))
MStartQ == <<MI(1), VF(FL(FALSE, 1, 0)), MStr(<<"1">>), VI(Sub(MaxInt, One8))>>
MStartT == MStartQ \o <<MI(0), MI(3), VF(FL(FALSE, 1, 53)), MStr(<<"0", "x", "1">>), VI(MinInt)>>
MLimitQ == <<MI(3), VF(FL(FALSE, 3, 0)), MStr(<<"3">>), VF(FL(FALSE, 5, -1)), VI(MaxInt)>>
MLimitT == MLimitQ \o <<MI(0), MI(-3), MStr(<<"2", ".", "5">>), MStr(<<" ", "3", " ">>), VF(FInf(FALSE)), VF(FL(FALSE, 1, 63)), VI(MinInt), MStr(<<"x">>)>>
MStepQ == <<MI(1), VF(FL(FALSE, 1, 0)), MStr(<<"1">>), MI(2), MI(-1), Half>>
MStepT == MStepQ \o <<MI(0), MStr(<<"2">>), MStr(<<"0", ".", "5">>), VF(FL(TRUE, 1, 0)), VI(MaxInt), MI(-2), VNil>>
MStarts == IF Tier = "Q" THEN MStartQ ELSE MStartT
MLimits == IF Tier = "Q" THEN MLimitQ ELSE MLimitT
MSteps == IF Tier = "Q" THEN MStepQ ELSE MStepT

BodiesQ == <<
  [n |-> "none",        b |-> <<>>],
  [n |-> "limit-set-up",   b |-> <<MSet("B", MI(6))>>],
  [n |-> "limit-inc",   b |-> <<MInc("B", MI(1))>>],
  [n |-> "limit-set-down", b |-> <<MSet("B", MI(0))>>],
  [n |-> "limit-float", b |-> <<MSet("B", VF(FL(FALSE, 3, -1)))>>],
  [n |-> "limit-nil",   b |-> <<MSet("B", VNil)>>],
  [n |-> "step-3",      b |-> <<MSet("S", MI(3))>>],
  [n |-> "step-neg",    b |-> <<MSet("S", MI(-1))>>],
  [n |-> "step-zero",   b |-> <<MSet("S", MI(0))>>],
  [n |-> "step-float",  b |-> <<MSet("S", Half)>>],
  [n |-> "step-str",    b |-> <<MSet("S", MStr(<<"x">>))>>],
  [n |-> "start-set",   b |-> <<MSet("A", MI(100))>>],
  [n |-> "ctl-add",     b |-> <<MInc("V", MI(5))>>],
  [n |-> "ctl-nil",     b |-> <<MSet("V", VNil)>>],
  [n |-> "all",         b |-> <<MSet("A", MI(7)), MInc("B", MI(2)), MSet("S", MI(2)), MInc("V", MI(1))>>] >>
BodiesT == BodiesQ \o <<
  [n |-> "limit-dec",   b |-> <<MInc("B", MI(-1))>>],
  [n |-> "step-inc",    b |-> <<MInc("S", MI(1))>>],
  [n |-> "step-nil",    b |-> <<MSet("S", VNil)>>],
  [n |-> "limit-str",   b |-> <<MSet("B", MStr(<<"9">>))>>],
  [n |-> "ctl-str",     b |-> <<MSet("V", MStr(<<"x">>))>>],
  [n |-> "ctl-float",   b |-> <<MSet("V", Half)>>],
  [n |-> "start-nil",   b |-> <<MSet("A", VNil)>>],
  [n |-> "limit-inf",   b |-> <<MSet("B", VF(FInf(FALSE)))>>],
  [n |-> "swap",        b |-> <<MSet("B", MI(1)), MSet("A", MI(9)), MSet("S", MI(-3))>>] >>
Bodies == IF Tier = "Q" THEN BodiesQ ELSE BodiesT

Fx(p, x, v) == [i \in 1..3 |-> IF i = p THEN [x |-> x, v |-> v] ELSE NoFx]
FxsQ == <<
  [n |-> "none",             fx |-> <<NoFx, NoFx, NoFx>>],
  [n |-> "step-sets-limit",  fx |-> Fx(3, "B", MI(5))],
  [n |-> "step-sets-start",  fx |-> Fx(3, "A", MI(2))],
  [n |-> "limit-sets-step",  fx |-> Fx(2, "S", MI(2))],
  [n |-> "limit-sets-start", fx |-> Fx(2, "A", MI(3))],
  [n |-> "start-sets-limit", fx |-> Fx(1, "B", MI(2))],
  [n |-> "limit-sets-limit", fx |-> Fx(2, "B", MI(9))] >>
FxsT == FxsQ \o <<
  [n |-> "start-sets-step",  fx |-> Fx(1, "S", MI(-1))],
  [n |-> "step-sets-step",   fx |-> Fx(3, "S", MI(0))],
  [n |-> "all-set",          fx |-> <<[x |-> "B", v |-> MI(4)], [x |-> "S", v |-> MI(2)], [x |-> "A", v |-> MI(2)]>>] >>
Fxs == IF Tier = "Q" THEN FxsQ ELSE FxsT

Kinds == <<"lit", "local", "paren", "upval", "global", "field", "call">>
RECURSIVE AllSame(_, _)
AllSame(i, acc) == IF i > Len(Kinds) THEN acc ELSE AllSame(i + 1, Append(acc, <<Kinds[i], Kinds[i], Kinds[i]>>))
RECURSIVE OneOf(_, _, _)
OneOf(p, i, acc) == IF i > Len(Kinds) THEN acc
                    ELSE OneOf(p, i + 1, Append(acc, [q \in 1..3 |-> IF q = p THEN Kinds[i] ELSE "lit"]))
KindTuplesQ == AllSame(1, <<>>) \o OneOf(1, 2, <<>>) \o OneOf(2, 2, <<>>) \o OneOf(3, 2, <<>>) \o
  << <<"local", "upval", "global">>, <<"upval", "local", "field">>, <<"global", "field", "local">>, <<"field", "call", "upval">>,
     <<"call", "global", "paren">>, <<"paren", "local", "local">>, <<"local", "local", "upval">>, <<"upval", "upval", "local">>,
     <<"call", "local", "local">>, <<"call", "upval", "upval">>, <<"lit", "local", "local">>, <<"lit", "upval", "upval">> >>
RECURSIVE KProd(_, _)
KProd(i, acc) == \* all 7^3 tuples
  IF i >= 343 THEN acc
  ELSE KProd(i + 1, Append(acc, <<Kinds[(i \div 49) + 1], Kinds[((i \div 7) % 7) + 1], Kinds[(i % 7) + 1]>>))
KindTuples == IF Tier = "Q" THEN KindTuplesQ ELSE KProd(0, <<>>)

EncStmt(sg) == [op |-> sg.op, x |-> sg.x, v |-> EncV(sg.v)]
EncBody(b) == [n |-> b.n, b |-> [i \in 1..Len(b.b) |-> EncStmt(b.b[i])]]
EncFx(f) == [n |-> f.n, fx |-> [i \in 1..3 |-> [x |-> f.fx[i].x, v |-> EncV(f.fx[i].v)]]]

(* bodies used with each effect, and the kind tuples each case is rendered under (a rotating 1/Stride of them) *)
BodyIdx(fi) == IF fi = 1 THEN [i \in 1..Len(Bodies) |-> i] ELSE <<1, 3>>
Stride == IF Tier = "Q" THEN 4 ELSE 49
KindSel(fi, a, j, s, bi) == {ki \in 1..Len(KindTuples) : (ki + a + 3 * j + 5 * s + 7 * bi + 11 * fi) % Stride = 0}

InitM == c = <<"start">>
NextM ==
  \/ /\ c = <<"start">>
     /\ \/ c' = <<"lat">> /\ Emit([t |-> "mlat", k |-> K,
                                   starts |-> [i \in 1..Len(MStarts) |-> EncV(MStarts[i])],
                                   limits |-> [i \in 1..Len(MLimits) |-> EncV(MLimits[i])],
                                   steps |-> [i \in 1..Len(MSteps) |-> EncV(MSteps[i])],
                                   cstarts |-> [i \in 1..Len(MStarts) |-> VClass(MStarts[i])],
                                   climits |-> [i \in 1..Len(MLimits) |-> VClass(MLimits[i])],
                                   csteps |-> [i \in 1..Len(MSteps) |-> VClass(MSteps[i])],
                                   bodies |-> [i \in 1..Len(Bodies) |-> EncBody(Bodies[i])],
                                   fxs |-> [i \in 1..Len(Fxs) |-> EncFx(Fxs[i])],
                                   kinds |-> KindTuples])
        \/ \E fi \in 1..Len(Fxs), i \in 1..Len(MStarts) : c' = <<"fa", fi, i>>
  \/ /\ c[1] = "fa"
     /\ \E s \in 1..Len(MSteps) :
          /\ c' = <<"m", c[2], c[3], s>>
          /\ LET fi == c[2]
                 a == c[3]
                 bs == BodyIdx(fi)
             IN Emit([t |-> "mut", fx |-> fi, a |-> a, s |-> s, bodies |-> bs,
                      r |-> [j \in 1..Len(MLimits) |->
                               LET pairs == MPairs(MStore(MStarts[a], MLimits[j], MSteps[s]), Fxs[fi].fx)
                               IN [b \in 1..Len(bs) |-> [alts |-> MAltsB(pairs, Bodies[bs[b]].b), kx |-> KindSel(fi, a, j, s, bs[b])]]]])
=============================================================================

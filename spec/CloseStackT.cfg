INIT Init
NEXT Next
VIEW View
CHECK_DEADLOCK FALSE
INVARIANTS ClosedOnce NoPendingLost
CONSTANTS
  MaxDepth = 4
  MaxSteps = 6
  MaxPend = 2
  Kinds = {"do","loop","forin","fn","pcall","co"}
  Handlers = {"ok","raise","raisetbc","nil","false","nometa"}
  ViewHist = 0
  ErrKinds = {"str","tbl"}
  XHandlers = {}
  Battery = FALSE
  EmitAll = TRUE

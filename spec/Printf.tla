------------------------------- MODULE Printf -------------------------------
(***************************************************************************)
(* string.format for the integer and string conversions (Lua 5.4 manual    *)
(* 6.4.1: "follows the same rules as the ISO C function sprintf"):         *)
(*   %d %i %u %c %x %X %o %s with the flags - + space # 0, a width and a   *)
(*   precision, as ISO C 7.21.6.1 defines them, on 64-bit integers (limbs) *)
(*   and byte strings.  Only flag/conversion combinations whose behaviour  *)
(*   C defines are generated.  Texts are sequences of bytes.               *)
(* Decides the printf part of C17.                                          *)
(***************************************************************************)
EXTENDS Integers, Sequences, FiniteSets, TLC, Json, Limbs

CONSTANTS Convs,      \* subset of {"d","i","u","x","X","o","c","s"}
          Widths,     \* subset of 0..99, 0 = no width
          Precs,      \* subset of -1..99, -1 = no precision
          IntVals,    \* set of Lua integers (limbs)
          StrVals,    \* set of byte strings
          ChrVals     \* set of small integers for %c

Emit(v) == PrintT(<<"@@", ToJson(v)>>)
Code == [d |-> 100, i |-> 105, u |-> 117, x |-> 120, X |-> 88, o |-> 111, c |-> 99, s |-> 115]
FlagCode == ("-" :> 45) @@ ("+" :> 43) @@ (" " :> 32) @@ ("#" :> 35) @@ ("0" :> 48)
FlagOrder == <<"-", "+", " ", "#", "0">>
(* the flags C defines for each conversion *)
FlagsOf(cv) == CASE cv \in {"d", "i"} -> {"-", "+", " ", "0"}
                 [] cv = "u" -> {"-", "0"}
                 [] cv \in {"x", "X", "o"} -> {"-", "#", "0"}
                 [] OTHER -> {"-"}
PrecOk(cv) == cv # "c"

Rep2(x, n) == IF n <= 0 THEN <<>> ELSE Rep(x, n)
DecText(n) == IF n >= 10 THEN <<48 + (n \div 10), 48 + (n % 10)>> ELSE <<48 + n>>
DigitChar(dg, upper) == IF dg < 10 THEN 48 + dg ELSE (IF upper THEN 55 ELSE 87) + dg
DigitText(ds, upper) == [j \in 1..Len(ds) |-> DigitChar(ds[j], upper)]

(* the text of the directive itself *)
Directive(cv, fl, w, p) ==
  <<37>> \o SelectSeq([j \in 1..5 |-> IF FlagOrder[j] \in fl THEN FlagCode[FlagOrder[j]] ELSE 0], LAMBDA x : x # 0)
        \o (IF w > 0 THEN DecText(w) ELSE <<>>) \o (IF p >= 0 THEN <<46>> \o DecText(p) ELSE <<>>) \o <<Code[cv]>>

(* field padding: `pre` is the sign or radix prefix, `body` the digits or characters *)
Pad(pre, body, fl, w, zeroable) ==
  LET n == Len(pre) + Len(body) IN
  IF "-" \in fl THEN pre \o body \o Rep2(32, w - n)
  ELSE IF "0" \in fl /\ zeroable THEN pre \o Rep2(48, w - n) \o body
  ELSE Rep2(32, w - n) \o pre \o body

(* digits with the precision applied: "the minimum number of digits to appear"; "the result of converting a zero value
   with a precision of zero is no characters" *)
WithPrec(ds, p, iszero) == IF p = 0 /\ iszero THEN <<>> ELSE Rep2(48, p - Len(ds)) \o ds

FormatInt(cv, fl, w, p, l) ==
  LET zeroable == p < 0            \* "if a precision is specified, the 0 flag is ignored"
  IN CASE cv \in {"d", "i"} ->
            LET sign == IF IsNeg(l) THEN <<45>> ELSE IF "+" \in fl THEN <<43>> ELSE IF " " \in fl THEN <<32>> ELSE <<>>
                ds == WithPrec(DigitText(Digits(Mag(l), 10), FALSE), p, IsZero(l))
            IN Pad(sign, ds, fl, w, zeroable)
       [] cv = "u" -> Pad(<<>>, WithPrec(DigitText(Digits(l, 10), FALSE), p, IsZero(l)), fl, w, zeroable)
       [] cv \in {"x", "X"} ->
            LET ds == WithPrec(DigitText(Digits(l, 16), cv = "X"), p, IsZero(l))
                pre == IF "#" \in fl /\ ~IsZero(l) THEN <<48, Code[cv]>> ELSE <<>>     \* "a nonzero result has 0x prefixed"
            IN Pad(pre, ds, fl, w, zeroable)
       [] cv = "o" ->
            LET d0 == WithPrec(DigitText(Digits(l, 8), FALSE), p, IsZero(l))
                \* "#: increases the precision, if and only if necessary, to force the first digit of the result to be a zero"
                ds == IF "#" \in fl /\ (d0 = <<>> \/ d0[1] # 48) THEN <<48>> \o d0 ELSE d0
            IN Pad(<<>>, ds, fl, w, zeroable)

FormatChr(fl, w, n) == Pad(<<>>, <<n % 256>>, fl, w, FALSE)
FormatStr(fl, w, p, s) == Pad(<<>>, IF p >= 0 /\ p < Len(s) THEN SubSeq(s, 1, p) ELSE s, fl, w, FALSE)

(* ------------------------------------------------------------------ *)
VARIABLES phase, c
vars == <<phase, c>>
Init == phase = "start" /\ c = <<>>

Dirs == {d \in [cv : Convs, w : Widths, p : Precs] : d.p = -1 \/ PrecOk(d.cv)}

(* level 1: pick the directive shape; level 2: flags and value (so that workers share the table) *)
Pick == /\ phase = "start"
        /\ \E d \in Dirs : phase' = "dir" /\ c' = d
Expand ==
  /\ phase = "dir" /\ phase' = "done"
  /\ \E fl \in SUBSET FlagsOf(c.cv) :
       LET dir == Directive(c.cv, fl, c.w, c.p) IN
       CASE c.cv = "c" -> \E n \in ChrVals :
              /\ c' = <<c, fl, n>>
              /\ Emit([fmt |-> dir, arg |-> [t |-> "i", l |-> IntL(n)], out |-> FormatChr(fl, c.w, n), cv |-> c.cv, fl |-> fl,
                       w |-> c.w, p |-> c.p])
         [] c.cv = "s" -> \E s \in StrVals :
              /\ c' = <<c, fl, s>>
              /\ Emit([fmt |-> dir, arg |-> [t |-> "s", b |-> s], out |-> FormatStr(fl, c.w, c.p, s), cv |-> c.cv, fl |-> fl,
                       w |-> c.w, p |-> c.p])
         [] OTHER -> \E l \in IntVals :
              /\ c' = <<c, fl, l>>
              /\ Emit([fmt |-> dir, arg |-> [t |-> "i", l |-> l], out |-> FormatInt(c.cv, fl, c.w, c.p, l), cv |-> c.cv, fl |-> fl,
                       w |-> c.w, p |-> c.p])
(* several directives, literal text and %% in one format: arguments are consumed in order, other text is copied *)
One(cv, fl, w, p, arg) ==
  [dir |-> Directive(cv, fl, w, p), arg |-> arg,
   out |-> CASE cv = "s" -> FormatStr(fl, w, p, arg.b) [] cv = "c" -> FormatChr(fl, w, Small(arg.l)) [] OTHER -> FormatInt(cv, fl, w, p, arg.l)]
Simple == {One("d", {}, 0, -1, [t |-> "i", l |-> IntL(-42)]), One("s", {}, 0, -1, [t |-> "s", b |-> <<104, 105>>]),
           One("x", {"#"}, 6, -1, [t |-> "i", l |-> IntL(255)]), One("c", {}, 0, -1, [t |-> "i", l |-> IntL(65)]),
           One("s", {"-"}, 4, 1, [t |-> "s", b |-> <<120, 121>>]), One("u", {}, 0, -1, [t |-> "i", l |-> IntL(-1)]),
           One("d", {"+"}, 0, 3, [t |-> "i", l |-> IntL(7)])}
Multi ==
  /\ phase = "start" /\ phase' = "done"
  /\ \E a \in Simple, b \in Simple :
       /\ c' = <<a, b>>
       /\ Emit([fmt |-> <<91>> \o a.dir \o <<124, 37, 37>> \o b.dir \o <<93>>, args |-> <<a.arg, b.arg>>,
                out |-> <<91>> \o a.out \o <<124, 37>> \o b.out \o <<93>>, cv |-> "multi", fl |-> {}, w |-> 0, p |-> -1])
Next == Pick \/ Expand \/ Multi
=============================================================================

-------------------------------- MODULE Gate --------------------------------
(***************************************************************************)
(* Compliance-flag gating of Go functions (quotas.md, C08).  The inventory *)
(* of functions (id -> declared flags, effect class) is a constant that is *)
(* extracted from the real runtime and its sources on every run.  A call   *)
(* of f in a context requiring the flag set R fails with an ordinary error *)
(* BEFORE any effect iff R is not a subset of f's declared flags, and the  *)
(* context stays live; otherwise f runs.  IoSafe: in a context requiring   *)
(* "iosafe" no call performs an effect on the outside world.               *)
(***************************************************************************)
EXTENDS Integers, Sequences, FiniteSets, TLC, Json

CONSTANTS NFn,        \* functions 1..NFn
          Declared,   \* [1..NFn -> SUBSET Flags]
          Class,      \* [1..NFn -> "pure" | "safeio" | "os"]   static reachability of OS primitives
          ReqSets,    \* the sets of required flags to explore
          InnerDefs   \* definitions of a context nested inside: records [flags, cpu, mem] (cpu/mem: a hard limit is set)

Flags == {"memsafe", "cpusafe", "iosafe", "timesafe"}

VARIABLES req,      \* flags required by the active context
          effects,  \* sequence of outside effects performed so far: <<f, class>>
          alive, n, hist,
          outer,    \* flags required by the enclosing context
          inner     \* definition of the nested context the call is made in (or NoInner)

allvars == <<req, effects, alive, n, hist, outer, inner>>
Emit(v) == PrintT(<<"@@", ToJson(v)>>)

(* a nested context requires everything its parent requires, plus its own flags, plus the flags implied by its limits *)
Nested(R, d) == R \cup d.flags \cup (IF d.cpu THEN {"cpusafe"} ELSE {}) \cup (IF d.mem THEN {"memsafe"} ELSE {})
NoInner == [flags |-> {}, cpu |-> FALSE, mem |-> FALSE, none |-> TRUE]

Init == /\ outer \in ReqSets /\ inner \in InnerDefs \cup {NoInner}
        /\ req = (IF "none" \in DOMAIN inner THEN outer ELSE Nested(outer, inner))
        /\ effects = <<>> /\ alive = TRUE /\ n = 0 /\ hist = <<>>

Allowed(f, R) == R \subseteq Declared[f]

(* one call of f; an "os" function performs its effect whenever it runs, a "safeio" function only when
   the context does not require iosafe (the safeio primitives refuse otherwise) *)
CallGo(f) ==
  /\ alive /\ n < 1
  /\ n' = n + 1
  /\ alive' = TRUE                                   \* a refused call never terminates the context
  /\ effects' = IF ~Allowed(f, req) THEN effects
                ELSE IF Class[f] = "os" \/ (Class[f] = "safeio" /\ "iosafe" \notin req)
                THEN Append(effects, <<f, Class[f]>>) ELSE effects
  /\ hist' = Append(hist, f)
  /\ req' = req /\ UNCHANGED <<outer, inner>>
  /\ Emit([f |-> f, req |-> req, outer |-> outer,
           inner |-> IF "none" \in DOMAIN inner THEN [none |-> TRUE] ELSE [flags |-> inner.flags, cpu |-> inner.cpu, mem |-> inner.mem], exp |-> IF Allowed(f, req) THEN "runs" ELSE "flag-error",
           mayeffect |-> Allowed(f, req) /\ (Class[f] = "os" \/ (Class[f] = "safeio" /\ "iosafe" \notin req)),
           iosafelead |-> Allowed(f, req) /\ "iosafe" \in req /\ Class[f] = "os"])

Next == \E f \in 1..NFn : CallGo(f)
Spec == Init /\ [][Next]_allvars

(* the statement to decide: with the inventory as extracted, can an outside effect happen under iosafe? *)
IoSafe == ("iosafe" \in req) => effects = <<>>
RefusedBeforeEffect == \A i \in 1..Len(effects) : Allowed(effects[i][1], req)
=============================================================================

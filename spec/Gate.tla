-------------------------------- MODULE Gate --------------------------------
(***************************************************************************)
(* Compliance-flag gating of Go functions (quotas.md, C08).  The inventory *)
(* of functions (id -> declared flags, effect class) is a constant that is *)
(* extracted from the real runtime and its sources on every run.  A call   *)
(* of f in a context requiring the flag set R fails with an ordinary error *)
(* BEFORE any effect iff R is not a subset of f's declared flags, and the  *)
(* context stays live; otherwise f runs.  IoSafe: in a context requiring   *)
(* "iosafe" no call performs an effect on the outside world.               *)
(*                                                                         *)
(* Round 2: the ROUTE by which the Go function is reached is a dimension   *)
(* of the model.  The verdict of the gate never depends on the route; what *)
(* depends on the route is (a) whether the handler is reached at all (to-  *)
(* be-closed variables and finalisers of a context that is terminated are  *)
(* dropped), (b) which context is the current one when the handler runs (a *)
(* finaliser runs in a context that shares the finaliser pool in which its *)
(* value was registered: a context owns a pool iff it has a hard limit),   *)
(* (c) whether an error raised by the handler reaches the operation that   *)
(* triggered it, and (d) which library functions have to run themselves in *)
(* the context for the route to exist (its carriers).                      *)
(***************************************************************************)
EXTENDS Integers, Sequences, FiniteSets, TLC, Json

CONSTANTS NFn,          \* functions 1..NFn
          Declared,     \* [1..NFn -> SUBSET Flags]
          Class,        \* [1..NFn -> "pure" | "safeio" | "os"]   static reachability of OS primitives
          Kind,         \* [1..NFn -> "lib" | "probe"]  a probe is a Go function of the harness whose only effect is to record that it ran
          Key,          \* [1..NFn -> STRING]  dotted Lua name ("table.sort"), used to name the carriers of a route
          DirectChains, \* context chains explored with the direct route: every function
          PlainChains,  \* context chains explored with the routes whose handler runs synchronously (hooks "plain", "close")
          ExitChains,   \* context chains explored with the routes that depend on how the context ends (hooks "gc", "ctxclose")
          AllLibOnRoutes, \* BOOLEAN: every library function that some context refuses goes through every route (thorough)
          StrictGc      \* BOOLEAN: FALSE = a finaliser is gated by the context current when it runs (quotas.md);
                        \*          TRUE  = by the context in which its value was created (not what golua promises)

Flags == {"memsafe", "cpusafe", "iosafe", "timesafe"}

(* A context definition is [flags |-> SUBSET Flags, lim |-> "none" | "cpu" | "mem" | "ms"]; a chain <<d1, .., dk>> is the
   nesting root > d1 > .. > dk, the call is made in dk.  A nested context requires everything its parent requires, plus
   its own flags, plus the flag implied by its hard limit. *)
Implied(l) == CASE l = "cpu" -> {"cpusafe"} [] l = "mem" -> {"memsafe"} [] l = "ms" -> {"timesafe"} [] OTHER -> {}
RECURSIVE ReqAt(_, _)
ReqAt(ch, i) == IF i = 0 THEN {} ELSE ReqAt(ch, i - 1) \cup ch[i].flags \cup Implied(ch[i].lim)
Req(ch) == ReqAt(ch, Len(ch))

(* the root context owns a finaliser pool; a pushed context owns one iff it has a hard limit, else it shares its parent's *)
(* a context owns its finaliser pool iff it restricts resources or requires flags of its own (since fix 8767185; before it
   only a hard limit did, and a finaliser set up in a flags-only context ran later, ungated, in an enclosing context) *)
Owns(ch, i) == i = 0 \/ ch[i].lim # "none" \/ ch[i].flags # {}
Owner(ch) == CHOOSE i \in 0..Len(ch) : Owns(ch, i) /\ \A j \in (i + 1)..Len(ch) : ~Owns(ch, j)

VARIABLES fam,      \* "direct" | "plain" | "exit"
          ch,       \* the chain of contexts
          req,      \* flags required by the active context
          effects,  \* set of outside effects performed so far: <<f, class, R>>  (R: flags in force when f ran)
          alive, n, hist

allvars == <<fam, ch, req, effects, alive, n, hist>>
Emit(v) == PrintT(<<"@@", ToJson(v)>>)

Init == /\ \/ fam = "direct" /\ ch \in DirectChains
           \/ fam = "plain" /\ ch \in PlainChains
           \/ fam = "exit" /\ ch \in ExitChains
        /\ req = Req(ch)
        /\ effects = {} /\ alive = TRUE /\ n = 0 /\ hist = <<>>

Allowed(f, R) == R \subseteq Declared[f]
(* an "os" function performs its effect whenever it runs, a "safeio" function only when the context does not require
   iosafe (the safeio primitives refuse otherwise) *)
MayEffect(f, R) == Allowed(f, R) /\ (Class[f] = "os" \/ (Class[f] = "safeio" /\ "iosafe" \notin R))

(* ---------------------------------------------------------------------------------------------------------------- *)
(* direct route (round 1): one call of f in the innermost context                                                     *)
CallGo(f) ==
  /\ fam = "direct" /\ alive /\ n < 1
  /\ n' = n + 1
  /\ alive' = TRUE                                   \* a refused call never terminates the context
  /\ effects' = IF MayEffect(f, req) THEN effects \cup {<<f, Class[f], req>>} ELSE effects
  /\ hist' = Append(hist, f)
  /\ UNCHANGED <<fam, ch, req>>
  /\ Emit([fam |-> "direct", f |-> f, req |-> req, ch |-> ch,
           exp |-> IF Allowed(f, req) THEN "runs" ELSE "flag-error",
           mayeffect |-> MayEffect(f, req),
           iosafelead |-> Allowed(f, req) /\ "iosafe" \in req /\ Class[f] = "os"])

(* ---------------------------------------------------------------------------------------------------------------- *)
(* routes                                                                                                             *)
(* name     identifies the rendering (the Lua program shape) in the conformance check
   modes    "go": the Go function itself is installed as the handler (metamethod, callback, body, iterator, ...);
            "lua": a Lua closure is installed and calls the Go function
   hook     "plain"    the handler runs synchronously inside the context, whatever happens later
            "close"    same, the handler is a __close metamethod run when its variable goes out of scope (normally / by
                       break / by return / while an error unwinds / by coroutine.close)
            "ctxclose" the handler is the __close metamethod of a variable still pending when the context body ends
            "gc"       the handler is a __gc metamethod of a value created in the context
   exit     how the innermost context ends after the route was set up: "return" | "error" | "kill"
   prop     TRUE iff an error raised by the handler makes the triggering operation fail (FALSE: the error is turned
            into a warning (gc), is swallowed (hooks), or the operation fails anyway (message handler, close while unwinding))
   carriers library functions that have to run inside the context for the route to exist *)
Rt(name, modes, hook, exit, prop, carriers) ==
  [name |-> name, modes |-> modes, hook |-> hook, exit |-> exit, prop |-> prop, carriers |-> carriers]
Both == {"go", "lua"}
GoOnly == {"go"}

HookCarriers == {"debug.sethook", "coroutine.create", "coroutine.resume", "type"}
CallRoutes ==
  { Rt("call", GoOnly, "plain", "return", TRUE, {}),                       \* r = F(...) in a Lua function
    Rt("tailcall", GoOnly, "plain", "return", TRUE, {}),                   \* return F(...)
    Rt("method", GoOnly, "plain", "return", TRUE, {}),                     \* t:m(...) with t.m = F
    Rt("strmethod", Both, "plain", "return", TRUE, {}),                    \* ("s"):m() with string.m = F
    Rt("pcall", Both, "plain", "return", TRUE, {}),                        \* pcall(F, ...)
    Rt("xpcall", Both, "plain", "return", TRUE, {"xpcall"}),               \* xpcall(F, h, ...)
    Rt("xpcall-handler", Both, "plain", "return", FALSE, {"xpcall", "error"}),   \* xpcall(error, F, msg)
    Rt("co-wrap", Both, "plain", "return", TRUE, {"coroutine.wrap", "~wrap"}),
    Rt("co-resume", Both, "plain", "return", TRUE, {"coroutine.create", "coroutine.resume"}),
    Rt("load-chunk", Both, "plain", "return", TRUE, {"load", "select"}),   \* a chunk compiled in the context calls F
    Rt("load-reader", Both, "plain", "return", TRUE, {"load"}),            \* load(F)
    Rt("for-iter", Both, "plain", "return", TRUE, {}),                     \* for x in F, s, c do
    Rt("ctx-body", Both, "plain", "return", TRUE, {"runtime.callcontext", "tostring"}),  \* runtime.callcontext({}, F, ...)
    Rt("sort-cmp", Both, "plain", "return", TRUE, {"table.sort"}),
    Rt("gsub-repl", Both, "plain", "return", TRUE, {"string.gsub"}),
    Rt("hook-call", Both, "plain", "return", FALSE, HookCarriers),         \* debug.sethook(co, F, "c"): hooks of a coroutine
    Rt("hook-return", Both, "plain", "return", FALSE, HookCarriers),
    Rt("hook-line", Both, "plain", "return", FALSE, HookCarriers) }

(* metamethods: F (or a Lua closure calling F) is the metamethod; the operation is performed by Lua code or by a library function *)
MetaRoutes ==
  { Rt(e, Both, "plain", "return", TRUE, {}) :
      e \in {"mm-index", "mm-newindex", "mm-call", "mm-eq", "mm-lt", "mm-le", "mm-concat", "mm-len", "mm-unm", "mm-add", "mm-sub",
             "mm-mul", "mm-div", "mm-mod", "mm-pow", "mm-idiv", "mm-band", "mm-bor", "mm-bxor", "mm-shl", "mm-shr", "mm-bnot"} }
  \cup
  { Rt("mm-tostring", Both, "plain", "return", TRUE, {"tostring"}),
    Rt("mm-tostring-format", Both, "plain", "return", TRUE, {"string.format"}),
    Rt("mm-tostring-print", Both, "plain", "return", TRUE, {"print"}),
    Rt("mm-pairs", Both, "plain", "return", TRUE, {"pairs"}),
    Rt("mm-index-unpack", Both, "plain", "return", TRUE, {"table.unpack"}),
    Rt("mm-index-ipairs", Both, "plain", "return", TRUE, {"ipairs", "~ipairsiterator"}),
    Rt("mm-len-unpack", Both, "plain", "return", TRUE, {"table.unpack"}),
    Rt("mm-newindex-insert", Both, "plain", "return", TRUE, {"table.insert"}),
    Rt("mm-lt-sort", Both, "plain", "return", TRUE, {"table.sort"}) }

CloseRoutes ==
  { Rt("close-scope", Both, "close", "return", TRUE, {}),                  \* do local x <close> = v end
    Rt("close-return", Both, "close", "return", TRUE, {}),
    Rt("close-break", Both, "close", "return", TRUE, {}),
    Rt("close-error", Both, "close", "return", FALSE, {"error"}),          \* closed while an error unwinds to a pcall
    Rt("close-for", Both, "close", "return", TRUE, {"next"}),              \* the closing value of a generic for
    Rt("close-coclose", Both, "close", "return", TRUE, {"coroutine.create", "coroutine.resume", "coroutine.yield", "coroutine.close"}),
    Rt("close-co-error", Both, "close", "return", FALSE, {"coroutine.wrap", "~wrap", "error"}),
    Rt("ctxclose-error", Both, "ctxclose", "error", FALSE, {"error"}),     \* the context body fails with the variable pending
    Rt("ctxclose-kill", Both, "ctxclose", "kill", FALSE, {}) }             \* the context is terminated with the variable pending

GcRoutes ==
  { Rt("gc-table-return", Both, "gc", "return", FALSE, {"setmetatable"}),
    Rt("gc-table-error", Both, "gc", "error", FALSE, {"setmetatable", "error"}),
    Rt("gc-table-kill", Both, "gc", "kill", FALSE, {"setmetatable"}),
    Rt("gc-table-collect", Both, "gc", "return", FALSE, {"setmetatable", "gogc"}),   \* unreachable and collected while the context runs
    Rt("gc-udata-return", Both, "gc", "return", FALSE, {"newres"}),
    Rt("gc-udata-error", Both, "gc", "error", FALSE, {"newres", "error"}),
    Rt("gc-udata-kill", Both, "gc", "kill", FALSE, {"newres"}),
    Rt("gc-udata-collect", Both, "gc", "return", FALSE, {"newres", "gogc"}) }

Routes == CallRoutes \cup MetaRoutes \cup CloseRoutes \cup GcRoutes

(* what the harness itself needs in the context *)
HarnessCarriers(r, m, c) ==
  {"pcall", "table.pack", "io.type", "type"}
            \cup (IF r.exit = "kill" /\ c[Len(c)].lim = "none" THEN {"runtime.killcontext"} ELSE {})
            \cup (IF r.exit = "error" THEN {"error"} ELSE {})

(* per carrier name: does the inventory have it, and the flags every function of that name has declared (constants:
   TLC evaluates them once) *)
AllCarrierKeys == UNION { r.carriers : r \in Routes } \cup {"pcall", "table.pack", "io.type", "type", "runtime.killcontext", "error", "runtime.callcontext"}
KeyPresent == [k \in AllCarrierKeys |-> \E f \in 1..NFn : Key[f] = k]
KeyDeclared == [k \in AllCarrierKeys |-> { fl \in Flags : \A f \in 1..NFn : Key[f] = k => fl \in Declared[f] }]
KeyAllowed(k, R) == KeyPresent[k] /\ R \subseteq KeyDeclared[k]
Available(r, m, c) ==
  /\ \A k \in r.carriers \cup HarnessCarriers(r, m, c) : KeyAllowed(k, Req(c))
  /\ \A i \in 1..(Len(c) - 1) : KeyAllowed("runtime.callcontext", ReqAt(c, i))

(* is the handler run at all?  A terminated context returns at once: its pending to-be-closed variables are dropped and
   the finalisers of the pool it owns are never run (only resources are released).  Finalisers registered in a shared
   pool survive the context and are run by the owner of the pool (at the latest when it ends / the runtime is closed). *)
Reached(r, c) ==
  CASE r.hook = "ctxclose" -> r.exit # "kill"
    [] r.hook = "gc" -> ~(r.exit = "kill" /\ Owner(c) = Len(c))
    [] OTHER -> TRUE

(* the sets of required flags that can be in force when the handler runs *)
GateSets(r, c) ==
  IF r.hook = "gc" /\ ~StrictGc THEN { ReqAt(c, i) : i \in Owner(c)..Len(c) } ELSE { Req(c) }

Verdicts(f, r, c) ==
  IF ~Reached(r, c) THEN {"notreached"}
  ELSE { IF Allowed(f, R) THEN "runs" ELSE "refused" : R \in GateSets(r, c) }

(* no outside effect may be observed *)
NoEffect(f, r, c) == ~Reached(r, c) \/ \A R \in GateSets(r, c) : ~Allowed(f, R) \/ "iosafe" \in R

(* the outcome of the operation that triggers the handler, where the route determines it.  In mode "lua" the handler is a
   Lua closure that calls the function under pcall: a refusal is an ordinary error, so the closure catches it and the
   operation succeeds (a library function that runs may itself disturb what follows: not determined) *)
Site(f, r, m, c) ==
  LET v == Verdicts(f, r, c) IN
  IF ~r.prop \/ ~Reached(r, c) THEN "any"
  ELSE IF m = "lua" THEN (IF Kind[f] = "probe" \/ "runs" \notin v THEN "succeeds" ELSE "any")
  ELSE IF v = {"refused"} THEN "fails"
  ELSE IF v = {"runs"} /\ Kind[f] = "probe" THEN "succeeds"
  ELSE "any"

(* a refusal never changes how the context ends *)
Status(r) == CASE r.exit = "return" -> "done" [] r.exit = "error" -> "error" [] OTHER -> "killed"

(* which functions go through which routes *)
AllFlags(f) == Declared[f] = Flags
Rep(f) == Kind[f] = "lib" /\ \A g \in 1..(f - 1) : ~(Kind[g] = "lib" /\ Declared[g] = Declared[f] /\ Class[g] = Class[f])
RepSet == { f \in 1..NFn : Rep(f) }
FnsPlain ==
  { f \in 1..NFn :
      \/ Kind[f] = "probe"
      \/ f \in RepSet /\ (~AllFlags(f) \/ Class[f] # "pure")                 \* one per (declared set, effect class)
      \/ Kind[f] = "lib" /\ AllLibOnRoutes /\ ~AllFlags(f) }
FnsCore ==                                                                    \* close and gc routes: also every undeclared / effectful one
  FnsPlain \cup { f \in 1..NFn : Kind[f] = "lib" /\ (Declared[f] = {} \/ Class[f] # "pure") }
RouteFns(r) == IF r.hook = "plain" THEN FnsPlain ELSE FnsCore
(* a case in which nothing can be refused and nothing could have an effect carries no information for a library function *)
Informative(f, r, c) ==
  \/ Kind[f] = "probe"
  \/ Verdicts(f, r, c) # {"runs"}
  \/ Class[f] # "pure" /\ \E R \in GateSets(r, c) : "iosafe" \in R

SyncRoutes == { r \in Routes : r.hook \in {"plain", "close"} }
ExitRoutes == { r \in Routes : r.hook \in {"gc", "ctxclose"} }

(* one step = the route r in mode m is exercised, in the innermost context of the chain, for every function selected *)
CallVia(r, m) ==
  LET av == Available(r, m, ch)
      Fs == { f \in RouteFns(r) : Informative(f, r, ch) }
  IN
  /\ alive /\ n < 1 /\ Fs # {}
  /\ n' = n + 1
  /\ alive' = (r.exit = "return")
  /\ effects' = IF av /\ Reached(r, ch)
                THEN effects \cup { e \in { <<f, Class[f], R>> : f \in Fs, R \in GateSets(r, ch) } : MayEffect(e[1], e[3]) }
                ELSE effects
  /\ hist' = Append(hist, <<r.name, m>>)
  /\ UNCHANGED <<fam, ch, req>>
  /\ Emit([fam |-> "route", route |-> r.name, mode |-> m, hook |-> r.hook, exit |-> r.exit, ch |-> ch, req |-> req,
           available |-> av,
           missing |-> { k \in r.carriers \cup HarnessCarriers(r, m, ch) : ~KeyPresent[k] },   \* carriers the inventory does not have at all
           owner |-> Owner(ch), prop |-> r.prop,
           status |-> Status(r),
           fns |-> { [f |-> f, exp |-> Verdicts(f, r, ch), noeffect |-> NoEffect(f, r, ch), site |-> Site(f, r, m, ch)] : f \in Fs }])

Next == \/ \E f \in 1..NFn : CallGo(f)
        \/ /\ fam \in {"plain", "exit"}
           /\ \E r \in (IF fam = "plain" THEN SyncRoutes ELSE ExitRoutes) : \E m \in r.modes : CallVia(r, m)
Spec == Init /\ [][Next]_allvars

(* the statement to decide: with the inventory as extracted, can an outside effect happen under iosafe? *)
IoSafe == \A e \in effects : "iosafe" \notin e[3]
RefusedBeforeEffect == \A e \in effects : Allowed(e[1], e[3])
(* whatever the route, a verdict is one the direct call would get in one of the contexts sharing the pool, and when the
   innermost context owns its pool (or the route is not a finaliser) it is exactly the direct call's verdict *)
RouteIndependence ==
  (fam # "direct" /\ n = 0) =>
    \A r \in Routes : (Reached(r, ch) /\ (r.hook # "gc" \/ Owner(ch) = Len(ch))) => GateSets(r, ch) = {req}
=============================================================================

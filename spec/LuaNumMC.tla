------------------------------ MODULE LuaNumMC ------------------------------
(***************************************************************************)
(* Case enumeration for C02 on top of LuaNum: TLC evaluates the manual's   *)
(* number model on a boundary lattice and emits, per case, the expected    *)
(* result of every operator; it also checks algebraic laws on the model    *)
(* itself (Assert) so that the oracle is not trusted blindly.              *)
(*   Family "pairs"   : all ordered pairs of the number lattice            *)
(*   Family "strops"  : all ordered pairs of a lattice with strings        *)
(*   Family "random"  : random int64 / double operands (simulation mode)   *)
(*   Family "numerals": all strings over a numeral alphabet up to MaxLen   *)
(*                      plus boundary spellings, through tonumber          *)
(* The case is the state (two levels, so that workers share the work).     *)
(***************************************************************************)
EXTENDS LuaNum, TLC, Json

CONSTANTS Tier,      \* "Q" or "T": size of the lattice
          Family,
          MaxLen     \* numerals: maximal length of the enumerated strings

VARIABLE c
Emit(v) == PrintT(<<"@@", ToJson(v)>>)

StrOpStrings == <<
  <<"1", "0">>,
  <<"0", "x", "1", "0">>,
  <<"1", "e", "1">>,
  <<" ", "1", "0", " ">>,
  <<"-", "7">>,
  <<"+", "3">>,
  <<"0", ".", "5">>,
  <<"a", "b", "c">>,
  <<>>,
  <<"1", "e">>,
  <<"0", "x">>,
  <<"1", "0", " ", "x">>,
  <<"9", "2", "2", "3", "3", "7", "2", "0", "3", "6", "8", "5", "4", "7", "7", "5", "8", "0", "7">>,
  <<"9", "2", "2", "3", "3", "7", "2", "0", "3", "6", "8", "5", "4", "7", "7", "5", "8", "0", "8">>,
  <<"-", "9", "2", "2", "3", "3", "7", "2", "0", "3", "6", "8", "5", "4", "7", "7", "5", "8", "0", "8">>,
  <<"-", "0">>,
  <<"-", "0", ".", "0">>,
  <<"0", "x", "7", "f", "f", "f", "f", "f", "f", "f", "f", "f", "f", "f", "f", "f", "f", "f">>,
  <<"0", "x", "f", "f", "f", "f", "f", "f", "f", "f", "f", "f", "f", "f", "f", "f", "f", "f">>,
  <<"3", ".", "0">>,
  <<"1", " ", "0">>,
  <<"+", "-", "5">>,
  <<"0", "x", "1", "p", "4">>,
  <<"i", "n", "f">>,
  <<"n", "a", "n">>,
  <<".", "5">>,
  <<"5", ".">>,
  <<" ", " ">>,
  <<"1", "e", "3", "0", "8">>,
  <<"2">>,
  <<"-", "2">>,
  <<"6", "4">>,
  <<"1", "e", "+", "1">>,
  <<"\t", "8", "\n">>,
  <<"0", ".", "0">>
>>
BoundaryNumerals == <<
  <<"9", "2", "2", "3", "3", "7", "2", "0", "3", "6", "8", "5", "4", "7", "7", "5", "8", "0", "7">>,
  <<"9", "2", "2", "3", "3", "7", "2", "0", "3", "6", "8", "5", "4", "7", "7", "5", "8", "0", "8">>,
  <<"9", "2", "2", "3", "3", "7", "2", "0", "3", "6", "8", "5", "4", "7", "7", "5", "8", "0", "9">>,
  <<"-", "9", "2", "2", "3", "3", "7", "2", "0", "3", "6", "8", "5", "4", "7", "7", "5", "8", "0", "8">>,
  <<"-", "9", "2", "2", "3", "3", "7", "2", "0", "3", "6", "8", "5", "4", "7", "7", "5", "8", "0", "9">>,
  <<"1", "8", "4", "4", "6", "7", "4", "4", "0", "7", "3", "7", "0", "9", "5", "5", "1", "6", "1", "5">>,
  <<"1", "8", "4", "4", "6", "7", "4", "4", "0", "7", "3", "7", "0", "9", "5", "5", "1", "6", "1", "6">>,
  <<"9", "9", "9", "9", "9", "9", "9", "9", "9", "9", "9", "9", "9", "9", "9", "9", "9", "9", "9", "9">>,
  <<"0", "x", "f", "f", "f", "f", "f", "f", "f", "f", "f", "f", "f", "f", "f", "f", "f", "f">>,
  <<"0", "x", "7", "f", "f", "f", "f", "f", "f", "f", "f", "f", "f", "f", "f", "f", "f", "f">>,
  <<"0", "x", "8", "0", "0", "0", "0", "0", "0", "0", "0", "0", "0", "0", "0", "0", "0", "0">>,
  <<"0", "x", "1", "0", "0", "0", "0", "0", "0", "0", "0", "0", "0", "0", "0", "0", "0", "0", "0">>,
  <<"0", "x", "1", "f", "f", "f", "f", "f", "f", "f", "f", "f", "f", "f", "f", "f", "f", "f", "f">>,
  <<"-", "0", "x", "f", "f", "f", "f", "f", "f", "f", "f", "f", "f", "f", "f", "f", "f", "f", "f">>,
  <<"-", "0", "x", "8", "0", "0", "0", "0", "0", "0", "0", "0", "0", "0", "0", "0", "0", "0", "0">>,
  <<"0", "x", "f", "f", "f", "f", "f", "f", "f", "f", "f", "f", "f", "f", "f", "f", "f", "f", "f">>,
  <<"0", "x", ".", "8", "p", "1">>,
  <<"0", "x", "1", ".", "8", "p", "1">>,
  <<"0", "X", "1", "P", "1">>,
  <<"0", "x", "1", "p", "-", "1">>,
  <<"0", "x", "A", ".", "8">>,
  <<"0", "x", ".", "1">>,
  <<"0", "x", "1", ".">>,
  <<"0", "x", ".", "p", "1">>,
  <<"0", "x", "p", "1">>,
  <<"0", "x", "1", "p">>,
  <<"0", "x", "1", "p", "+">>,
  <<"0", "x", "1", "p", "+", "1">>,
  <<"0", "x", "1", "p", "1", ".", "0">>,
  <<"0", "x", "1", "e", "1">>,
  <<"0", "x", "1", "E", "+", "1">>,
  <<"1", "e", "3", "0", "8">>,
  <<"1", "e", "3", "0", "9">>,
  <<"1", "e", "-", "4", "0", "0">>,
  <<"1", "E", "1">>,
  <<"1", "e", "+", "1">>,
  <<"1", "e", "-", "1">>,
  <<"1", "e", "0", "1">>,
  <<"1", ".", "5", "e", "1">>,
  <<"1", "5", "e", "-", "1">>,
  <<"1", "2", "5", "e", "-", "3">>,
  <<"1", "e", "1", "5">>,
  <<"1", "e", "2", "2">>,
  <<"1", "e", "2", "3">>,
  <<"0", ".", "5">>,
  <<"0", ".", "2", "5">>,
  <<"0", ".", "1">>,
  <<"0", "0", "0", "1", "2">>,
  <<"0", "1", "2">>,
  <<"1", "e", "1", "e", "1">>,
  <<"1", "e", "e", "1">>,
  <<"+", "-", "5">>,
  <<"-", "+", "5">>,
  <<"+", "+", "5">>,
  <<"-", "-", "5">>,
  <<"+", " ", "5">>,
  <<"-", " ", "5">>,
  <<"0", "x">>,
  <<"0", "X">>,
  <<"1", "e">>,
  <<"1", "e", "+">>,
  <<"e", "1">>,
  <<".", "e", "1">>,
  <<"1", ".", "e", "1">>,
  <<".", "1", "e", "1">>,
  <<"1", ".", ".", "2">>,
  <<"1", ".", "2", ".", "3">>,
  <<".", ".">>,
  <<"1", "f">>,
  <<"1", "x">>,
  <<"0", "b", "1">>,
  <<"1", "_", "0">>,
  <<"0", "x", "1", "_", "0", "p", "0">>,
  <<"1", ",", "5">>,
  <<" ", " ", "1", "0", " ", " ">>,
  <<"\t", "1", "0", "\n">>,
  <<"1", "0", "\r">>,
  <<"\f", "1", "0">>,
  <<"1", " ", "0">>,
  <<>>,
  <<" ">>,
  <<"i", "n", "f">>,
  <<"n", "a", "n">>,
  <<"-", "i", "n", "f">>,
  <<"i", "n", "f", "i", "n", "i", "t", "y">>,
  <<"0", "x", "1", "p", "1", "0", "2", "4">>,
  <<"0", "x", "1", "p", "1", "0", "2", "3">>,
  <<"0", "x", "1", "p", "-", "1", "0", "2", "2">>,
  <<"0", "x", "1", "p", "-", "1", "0", "2", "3">>,
  <<"0", "x", "1", "p", "-", "1", "0", "7", "4">>,
  <<"0", "x", "1", "p", "-", "1", "0", "7", "5">>,
  <<"9", "0", "0", "7", "1", "9", "9", "2", "5", "4", "7", "4", "0", "9", "9", "3">>,
  <<"9", "0", "0", "7", "1", "9", "9", "2", "5", "4", "7", "4", "0", "9", "9", "3", ".", "0">>,
  <<"0", "x", "2", "0", "0", "0", "0", "0", "0", "0", "0", "0", "0", "0", "0", "1">>,
  <<"0", "x", "2", "0", "0", "0", "0", "0", "0", "0", "0", "0", "0", "0", "0", "1", "p", "0">>,
  <<"5", " ">>,
  <<" ", "5">>,
  <<"5", "?">>,
  <<"0", "x", "1", "P", "+", "4">>,
  <<"0", "X", "A", "p", "0">>,
  <<"-", "0">>,
  <<"-", "0", ".", "0">>,
  <<"+", "0", ".", "0">>,
  <<"-", "0", "x", "0", "p", "0">>,
  <<"-", " ", "0">>,
  <<"1", "2", "3", "4", "5", "6", "7", "8", "9", "0", "1", "2", "3", "4", "5", "6", "7", "8">>,
  <<"1", "2", "3", "4", "5", "6", "7", "8", "9", "0", "1", "2", "3", "4", "5", "6", "7", "8", "9">>,
  <<"1", "2", "3", "4", "5", "6", "7", "8", "9", "0", "1", "2", "3", "4", "5", "6", "7", "8", "9", "0">>,
  <<"0", ".", "0", "0", "0">>,
  <<"0", "0", "0">>,
  <<"0", "e", "0">>,
  <<"0", "e", "9", "9", "9", "9", "9">>,
  <<"1", "e", "9", "9", "9", "9", "9">>,
  <<"1", "e", "-", "9", "9", "9", "9", "9">>,
  <<"-", ".", "5">>,
  <<"+", ".", "5", "e", "1">>,
  <<"-", "5", ".">>,
  <<"0", "x", "-", "1">>,
  <<"0", "x", "+", "1">>,
  <<"1", "e", " ", "1">>,
  <<"1", " ", "e", "1">>
>>

(* ---------------- lattices ---------------- *)
LatI == IF Tier = "Q" THEN LatIQ ELSE LatIT
LatF == IF Tier = "Q" THEN LatFQ ELSE LatFT
NumLat == MkLat(LatI, LatF)

StrNums == <<VI(I(0)), VI(I(1)), VI(I(3)), VI(I(-2)), VF(FL(FALSE, 1, -1)), VF(FL(FALSE, 2, 0)), VI(MaxInt), VF(FL(FALSE, 1, 53)),
             VNil, VOther("tbl")>>
StrLat == [i \in 1..(Len(StrNums) + Len(StrOpStrings)) |->
             IF i <= Len(StrNums) THEN StrNums[i] ELSE VS(StrOpStrings[i - Len(StrNums)])]

Lat == IF Family = "strops" THEN StrLat ELSE NumLat
N == IF Family = "strops" THEN Len(StrNums) + Len(StrOpStrings) ELSE Len(LatI) + Len(LatF)

EncLat(v) == IF v.k = "o" THEN [k |-> "o", t |-> v.t] ELSE EncV(v)
RECURSIVE AllDec(_, _)
AllDec(s, i) == IF i > Len(s) THEN TRUE ELSE IsDec(s[i]) /\ AllDec(s, i + 1)
NumeralClass(s, v) == \* label of the input family (only used to label discrepancies)
  LET i0 == SkipSp(s, 1) IN
  IF v.k = "nil" /\ i0 + 1 <= Len(s) /\ s[i0] = "+" /\ s[i0 + 1] \in {"+", "-"} /\ Str2Num(SubSeq(s, i0 + 1, Len(s))).k # "nil"
  THEN "plus-then-signed-numeral"
  ELSE IF v.k = "nil" /\ (\E i \in 1..Len(s) : s[i] = "_") THEN "contains-underscore"
  ELSE IF Len(s) >= 1 /\ AllDec(s, 1) /\ v.k \in {"f", "fk"} THEN "decimal-integer-overflow"
  ELSE v.k
(* a coarse class of each lattice value (only used to label discrepancies) *)
VClass(v) ==
  IF v.k = "i" THEN (IF IToFExact(v.v) THEN "int" ELSE "int-not-a-float")
  ELSE IF v.k = "f" THEN
    (IF v.f.c # "fin" THEN v.f.c ELSE IF FToI(v.f).ok THEN "float-int" ELSE IF v.f.e >= 0 THEN "float-beyond-int64" ELSE "float-frac")
  ELSE IF v.k = "s" THEN (IF Str2Num(v.s).k # "nil" THEN "str-numeric"
                          ELSE IF NumeralClass(v.s, VNil) = "plus-then-signed-numeral" THEN "str-plus-then-signed-numeral"
                          ELSE "str-nonnumeric")
  ELSE v.k

(* ---------------- results per case ---------------- *)
PairRes(a, b) ==
  [add |-> EncR(Arith("add", a, b)), sub |-> EncR(Arith("sub", a, b)), mul |-> EncR(Arith("mul", a, b)),
   div |-> EncR(Arith("div", a, b)), idiv |-> EncR(Arith("idiv", a, b)), mod |-> EncR(Arith("mod", a, b)),
   pow |-> EncR(Arith("pow", a, b)),
   lt |-> EncR(Rel("lt", a, b)), le |-> EncR(Rel("le", a, b)), gt |-> EncR(Rel("gt", a, b)), ge |-> EncR(Rel("ge", a, b)),
   eq |-> EncR(Rel("eq", a, b)), ne |-> EncR(Rel("ne", a, b)),
   band |-> EncR(Bitwise("band", a, b)), bor |-> EncR(Bitwise("bor", a, b)), bxor |-> EncR(Bitwise("bxor", a, b)),
   shl |-> EncR(Bitwise("shl", a, b)), shr |-> EncR(Bitwise("shr", a, b)),
   ult |-> EncR(MathUlt(a, b)), fmod |-> EncR(MathFmod(a, b)), max |-> EncR(MathMax(a, b)), min |-> EncR(MathMin(a, b))]

UnRes(a) ==
  [unm |-> EncR(Unm(a)), bnot |-> EncR(Bnot(a)), toint |-> EncR(MathToInteger(a)), abs |-> EncR(MathAbs(a)),
   floor |-> EncR(MathFloor(a, FALSE)), ceil |-> EncR(MathFloor(a, TRUE)), mtype |-> EncR(MathType(a)),
   tonum |-> EncR(ToNumber(a))]

(* ---------------- laws checked on the model ---------------- *)
Flip(cmp) == IF cmp = 2 THEN 2 ELSE -cmp
(* the three comparison procedures (int/int, int/float, float/float) agree wherever a value has both forms *)
AsFloatIfExact(v) == IF v.k = "i" /\ IToFExact(v.v) THEN VF(IToFRne(v.v)) ELSE v
AsIntIfExact(v) == IF v.k = "f" /\ FToI(v.f).ok THEN VI(FToI(v.f).v) ELSE v

(* certificate for the limb division: x = q*y + r with 0 <= r < y determines q and r *)
DivCert(x, y) ==
  LET qr == DivModK(x, y)
      n == Len(x)
  IN Add(MulFull(qr[1], y), Resize(qr[2], 2 * n)) = Resize(x, 2 * n) /\ CmpU(qr[2], y) < 0

PairLaws(a, b) ==
  LET cab == NumCmp(a, b) IN
  /\ Assert(NumCmp(b, a) = Flip(cab), <<"antisymmetry", a, b>>)
  /\ Assert(cab = 2 <=> ((a.k = "f" /\ a.f.c = "nan") \/ (b.k = "f" /\ b.f.c = "nan")), <<"unordered iff nan", a, b>>)
  /\ Assert(cab = 2 \/ (NumLe(a, b) <=> (NumLt(a, b) \/ NumEq(a, b))), <<"le", a, b>>)
  /\ Assert(NumCmp(AsFloatIfExact(a), b) = cab /\ NumCmp(a, AsFloatIfExact(b)) = cab, <<"cmp via float", a, b>>)
  /\ Assert(NumCmp(AsIntIfExact(a), b) = cab /\ NumCmp(a, AsIntIfExact(b)) = cab, <<"cmp via int", a, b>>)
  /\ IF a.k = "i" /\ b.k = "i" THEN
       LET x == a.v
           y == b.v
       IN /\ Assert(Add(x, y) = Add(y, x) /\ Sub(x, y) = Add(x, Neg(y)), <<"add/sub", a, b>>)
          /\ Assert(MulN(x, y, 8) = MulN(y, x, 8) /\ MulN(x, Neg(y), 8) = Neg(MulN(x, y, 8)), <<"mul", a, b>>)
          /\ Assert(Sub(Add(x, y), y) = x, <<"add inverse", a, b>>)
          /\ (IF IsZero(y) THEN TRUE
              ELSE LET qr == IDivMod(x, y)
                       tr == ITruncRem(x, y)
                   IN /\ Assert(DivCert(MagS(x), MagS(y)), <<"limb division", a, b>>)
                      /\ Assert(Add(MulN(qr[1], y, 8), qr[2]) = x, <<"x = (x//y)*y + x%y", a, b>>)
                      /\ Assert(IsZero(qr[2]) \/ (IsNegS(qr[2]) = IsNegS(y) /\ CmpU(MagS(qr[2]), MagS(y)) < 0), <<"mod sign/size", a, b>>)
                      /\ Assert(IsZero(tr) \/ (IsNegS(tr) = IsNegS(x) /\ CmpU(MagS(tr), MagS(y)) < 0), <<"fmod sign/size", a, b>>)
                      /\ Assert(IsZero(Sub(x, tr)) \/ IsZero(IDivMod(Sub(x, tr), y)[2]) \/ (x = MinInt), <<"fmod divides", a, b>>))
          /\ (IF ~IsNegS(y) /\ IsSmall(y) /\ ToNat(y) < 64 THEN
                /\ Assert(IShl(x, y) = MulN(x, P2(ToNat(y)), 8), <<"shl = mul 2^n", a, b>>)
                /\ Assert(IShr(x, y) = DivModK(x, P2(ToNat(y)))[1], <<"shr = udiv 2^n", a, b>>)
                /\ Assert(IShl(x, Neg(y)) = IShr(x, y) /\ IShr(x, Neg(y)) = IShl(x, y), <<"negative shift", a, b>>)
              ELSE TRUE)
          /\ Assert(Xor(x, y) = Sub(Or(x, y), And(x, y)) /\ Add(x, y) = Add(Or(x, y), And(x, y)), <<"bool", a, b>>)
     ELSE IF a.k = "f" /\ b.k = "f" THEN
       /\ Assert(FAdd(a.f, b.f) = FAdd(b.f, a.f) /\ FMul(a.f, b.f) = FMul(b.f, a.f), <<"float commutative", a, b>>)
       /\ Assert(a.f.c # "fin" \/ b.f.c # "fin" \/ DivCert(FDivNum(a.f), FDivDen(b.f)), <<"limb division 14", a, b>>)
       /\ (LET qx == FDivX(a.f, b.f) IN
           Assert(~(qx[2] /\ qx[1].c = "fin" /\ b.f.c = "fin") \/ FMul(qx[1], b.f) = a.f, <<"exact quotient times divisor", a, b>>))
     ELSE TRUE

UnLaws(a) ==
  /\ Assert(NumCmp(a, a) = (IF a.k = "f" /\ a.f.c = "nan" THEN 2 ELSE 0), <<"reflexive", a>>)
  /\ IF a.k = "i" THEN
       /\ Assert(Neg(Neg(a.v)) = a.v /\ Not(Not(a.v)) = a.v /\ Add(Not(a.v), One8) = Neg(a.v), <<"neg/not", a>>)
       /\ Assert(~IToFExact(a.v) \/ (FToI(IToFRne(a.v)).ok /\ FToI(IToFRne(a.v)).v = a.v), <<"int->float->int", a>>)
       /\ Assert(IToFExact(a.v) \/ (LET al == IToFAlts(a.v) IN ICmpF(a.v, al[1]) = (IF IsNegS(a.v) THEN -1 ELSE 1)
                                                             /\ ICmpF(a.v, al[2]) = (IF IsNegS(a.v) THEN 1 ELSE -1)
                                                             /\ IToFRne(a.v) \in {al[1], al[2]}), <<"neighbours", a>>)
     ELSE
       /\ Assert(~FToI(a.f).ok \/ a.f.c = "zero" \/ IToFRne(FToI(a.f).v) = a.f, <<"float->int->float", a>>)
       /\ Assert(a.f.c # "fin" \/ RoundF(a.f.n, a.f.m, a.f.e) = a.f, <<"normal form", a>>)

(* transitivity of the order on the sub-lattice Sub, for a fixed first element *)
TransLaws(a, SubL) ==
  \A j \in SubL, k \in SubL :
     LET b == Lat[j]
         d == Lat[k]
     IN Assert(~(NumLe(a, b) /\ NumLe(b, d)) \/ NumLe(a, d), <<"transitive", a, b, d>>)
        /\ Assert(~(NumLt(a, b) /\ NumLe(b, d)) \/ NumLt(a, d), <<"transitive<", a, b, d>>)

TransSub == IF Tier = "Q" THEN {i \in 1..N : i % 2 = 0} ELSE {i \in 1..N : i % 3 # 0}

(* ---------------- numerals ---------------- *)
Alpha == <<"0", "1", "9", "a", "f", "x", ".", "e", "p", "+", "-", " ">>
NA == 12
RECURSIVE StrOf(_, _, _)
StrOf(k, len, acc) == IF len = 0 THEN acc ELSE StrOf(k \div NA, len - 1, <<Alpha[(k % NA) + 1]>> \o acc)   \* the k-th string of that length
RECURSIVE PowNA(_)
PowNA(n) == IF n = 0 THEN 1 ELSE NA * PowNA(n - 1)

NoSpace(s) == \A i \in 1..Len(s) : ~IsSp(s[i])
NumeralCase(s) ==
  LET v == Str2Num(s) IN
  [s |-> s, r |-> EncV(v), cls |-> NumeralClass(s, v),
   lit |-> Len(s) >= 1 /\ NoSpace(s) /\ s[1] \notin {"+", "-"} /\ v.k # "nil",     \* s is exactly one numeral token of the lexer
   mul |-> EncR(ArithN("mul", v, VI(One8))), unm |-> EncR(IF v.k = "nil" THEN RErr ELSE IF v.k = "fk" THEN RSkip
                                                           ELSE IF v.k = "i" THEN R1(VI(Neg(v.v))) ELSE R1(VF(FNeg(v.f))))]
(* numerals agree with the direct evaluation of their digits for short decimal / hex integers *)
RECURSIVE DecNative(_, _, _)
DecNative(s, i, acc) == IF i > Len(s) THEN acc ELSE IF ~IsDec(s[i]) THEN -1 ELSE DecNative(s, i + 1, acc * 10 + DigitVal(s[i]))
NumeralLaw(s) ==
  LET d == IF Len(s) >= 1 /\ Len(s) <= 8 THEN DecNative(s, 1, 0) ELSE -1
  IN Assert(d < 0 \/ Str2Num(s) = VI(I(d)), <<"decimal digits", s>>)

PrefLen == IF MaxLen < 2 THEN MaxLen ELSE 2

(* ---------------- random operands (Family "random", run with -simulate: one pair per behaviour) ---------------- *)
RandByte(i) == RandomElement(0..255)          \* parametrised so that every use draws again
RandInt64(i) == <<RandByte(1), RandByte(2), RandByte(3), RandByte(4), RandByte(5), RandByte(6), RandByte(7), RandByte(8)>>
RandExp(i) == RandomElement({-1074, -1000, -200, -64, -63, -62, -54, -53, -52, -51, -50, -45, -30, -20, -11, -10, -9, -2, -1,
                             0, 1, 2, 9, 10, 11, 12, 20, 100, 900, 970, 971})
RandVal(kind) ==
  CASE kind = "u" -> VI(RandInt64(1))
    [] kind = "s" -> VI(I(RandomElement(-1000..1000)))
    [] kind = "n" -> VI(Add(LatIT[RandomElement(1..Len(LatIT))], I(RandomElement(-3..3))))
    [] kind = "f" -> VF(Fin(RandomElement({TRUE, FALSE}),
                            <<RandByte(1), RandByte(2), RandByte(3), RandByte(4), RandByte(5), RandByte(6), 16 + RandomElement(0..15), 0>>,
                            RandExp(1)))
    [] kind = "g" -> VF(IToFRne(Add(LatIT[RandomElement(1..Len(LatIT))], I(RandomElement(-3..3)))))
RandKinds == {"u", "s", "n", "f", "g"}

(* ---------------- the case machine ---------------- *)
Init == c = <<"start">>

Next ==
  \/ /\ c = <<"start">> /\ Family \in {"pairs", "strops"}
     /\ \/ c' = <<"lat">> /\ Emit([t |-> "lat", n |-> N, lat |-> [i \in 1..N |-> EncLat(Lat[i])], cls |-> [i \in 1..N |-> VClass(Lat[i])]])
        \/ \E i \in 1..N : c' = <<"a", i>>
  \/ /\ c[1] = "a"
     /\ LET a == Lat[c[2]] IN
        \E j \in 0..N :
          /\ c' = <<"p", c[2], j>>
          /\ IF j = 0
             THEN /\ Emit([t |-> "un", a |-> c[2], r |-> UnRes(a)])
                  /\ (IF Family = "pairs" THEN UnLaws(a) /\ (c[2] \notin TransSub \/ TransLaws(a, TransSub)) ELSE TRUE)
             ELSE /\ Emit([t |-> "bin", a |-> c[2], b |-> j, r |-> PairRes(a, Lat[j])])
                  /\ (IF Family = "pairs" THEN PairLaws(a, Lat[j]) ELSE TRUE)
  \/ /\ c = <<"start">> /\ Family = "random"
     /\ \E ka \in RandKinds, kb \in RandKinds : c' = <<"rv", RandVal(ka), RandVal(kb)>>
  \/ /\ c[1] = "rv"
     /\ c' = <<"done">>
     /\ Emit([t |-> "rbin", av |-> EncV(c[2]), bv |-> EncV(c[3]), ca |-> VClass(c[2]), cb |-> VClass(c[3]),
              r |-> PairRes(c[2], c[3]), ua |-> UnRes(c[2])])
     /\ PairLaws(c[2], c[3]) /\ UnLaws(c[2])
  \/ /\ c = <<"start">> /\ Family = "numerals"
     /\ \/ \E len \in 0..PrefLen : \E k \in 0..(PowNA(len) - 1) : c' = <<"n", StrOf(k, len, <<>>)>>
        \/ \E i \in 1..Len(BoundaryNumerals) : c' = <<"b", i>>
  \/ /\ c[1] = "n"
     /\ LET p == c[2] IN
        IF Len(p) < PrefLen
        THEN c' = <<"done", p, 0>> /\ Emit([t |-> "num", cases |-> <<NumeralCase(p)>>]) /\ NumeralLaw(p)
        ELSE \E len \in 0..(MaxLen - PrefLen) :
               /\ c' = <<"done", p, len>>
               /\ Emit([t |-> "num", cases |-> [k \in 1..PowNA(len) |-> NumeralCase(p \o StrOf(k - 1, len, <<>>))]])
               /\ \A k \in 1..PowNA(len) : NumeralLaw(p \o StrOf(k - 1, len, <<>>))
  \/ /\ c[1] = "b"
     /\ c' = <<"done", c[2]>> /\ Emit([t |-> "num", cases |-> <<NumeralCase(BoundaryNumerals[c[2]])>>])
=============================================================================

INIT Init
NEXT Next
VIEW View
CHECK_DEADLOCK FALSE
CONSTANTS
  Keys <- KeysInt
  Alias <- AliasInt
  IntVal <- IntValInt
  Travs <- AllTravs
  LenEnabled = TRUE
  MaxSteps = 6
  ViewHist = 1
  EmitAll = TRUE

INIT Init
NEXT Next
VIEW View
CONSTRAINT Bound
CHECK_DEADLOCK FALSE
CONSTANTS
  M = 16
  Sat = TRUE
  CpuLim = {0}
  MemLim = {0, 2, 8, 14}
  CpuSoft = {0}
  MemSoft = {0, 4}
  CpuAmt = {}
  MemAmt = {0, 2, 6, 14}
  MsLim = {0}
  MsSoft = {0}
  Ticks = {}
  ThrInc = 10000
  MaxClk = 0
  OldPopOrder = FALSE
  OldTimeCharge = FALSE
  OldThrInherit = FALSE
  NCo = 0
  XFlags = {}
  MaxDepth = 3
  MaxFrames = 0
  RawOps = TRUE
  CallOps = FALSE
  Emitting = TRUE
  StopOps = TRUE
  MaxUsed = 16

INIT Init
NEXT Next
CHECK_DEADLOCK FALSE
CONSTANTS
  Alpha = {97, 66, 0, 255}
  MaxLen = 3
  MaxPat = 3
  MaxSep = 2
  Counts <- CountsDef
  HugeLen = 2
  CharCodes <- CharCodesDef
  MaxChars = 3
  BIG = 1000000
  Fns = {"sub", "byte", "rep", "rephuge", "find", "char", "len", "reverse", "upper", "lower"}
  SimLen = 9
  SimPat = 3

INIT Init
NEXT Next
CHECK_DEADLOCK FALSE
CONSTANTS
  Vals = {"i1", "sa", "T"}
  MoveVals = {"i1", "sa"}
  CVals = {"i2", "sa", "T"}
  PVals = {"i1", "sa", "nil"}
  MaxLen = 3
  BIG = 1000000
  Fns = {"insert", "remove", "move", "concat", "unpack", "pack"}

INIT GenInit
NEXT GenNext
CHECK_DEADLOCK FALSE
CONSTANTS
  Elems = {1, 2, 3}
  MaxLen = 7
  ErrKs = {1, 2, 3, 5, 8, 40, 300}
  Seeds = {1, 2, 3}
  PatLens = {12, 13, 24, 50, 51, 100, 257}
  SimMin = 12
  SimMax = 80
  SimElems = {1, 2, 3, 4, 5, 6, 7, 8, 9}
  Block = 500

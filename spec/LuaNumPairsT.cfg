INIT Init
NEXT Next
CHECK_DEADLOCK FALSE
CONSTANTS
  Tier = "T"
  Family = "pairs"
  MaxLen = 0

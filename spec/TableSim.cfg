INIT Init
NEXT Next
CHECK_DEADLOCK FALSE
CONSTANTS
  Keys <- KeysAll
  Alias <- AliasAll
  IntVal <- IntValInt
  Travs <- AllTravs
  LenEnabled = TRUE
  MaxSteps = 60
  ViewHist = 0
  EmitAll = FALSE

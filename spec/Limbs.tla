------------------------------- MODULE Limbs -------------------------------
(***************************************************************************)
(* 64-bit Lua integers for a model checker whose integers have 32 bits.    *)
(* A Lua integer is a sequence of 8 little-endian base-256 limbs in two's  *)
(* complement (Lua 5.4 manual 3.4.1: integers wrap around modulo 2^64).    *)
(* Shared by Pack.tla, Quote.tla and Printf.tla (C17).                     *)
(***************************************************************************)
EXTENDS Integers, Sequences

Rep(x, n) == [i \in 1..n |-> x]
Rev(s) == [i \in 1..Len(s) |-> s[Len(s) + 1 - i]]
Zero8 == Rep(0, 8)
IsNeg(l) == l[Len(l)] >= 128
SignByte(l) == IF IsNeg(l) THEN 255 ELSE 0

(* a natural number k < 2^31 as n limbs *)
RECURSIVE FromNat(_, _)
FromNat(k, n) == IF n = 0 THEN <<>> ELSE <<k % 256>> \o FromNat(k \div 256, n - 1)

(* l + 1 and l - 1 modulo 256^Len(l) *)
RECURSIVE Inc(_)
Inc(l) == IF l = <<>> THEN <<>>
          ELSE IF l[1] = 255 THEN <<0>> \o Inc(Tail(l)) ELSE <<l[1] + 1>> \o Tail(l)
RECURSIVE Dec(_)
Dec(l) == IF l = <<>> THEN <<>>
          ELSE IF l[1] = 0 THEN <<255>> \o Dec(Tail(l)) ELSE <<l[1] - 1>> \o Tail(l)
Compl(l) == [i \in 1..Len(l) |-> 255 - l[i]]
Neg(l) == Inc(Compl(l))                     \* two's complement negation

(* a small integer |k| < 2^31 as a Lua integer *)
IntL(k) == IF k >= 0 THEN FromNat(k, 8) ELSE Neg(FromNat(-k, 8))
(* 2^k for k in 0..63 (2^63 is mininteger) *)
Pow2(k) == [i \in 1..8 |-> IF i = (k \div 8) + 1 THEN 2 ^ (k % 8) ELSE 0]
MaxInt == Dec(Pow2(63))
MinInt == Pow2(63)

(* does the Lua integer l fit in n bytes (n in 1..8) as a signed / unsigned quantity?  For the unsigned options
   "Lua integers are treated as unsigned values too" (6.4.2): the 8 limbs are read as a number in 0..2^64-1. *)
FitsSigned(l, n) == \A i \in (n + 1)..8 : l[i] = (IF l[n] >= 128 THEN 255 ELSE 0)
FitsUnsigned(l, n) == \A i \in (n + 1)..8 : l[i] = 0
(* the n-byte little-endian image (n in 1..16) *)
ImgSigned(l, n) == IF n <= 8 THEN SubSeq(l, 1, n) ELSE l \o Rep(SignByte(l), n - 8)
ImgUnsigned(l, n) == IF n <= 8 THEN SubSeq(l, 1, n) ELSE l \o Rep(0, n - 8)
(* reading an n-byte little-endian image b back: [ok, l]; ok = FALSE when the value does not fit a Lua integer *)
ReadSigned(b) ==
  LET n == Len(b) IN
  IF n <= 8 THEN [ok |-> TRUE, l |-> b \o Rep(SignByte(b), 8 - n)]
  ELSE LET lo == SubSeq(b, 1, 8) IN [ok |-> \A i \in 9..n : b[i] = SignByte(lo), l |-> lo]
ReadUnsigned(b) ==
  LET n == Len(b) IN
  IF n <= 8 THEN [ok |-> TRUE, l |-> b \o Rep(0, 8 - n)]
  ELSE [ok |-> \A i \in 9..n : b[i] = 0, l |-> SubSeq(b, 1, 8)]

(* value of an unsigned limb sequence when it is below 2^31, else -1 *)
Small(l) ==
  IF \A i \in 1..Len(l) : (i > 4 => l[i] = 0) /\ (i = 4 => l[i] < 128)
  THEN (IF Len(l) >= 1 THEN l[1] ELSE 0) + (IF Len(l) >= 2 THEN l[2] * 256 ELSE 0)
       + (IF Len(l) >= 3 THEN l[3] * 65536 ELSE 0) + (IF Len(l) >= 4 THEN l[4] * 16777216 ELSE 0)
  ELSE -1

(* ---- conversion to digit strings (for printf and %q) ---- *)
IsZero(l) == \A i \in 1..Len(l) : l[i] = 0
(* divide the unsigned number l (little endian) by the small d: [q, r] *)
RECURSIVE DivHi(_, _, _, _)
DivHi(l, i, d, rem) ==   \* processes limbs i, i-1, .., 1; returns <<quotient limbs little endian, remainder>>
  IF i = 0 THEN [q |-> <<>>, r |-> rem]
  ELSE LET cur == rem * 256 + l[i]
           rest == DivHi(l, i - 1, d, cur % d)
       IN [q |-> Append(rest.q, cur \div d), r |-> rest.r]
DivSmall(l, d) == DivHi(l, Len(l), d, 0)
(* digits (values 0..base-1, most significant first) of the unsigned number l; <<0>> for zero *)
RECURSIVE DigitsAcc(_, _, _)
DigitsAcc(l, base, acc) ==
  IF IsZero(l) THEN acc
  ELSE LET qr == DivSmall(l, base) IN DigitsAcc(qr.q, base, <<qr.r>> \o acc)
Digits(l, base) == IF IsZero(l) THEN <<0>> ELSE DigitsAcc(l, base, <<>>)
(* magnitude of a signed Lua integer as an unsigned 8-limb number (|mininteger| = 2^63 fits unsigned) *)
Mag(l) == IF IsNeg(l) THEN Neg(l) ELSE l

(* multiply-add on unsigned 8-limb numbers: l * m + a (m, a small); [l, ovf] with ovf = TRUE when the result >= 2^64 *)
RECURSIVE MulAddFrom(_, _, _, _)
MulAddFrom(l, i, m, carry) ==
  IF i > Len(l) THEN [l |-> <<>>, c |-> carry]
  ELSE LET cur == l[i] * m + carry
           rest == MulAddFrom(l, i + 1, m, cur \div 256)
       IN [l |-> <<cur % 256>> \o rest.l, c |-> rest.c]
MulAdd(l, m, a) == LET r == MulAddFrom(l, 1, m, a) IN [l |-> r.l, ovf |-> r.c # 0]
=============================================================================

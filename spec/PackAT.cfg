INIT Init
NEXT Next
CHECK_DEADLOCK FALSE
INVARIANT LawHolds
CONSTANTS
  Mode = "seq"
  Alphabet <- AlphaMid
  MaxToks = 3
  MaxValToks = 1
  Boundary = TRUE

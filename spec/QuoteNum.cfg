INIT Init
NEXT Next
CHECK_DEADLOCK FALSE
INVARIANT LawHolds
CONSTANTS
  Mode = "num"
  Bytes <- BytesQ
  MaxLen = 0

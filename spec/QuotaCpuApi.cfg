INIT Init
NEXT Next
VIEW View
CONSTRAINT Bound
CHECK_DEADLOCK FALSE
CONSTANTS
  M = 16
  Sat = TRUE
  CpuLim = {0, 2, 8, 14}
  MemLim = {0}
  CpuSoft = {0, 4}
  MemSoft = {0}
  CpuAmt = {0, 2, 6, 14}
  MemAmt = {}
  MsLim = {0}
  MsSoft = {0}
  Ticks = {}
  ThrInc = 10000
  MaxClk = 0
  OldPopOrder = FALSE
  OldTimeCharge = FALSE
  OldThrInherit = FALSE
  NCo = 0
  XFlags = {"iosafe"}
  MaxDepth = 3
  MaxFrames = 0
  RawOps = TRUE
  CallOps = FALSE
  Emitting = TRUE
  StopOps = TRUE
  MaxUsed = 16

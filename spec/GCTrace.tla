------------------------------ MODULE GCTrace ------------------------------
(***************************************************************************)
(* Finalisers (__gc) and resource release of golua (C18).                  *)
(*                                                                         *)
(* Two uses of one module:                                                 *)
(*  - generation (direction A): Next explores scripts of program actions   *)
(*    (create marked values, drop references, force collection, enter and  *)
(*    leave limited contexts normally / by error / by kill) and emits one  *)
(*    script per transition;                                               *)
(*  - trace validation (direction B): TNext consumes the events recorded   *)
(*    while the real runtime ran such a script.  When the Go collector     *)
(*    notices that a value is unreachable is not under the program's       *)
(*    control, so the specification only constrains what may and what must *)
(*    happen: a finaliser runs at most once, never while the value is      *)
(*    reachable (except when its context or the runtime is closing, where  *)
(*    all pending ones run, in reverse order of marking), release happens  *)
(*    exactly once, after the finaliser, also after a kill (which skips    *)
(*    finalisers), and a finaliser runs inside the context that created    *)
(*    the value.                                                           *)
(***************************************************************************)
EXTENDS Integers, Sequences, FiniteSets, TLC, Json, IOUtils

Kinds == {"t", "tr", "ta", "u", "ur", "r", "uk"}   \* table+gc, table+gc resurrecting, table+gc re-arming (its finaliser marks it again), userdata gc+release, same resurrecting, userdata release only,
                                           \* uk: userdata gc+release whose finaliser exhausts the CPU limit of its context (only created inside one)
HasGc(k) == k \in {"t", "tr", "ta", "u", "ur", "uk"}
HasRel(k) == k \in {"u", "ur", "r", "uk"}
Resurrects(k) == k \in {"tr", "ur"}

(* trace validation *)
Trace == ndJsonDeserialize(IOEnv.TRACEFILE)

VARIABLES l,
          kind,      \* [id -> kind or "none"]
          iso,       \* [id -> the limited context (its serial number, 0 = root) the value was created in]
          reach,     \* [id -> BOOLEAN] the program still holds a reference
          fin,       \* [id -> number of times the finaliser ran]
          rel,       \* [id -> number of times release ran]
          ctx,       \* stack of open limited contexts (serial numbers), innermost last
          nctx,      \* contexts opened so far
          dead,      \* set of contexts that have been left
          ord,       \* [id -> position in the order of marking (re-marking moves a value to the end)]
          killedc,   \* contexts that ended by a kill (their finalisers are skipped)
          lastb,     \* id of the last value finalised by the current closing batch (reverse order of marking)
          noob       \* values marked again by their own finaliser while their context / the runtime was closing: no obligation
tvars == <<l, kind, iso, reach, fin, rel, ctx, nctx, dead, ord, killedc, lastb, noob>>
Ids == 1..64

Fresh == /\ kind = [i \in Ids |-> "none"] /\ iso = [i \in Ids |-> 0] /\ reach = [i \in Ids |-> FALSE]
         /\ fin = [i \in Ids |-> 0] /\ rel = [i \in Ids |-> 0] /\ ctx = <<>> /\ nctx = 0 /\ dead = {} /\ ord = [i \in Ids |-> 0] /\ killedc = {} /\ lastb = 2000000000 /\ noob = {}
TInit == l = 1 /\ Fresh /\ TLCSet(1, 0)
Ev == Trace[l]
Is(k) == l <= Len(Trace) /\ Ev.k = k
Adv == l' = l + 1
Cur == IF ctx = <<>> THEN 0 ELSE ctx[Len(ctx)]

TMk == /\ Is("mk") /\ kind[Ev.id] = "none"
       /\ kind' = [kind EXCEPT ![Ev.id] = Ev.kind] /\ iso' = [iso EXCEPT ![Ev.id] = Cur]
       /\ reach' = [reach EXCEPT ![Ev.id] = TRUE] /\ ord' = [ord EXCEPT ![Ev.id] = l]
       /\ Adv /\ lastb' = 2000000000 /\ UNCHANGED <<fin, rel, ctx, nctx, dead, killedc, noob>>
TDrop == /\ Is("drop") /\ reach' = [reach EXCEPT ![Ev.id] = FALSE]
         /\ Adv /\ lastb' = 2000000000 /\ UNCHANGED <<kind, iso, fin, rel, ctx, nctx, dead, ord, killedc, noob>>
(* setmetatable again on a marked value: it becomes the most recently marked one and may be finalised (once) again *)
(* the context that marks a value owns it from then on (it is finalised when THAT context is closed, at the latest);
   the program holds a reference to it, since it just passed it to setmetatable *)
TRemark == /\ Is("remark") /\ kind[Ev.id] # "none"
           /\ ord' = [ord EXCEPT ![Ev.id] = l] /\ fin' = [fin EXCEPT ![Ev.id] = 0]
           /\ iso' = [iso EXCEPT ![Ev.id] = Cur] /\ reach' = [reach EXCEPT ![Ev.id] = TRUE]
           /\ Adv /\ lastb' = 2000000000 /\ UNCHANGED <<kind, rel, ctx, nctx, dead, killedc, noob>>
(* the finaliser of a value marks the value again (setmetatable(o, mt) inside __gc): while the program runs this is a
   new marking (the value is owed one more finalisation, and is the most recently marked one); while its context or
   the runtime is closing the implementation may or may not honour it (C Lua does not) *)
TRearm == /\ Is("rearm") /\ kind[Ev.id] # "none" /\ fin[Ev.id] = 1
          /\ fin' = [fin EXCEPT ![Ev.id] = 0] /\ ord' = [ord EXCEPT ![Ev.id] = l]
          /\ noob' = IF Ev.phase = "run" THEN noob \ {Ev.id} ELSE noob \cup {Ev.id}
          /\ lastb' = IF Ev.phase = "run" THEN lastb ELSE 2000000000      \* a second round of the closing batch may begin
          /\ Adv /\ UNCHANGED <<kind, iso, reach, rel, ctx, nctx, dead, killedc>>
TCollect == /\ Is("collect") /\ Adv /\ lastb' = 2000000000 /\ UNCHANGED <<kind, iso, reach, fin, rel, ctx, nctx, dead, ord, killedc, noob>>
TEnter == /\ Is("enter") /\ nctx' = nctx + 1 /\ ctx' = Append(ctx, nctx + 1)
          /\ Adv /\ lastb' = 2000000000 /\ UNCHANGED <<kind, iso, reach, fin, rel, dead, ord, killedc, noob>>

(* Ev.phase: "run", or "pop" when the event belongs to the block of finaliser/release events that immediately
   precedes the end of the innermost context, or "close" for the block after the main chunk ended *)
(* a kill of an inner context that only inherited its limit also kills the enclosing one, so a single leave
   (at nesting level Ev.lvl, 1 = outermost) may end several nested contexts at once *)
Ending(lvl) == {ctx[j] : j \in lvl..Len(ctx)}
Closing(i) == Ev.phase = "close" \/ (Ev.phase = "pop" /\ iso[i] \in Ending(Ev.lvl))

TGc ==
  /\ Is("gc") /\ HasGc(kind[Ev.id])
  /\ fin[Ev.id] = 0                                    \* at most once
  /\ (~reach[Ev.id] \/ Closing(Ev.id))                 \* never while the program can still reach it
  /\ iso[Ev.id] \notin dead                            \* inside the context that created it ...
  /\ (Ev.phase = "close" \/ iso[Ev.id] = 0 \/ \E j \in 1..Len(ctx) : ctx[j] = iso[Ev.id])
  /\ rel[Ev.id] = 0                                    \* release comes after the finaliser
  /\ (reach[Ev.id] => ord[Ev.id] < lastb)              \* pending finalisers of a closing context: reverse order of marking
  /\ lastb' = IF reach[Ev.id] THEN ord[Ev.id] ELSE lastb
  /\ fin' = [fin EXCEPT ![Ev.id] = 1]
  /\ reach' = [reach EXCEPT ![Ev.id] = IF Resurrects(kind[Ev.id]) /\ ~Closing(Ev.id) THEN TRUE ELSE reach[Ev.id]]
  /\ Adv /\ UNCHANGED <<kind, iso, rel, ctx, nctx, dead, ord, killedc, noob>>

TRel ==
  /\ Is("release") /\ HasRel(kind[Ev.id])
  /\ rel[Ev.id] = 0                                    \* exactly once (at most once here, at least once at leave/close)
  /\ (~reach[Ev.id] \/ Closing(Ev.id))
  /\ (HasGc(kind[Ev.id]) => (fin[Ev.id] = 1 \/ (Ev.phase = "pop" /\ Ev.pst = "killed")))   \* after its finaliser, unless the context was killed
  /\ rel' = [rel EXCEPT ![Ev.id] = 1]
  /\ Adv /\ UNCHANGED <<kind, iso, reach, fin, ctx, nctx, dead, ord, killedc, lastb, noob>>

(* the innermost limited context ended with status Ev.st: everything it created is finalised (unless killed)
   and released; finalisers of values still pending at that point ran in reverse order of marking (Ev.ordered) *)
TLeave ==
  /\ Is("leave") /\ Ev.lvl >= 1 /\ Ev.lvl <= Len(ctx)
  /\ (Ev.lvl < Len(ctx) => Ev.st = "killed")            \* inner contexts can only vanish silently through a kill
  /\ \A i \in Ids : (kind[i] # "none" /\ iso[i] \in Ending(Ev.lvl)) =>
        /\ (HasGc(kind[i]) /\ Ev.st # "killed" /\ i \notin noob => fin[i] = 1)
        /\ (HasRel(kind[i]) => rel[i] = 1)
  /\ lastb' = 2000000000
  /\ dead' = dead \cup Ending(Ev.lvl) /\ ctx' = SubSeq(ctx, 1, Ev.lvl - 1)
  /\ killedc' = IF Ev.st = "killed" THEN killedc \cup Ending(Ev.lvl) ELSE killedc
  /\ reach' = [i \in Ids |-> IF iso[i] \in Ending(Ev.lvl) THEN FALSE ELSE reach[i]]
  /\ Adv /\ UNCHANGED <<kind, iso, fin, rel, nctx, ord, noob>>

(* the runtime was closed *)
TEnd ==
  /\ Is("end") /\ ctx = <<>>
  /\ \A i \in Ids : kind[i] # "none" => ((HasGc(kind[i]) => (fin[i] = 1 \/ iso[i] \in killedc \/ i \in noob)) /\ (HasRel(kind[i]) => rel[i] = 1))
  /\ Adv /\ UNCHANGED <<kind, iso, reach, fin, rel, ctx, nctx, dead, ord, killedc, lastb, noob>>

TReset == /\ Is("reset") /\ Adv
          /\ kind' = [i \in Ids |-> "none"] /\ iso' = [i \in Ids |-> 0] /\ reach' = [i \in Ids |-> FALSE]
          /\ fin' = [i \in Ids |-> 0] /\ rel' = [i \in Ids |-> 0] /\ ctx' = <<>> /\ nctx' = 0 /\ dead' = {} /\ ord' = [i \in Ids |-> 0] /\ killedc' = {} /\ lastb' = 2000000000 /\ noob' = {}

TNext == TMk \/ TDrop \/ TRemark \/ TRearm \/ TCollect \/ TEnter \/ TGc \/ TRel \/ TLeave \/ TEnd \/ TReset
TSpec == TInit /\ [][TNext]_tvars
MarkC == TLCSet(1, IF TLCGet(1) < l THEN l ELSE TLCGet(1))
Accepted == PrintT(<<"@@", ToJson([hw |-> TLCGet(1)])>>) /\ TLCGet(1) = Len(Trace) + 1
=============================================================================

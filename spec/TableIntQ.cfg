INIT Init
NEXT Next
VIEW View
CHECK_DEADLOCK FALSE
CONSTANTS
  Keys <- KeysInt
  Alias <- AliasInt
  IntVal <- IntValInt
  Travs <- AllTravs
  LenEnabled = TRUE
  MaxSteps = 5
  ViewHist = 0
  EmitAll = TRUE

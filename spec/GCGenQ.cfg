SPECIFICATION GSpec
VIEW GView
CHECK_DEADLOCK FALSE
CONSTANTS
  MaxVals = 2
  MaxSteps = 5
  MaxDepth = 1
  EmitAll = TRUE
  CrossRemark = TRUE

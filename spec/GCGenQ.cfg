SPECIFICATION GSpec
VIEW GView
CHECK_DEADLOCK FALSE
CONSTANTS
  MaxVals = 3
  MaxSteps = 6
  MaxDepth = 1
  EmitAll = TRUE

SPECIFICATION Spec
INVARIANTS AccessOwnership OneRunner StatusLegal MutexSane
PROPERTIES DeadIsFinal 
CONSTANTS
  N = 3
  MaxOps = 6
  ReleaseEarly = TRUE
  HandlerOps = FALSE

------------------------------ MODULE DumpSize ------------------------------
(***************************************************************************)
(* Size family for the string.dump / load round trip (C13).                *)
(*                                                                         *)
(* A family of program SHAPES parameterised by a size n: number of sibling *)
(* functions, function nesting depth, constants of every type per          *)
(* function, upvalues, locals, instructions / jump distances, string       *)
(* constant length, parameters / arguments / results, line numbers.  For   *)
(* every shape and n the manual determines the events (calls of the host   *)
(* callback emit) the program produces; Events(s, n) states them.  The     *)
(* text of each shape is given in the comment next to its case and is      *)
(* rendered by checks/corpus.py (ds_shape_src).                            *)
(*                                                                         *)
(* The property: for every function f compiled from source, every VARIANT  *)
(* below of "f, serialised and loaded again" produces exactly the events   *)
(* of f itself.  Variants (the wrapper that runs them is ds_wrapper):      *)
(*   direct  f(11, 22, 33)                                                 *)
(*   dump    load(string.dump(f))(11, 22, 33)                              *)
(*   strip   load(string.dump(f, true))(11, 22, 33): the same events,      *)
(*           except values derived from debug information (line numbers,   *)
(*           upvalue names), which a stripped dump may omit                *)
(*   redump  d == string.dump(f) twice (deterministic), and                *)
(*           string.dump(load(d)) == d (stable); then                      *)
(*           load(string.dump(load(d)))(11, 22, 33)                        *)
(*   inner   f is not a main chunk but a closure created by a main chunk   *)
(*           (`return function(...) <shape> end`): load(string.dump(f))    *)
(* A compile error of the *source* (an implementation limit) makes the     *)
(* case vacuous; once the source compiled, nothing may fail.               *)
(***************************************************************************)
EXTENDS Integers, Sequences, FiniteSets, TLC, Json

CONSTANTS Cases,      \* set of <<shape, n>>
          Variants    \* sequence of variant names, in the order the wrapper runs them
VARIABLES done
Emit(v) == PrintT(<<"@@", ToJson(v)>>)

M == 9973              \* all checksums are taken modulo M (keeps every number far below 2^31)
K == 1000000           \* base of the integer constants

Mid(n) == (n + 1) \div 2
(* (1 + 2 + ... + n) % M without leaving 32 bits *)
TriMod(n) == IF n % 2 = 0 THEN (((n \div 2) % M) * ((n + 1) % M)) % M
                          ELSE ((n % M) * (((n + 1) \div 2) % M)) % M
MulMod(a, b) == ((a % M) * (b % M)) % M

(* byte i (1-based) of the long string constant: runs through all 256 byte values, NUL and non-UTF-8 included *)
ByteAt(i) == (i * 7 + 3) % 256
RECURSIVE PartSum(_)
PartSum(r) == IF r = 0 THEN 0 ELSE ByteAt(r) + PartSum(r - 1)
ByteSumMod(n) == ((n \div 256) * 32640 + PartSum(n % 256)) % M   \* 32640 = 0 + 1 + ... + 255: one period

(* line of the probe `if x == p then error("e") end` in shape "lines": the function header is line 1 *)
LineOf(p) == p + 1
Probes(n) == {1, 2, Mid(n), n - 1, n} \cap 1..n
SetToSeq(S) == LET RECURSIVE f(_)
                   f(T) == IF T = {} THEN <<>> ELSE LET m == CHOOSE x \in T : \A y \in T : x <= y IN <<m>> \o f(T \ {m})
               IN f(S)

(* values that come from debug information (line numbers, chunk and upvalue names): exact when the dump keeps the
   debug information (kd), unconstrained ("ANY") for a stripped dump *)
Dbg(kd, x) == IF kd THEN x ELSE "ANY"

(* Events(s, n, kd): what the shape's program emits.  The chunk is always called with the arguments 11, 22, 33. *)
Events(s, n, kd) ==
  CASE s = "siblings" ->
         \* local t = {} / t[i] = function(x) return x + i end  (i = 1..n, one per line)
         \* local s = 0 for i = 1, #t do s = (s + t[i](0)) % 9973 end / emit("siblings", #t, t[1](10), t[n](10), s)
         << <<"siblings", n, 11, n + 10, TriMod(n)>> >>
    [] s = "nested" ->
         \* emit("nested", (function() return 1 + (function() return 1 + ... 0 ... end)() end)())   n levels
         << <<"nested", n>> >>
    [] s = "module" ->
         \* local M = {} / function M.f<i>(a) return function(b) return function(c) return a + b + c + i end end end
         \* emit("module", M.f1(1)(2)(3), M.f<n>(1)(2)(3))           3n functions, depth 3
         << <<"module", 7, n + 6>> >>
    [] s = "upthread" ->
         \* local v = 7 / local r = (function() return (function() ... v = v + n return v ... end)() end)()  n levels
         \* emit("upthread", r, v)      the upvalue v is passed down through n levels of closures
         << <<"upthread", n + 7, n + 7>> >>
    [] s = "deep-consts" ->
         \* emit("deep-consts", ((function() return (1000 + 1) + (function() return (1000 + 2) + ... 0 ... end)() end)()) % 9973)
         \* level j owns the integer constant 1000 + j
         << <<"deep-consts", (MulMod(n, 1000) + TriMod(n)) % M>> >>
    [] s = "int-consts" ->
         \* local t = {K + 1, ..., K + n} / local s = 0 for i = 1, #t do s = (s + t[i]) % 9973 end
         \* emit("int-consts", #t, t[1], t[n], s)
         << <<"int-consts", n, K + 1, K + n, (MulMod(n, K) + TriMod(n)) % M>> >>
    [] s = "float-consts" ->
         \* local t = {1.5, 2.5, ..., n + 0.5} / s = sum of math.tointeger(t[i] * 2) % 9973
         \* emit("float-consts", #t, math.type(t[n]), math.tointeger(t[n] * 2), s)
         << <<"float-consts", n, "float", 2 * n + 1, MulMod(n, n + 2)>> >>
    [] s = "str-consts" ->
         \* local t = {"k00001", ..., "k<n, 5 digits or more>"}; s = total length % 9973 (n <= 99999: 6 each)
         \* emit("str-consts", #t, t[1]:sub(1, 1), tonumber(t[1]:sub(2)), tonumber(t[n]:sub(2)), s)
         << <<"str-consts", n, "k", 1, n, MulMod(n, 6)>> >>
    [] s = "bin-consts" ->
         \* local t = {"\0\255\200k00001", ...}: n short strings with a NUL and bytes that are not UTF-8
         \* emit("bin-consts", #t, #t[n], t[n]:byte(1), t[n]:byte(2), t[n]:byte(3), tonumber(t[n]:sub(5)), tonumber(t[1]:sub(5)))
         << <<"bin-consts", n, 9, 0, 255, 200, n, 1>> >>
    [] s = "long-string" ->
         \* local s = "<n bytes, byte i = ByteAt(i), every byte written as \ddd>"; c = sum of bytes % 9973
         \* emit("long-string", #s, s:byte(1), s:byte(Mid(n)), s:byte(n), c)
         << <<"long-string", n, ByteAt(1), ByteAt(Mid(n)), ByteAt(n), ByteSumMod(n)>> >>
    [] s = "long-bracket" ->
         \* local s = <a level-2 long-bracket literal (no escapes) of n bytes, the letters a to z cycling>
         \* emit("long-bracket", #s, s:byte(1), s:byte(n))        byte i = 97 + (i - 1) % 26
         << <<"long-bracket", n, 97, 97 + ((n - 1) % 26)>> >>
    [] s = "mixed" ->
         \* t[i] = function() return "shared", 424242, "own" .. 5 digits of i, K + i, i + 0.5 end   (n functions sharing and
         \* owning constants); for p in {1, Mid(n), n}: emit("mixed", p, a, b, tonumber(c:sub(4)), d, math.tointeger(e * 2))
         [j \in 1..Len(SetToSeq({1, Mid(n), n})) |->
            LET p == SetToSeq({1, Mid(n), n})[j] IN <<"mixed", p, "shared", 424242, p, K + p, 2 * p + 1>>]
    [] s = "upvalues" ->
         \* local a1, ..., an = 1, ..., n / local function f() a1 = a1 + 1 return a1 + an + 0 * (a1 + ... + an) end
         \* emit("upvalues", f(), f(), a1)          (for n = 1: an is a1)
         << <<"upvalues", IF n = 1 THEN 4 ELSE n + 2, IF n = 1 THEN 6 ELSE n + 3, 3>> >>
    [] s = "upvalue-layout" ->
         \* local u1, ..., un = 1, ..., n / local function g() return u1, u<Mid(n)>, un, 0 * (u1 + ... + un) end
         \* local h = load(string.dump(g)): same number of upvalues, same names; after joining upvalue i of h to
         \* upvalue i of g for every i, h behaves as g:
         \* emit("upvalue-layout", count(h) == count(g), count(g), names equal, h())
         << <<"upvalue-layout", TRUE, n, Dbg(kd, TRUE), 1, Mid(n), n, 0>> >>
    [] s = "locals" ->
         \* local a1, ..., an = 1, ..., n / emit("locals", a1 + an, a<Mid(n)>)
         << <<"locals", n + 1, Mid(n)>> >>
    [] s = "instructions" ->
         \* local x = 0 / x = x + 1 (n lines) / emit("instructions", x)
         << <<"instructions", n>> >>
    [] s = "jump-forward" ->
         \* local x = 0 / if x == 1 then / x = x + 1 (n lines) / end / emit("jump-forward", x)
         << <<"jump-forward", 0>> >>
    [] s = "jump-back" ->
         \* local x, k = 0, 0 / while k < 3 do / k = k + 1 / x = x + 1 (n lines) / end / emit("jump-back", k, x)
         << <<"jump-back", 3, 3 * n>> >>
    [] s = "vararg" ->
         \* local function f(...) local a, b = ... return select('#', ...), a, b, (select(n, ...)) end
         \* emit("vararg", f(1, ..., n)) / emit("vararg-main", select('#', ...), ...)
         << <<"vararg", n, 1, IF n >= 2 THEN 2 ELSE "nil", n>>, <<"vararg-main", 3, 11, 22, 33>> >>
    [] s = "params" ->
         \* local function f(p1, ..., pn) return p1, pn end / emit("params", f(1, ..., n))
         << <<"params", 1, n>> >>
    [] s = "returns" ->
         \* local function f() return 1, ..., n end / emit("returns", select('#', f()), (select(n, f())))
         << <<"returns", n, n>> >>
    [] s = "lines" ->
         \* local function f(x) / if x == i then error("e") end  (line i + 1, i = 1..n) / return 0 end
         \* for each probe p (ascending): local ok, m = pcall(f, p); emit("lines", p, ok, source, line) where
         \* source, line = m:match("^(.-):(%d+):"), line as a number.  How the chunk name "=ds" is displayed is left
         \* open here ("ANY"); the check requires it to be the same as in the direct run for every unstripped variant
         [j \in 1..Cardinality(Probes(n)) |->
            LET p == SetToSeq(Probes(n))[j] IN <<"lines", p, FALSE, "ANY", Dbg(kd, LineOf(p))>>]
    [] s = "edge-consts" ->
         \* constants at the edges of the number formats and of the string escapes (n is ignored)
         \* emit("edge-consts", 9223372036854775807 == math.maxinteger, -9223372036854775807 - 1 == math.mininteger,
         \*      1e308 * 10 == math.huge, 5e-324 > 0, 5e-324 / 2 == 0, 0.1 + 0.2 == 0.30000000000000004,
         \*      1 / -0.0 == -math.huge, 0x7fffffffffffffff + 1 == math.mininteger, #"\0", #"\u{10FFFF}", ("\xff"):byte(), #"")
         << <<"edge-consts", TRUE, TRUE, TRUE, TRUE, TRUE, TRUE, TRUE, TRUE, 1, 4, 255, 0>> >>
    [] OTHER -> << <<"unknown-shape">> >>

(* the probe points the renderer needs (so that they are chosen here, not in the renderer) *)
ProbesOf(s, n) == CASE s = "lines" -> SetToSeq(Probes(n))
                    [] s = "mixed" -> SetToSeq({1, Mid(n), n})
                    [] OTHER -> <<>>

(* what the wrapper adds around the shape's own events, per variant *)
Expected(v, s, n) ==
  LET ev == Events(s, n, v # "strip")
  IN  IF v = "redump" THEN << <<"stable", TRUE, TRUE>> >> \o ev ELSE ev

Init == done = FALSE
Next == /\ ~done /\ done' = TRUE
        /\ \A c \in Cases :
             Emit([shape |-> c[1], n |-> c[2], mid |-> Mid(c[2]), probes |-> ProbesOf(c[1], c[2]),
                   variants |-> [k \in 1..Len(Variants) |-> [v |-> Variants[k], ev |-> Expected(Variants[k], c[1], c[2])]]])
Spec == Init /\ [][Next]_done
=============================================================================

#!/usr/bin/env python3
"""regenerates seeded/INDEX.md from seeded/*/meta.json"""
import glob, json, os
ROOT = os.path.join(os.path.dirname(os.path.abspath(__file__)), "..", "seeded")
rows = []
for d in sorted(glob.glob(os.path.join(ROOT, "C*-*"))):
    p = os.path.join(d, "meta.json")
    if not os.path.exists(p):
        continue
    m = json.load(open(p))
    runs = m.get("runs", [])
    last = {}
    for r in runs:
        last[(r["check"], r["tier"])] = r
    det = sorted({c for (c, t), r in last.items() if r["exit"] == 1})
    missed_first = sorted({r["check"] for r in runs if r["exit"] == 0} & set(det))
    if det:
        cell = ", ".join(det) + (" (missed before strengthening: %s)" % ", ".join(missed_first) if missed_first else "")
    elif runs:
        cell = ("(obsolete) " if m.get("obsolete") else "**not detected** ") + m.get("gap", "")
    else:
        cell = "(not run yet)"
    rows.append("| %s | %s | %s | %s | %s |" % (m.get("id", os.path.basename(d)), m.get("property", "?"), m.get("change", "?").replace("|", "\\|"),
                                              m.get("needs_to_manifest", "?").replace("|", "\\|"), cell))
head = """# Seeded changes and the checks that catch them

Each change was produced by a fresh sub-agent that saw only the property text (never /verif), except the ones marked
"regression seed", which revert a `fix:` commit of a genuine defect. `runs` in each meta.json lists every execution of a
check against the change, including the ones before the check was strengthened. Regenerate with `python3 lib/mkindex.py`.

| id | property | change | needs | detected by (last run of each check) |
|---|---|---|---|---|
"""
open(os.path.join(ROOT, "INDEX.md"), "w").write(head + "\n".join(rows) + "\n")
print("INDEX.md: %d seeded changes" % len(rows))

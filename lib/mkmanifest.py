#!/usr/bin/env python3
"""Regenerates MANIFEST.json from the table below (single source of truth for the registered checks)."""
import json, os
HERE = os.path.dirname(os.path.dirname(os.path.abspath(__file__)))

CHECKS = {
 "C01": dict(
  level="model_checking", ref="5 C01 and notes/C01.md",
  text="LuaCore.tla is a small-step abstract machine for a core of Lua 5.4 (locals, closures with fresh/shared captured variables, varargs, multiple results and adjustment in "
       "every list context, multiple assignment, if/while/repeat/numeric and generic for/goto/break/return/tail calls, and/or/not, integer arithmetic with string coercions, "
       "concatenation, comparisons, tables, method calls, metamethods __index/__newindex/__call/arithmetic/__concat/__eq/__lt/__le/__len/__tostring/__metatable, pcall/error and a "
       "few basic functions); TLC runs it on generated ASTs (13 sub-grammars enumerated completely with their counts checked against closed forms, plus seeded random programs) "
       "and emits the expected events/results/error values; each AST is rendered into 2 (quick) / 4 (thorough) source spellings and run on the real scanner, parser, compiler and VM",
  note="not compared: error wording and line, floats, / ^ and bitwise operators, pairs order, <close>, coroutines (covered by C10/C09), libraries other than the modelled basic functions",
  technique="TLA+ small-step machine LuaCore.tla evaluated by TLC on generated ASTs; renderings replayed on the real pipeline (direction A, tabular)"),
 "C03": dict(
  level="model_checking", ref="5 C03",
  text="TLC explores TableAbs (a map with normalised keys, alternative float spellings of integer keys, borders, traversals whose body updates or "
       "clears existing fields, __index/__newindex consultation) exhaustively over small key families (integers and their float spellings, mixed types, boundary-length strings, numeric keys at the edges of the float-to-integer "
       "normalisation (2^53, 2^63, -2^63, min/maxinteger, infinities), closures that compare equal) and by simulation of 30-100-step histories over 13-47 keys; "
       "each history is rendered as a Lua program on a real table (fresh seeded key values per instance) and checked against the model: every get, the "
       "metamethod consultations, #t against the model's set of borders, visited-key sets of every traversal, final rawget of every spelling and final pairs",
  note="bounded histories; traversal order and the choice of border are unspecified and not compared; the open-addressing layout itself is not modelled (keys are re-instantiated instead); "
       "whether two closures of one prototype are equal is left open by the manual: the model has both variants and the one matching the observed == is kept",
  technique="TLA+ spec TableAbs.tla, TLC BFS + simulation, generated programs replayed on real tables (direction A)"),
 "C07": dict(
  level="model_checking", ref="5 C05-C07",
  text="TLC explores the bounded Quota model (context stack, CallContext frames, panics; saturating 4-bit counters scaled to 64 bits, "
       "and unscaled) exhaustively; every transition's path is replayed on the real runtime-context manager through the exported API and "
       "the projected state compared; the model's invariants (BudgetConservation, SoftWithinHard, FlagsMonotone, UsedBelowKill, "
       "ChargedToParent, StatusTruth, Exact, TimeExact, PoppedAtEnd, FrameOwnsContext) are evaluated on every transition and hold for the real manager because its state equals the model's",
  note="bounded: depth<=3-4 contexts, 2-3 nested CallContext, limits/amounts from a 4-bit lattice; time limits (Millis) driven by a virtual clock through the verif hook VerifNowHook, API level only (clock steps {4,9} ms, limits {0,10} ms, the real CPU threshold 10000); coroutines (QuotaCoQ.cfg: 2 coroutines driven through the real Thread API, each with its own CallContext frames over the runtime's one context stack: open finding F47); TLC and the JSON bridge trusted",
  technique="TLA+ spec Quota.tla, TLC exhaustive BFS, per-transition replay on the real API (direction A)"),
 "C08": dict(
  level="model_checking", ref="5 C08",
  text="the inventory of Go functions (about 150: everything reachable from _G, package.loaded, the metatables of standard values and the iterators library functions return) "
       "is extracted from the running runtime on every run together with each function's declared compliance flags (verif accessor) and a static effect class read from the "
       "sources (reaches an OS primitive directly / only through safeio / not at all); Gate.tla is instantiated with it and TLC gives, for every function x required flag set, the "
       "expected outcome (refused before any effect with the context still live, or runs) and the static IoSafe leads; every pair is then exercised for real inside "
       "runtime.callcontext{flags=...} with 33-73 argument tuples from an effect-seeking pool in a sentinel directory whose changes (files created/modified/deleted, also by spawned "
       "commands) are observed. The route by which a function is reached is a dimension of the model (66 routes x {Go function installed directly, Lua closure calling it}: call forms, "
       "every metamethod incl. __close on every kind of exit and __gc on return/error/kill/collection, library callbacks, hooks) over chains of nested contexts with and without hard limits "
       "(finaliser-pool ownership); 16 probe functions (one per declared flag set) make the gate's decision observable on every route; invariant RouteIndependence",
  note="network and plugin effects are not observable in the sandbox; the static class only raises leads; flag subsets: 6 in quick, all 16 in thorough",
  technique="TLA+ spec Gate.tla over an inventory extracted from the code, TLC enumeration, every (function, flag set) and every (function, route, mode, context chain) of the route family replayed on the real runtime with effect observation (direction A)"),
 "C09": dict(
  level="model_checking", ref="5 C09",
  text="TLC explores CoSem (Lua 5.4 coroutine semantics: status machine, resume chain, value transfer, close, wrap, pending to-be-closed "
       "variables) and emits one script per transition; each is rendered as a Lua program and run on the real runtime; emitted values, "
       "statuses, error values, the number of goroutines left behind and termination (watchdog) are compared with the model. "
       "Goroutine level: CoProto.tla (one process per goroutine, one label per statement of Resume/Yield/Close/end, two mutexes, unbuffered channels, "
       "ghost run token) is model-checked over all interleavings for AccessOwnership, OneRunner, StatusLegal, deadlock and NoGoroutineLeft (fairness); "
       "and the hook traces (send/sent/recv/resume/yield/dead/release/exit + every memory request/release with its goroutine) recorded while the "
       "programs run under a memory limit are validated by TLC against CoTrace.tla, which rejects any access to runtime state by a goroutine that "
       "does not hold the run token, independent of the scheduler exposing the race",
  note="bounded: <=3 coroutines, <=8 script actions exhaustively per (state, recent actions), random deeper scripts by TLC simulation; error message wording not compared; "
       "the goroutine-level interleaving model is separate (see DESIGN.md)",
  technique="TLA+ specs CoSem.tla (programs replayed, direction A), CoProto.tla (interleaving model), CoTrace.tla (hook-trace validation, direction B)"),
 "C10": dict(
  level="model_checking", ref="5 C10",
  text="TLC explores CloseStack (scopes do/loop/for-in/function/pcall/coroutine, to-be-closed declarations with ok/raising/nil/false/non-closable "
       "values, exits by end/break/goto/return/tail-return/error/yield-then-close) and emits one execution path per transition; each is rendered "
       "as a Lua program and run; the sequence of __close calls with their error argument, the markers of the code that receives control, "
       "pcall/resume/close results and the final outcome are compared with the manual's semantics computed by the spec",
  note="bounded: nesting <=3-4, <=6-8 actions, <=2 variables per scope; single-iteration loops; chunks run inside Thread.CallContext (F23 recorded for bare rt.Call)",
  technique="TLA+ spec CloseStack.tla, TLC BFS + simulation, generated programs replayed on the real runtime (direction A)"),
 "C11": dict(
  level="model_checking", ref="5 C11",
  text="the scope/unwinding model (CloseStack.tla with catchers pcall, xpcall+message handler, coroutine.resume; error values string level 0/1/2, "
       "number, table, nil, runtime errors; raise sites statement/metamethod/iterator/nested function) is explored by TLC; every path is rendered as a Lua "
       "program and run; compared: which catcher received which value (tables by identity, position prefix chunk:line: computed from the rendered text), "
       "handler calls, pending __close calls, and a post-error consistency battery after every caught error. ErrPos.tla models a string error value as a sequence of position "
       "prefixes plus payload over chains of functions in 7 differently named chunks: error(v, L) for L in 0..4,9 over a modelled caller stack (plain / tail calls, pcall/xpcall frames, coroutine "
       "bodies, __close handlers), 16 kinds of runtime errors at the faulting line, messages that already look positioned, and re-raising after every kind of catch (pcall, xpcall with 6 handler "
       "kinds, resume, wrap, coroutine.close, __close handlers) so that prefixes from different chunks stack up; the expected text is exact because the renderer knows every line",
  note="bounded: nesting <=3-4, <=5-7 actions, chains of <=3 (quick) / 6 (simulation) layers; error message wording beyond the position prefix is not compared; where the manual leaves a position open the spec emits the set of accepted forms",
  technique="TLA+ specs CloseStack.tla (ErrorFlow configs) and ErrPos.tla, TLC BFS + simulation, generated programs replayed on the real runtime (direction A)"),
 "C04": dict(
  level="exploration", ref="5 C04",
  text="Limits.tla gives, for 36 program shapes parameterised by a size n (locals, upvalues, constants, list items before a multi-value tail, arguments, parameters, results, "
       "forward/backward jump distance, function size, nesting of blocks / parentheses / tables / functions / ifs, __index and __call chains, recursion through pcall / tostring / "
       "gsub / plain Lua, literal and identifier length, long-bracket level, unpack), the value the program must return if it is accepted; TLC enumerates every shape at sizes "
       "around golua's encoding limits (255, 32767, 65535) and far beyond (the nesting shapes and the chains of operators / call / index suffixes up to 10^6, where a recursive parser or "
       "compiler exhausts the Go stack), plus 34 shapes of unbounded recursion through a route that nests the implementation's own stack (every operator metamethod, looping __call/__index chains, "
       "__tostring, __close, sort/gsub callbacks, xpcall handler, load reader ...) which have no value and are run both under limits and with no resource limit at all; the only allowed outcomes on the real pipeline are an ordinary compile/runtime error, a resource "
       "termination, or that value - a Go panic, a process crash, a hang or a wrong value is a violation. Plain exploration in addition: every standard-library function x 40-400 "
       "edge-value argument tuples, seeded byte mutations of generated programs, and seeded byte mutations of binary chunks (string.dump output) loaded in mode b and then run, with the oracle 'ordinary outcome'",
  note="totality over all byte strings and all argument tuples is explored, not model-checked; only the limit shapes are decided by a specification",
  technique="TLA+ spec Limits.tla (expected value per shape and size, enumerated by TLC) replayed on the real compiler and VM; library edge-value and byte-mutation exploration"),
 "C05": dict(
  level="model_checking", ref="5 C05-C07",
  text="real Lua programs (paths generated by TLC from the CloseStack/ErrorFlow/CoSem specs, 16 never-ending adversarial shells with pcall loops, xpcall handlers, "
       "coroutines, __close and __gc handlers, 20 library amplification templates with size parameters up to 2^62) run under CPU limits around and far from "
       "their own usage; the context events recorded by the verif hooks (push/popped/pop/limit/kill/host) are validated by TLC against the actions of "
       "Quota.tla through QuotaTrace.tla: every kill is decided exactly at used+n >= limit, nothing runs and nothing is host-visible in a killed context, "
       "push/pop follow CallContext, statuses are truthful; a verdict event per run makes TLC check 'killed iff L <= u', prefix/identity of events, used < L. "
       "The manager itself is model-checked and replayed per transition by the C07 machinery",
  note="limits <= 10^9 (32-bit TLC integers; larger logged amounts are clamped); watchdog time limits are observations of the process; CPU ticks per operation are never compared",
  technique="TLA+ specs Quota.tla + QuotaTrace.tla, TLC trace validation of hook traces from real programs (direction B)"),
 "C06": dict(
  level="model_checking", ref="5 C05-C07",
  text="same machinery as C05 with memory limits: programs run under limits around their measured peak; traces (including every kill decision on a memory request "
       "and memory released while unwinding) validated by TLC against Quota.tla via QuotaTrace.tla; a memverdict event per run makes TLC check used < M and "
       "monotonicity of being killed in M; adversarial shells with allocating bodies must be killed; amplification templates must end by kill/error quickly "
       "with used < M and Go heap allocation (MemStats.TotalAlloc delta) below 64*M + 64 MiB; 29 holder programs keep 20-130 MB alive through one kind of value or route each "
       "(nested / forwarded / built vararg lists, pack, constructors, resume and yield values, tables, keys, strings, closures, upvalues, coroutines, loaded functions ...) and report the "
       "memory accounted at their peak while the driver samples the live Go heap: a heapverdict event makes TLC check heap <= 16 * accounted + 32 MiB",
  note="the constants of the heap relation (16x, 32 MiB; measured ratios are 0.1-7.4) and the wall-clock bounds are chosen, not derived; byte counts per object are never compared",
  technique="TLA+ specs Quota.tla + QuotaTrace.tla, TLC trace validation of hook traces from real programs (direction B)"),
 "C12": dict(
  level="model_checking", ref="5 C12 and notes/C12.md",
  text="Syntax.tla holds the manual's precedence table as data, renderers (minimal / full / redundant parentheses), a reference parser and evaluation semantics; "
       "TLC checks Parse(Render(t)) = t on every tree and emits, for all expression trees with up to 3 operators over the 21 binary and 4 unary operators "
       "(term-building metamethod semantics and integer semantics), the texts and expected values; each is evaluated on the real scanner/parser/compiler/VM in six "
       "spellings. StrLex.tla gives byte-level denotations of short strings (every escape), long brackets, numerals (kind and value, overflow rules) and token lines; "
       "all literals up to a length bound, all expression lists in 12 multi-value contexts, and ~50k multi-line programs with one offending token (error line) are compared. "
       "SyntaxFlat.tla: 24 constructs repeated side by side 1..5000 (20000) times - valid chunks of constant nesting depth that no nesting limit may refuse - with the value each returns",
  note="bounded tree size / literal length; message wording not compared (only the line number); a float numeral is assumed to denote the nearest double; open finding C12-5",
  technique="TLA+ specs Syntax.tla + StrLex.tla evaluated exhaustively by TLC, expected values compared with the real front end through generated chunks (direction A)"),
 "C18": dict(
  level="model_checking", ref="5 C18",
  text="GCGen.tla generates scripts (create tables / userdata with __gc, resurrecting __gc, Go-side releasable values; drop references; force collection; enter and leave "
       "limited contexts normally / by error / by kill, nested) which are rendered as Lua programs; the events of the real run (every __gc call, every ReleaseResources call of a "
       "driver-provided userdata, context boundaries) are validated by TLC against GCTrace.tla: a finaliser runs at most once and never while the value is reachable, except when "
       "its context or the runtime closes, where all pending ones run in reverse order of marking; release exactly once and after the finaliser, also after a kill (which skips "
       "finalisers); finalisers run inside the context that owns the value (the one that marked it last); at leave/close nothing is missing. Scripts also re-mark values (setmetatable "
       "again) in the creating context, in a nested one and after the creating context ended, and include finalisers that re-arm themselves (a new marking while running, no obligation while closing)",
  note="when the Go collector reports a value unreachable is left open (may/must semantics); runtime/internal/luagc is driven through the Runtime API only; open finding F37 (a value marked in two open contexts is finalised by both)",
  technique="TLA+ specs GCGen.tla (scripts, direction A) and GCTrace.tla (TLC validation of recorded event traces, direction B)"),
 "C19": dict(
  level="model_checking", ref="5 C19 and notes/C19.md",
  text="StrLib.tla / TabLib.tla state the manual's definitions of sub, byte, char, rep, reverse, upper, lower, len, plain find and of insert, remove, move, concat, unpack, pack "
       "on byte sequences and an abstract get/set table; TLC enumerates every argument tuple of the bounded domain (strings <= 3-4 bytes over {a, B, 0, 255}, positions from "
       "{mininteger, -len-1..len+1, maxinteger}, lists <= 3-4) and emits the expected result; each call runs on golua (plain table and __index/__newindex/__len proxy) and is "
       "compared byte-exactly. Sort.tla is used in direction B: the real table.sort runs on TLC-enumerated inputs x 15-17 comparison functions (consistent, inconsistent, erroring) "
       "and a second TLC run evaluates Permutation / Sorted / error propagation / termination on the observations",
  note="BIG = 10^6 in TLC stands for maxinteger; not judged: error messages, number/order of metamethod calls, comparison counts, table.move outside its precondition; open finding C19-3",
  technique="TLA+ specs StrLib.tla, TabLib.tla (direction A, exhaustive) and Sort.tla (direction B, observations validated by TLC)"),
 "C13": dict(
  level="translation_validation", ref="5 C13",
  text="relational conformance against one specification behaviour per program: ~500 (quick) / ~5000 (thorough) programs whose expected events, results and errors "
       "(incl. error positions) are given by the TLA+ program generators (CloseStack, ErrorFlow, CoSem, TableAbs simulation paths) plus pool/closure stress programs are run "
       "as the chunk itself, as load(string.dump(chunk)) and as load(string.dump(load(string.dump(chunk)))); each variant must conform to the specification and equal "
       "the reference variant; dump determinism and dump(load(dump(f))) == dump(f) are byte comparisons in the driver. DumpSize.tla adds 23 program shapes parameterised by a size "
       "(sibling / nested / module functions, constants of every type incl. NUL and non-UTF-8 strings and strings up to 100000 bytes, upvalues, locals, jumps, varargs, line numbers) at "
       "1, 2, 127, 128, 199..201, 255..257, 1000, 10000, 32768, 65536 with the events each must emit, run direct / dumped / stripped / re-dumped / as an inner closure",
  note="the byte layout of string.dump is not specified (encode/decode fidelity is outside the technique); chunk-level dumps only (nested functions, constants of every type, "
       "varargs and upvalues occur inside the chunks); programs on which the reference variant itself deviates from the spec are left to the owning property",
  technique="TLA+ program generators as the oracle; dump/load variants replayed and judged against the same spec behaviour (direction A, relational)"),
 "C14": dict(
  level="translation_validation", ref="5 C14",
  text="the same spec-judged program corpus as C13 plus pool-stressing programs (deep and tail recursion, error unwinding through many frames, abandoned coroutines, closures "
       "outliving their frame, re-entrant calls from Go, vararg pools) is run by six driver binaries built from /repo with the tag sets default, noregpool, nocontpool, "
       "noregpool+nocontpool, noquotas, safepool; every build must conform to the specification's expected events/results/errors and agree with the default build. DeadCo.tla adds "
       "chains of calls through 12 Go library callbacks, protected calls and coroutine boundaries ending in an error, with a model of what each dead coroutine retains (status, traceback is a "
       "string starting with the message and frozen, getinfo fields, close result) inspected in place, from under nested pcalls and after pool-reusing work; GC scripts of GCGen.tla are run "
       "on every build and a build is reported when it behaves differently from the default build",
  note="the pool life-cycle model (Pools.tla) of DESIGN.md is not built; detection relies on observable differences on the corpus; open finding F38 (safepool build only)",
  technique="TLA+ program generators as the oracle; six build variants replayed and judged against the same spec behaviour (direction A, relational)"),
 "C02": dict(
  level="model_checking", ref="4, 5 C02 and notes/C02.md",
  text="LuaNum.tla models Lua numbers exactly on base-256 limbs (spec/lib/BigInt.tla): int64 wrap-around arithmetic, floor division and modulo, bitwise operators and shifts, "
       "doubles as exact dyadic values with IEEE round-to-nearest-even, mathematically exact mixed comparison, conversions (tointeger, float->int only for exact values), "
       "numeral and string->number denotation. TLC asserts ~30 algebraic laws on the model (trichotomy, le = lt or eq, a = (a//b)*b + a%b, shifts vs multiplication) and "
       "emits the expected result of every operator on all ordered pairs of a boundary lattice (59 / 122 values), a string lattice, all numeral strings up to length 4 / 5 and "
       "seeded random operands; every determined result is compared bit-exactly with golua, with operands as literals and as runtime values. LuaNumSrc.tla covers numerals written in "
       "the program text: every 2^k+d (k in 0..64), 12-15 spellings, negations, 27-34 constant expressions, in 44 syntactic positions, also through string.dump + load",
  note="^ is exact for the special cases of C99 Annex F (zeros, infinities, NaN, 1, negative base with non-integer exponent) and checked by subtype only otherwise; float %, fmod and // only where determined; subnormals, NaN payloads and transcendental functions are not compared; open findings C02-1/2/3/5",
  technique="TLA+ specs LuaNum.tla + BigInt.tla evaluated by TLC over a lattice, laws checked on the spec, tabular comparison with the real runtime (direction A)"),
 "C15": dict(
  level="model_checking", ref="5 C15 and notes/C15.md",
  text="TLC evaluates Pattern.tla (Lua 5.4 6.4.1: parser from characters to items or malformed; first-success backtracking matcher with greedy * + ?, lazy -, captures, position "
       "captures, back-references, %b, %f, anchors; find/match/gmatch/gsub with init normalisation, the 5.4 empty-match rule, replacement expansion, function/table replacements and "
       "the limit n) for every pattern of <= 3 tokens over a 28-token alphabet covering every construct (<= 4 tokens over 14) x every subject of <= 4 characters over {a,b,c} (plus "
       "digit and punctuation slices) x every init in -len-1..len+2, plus random 5-7-token patterns; each case's battery of 21-39 calls runs through Lua on the real library under "
       "pcall and is compared for equality (positions, captures, gsub result and count, gmatch sequence, error vs value); a Go panic or a hang is a violation; CPU clause relational: "
       "pathological patterns must be killed under limits U/2, U/10, U/100 of their unlimited use and a failing scan must be charged in proportion to the subject",
  note="calls whose result only the reference implementation fixes are recorded as observations; gmatch with '^', %1 in a replacement without captures and plain find are not compared; open findings C15-1..8",
  technique="TLA+ spec Pattern.tla, TLC BFS sharded over 12 single-worker processes plus -simulate, tabular replay via lua-run (direction A)"),
 "C16": dict(
  level="model_checking", ref="5 C16 and notes/C16.md",
  text="NumFor.tla states the numeric for loop in two layers (the manual's progression with exact comparison against the unclipped limit, and the clipped-limit form with "
       "precomputed iteration count) which TLC asserts equal, on top of LuaNum.tla; the first 4 values (kind and exact value) or the error of every (start, limit, step) triple "
       "from a boundary lattice (13x12x13 / 27x29x28) are compared with the real loop, operands as literals and as runtime values, under a watchdog (a hang is a violation). "
       "NumForMut.tla adds loops whose control expressions are locals / upvalues / globals / fields / calls / numeric strings and whose bodies (or control expressions) assign to those "
       "variables and to the control variable: the progression must not change, expressions are evaluated once (all evaluation orders accepted)",
  note="numeric strings as control values and NaN in float loops are not compared (manual and reference implementation disagree); open findings C16-1/2/3",
  technique="TLA+ spec NumFor.tla over LuaNum.tla, TLC exhaustive over the lattice, expected sequences compared with the real loop (direction A)"),
 "C17": dict(
  level="model_checking", ref="5 C17 and notes/C17.md",
  text="Pack.tla (string.pack format reader: endianness, !n alignment with the power-of-2 rule, Xop, every option incl. i/I 1..16, s[n], z, cn, floats, on 64-bit integers as "
       "base-256 limbs) is evaluated by TLC, which checks on the spec Unpack(f, Pack(f, vs)) = vs with next position and PackSize = length, and emits every case; the real "
       "pack/unpack/packsize are compared byte for byte, value, position, size, error vs no error. Quote.tla: TLC checks Denote(Quote(s)) = s; the real %q output must load back "
       "to the identical value and, in a second TLC pass over the observed texts, denote the value under the spec's own lexer. Printf.tla: C-printf text of %d %i %u %x %X %o %c %s "
       "with flags, widths and precisions compared exactly. tonumber(tostring(n)) == n is checked as a law on a lattice supplied by the spec",
  note="bounded formats (<= 2-4 tokens) and strings; native sizes are measured and passed to the spec; the %q text itself, float directives and error messages are not compared; open findings C17-1..14",
  technique="TLA+ specs Pack.tla, Quote.tla, Printf.tla over Limbs.tla; TLC exhaustive enumeration with laws on the spec; tabular comparison with the real library; second TLC pass over observed %q texts (direction B)"),
 "C20": dict(
  level="model_checking", ref="5 C20",
  text="Isolation.tla (N runtimes with private state only, so non-interference holds for every interleaving by construction) is used by TLC to enumerate all schedules of the "
       "statement segments of 2-3 programs; each schedule is replayed on real Runtime values living in one process (one goroutine each, gated so that exactly one advances), for "
       "program tuples built from a menu of statements on every per-runtime root (globals, library tables, string metatable, random generator incl. seed-then-draw across "
       "segments, quotas, errors, coroutines, finalisers, package.loaded, the per-runtime wrappers of the process-wide standard files incl. closing them by <close> and by ending the runtime); every runtime's events must equal its solo run. The same programs also run freely in parallel on 4 "
       "goroutines with a race-detector build (GOMAXPROCS 2 and 8): a race report with golua frames or a deviation from the solo run is a violation",
  note="the race detector only sees races the executions expose (an observation supporting the verdict); the process-wide Go GC setting (collectgarbage stop/restart) is not exercised",
  technique="TLA+ spec Isolation.tla, TLC enumeration of interleavings, schedules replayed on real runtimes with gated goroutines (direction A) + race-detector runs"),
}
NOT_YET = {}

def main():
    props = [json.loads(l) for l in open(os.path.join(HERE, "properties.jsonl"))]
    checks = []
    for p in props:
        c = CHECKS.get(p["id"])
        if not c:
            continue
        checks.append({
            "property_id": p["id"],
            "quick_cmd": "./check %s --tier quick" % p["id"],
            "thorough_cmd": "./check %s --tier thorough" % p["id"],
            "evidence_file": "/verif/evidence/%s.json" % p["id"],
            "replay_cmd_template": "./check %s --replay {path}" % p["id"],
            "engine": "tlc+luadrv",
            "level_claimed": {"category": c["level"], "text": c["text"], "design_ref": "DESIGN.md section " + c["ref"]},
            "level_note": c["note"],
            "technique": c["technique"],
        })
    na = [{"property_id": p["id"], "reason": NOT_YET.get(p["id"], "check not built yet in this round (planned, see DESIGN.md section 10)")}
          for p in props if p["id"] not in CHECKS]
    m = {
        "version": 1,
        "setup_cmd": "./setup.sh",
        "hooks": {
            "guard": "verif",
            "enable": "go build -tags verif -ldflags=-checklinkname=0 (harness module with replace github.com/arnodel/golua => /repo)",
            "baseline_off_cmd": "cd /repo && GOFLAGS=-mod=mod GOPROXY=off GOSUMDB=off go test -json -vet=off -count=1 -timeout 25m ./...",
            "source_commits": HOOK_COMMITS,
            "add_only": True,
        },
        "engines": [
            {"name": "tlc+luadrv", "path": "/verif/check", "serves_properties": [c["property_id"] for c in checks],
             "kind_free_text": "TLA+ specifications in /verif/spec checked by TLC; behaviours replayed on / traces validated from the Go driver /verif/harness/cmd/luadrv built from /repo's working tree"},
        ],
        "checks": checks,
        "not_applicable": na,
        "notes": "fix: commits in /repo and known findings are listed in /verif/known_findings.json and DESIGN.md section 7",
    }
    json.dump(m, open(os.path.join(HERE, "MANIFEST.json"), "w"), indent=1)
    print("MANIFEST.json: %d checks, %d not_applicable" % (len(checks), len(na)))

HOOK_COMMITS = ["e5967ad", "aaa007e", "dae7e5f", "4bd7a1b"]

if __name__ == "__main__":
    main()

#!/usr/bin/env python3
"""seedtest.py <seeded-dir> <Cxx> [<Cxx> ...] [--tier quick|thorough]
Applies <seeded-dir>/patch.diff to /repo, runs the listed checks, restores /repo, and records the outcome in
<seeded-dir>/meta.json under "runs".  Never commits anything in /repo."""
import json, os, subprocess, sys, time

def main():
    args = sys.argv[1:]
    tier = "quick"
    if "--tier" in args:
        i = args.index("--tier"); tier = args[i + 1]; del args[i:i + 2]
    d = os.path.abspath(args[0]); props = args[1:]
    patch = os.path.join(d, "patch.diff")
    st = subprocess.run(["git", "-C", "/repo", "status", "--porcelain", "--untracked-files=no"], capture_output=True, text=True).stdout.strip()
    if st:
        print("refusing: /repo has local modifications:\n" + st); return 2
    r = subprocess.run(["git", "-C", "/repo", "apply", "--whitespace=nowarn", patch], capture_output=True, text=True)
    if r.returncode != 0:
        print("patch does not apply:", r.stderr); return 2
    results = []
    try:
        for p in props:
            t0 = time.time()
            pr = subprocess.run(["./check", p, "--tier", tier], cwd="/verif", capture_output=True, text=True)
            viol = [l for l in pr.stdout.splitlines() if l.startswith("VIOLATION")]
            sigs = [l.strip() for l in pr.stderr.splitlines() if l.strip().startswith("sig:")]
            results.append({"check": p, "tier": tier, "exit": pr.returncode, "violations": len(viol), "first_sigs": sigs[:3], "wall_s": round(time.time() - t0, 1)})
            print("%s %s: exit %d, %d VIOLATION lines %s" % (p, tier, pr.returncode, len(viol), sigs[:2]))
    finally:
        subprocess.run(["git", "-C", "/repo", "checkout", "--", "."])
    mp = os.path.join(d, "meta.json")
    meta = json.load(open(mp)) if os.path.exists(mp) else {}
    meta.setdefault("runs", []).extend(results)
    meta["detected_by"] = sorted(set(meta.get("detected_by", []) + [x["check"] for x in results if x["exit"] == 1]))
    json.dump(meta, open(mp, "w"), indent=1)
    return 0

if __name__ == "__main__":
    sys.exit(main())

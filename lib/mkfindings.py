#!/usr/bin/env python3
"""regenerates section 11.3 of DESIGN.md (between the '### 11.3' and '### 11.4' headings) from known_findings.json"""
import json, os, re
ROOT = os.path.join(os.path.dirname(os.path.abspath(__file__)), "..")
k = json.load(open(os.path.join(ROOT, "known_findings.json")))["findings"]
fixed = [f for f in k if f["status"] == "fixed"]
openf = [f for f in k if f["status"] != "fixed"]


def short(f):
    return re.sub(r"^fixed: property=C\d+\s+(\(?[0-9a-f]{7}\)?\s+)?", "", f["what"])


L = ["### 11.3 Findings (see `known_findings.json` for the authoritative list and matching rules)\n",
     "%d genuine defects of arnodel/golua were reproduced against the real code by these checks (or reported as a side note by a seeding sub-agent and then\n"
     "reproduced and modelled); %d are repaired by `fix:` commits in /repo, each a minimal unguarded change with the existing test suite passing, and %d are\n"
     "recorded and still open. Every repaired one was re-found by its check before the repair or has a regression seed (a revert of the fix under `seeded/`) that\n"
     "the check reports; the check passes on the repaired tree.\n" % (len(k), len(fixed), len(openf)),
     "**Open (printed as KNOWN-FINDING, exit 0):**\n"]
for f in openf:
    L.append("* **%s** (%s): %s" % (f["id"], f["property"], short(f)))
L.append("\n**Repaired (`fixed:` entries; commit in /repo):**\n")
byp = {}
for f in fixed:
    byp.setdefault(f["property"], []).append(f)
for p in sorted(byp):
    L.append("* **%s**: " % p + "; ".join("%s `%s` %s" % (f["id"], f.get("commit", "?"), (short(f)[:150].rstrip() + ("..." if len(short(f)) > 150 else ""))) for f in byp[p]))
L.append("""
Notable ones from the later rounds. **F35** and **F46** (C07) were found by extending `Quota.tla` with time limits and a virtual clock: TLC's model of
the code as it was (`OldPopOrder` / `OldTimeCharge` = TRUE, kept as `QuotaTimeOld.cfg` / `QuotaTimeOldCharge.cfg`) violates `PoppedAtEnd`, `StatusTruth` and
`ChargedToParent`, and the replay of those paths showed the real manager in exactly the violating states. **F36** (C18), **F39-F42** (C04) are
process-killing Go fatal errors (`finalizer already set`, `stack overflow`) that no `recover` can stop: two were side remarks of seeding sub-agents, the
others were found when the specs were extended (cross-context re-marking in `GCGen.tla`; `RecShapes`, `DeepShapes`, `ChainShapes` up to 10^6 in `Limits.tla`).
**F44** (C08) is a sandbox escape found by the route dimension of `Gate.tla`: a `__gc` function set up inside a flags-only context ran later, ungated. **F45** (C18)
was a timing-dependent loss of a finaliser at close, seen once in a C14 run and then reproduced deterministically at the pool level. **F43** (C03), **C11-5**,
**C15-9/10** are equality/hash, error-position and pattern-library defects reported by seeding sub-agents or by the strengthened specs.

False alarms corrected along the way (never listed as findings): traversal order compared across build variants (C14); a "slow amplification" verdict that
was machine load (C05); goroutine-count sampling before the runtime had wound down (C09); a too strict `MatchTopPop` in `QuotaTrace.tla`; spec bugs in
`Limits.tla` (nest-table n=1, long-bracket wrapper); the reduced maximum Go stack of the driver making 100000 nested function bodies look like a crash (the
sizes were extended instead and the real defect found there is F41); an `elseif` chain of 10^6 branches reported as a hang under load (removed from the
huge sizes, timeouts raised); "too many driver restarts" reported as a machinery failure when it was 50+ genuine hangs of a seeded change; C18 rejections that
occur identically in every build reported under C14 (C14 now reports only what differs from the default build).
""")
s = open(os.path.join(ROOT, "DESIGN.md")).read()
i, j = s.index("### 11.3 Findings"), s.index("### 11.4 Which checks")
open(os.path.join(ROOT, "DESIGN.md"), "w").write(s[:i] + "\n".join(L) + "\n" + s[j:])
print("DESIGN.md 11.3: %d findings (%d fixed, %d open)" % (len(k), len(fixed), len(openf)))

"""Shared machinery for the /verif checks (python3 stdlib only).

Exit code contract of every check:
  0  property held on everything explored (KNOWN-FINDING lines allowed)
  1  a reproduced violation not listed in known_findings.json
  2  the machinery itself failed (build error, TLC timeout, dead driver): never a verdict
"""
import tempfile, json, os, re, shutil, subprocess, sys, tempfile, time, atexit, hashlib

VERIF = os.path.dirname(os.path.dirname(os.path.abspath(__file__)))
REPO = os.environ.get("VERIF_REPO", "/repo")
SPEC = os.path.join(VERIF, "spec")
HARNESS = os.path.join(VERIF, "harness")
EVID = os.path.join(VERIF, "evidence")
REPLAYS = os.path.join(VERIF, "replays")
NCPU = os.cpu_count() or 4

GOENV = dict(os.environ, GOFLAGS="-mod=mod", GOPROXY="off", GOSUMDB="off", GOTOOLCHAIN="local")

_scratch = None


class Infra(Exception):
    """Machinery failure: exit 2."""


def scratch():
    global _scratch
    if _scratch is None:
        base = os.environ.get("VERIF_TMP") or tempfile.gettempdir()
        _scratch = tempfile.mkdtemp(prefix="verif-", dir=base)
        if not os.environ.get("VERIF_KEEP"):
            atexit.register(shutil.rmtree, _scratch, True)
    return _scratch


def seed():
    try:
        return int(os.environ.get("VERIF_SEED", "1"))
    except ValueError:
        return 1


def log(*a):
    print(*a, file=sys.stderr, flush=True)


# --------------------------------------------------------------------------
# building the driver from /repo's current working tree


def build_driver(tags=("verif",), race=False, name=None, pkg="./cmd/luadrv"):
    """go build the harness driver against /repo's working tree. Returns binary path."""
    name = name or ("luadrv-" + "-".join(tags) + ("-race" if race else ""))
    out = os.path.join(scratch(), name)
    if os.path.exists(out):
        return out
    harness = HARNESS
    if REPO != "/repo":
        # development aid (VERIF_REPO=<scratch clone>): build a private copy of the harness whose replace points there
        harness = os.path.join(scratch(), "harness")
        if not os.path.isdir(harness):
            shutil.copytree(HARNESS, harness)
            gm = open(os.path.join(harness, "go.mod")).read().replace("=> /repo", "=> " + REPO)
            open(os.path.join(harness, "go.mod"), "w").write(gm)
    # go.sum must be the repository's (no network to fetch sums)
    shutil.copyfile(os.path.join(REPO, "go.sum"), os.path.join(harness, "go.sum"))
    cmd = ["go", "build", "-tags", ",".join(tags), "-ldflags=-checklinkname=0", "-o", out]
    if race:
        cmd.insert(2, "-race")
    cmd.append(pkg)
    t0 = time.time()
    p = subprocess.run(cmd, cwd=harness, env=GOENV, capture_output=True, text=True)
    if p.returncode != 0:
        raise Infra("driver build failed (%s):\n%s" % (" ".join(cmd), p.stderr[-4000:]))
    log("[build] %s in %.1fs" % (name, time.time() - t0))
    return out


# --------------------------------------------------------------------------
# TLC


class TLCResult:
    def __init__(self):
        self.stdout = ""
        self.generated = 0
        self.distinct = 0
        self.emitted = []  # decoded JSON payloads of "@@" lines
        self.violation = None  # text of invariant violation etc, if any
        self.ok = False
        self.wall = 0.0
        self.cmd = ""


_TLA_ESC = re.compile(r'\\(.)')


def _tla_unescape(s):
    return _TLA_ESC.sub(lambda m: {"n": "\n", "t": "\t"}.get(m.group(1), m.group(1)), s)


def parse_emitted(line, marker="@@"):
    pre = '<<"%s", "' % marker
    if line.startswith(pre) and line.endswith('">>'):
        return json.loads(_tla_unescape(line[len(pre):-3]))
    return None


def run_tlc(module, cfg, workers=None, timeout=600, simulate=None, depth=None, consts=None,
            extra_files=None, env=None, marker="@@", coverage=False, heap=None, deadlock=None,
            keep_stdout=True, seed_=None, on_line=None):
    """Run TLC on spec/<module>.tla with spec/<cfg> in a scratch copy of spec/.

    consts: dict name -> TLA+ expression text, appended to a private copy of the cfg as CONSTANT lines.
    simulate: 'num=N' -> -simulate; depth -> -depth.
    Returns TLCResult; raises Infra on timeout / tool crash. An invariant violation is returned in .violation.
    """
    work = tempfile.mkdtemp(prefix="tlc-", dir=scratch())
    for f in os.listdir(SPEC):
        p = os.path.join(SPEC, f)
        if os.path.isfile(p):
            shutil.copy(p, work)
    libdir = os.path.join(SPEC, "lib")
    if os.path.isdir(libdir):
        for f in os.listdir(libdir):
            shutil.copy(os.path.join(libdir, f), work)
    for src in (extra_files or []):
        shutil.copy(src, work)
    cfgpath = os.path.join(work, cfg)
    if consts:
        with open(cfgpath, "a") as f:
            f.write("\nCONSTANTS\n")
            for k, v in consts.items():
                f.write("  %s = %s\n" % (k, v))
    workers = workers or NCPU
    cmd = ["java", "-XX:+UseParallelGC"]
    if heap:
        cmd.append("-Xmx" + heap)
    cmd += ["-Xss512m", "-cp", "/opt/veriftools/tla/tla2tools.jar:/opt/veriftools/tla/CommunityModules-deps.jar",
            "tlc2.TLC", "-workers", str(workers), "-metadir", os.path.join(work, "md"), "-config", cfg]
    if simulate:
        cmd += ["-simulate", simulate]
        if depth:
            cmd += ["-depth", str(depth)]
        cmd += ["-seed", str(seed_ if seed_ is not None else seed())]
    if deadlock is False:
        pass  # use CHECK_DEADLOCK FALSE in cfg
    if coverage:
        cmd += ["-coverage", "1"]
    cmd.append(module + ".tla")
    e = dict(os.environ)
    e.pop("JAVA_TOOL_OPTIONS", None)
    if env:
        e.update(env)
    r = TLCResult()
    r.cmd = " ".join(cmd)
    t0 = time.time()
    try:
        p = subprocess.Popen(cmd, cwd=work, env=e, stdout=subprocess.PIPE, stderr=subprocess.STDOUT, text=True,
                             errors="replace")
    except OSError as ex:
        raise Infra("cannot start TLC: %s" % ex)
    out_lines = []
    pre = '<<"%s", "' % marker
    import threading
    timed_out = []

    def killer():
        timed_out.append(1)
        p.kill()

    timer = threading.Timer(timeout, killer)
    timer.start()
    try:
        for line in p.stdout:
            line = line.rstrip("\n")
            if line.startswith(pre):
                try:
                    v = parse_emitted(line, marker)
                except Exception as ex:
                    raise Infra("cannot decode TLC emission: %s: %s" % (ex, line[:300]))
                if on_line:
                    on_line(v)
                else:
                    r.emitted.append(v)
            else:
                out_lines.append(line)
        p.wait()
    finally:
        timer.cancel()
    r.wall = time.time() - t0
    r.stdout = "\n".join(out_lines)
    shutil.rmtree(work, True)
    if timed_out:
        raise Infra("TLC timed out after %ds: %s" % (timeout, r.cmd))
    m = re.search(r"(\d+) states generated, (\d+) distinct states found", r.stdout)
    if m:
        r.generated, r.distinct = int(m.group(1)), int(m.group(2))
    m2 = re.search(r"The number of states generated: (\d+)", r.stdout)  # simulation mode
    if m2 and not m:
        r.generated = int(m2.group(1))
        r.distinct = r.generated
    if "Error:" in r.stdout or "error" in r.stdout and "No error has been found" not in r.stdout:
        # distinguish property violations from tool errors
        mv = re.search(r"Error: (Invariant \S+ is violated|Action property \S+ is violated|Temporal properties were violated|"
                       r"Deadlock reached|Assumption .* is false|Evaluating assumption .* failed|Postcondition \S+ [^\n]* is false)[^\n]*", r.stdout)
        if mv:
            r.violation = mv.group(0)
        elif "Error:" in r.stdout:
            tail = r.stdout[r.stdout.find("Error:"):][:3000]
            raise Infra("TLC error in %s/%s:\n%s" % (module, cfg, tail))
    if p.returncode not in (0, 12, 13, 10, 11) and r.violation is None:
        # 12 = safety violation, 13 = liveness violation, 11 = deadlock, 10 = assumption failure
        raise Infra("TLC exit code %s for %s/%s:\n%s" % (p.returncode, module, cfg, r.stdout[-3000:]))
    r.ok = r.violation is None
    return r


# --------------------------------------------------------------------------
# running the driver


def run_driver(binary, args, input_lines=None, timeout=600, env=None, cwd=None):
    """Run driver with JSON-lines on stdin; returns (returncode, list of decoded JSON stdout lines, stderr)."""
    data = None
    if input_lines is not None:
        data = "\n".join(json.dumps(x, separators=(",", ":")) if not isinstance(x, str) else x for x in input_lines) + "\n"
    e = dict(os.environ)
    if env:
        e.update(env)
    try:
        p = subprocess.run([binary] + list(args), input=data, capture_output=True, text=True, timeout=timeout, env=e,
                           cwd=cwd, errors="replace")
    except subprocess.TimeoutExpired as ex:
        return -9, [], "TIMEOUT after %ss; stderr: %s" % (timeout, (ex.stderr or b"")[-2000:])
    outs = []
    for line in p.stdout.splitlines():
        line = line.strip()
        if not line:
            continue
        try:
            outs.append(json.loads(line))
        except Exception:
            outs.append({"_raw": line})
    return p.returncode, outs, p.stderr


# --------------------------------------------------------------------------
# known findings


class Findings:
    """known_findings.json: {"findings":[{"id":"F1","property":"C05","status":"open"|"fixed","match":{...},"what":"..."}]}

    A violation is a dict with a 'sig' (signature dict). An open finding suppresses a violation iff every key of its
    'match' equals the same key of the signature (values may be lists = any-of). The file is never written at run time.
    """

    def __init__(self, prop):
        self.prop = prop
        path = os.path.join(VERIF, "known_findings.json")
        self.items = []
        if os.path.exists(path):
            with open(path) as f:
                self.items = [x for x in json.load(f).get("findings", []) if prop in x.get("property", "").split()]
        extra = os.environ.get("VERIF_EXTRA_FINDINGS")   # development aid only (not used by registered commands)
        if extra and os.path.exists(extra):
            with open(extra) as f:
                d = json.load(f)
                d = d.get("findings", d) if isinstance(d, dict) else d
                self.items += [x for x in d if prop in x.get("property", "").split()]
        self.hit = {}

    def match(self, sig):
        for it in self.items:
            if it.get("status") != "open":
                continue
            m = it.get("match", {})
            ok = True
            for k, v in m.items():
                sv = sig.get(k)
                if isinstance(v, list):
                    if sv not in v:
                        ok = False
                        break
                elif sv != v:
                    ok = False
                    break
            if ok and m:
                self.hit.setdefault(it["id"], it)
                return it
        return None


# --------------------------------------------------------------------------
# reporting


class Report:
    def __init__(self, prop, tier, level):
        self.prop = prop
        self.tier = tier
        self.level = level
        self.t0 = time.time()
        self.cov = {"samples": []}
        self.assumptions = []
        self.violations = []  # (sig, replay dict)
        self.known = {}
        self.findings = Findings(prop)

    def sample(self, x, cap=5):
        if len(self.cov["samples"]) < cap:
            self.cov["samples"].append(x)

    def add(self, key, n=1):
        self.cov[key] = self.cov.get(key, 0) + n

    def violation(self, sig, replay):
        """Register a reproduced discrepancy. sig: dict used for known-finding matching."""
        it = self.findings.match(sig)
        if it is not None:
            self.known.setdefault(it["id"], {"item": it, "count": 0})["count"] += 1
            return False
        self.violations.append((sig, replay))
        return True

    def finish(self):
        os.makedirs(EVID, exist_ok=True)
        for fid, k in sorted(self.known.items()):
            print("KNOWN-FINDING: property=%s %s %s (%d cases)" % (self.prop, fid, k["item"].get("what", ""), k["count"]))
        rc = 0
        if self.violations:
            os.makedirs(REPLAYS, exist_ok=True)
            seen = set()
            for i, (sig, rep) in enumerate(self.violations):
                key = json.dumps(sig, sort_keys=True)
                if key in seen or len(seen) >= 40:
                    continue
                seen.add(key)
                h = hashlib.sha1(key.encode()).hexdigest()[:10]
                path = os.path.join(REPLAYS, "%s-%s.json" % (self.prop, h))
                with open(path, "w") as f:
                    json.dump({"property": self.prop, "sig": sig, "replay": rep}, f, indent=1)
                print("VIOLATION property=%s replay=%s" % (self.prop, path))
                log("  sig: %s" % key[:500])
            rc = 1
        ev = {
            "property_id": self.prop,
            "tier": self.tier,
            "seed": seed(),
            "level": self.level,
            "coverage": self.cov,
            "assumptions": self.assumptions,
            "wall_s": round(time.time() - self.t0, 2),
            "violations": len(self.violations),
        }
        self.cov["known_findings_hit"] = {k: v["count"] for k, v in self.known.items()}
        with open(os.path.join(EVID, "%s.json" % self.prop), "w") as f:
            json.dump(ev, f, indent=1)
        return rc


def chunks(lst, n):
    k = max(1, (len(lst) + n - 1) // n)
    return [lst[i:i + k] for i in range(0, len(lst), k)]


def parallel_driver(binary, args, items, nproc=None, timeout=900, env=None):
    """Split items over several driver processes; returns concatenated outputs (each output must carry its own id)."""
    import concurrent.futures as cf
    nproc = nproc or NCPU
    parts = [c for c in chunks(items, nproc) if c]
    outs = []
    errs = []
    with cf.ThreadPoolExecutor(max_workers=nproc) as ex:
        futs = [ex.submit(run_driver, binary, args, part, timeout, env) for part in parts]
        for fu in futs:
            rc, o, err = fu.result()
            if rc != 0:
                errs.append((rc, err[-2000:]))
            outs.extend(o)
    return outs, errs


class BatchReplayer:
    """Streams TLC-emitted lines to driver processes in batches and compares.

    make_input(line) -> driver case dict (without id) or None to skip the line
    compare(line, obs) -> None if conforming else a dict describing the mismatch
    on_result(line, obs, mismatch) is called for every replayed line.
    """

    def __init__(self, binary, args, make_input, on_result, batch=20000, nproc=None, timeout=900, env=None):
        import concurrent.futures as cf
        self.binary, self.args = binary, list(args)
        self.make_input, self.on_result = make_input, on_result
        self.batch = batch
        self.timeout = timeout
        self.env = env
        self.pool = cf.ThreadPoolExecutor(max_workers=nproc or max(2, NCPU // 2))
        self.cur = []
        self.futs = []
        self.n = 0
        self.skipped = 0
        self.errors = []
        import threading
        self.lock = threading.Lock()

    def feed(self, line):
        inp = self.make_input(line)
        if inp is None:
            self.skipped += 1
            return
        self.n += 1
        self.cur.append((line, inp))
        if len(self.cur) >= self.batch:
            self._flush()

    def _flush(self):
        if not self.cur:
            return
        items, self.cur = self.cur, []
        self.futs.append(self.pool.submit(self._run, items))
        # bound memory: wait for old batches
        while len(self.futs) > 2 * (self.pool._max_workers):
            self.futs.pop(0).result()

    def _run(self, items):
        inputs = []
        for i, (line, inp) in enumerate(items):
            d = dict(inp)
            d["id"] = i
            inputs.append(d)
        rc, outs, err = run_driver(self.binary, self.args, inputs, timeout=self.timeout, env=self.env)
        if rc != 0:
            with self.lock:
                self.errors.append("driver rc=%s: %s" % (rc, err[-1500:]))
            return
        byid = {o.get("id"): o for o in outs if isinstance(o, dict)}
        with self.lock:
            for i, (line, inp) in enumerate(items):
                obs = byid.get(i)
                if obs is None:
                    self.errors.append("driver produced no output for case %r" % (inp,))
                    continue
                self.on_result(line, inp, obs)

    def close(self):
        self._flush()
        for f in self.futs:
            f.result()
        self.pool.shutdown()
        if self.errors:
            raise Infra("replay driver failed: " + "; ".join(self.errors[:3]))


def run_lua_cases(binary, cases, nproc=None, timeout_s=600, env=None, sub="lua-run"):
    """Run lua-run cases (dicts with unique 'id') in parallel driver processes, restarting a driver after a
    hung case (driver exit code 3).  Returns dict id -> output dict.  Raises Infra on driver death."""
    import concurrent.futures as cf
    nproc = nproc or NCPU
    parts = [c for c in chunks(list(cases), nproc) if c]
    results = {}

    def work(part):
        res = {}
        rest = list(part)
        guard = 0
        while rest:
            guard += 1
            if guard > 50:
                # more than 50 hung / crashed cases in this part: that is a verdict (each of them is reported by the
                # caller), not a machinery failure; the cases not reached are marked as such
                for c in rest:
                    res[c["id"]] = {"id": c["id"], "skipped": True, "timeout": True, "events": [],
                                    "note": "not run: the driver had to be restarted more than 50 times before this case"}
                break
            rc, outs, err = run_driver(binary, [sub], rest, timeout=timeout_s, env=env)
            got = set()
            for o in outs:
                if isinstance(o, dict) and "id" in o:
                    res[o["id"]] = o
                    got.add(o["id"])
            if rc == 0:
                missing = [c for c in rest if c["id"] not in got]
                if missing:
                    raise Infra("driver lost %d cases" % len(missing))
                break
            if rc == 3:
                # hung case reported as timeout; continue after it
                idx = max(i for i, c in enumerate(rest) if c["id"] in got)
                rest = rest[idx + 1:]
                continue
            # driver died (fatal error / os.Exit from Lua / crash): the first case without output is the culprit
            nxt = [i for i, c in enumerate(rest) if c["id"] not in got]
            if not nxt:
                break
            i = nxt[0]
            res[rest[i]["id"]] = {"id": rest[i]["id"], "crash": True, "rc": rc, "stderr": err[-3000:], "events": []}
            rest = rest[i + 1:]
        return res

    with cf.ThreadPoolExecutor(max_workers=nproc) as ex:
        for r in ex.map(work, parts):
            results.update(r)
    return results


# --------------------------------------------------------------------------
# expected-event tokens shared by the program-level specs (CoSem, CloseStack, ErrorFlow, ...)

_TOK_T = re.compile(r"T(\d+)$")


def tok(x):
    """token of a spec event -> JSON value the driver reports ("STR" = any string)"""
    if x is True or x is False:
        return x
    if isinstance(x, int):
        return {"i": str(x)}
    if x == "nil":
        return None
    if x == "STR":
        return "STR"
    m = _TOK_T.match(x)
    if m:
        return {"t": int(m.group(1))}
    return {"s": x}


def val_match(e, g, tokf=None):
    t = (tokf or tok)(e)
    if t == "STR":
        return isinstance(g, dict) and ("s" in g or "x" in g)
    if isinstance(t, tuple) and t[0] == "prefix":
        return isinstance(g, dict) and isinstance(g.get("s"), str) and g["s"].startswith(t[1])
    return t == g


def ev_match(exp, got, tokf=None):
    return len(exp) == len(got) and all(val_match(e, g, tokf) for e, g in zip(exp, got))


def compare_program(o, exp_events, exp_fin="done", tokf=None):
    """o: lua-run output. exp_fin: 'done' or 'error:<token>'. Returns None or a dict(kind, detail, tag)."""
    if o.get("timeout"):
        return {"kind": "hang", "detail": "did not finish within the watchdog"}
    if o.get("crash") or o.get("panic"):
        return {"kind": "crash", "detail": (o.get("panic") or o.get("stderr", ""))[:400]}
    got = o["events"]
    for j, e in enumerate(exp_events):
        if j >= len(got):
            return {"kind": "events", "detail": "missing event %d: expected %s" % (j, json.dumps(e)), "tag": e[0]}
        if not ev_match(e, got[j], tokf):
            gt = got[j][0].get("s", "") if got[j] and isinstance(got[j][0], dict) else ""
            return {"kind": "events", "detail": "event %d: expected %s got %s" % (j, json.dumps(e), json.dumps(got[j])), "tag": e[0],
                    "got_tag": gt}
    if len(got) > len(exp_events):
        return {"kind": "events", "detail": "extra event %d: %s" % (len(exp_events), json.dumps(got[len(exp_events)])), "tag": "extra"}
    if exp_fin == "done":
        if not o.get("ok"):
            return {"kind": "outcome", "detail": "expected normal end, got error %s" % o.get("errstr", "")[:200]}
    elif exp_fin.startswith("error:"):
        if o.get("ok"):
            return {"kind": "outcome", "detail": "expected error %s, program ended normally" % exp_fin[6:]}
        if not val_match(exp_fin[6:], o.get("err"), tokf):
            return {"kind": "outcome", "detail": "expected error value %s, got %s" % (exp_fin[6:], json.dumps(o.get("err")))}
    return None


# --------------------------------------------------------------------------
# trace validation (direction B)


def validate_traces(module, cfg, traces, fields, timeout=1200):
    """traces: list of (tag, [event dict, ...]).  Events are normalised to `fields` (dict name -> default), a
    {"k": "reset"} line is appended after each trace, the file is given to TLC through env TRACEFILE, and acceptance
    is `diameter - 1 = Len(Trace)` (POSTCONDITION in the cfg).  Returns (ok, info): info has lines, states, and on
    rejection the tag/index/event of the first line TLC could not match and the longest matched prefix length."""
    fd, path = tempfile.mkstemp(prefix="trace-", suffix=".ndjson", dir=scratch())     # unique also across threads
    os.close(fd)
    index = []  # line number (1-based) -> (trace idx, event idx)
    with open(path, "w") as f:
        for ti, (tag, evs) in enumerate(traces):
            for ei, e in enumerate(evs + [{"k": "reset"}]):
                d = {k: e.get(k, dv) if e.get(k) is not None else dv for k, dv in fields.items()}
                f.write(json.dumps(d, separators=(",", ":")) + "\n")
                index.append((ti, ei))
    res = run_tlc(module, cfg, workers=1, timeout=timeout, env={"TRACEFILE": path})
    hw = None
    for v in res.emitted:
        if isinstance(v, dict) and "hw" in v:
            hw = v["hw"]
    info = {"lines": len(index), "states": res.distinct, "tlc_wall_s": round(res.wall, 1), "high_water": hw}
    os.unlink(path)
    if hw is None:
        raise Infra("trace validation of %s produced no verdict:\n%s" % (module, res.stdout[-2000:]))
    if res.violation is None and hw == len(index) + 1:
        return True, info
    if res.violation and "Invariant" in res.violation:
        info["invariant"] = res.violation
    bad = min(max(hw - 1, 0), len(index) - 1)   # 0-based index of the first line TLC could not consume
    ti, ei = index[bad]
    info.update(trace_tag=traces[ti][0], trace_index=ti, event_index=ei,
                event=(traces[ti][1] + [{"k": "reset"}])[ei], matched_prefix=bad,
                context=(traces[ti][1] + [{"k": "reset"}])[max(0, ei - 6):ei + 1])
    return False, info

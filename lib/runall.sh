#!/bin/sh
# runs the quick (default) or thorough tier of every registered check against /repo, one after the other
TIER=${1:-quick}
export GOFLAGS=-mod=mod GOPROXY=off GOSUMDB=off GOTOOLCHAIN=local
cd "$(dirname "$0")/.."
for c in C01 C02 C03 C04 C05 C06 C07 C08 C09 C10 C11 C12 C13 C14 C15 C16 C17 C18 C19 C20; do
  s=$(date +%s)
  ./check $c --tier $TIER > /tmp/runall-$c.log 2>&1
  rc=$?
  echo "$c rc=$rc $(( $(date +%s) - s ))s violations=$(grep -c '^VIOLATION' /tmp/runall-$c.log) known=$(grep -c '^KNOWN-FINDING' /tmp/runall-$c.log)"
done

"""C12: Syntax.tla / StrLex.tla cases evaluated on the real front end (scanner, parser, compiler, runtime).

TLC emits, per case, source text(s) and the denotation the manual gives them; this module only re-spells
(whitespace / comments / literal forms), packs many cases into Lua chunks, runs them with `lua-run` and compares
for equality with what the specification emitted.
"""
import json, os, re, sys, random, struct
from fractions import Fraction
sys.path.insert(0, os.path.join(os.path.dirname(os.path.abspath(__file__)), "..", "lib"))
from vlib import *

# --------------------------------------------------------------------------
# configurations (measured: see notes/C12.md)

SYN = {"quick": [("SyntaxQ.cfg", None, None), ("SyntaxQ3.cfg", None, None), ("SyntaxSim.cfg", "num=12", 8)],
       "thorough": [("SyntaxT.cfg", None, None), ("SyntaxSim.cfg", "num=120", 8)]}
LEX = {"quick": ["StrLexQ.cfg"], "thorough": ["StrLexT.cfg"]}

BATCH = 150


def lua_str(s):
    """a Lua short string literal for text made of printable ASCII, tabs and line breaks"""
    out = []
    for ch in s:
        if ch == "\n":
            out.append("\\n")
        elif ch == "\r":
            out.append("\\r")
        elif ch == "\t":
            out.append("\\t")
        elif ch in "\"\\":
            out.append("\\" + ch)
        elif 32 <= ord(ch) < 127:
            out.append(ch)
        else:
            raise Infra("lua_str: unexpected character %r" % ch)
    return '"' + "".join(out) + '"'


KEYWORDS = ("and", "or", "not")
SEPS = [" ", " ", "  ", "\t", "\n", "\r\n", " --c\n", " --[[ x ]] ", " --[==[\n]]\n]==] ", " --\n"]


def noise(text, rng):
    """re-spell a token text: other whitespace, comments, line breaks between tokens (never inside one)"""
    toks = text.split(" ")
    out = [toks[0]]
    for i in range(1, len(toks)):
        left, right = toks[i - 1], toks[i]
        # no separator at all is safe next to a parenthesis, and between a symbolic operator and a name
        sym_l, sym_r = not (left[0].isalnum() or left in "()"), not (right[0].isalnum() or right in "()")
        glue_ok = left in "()" or right in "()" or (sym_l and right.isalpha() and right not in KEYWORDS and len(right) == 1) \
            or (sym_r and left.isalpha() and left not in KEYWORDS and len(left) == 1)
        if glue_ok and rng.random() < 0.4:
            sep = ""
        else:
            sep = rng.choice(SEPS)
        out.append(sep)
        out.append(right)
    return "".join(out)


class Ctx:
    def __init__(self, rep, drv):
        self.rep, self.drv = rep, drv
        self.classes = {}
        rep.cov["mismatch_classes"] = self.classes
        rep.cov.setdefault("cases", {})
        rep.cov.setdefault("evaluations", 0)

    def count(self, fam, cls, n=1):
        d = self.rep.cov["cases"].setdefault(fam, {})
        d[cls] = d.get(cls, 0) + n

    def viol(self, sig, replay):
        key = json.dumps(sig, sort_keys=True)
        self.classes[key] = self.classes.get(key, 0) + 1
        if self.classes[key] <= 1:
            self.rep.violation(sig, replay)
        else:
            # same class again: keep the known-finding bookkeeping, do not store another replay
            it = self.rep.findings.match(sig)
            if it is not None:
                self.rep.known.setdefault(it["id"], {"item": it, "count": 0})["count"] += 1


def bad_outcome(o):
    if o.get("timeout"):
        return "hang"
    if o.get("crash") or o.get("panic"):
        return "crash"
    return None


# --------------------------------------------------------------------------
# expression trees, term semantics (F1 / FM)

TERM_PRELUDE = """local LOG = {}
local MT = {}
local function mk(s) return setmetatable({s = s}, MT) end
local function S(v) if type(v) == "table" then return v.s end return tostring(v) end
local function bin(op) return function(x, y) return mk("(" .. S(x) .. op .. S(y) .. ")") end end
local function un(op) return function(x) return mk("(" .. op .. S(x) .. ")") end end
MT.__add = bin("+") MT.__sub = bin("-") MT.__mul = bin("*") MT.__div = bin("/") MT.__mod = bin("%%")
MT.__pow = bin("^") MT.__idiv = bin("//") MT.__band = bin("&") MT.__bor = bin("|") MT.__bxor = bin("~")
MT.__shl = bin("<<") MT.__shr = bin(">>") MT.__concat = bin("..")
MT.__unm = un("-") MT.__bnot = un("~") MT.__len = un("#")
MT.__lt = function(x, y) LOG[#LOG + 1] = "(" .. S(x) .. "<" .. S(y) .. ")" return %(lt)s end
MT.__le = function(x, y) LOG[#LOG + 1] = "(" .. S(x) .. "<=" .. S(y) .. ")" return %(le)s end
MT.__eq = function(x, y) LOG[#LOG + 1] = "(" .. S(x) .. "==" .. S(y) .. ")" return %(eq)s end
local %(names)s = %(mks)s
local ENV = {%(envs)s}
local function R(ok, v)
  if not ok then return "error" end
  if type(v) == "table" then return "t:" .. v.s end
  return "b:" .. tostring(v)
end
local function L(k, v, text)
  LOG = {}
  local f = load("return " .. text, "=c", "t", ENV)
  if not f then emit(k, v, "loadfail") return end
  local r = R(pcall(f))
  emit(k, v, r, table.unpack(LOG))
end
"""


def lua_bool(b):
    return "true" if b else "false"


def check_terms(cx, conf, lines, rng, label):
    """lines: emitted cases of family F1/FM"""
    if not lines:
        return
    names = conf["names"]
    pre = TERM_PRELUDE % {"lt": lua_bool(conf["lt"]), "le": lua_bool(conf["le"]), "eq": lua_bool(conf["eq"]),
                          "names": ", ".join(names), "mks": ", ".join('mk("%s")' % n for n in names),
                          "envs": ", ".join("%s = %s" % (n, n) for n in names)}
    VAR = ["direct-min", "load-min", "load-full", "load-extra", "load-noise-min", "load-noise-extra"]
    batches = [lines[i:i + BATCH] for i in range(0, len(lines), BATCH)]
    cases, texts = [], {}
    for bi, batch in enumerate(batches):
        body = [pre]
        for k, l in enumerate(batch):
            tv = [l["min"], l["min"], l["full"], l["extra"], noise(l["min"], rng), noise(l["extra"], rng)]
            texts[(bi, k)] = tv
            body.append("do LOG = {} local r = R(pcall(function() return %s end)) emit(%d, 0, r, table.unpack(LOG)) end" % (tv[0], k))
            for v in range(1, 6):
                body.append("L(%d, %d, %s)" % (k, v, lua_str(tv[v])))
        cases.append({"id": bi, "src": "\n".join(body) + "\n", "maxev": BATCH * 8, "timeout": 60000})
    outs = run_lua_cases(cx.drv, cases)
    for bi, batch in enumerate(batches):
        o = outs[bi]
        got = {}
        if o.get("compile_error") or bad_outcome(o):
            # the chunk with the directly embedded texts was rejected: find the culprit(s) one by one
            singles = [{"id": k, "src": pre + "emit(0, 0, R(pcall(function() return %s end)))\n" % l["min"]} for k, l in enumerate(batch)]
            so = run_lua_cases(cx.drv, singles)
            for k, l in enumerate(batch):
                if so[k].get("compile_error") or bad_outcome(so[k]):
                    cx.viol({"fam": l["fam"], "why": bad_outcome(so[k]) or "valid-rejected", "variant": "direct-min"},
                            {"cmd": "lua-run", "src": singles[k]["src"], "text": l["min"], "observed": so[k]})
            # and evaluate the batch again without the direct variants
            body = [pre] + ["L(%d, %d, %s)" % (k, v, lua_str(texts[(bi, k)][v])) for k in range(len(batch)) for v in range(1, 6)]
            o = run_lua_cases(cx.drv, [{"id": 0, "src": "\n".join(body) + "\n", "maxev": BATCH * 8, "timeout": 60000}])[0]
            if bad_outcome(o) or not o.get("ok"):
                raise Infra("term chunk failed without direct texts: %s" % (o.get("errstr") or o.get("panic") or o))
            for k in range(len(batch)):
                got[(k, 0)] = None
        elif not o.get("ok"):
            raise Infra("term chunk raised: %s" % o.get("errstr"))
        for e in o["events"]:
            k, v = int(e[0]["i"]), int(e[1]["i"])
            got[(k, v)] = [x.get("s") if isinstance(x, dict) else x for x in e[2:]]
        for k, l in enumerate(batch):
            cx.count(label, "trees")
            exp_tok, exp_log = l["val"], sorted(l["log"])
            for v in range(6):
                if (k, v) in got and got[(k, v)] is None:
                    continue       # reported above
                cx.rep.cov["evaluations"] += 1
                g = got.get((k, v))
                why = None
                if g is None:
                    why = "no-result"
                elif g[0] == "loadfail":
                    why = "valid-rejected"
                elif g[0] != exp_tok:
                    why = "value"
                elif exp_tok != "error" and sorted(g[1:]) != exp_log:
                    why = "comparison-calls"
                if why:
                    cx.viol({"fam": l["fam"], "why": why, "variant": VAR[v]},
                            {"cmd": "lua-run", "text": texts[(bi, k)][v], "all_texts": texts[(bi, k)], "expected": [exp_tok] + exp_log,
                             "observed": g, "prelude": pre})
            if exp_tok == "error":
                cx.count(label, "expect-error")
            elif l["log"]:
                cx.count(label, "with-comparison-calls")
    cx.rep.sample({"family": label, "text": lines[-1]["min"], "full": lines[-1]["full"], "expected": lines[-1]["val"]}, cap=8)


# --------------------------------------------------------------------------
# expression trees over numbers / false / nil (F2)

def lit_of(tok, rng):
    if tok == "nil":
        return "nil"
    if tok.startswith("b:"):
        return tok[2:]
    n = int(tok[2:])
    if n < 0:
        return "(%d)" % n
    return rng.choice(["%d", "0x%x", "0X%X", "%d"]) % n


def inline(text, leaf, rng):
    return " ".join(lit_of(leaf[t], rng) if t in leaf else t for t in text.split(" "))


def tok_of_json(ok, v):
    if not ok:
        return "error"
    if v is None:
        return "nil"
    if v is True or v is False:
        return "b:" + lua_bool(v)
    if isinstance(v, dict) and "i" in v:
        return "i:" + v["i"]
    return "other:" + json.dumps(v)


def check_numeric(cx, conf, lines, rng):
    if not lines:
        return
    names = conf["names"]
    VAR = ["direct-min", "load-full", "load-noise-extra", "load-literals-min", "direct-literals-full"]
    for j, val in enumerate(conf["valuations"]):
        leaf = {n: val[i % len(val)] for i, n in enumerate(names)}
        vals = ", ".join(leaf[n] if leaf[n] == "nil" else leaf[n][2:] for n in names)
        pre = ("local %s = %s\nlocal ENV = {%s}\n" % (", ".join(names), vals, ", ".join("%s = %s" % (n, n) for n in names)) +
               "local function L(k, v, text)\n  local f = load(\"return \" .. text, \"=c\", \"t\", ENV)\n"
               "  if not f then emit(k, v, \"loadfail\") return end\n  emit(k, v, pcall(f))\nend\n")
        todo = [l for l in lines if l["vals"][j] != "skip"]
        cx.count("F2", "skipped-unspecified-or-out-of-range", len(lines) - len(todo))
        batches = [todo[i:i + BATCH] for i in range(0, len(todo), BATCH)]
        cases, texts = [], {}
        for bi, batch in enumerate(batches):
            body = [pre]
            for k, l in enumerate(batch):
                tv = [l["min"], l["full"], noise(l["extra"], rng), inline(l["min"], leaf, rng), inline(l["full"], leaf, rng)]
                texts[(bi, k)] = tv
                body.append("emit(%d, 0, pcall(function() return %s end))" % (k, tv[0]))
                body.append("L(%d, 1, %s)" % (k, lua_str(tv[1])))
                body.append("L(%d, 2, %s)" % (k, lua_str(tv[2])))
                body.append("L(%d, 3, %s)" % (k, lua_str(tv[3])))
                body.append("emit(%d, 4, pcall(function() return %s end))" % (k, tv[4]))
            cases.append({"id": bi, "src": "\n".join(body) + "\n", "maxev": BATCH * 8, "timeout": 60000})
        outs = run_lua_cases(cx.drv, cases)
        for bi, batch in enumerate(batches):
            o = outs[bi]
            got = {}
            if o.get("compile_error") or bad_outcome(o) or not o.get("ok"):
                # locate the rejected text(s) among the directly embedded ones
                found = False
                for k, l in enumerate(batch):
                    for v in (0, 4):
                        s1 = pre + "emit(0, 0, pcall(function() return %s end))\n" % texts[(bi, k)][v]
                        o1 = run_lua_cases(cx.drv, [{"id": 0, "src": s1}])[0]
                        if o1.get("compile_error") or bad_outcome(o1):
                            found = True
                            cx.viol({"fam": "F2", "why": bad_outcome(o1) or "valid-rejected", "variant": VAR[v], "expected": l["vals"][j]},
                                    {"cmd": "lua-run", "src": s1, "observed": o1})
                if not found:
                    raise Infra("F2 chunk failed: %s" % (o.get("errstr") or o.get("panic") or o))
                continue
            for e in o["events"]:
                k, v = int(e[0]["i"]), int(e[1]["i"])
                if len(e) > 2 and isinstance(e[2], dict) and e[2].get("s") == "loadfail":
                    got[(k, v)] = "loadfail"
                else:
                    got[(k, v)] = tok_of_json(e[2], e[3] if len(e) > 3 else None)
            for k, l in enumerate(batch):
                exp = l["vals"][j]
                cx.count("F2", "trees-x-valuations")
                if exp == "error":
                    cx.count("F2", "expect-error")
                for v in range(5):
                    cx.rep.cov["evaluations"] += 1
                    g = got.get((k, v))
                    if g != exp:
                        why = "valid-rejected" if g == "loadfail" else "value"
                        cx.viol({"fam": "F2", "why": why, "variant": VAR[v]},
                                {"cmd": "lua-run", "text": texts[(bi, k)][v], "leaves": leaf, "expected": exp, "observed": g, "prelude": pre})
    cx.rep.sample({"family": "F2", "text": lines[-1]["min"], "expected_per_valuation": lines[-1]["vals"]}, cap=8)


# --------------------------------------------------------------------------
# multiple results

MULTI_PRELUDE = """local function f() return 11, 12, 13 end
local function z() end
local function cnt(...) return select('#', ...), ... end
local o = {m = function(self) return 31, 32 end, cm = function(self, ...) return select('#', ...), ... end}
local ID = setmetatable({}, {__index = function(_, k) return k end})
local ENV = {f = f, z = z, cnt = cnt, o = o, ID = ID}
local function L(k, text)
  local fn = load(text, "=c", "t", ENV)
  if not fn then emit(k, 1, "loadfail") return end
  emit(k, 1, pcall(fn, 21, 22, 23))
end
"""


def check_multi(cx, lines):
    if not lines:
        return
    batches = [lines[i:i + BATCH] for i in range(0, len(lines), BATCH)]
    cases = []
    for bi, batch in enumerate(batches):
        body = [MULTI_PRELUDE]
        for k, l in enumerate(batch):
            body.append("emit(%d, 0, pcall(function(...) %s end, 21, 22, 23))" % (k, l["text"]))
            body.append("L(%d, %s)" % (k, lua_str(l["text"])))
        cases.append({"id": bi, "src": "\n".join(body) + "\n", "maxev": BATCH * 4, "timeout": 60000})
    outs = run_lua_cases(cx.drv, cases)
    for bi, batch in enumerate(batches):
        o = outs[bi]
        if bad_outcome(o) or not o.get("ok"):
            raise Infra("multi-value chunk failed: %s" % (o.get("errstr") or o.get("panic") or o))
        got = {}
        for e in o["events"]:
            got[(int(e[0]["i"]), int(e[1]["i"]))] = e[2:]
        for k, l in enumerate(batch):
            cx.count("multi", l["ctx"])
            exp = [True] + [None if x == "nil" else {"i": x} for x in l["exp"]]
            for v in (0, 1):
                cx.rep.cov["evaluations"] += 1
                g = got.get((k, v))
                if g != exp:
                    why = "valid-rejected" if g and isinstance(g[0], dict) and g[0].get("s") == "loadfail" else "values"
                    cx.viol({"fam": "multi", "why": why, "ctx": l["ctx"], "parenthesised_vararg": "(...)" in l["text"]},
                            {"cmd": "lua-run", "text": l["text"], "variant": ["direct", "load"][v], "expected": exp, "observed": g,
                             "prelude": MULTI_PRELUDE})
    cx.rep.sample({"family": "multi", "text": lines[-1]["text"], "expected": lines[-1]["exp"]}, cap=8)


# --------------------------------------------------------------------------
# statement / expression forms

def tok_json(t):
    if t == "nil":
        return None
    if t.startswith("i:"):
        return {"i": t[2:]}
    if t.startswith("s:"):
        return {"s": t[2:]}
    if t.startswith("b:"):
        return t[2:] == "true"
    raise Infra("unknown value token " + t)


def check_forms(cx, lines):
    if not lines:
        return
    cases = []
    for i, l in enumerate(lines):
        cases.append({"id": 2 * i, "src": l["text"]})
        cases.append({"id": 2 * i + 1, "src": "local f, e = load(%s, \"=c\") if not f then emit(\"loadfail\", e) else return f() end" % lua_str(l["text"])})
    outs = run_lua_cases(cx.drv, cases)
    for i, l in enumerate(lines):
        cx.count("forms", "programs")
        exp = [[tok_json(t) for t in e] for e in l["ev"]]
        for v in (0, 1):
            o = outs[2 * i + v]
            cx.rep.cov["evaluations"] += 1
            why = None
            if bad_outcome(o) and not o.get("compile_error"):
                why = bad_outcome(o)
            elif o.get("compile_error") or (o["events"] and o["events"][0] and o["events"][0][0] == {"s": "loadfail"}):
                why = "valid-rejected"
            elif not o.get("ok") or o["events"] != exp:
                why = "behaviour"
            if why:
                cx.viol({"fam": "forms", "why": why, "form": l["text"][:60]},
                        {"cmd": "lua-run", "src": cases[2 * i + v]["src"], "expected_events": exp, "observed": o})
    cx.rep.sample({"family": "forms", "text": lines[-1]["text"], "expected_events": lines[-1]["ev"]}, cap=20)


# --------------------------------------------------------------------------
# literals

def ret_bytes(v):
    if isinstance(v, dict):
        if "s" in v:
            return v["s"].encode("utf-8")
        if "x" in v:
            return bytes.fromhex(v["x"])
    return None


def fbits(x):
    return "%016x" % struct.unpack(">Q", struct.pack(">d", x))[0]


def float_of(m, e, base):
    """the double nearest to m * base^e, or None when outside the normal finite range (not compared)"""
    q = Fraction(m) * (Fraction(base) ** e)
    if q == 0:
        return 0.0
    if q >= Fraction(2) ** 1023 or q < Fraction(1, 2 ** 1021):
        return None
    return float(q)


def run_sources(cx, items, nolibs=True):
    """items: list of (line, source bytes). Returns outputs in order."""
    cases = [{"id": i, "srchex": src.hex(), "nolibs": nolibs, "timeout": 20000} for i, (l, src) in enumerate(items)]
    outs = run_lua_cases(cx.drv, cases)
    cx.rep.cov["evaluations"] += len(cases)
    return [outs[i] for i in range(len(cases))]


def check_strings(cx, lines):
    if not lines:
        return
    items = [(l, b"return " + bytes(l["src"])) for l in lines]
    outs = run_sources(cx, items)
    for (l, src), o in zip(items, outs):
        fam = l["fam"]
        cx.count(fam, l["kind"])
        body = bytes(l["src"])
        detail = ""
        if fam == "long" and l["kind"] == "ok" and re.match(rb"^\[(=*)\[\]\1\]", body):
            detail = "empty-body"
        why = None
        b = bad_outcome(o)
        if b and not o.get("compile_error"):
            why = b
        elif l["kind"] == "ok":
            if o.get("compile_error") or not o.get("ok"):
                why = "valid-rejected"
            elif len(o.get("ret", [])) != 1 or ret_bytes(o["ret"][0]) != bytes(l["val"]):
                why = "value"
        elif l["kind"] == "malformed":
            if not o.get("compile_error"):
                why = "malformed-accepted"
        if why:
            cx.viol({"fam": fam, "why": why, "detail": detail},
                    {"cmd": "lua-run", "srchex": src.hex(), "source": repr(src), "expected": l["kind"],
                     "expected_bytes": bytes(l.get("val", [])).hex(), "observed": o})
    for l in lines[-2:]:
        cx.rep.sample({"family": l["fam"], "source": repr(bytes(l["src"])), "kind": l["kind"], "bytes": bytes(l.get("val", [])).hex()}, cap=12)


def check_numerals(cx, lines):
    if not lines:
        return
    todo = [l for l in lines if l["cls"] != "unspec"]
    cx.count("num", "unspec-not-compared", len(lines) - len(todo))
    items = [(l, b"return " + bytes(l["src"])) for l in todo]
    outs = run_sources(cx, items)
    for (l, src), o in zip(items, outs):
        cls = l["cls"]
        cx.count("num", cls)
        why = None
        b = bad_outcome(o)
        if b and not o.get("compile_error"):
            why = b
        elif cls == "bad":
            if not o.get("compile_error"):
                why = "malformed-accepted"
        elif o.get("compile_error"):
            why = "valid-rejected"
        elif cls == "int":
            if not o.get("ok") or o.get("ret") != [{"i": str(l["val"])}]:
                why = "value"
        elif cls == "float":
            r = o.get("ret") or [None]
            if not o.get("ok") or len(r) != 1 or not isinstance(r[0], dict) or "f" not in r[0]:
                why = "kind"
            else:
                x = float_of(l["m"], l["e"], l["base"])
                if x is None:
                    cx.count("num", "float-value-not-compared")
                elif r[0]["bits"] != fbits(x):
                    why = "value"
        if why:
            cx.viol({"fam": "num", "why": why, "cls": cls},
                    {"cmd": "lua-run", "srchex": src.hex(), "source": repr(src), "expected": l, "observed": o})
    for l in [x for x in todo if x["cls"] == "float"][-2:]:
        cx.rep.sample({"family": "num", "source": repr(bytes(l["src"])), "expected": {k: l[k] for k in ("cls", "m", "e", "base")}}, cap=14)


def check_bignum(cx, lines):
    if not lines:
        return
    items = [(l, b"return " + bytes(l["src"])) for l in lines]
    outs = run_sources(cx, items)
    for (l, src), o in zip(items, outs):
        cx.count("bignum", l["kind"] + ("-dec" if "dec" in l else "-hex"))
        detail = ""
        if "dec" in l:
            n = int("".join(str(d) for d in l["dec"]))
            detail = "dec<2^63" if n < 2 ** 63 else ("2^63<=dec<2^64" if n < 2 ** 64 else "dec>=2^64")
            exp = {"i": str(n)} if l["kind"] == "int" else {"f": None, "bits": fbits(float(n))}
        else:
            n = 0
            for x in l["limbs"]:
                n = n * 65536 + x
            exp = {"i": str(-n if l["neg"] else n)}
        why = None
        r = o.get("ret") or [None]
        if bad_outcome(o) and not o.get("compile_error"):
            why = bad_outcome(o)
        elif o.get("compile_error") or not o.get("ok"):
            why = "valid-rejected"
        elif len(r) != 1 or not isinstance(r[0], dict) or ("i" in exp) != ("i" in r[0]):
            why = "kind"
        elif ("i" in exp and r[0]["i"] != exp["i"]) or ("bits" in exp and r[0].get("bits") != exp["bits"]):
            why = "value"
        if why:
            cx.viol({"fam": "bignum", "why": why, "detail": detail},
                    {"cmd": "lua-run", "srchex": src.hex(), "source": repr(src), "expected": exp, "observed": o})
    cx.rep.sample({"family": "bignum", "source": repr(bytes(lines[-1]["src"])), "expected": {k: v for k, v in lines[-1].items() if k not in ("src", "fam")}}, cap=16)


EOLB = {"lf": b"\n", "cr": b"\r", "crlf": b"\r\n", "lfcr": b"\n\r"}
LINE_RE = re.compile(r"^chunk:(\d+):")


def check_errpos(cx, lines):
    if not lines:
        return
    items = []
    for l in lines:
        src = b"".join(t.encode("latin-1") + EOLB[e] for t, e in zip(l["lines"], l["eols"]))
        items.append((l, src))
    outs = run_sources(cx, items, nolibs=False)
    for (l, src), o in zip(items, outs):
        cx.count("errpos", l["kind"])
        why, got_line = None, None
        if bad_outcome(o) and not o.get("compile_error"):
            why = bad_outcome(o)
        elif l["kind"] == "valid":
            if not o.get("ok"):
                why = "valid-rejected"
            elif o["events"] != [[{"i": str(m)}] for m in l["ev"]]:
                why = "events"
        else:
            if not o.get("compile_error"):
                why = "no-syntax-error"
            else:
                m = LINE_RE.match(o.get("errstr", ""))
                got_line = int(m.group(1)) if m else None
                if got_line is None:
                    why = "no-line"          # nothing of the form <chunk name>:<line>: at the start of the message
                elif got_line not in l["exp"]:
                    why = "wrong-line"
        if why:
            k = l["off"]            # 1-based index of the offending line (0: none)
            off = l["lines"][k - 1] if k else ""
            prev = l["lines"][k - 2] if k > 1 else ""
            if l["kind"] == "valid":
                prev = ([t for t in l["lines"][:-1] if re.match(r"^--\[=*$", t)] or [""])[0]
            after = "dash-dash-bracket-at-end-of-line" if re.match(r"^--\[=*$", prev) else ""
            # does the text of the offending token (as far as a lexer reads it) contain a carriage return?
            rest = src[sum(len(t) + len(EOLB[e]) for t, e in zip(l["lines"][:k - 1], l["eols"][:k - 1])) + len(off):] if k else b""
            if l["at"] == "line-or-eof":
                has_cr = b"\r" in rest
            elif off.startswith("local u = \"abc"):
                has_cr = rest[:1] == b"\r" or rest[:2] == b"\n\r"
            else:
                has_cr = False
            # a valid program whose only deviation is that the marker on the line after such a comment did not run
            lost = ""
            if why == "events":
                want = [m for m in l["ev"] if m not in (12, 13)]
                if o["events"] == [[{"i": str(m)}] for m in want]:
                    lost = "only-the-line-after-the-comment"
            cx.viol({"fam": "errpos", "why": why, "after": after, "offender": off, "cr_in_token": has_cr, "lost": lost},
                    {"cmd": "lua-run", "srchex": src.hex(), "source": repr(src), "offending_line": off, "expected_lines": l["exp"],
                     "reported_line": got_line, "observed": o})
    cx.rep.sample({"family": "errpos", "source": repr(items[-1][1]), "expected_lines": lines[-1]["exp"]}, cap=18)


# --------------------------------------------------------------------------

# --------------------------------------------------------------------------
# flat repetitions (SyntaxFlat.tla): text of each construct; the value comes from the spec

def flat_src(c, n):
    rp = lambda piece, sep=" ": sep.join(piece for _ in range(n))
    if c == "neg":
        return "return " + rp("-1", " + ")
    if c == "bnot":
        return "return " + rp("~0", " + ")
    if c == "len":
        return 'return ' + rp('#"a"', " + ")
    if c == "not":
        return "local c = 0\n" + rp("if not false then c = c + 1 end", "\n") + "\nreturn c"
    if c == "negtable":
        return "local t = {" + ", ".join("-%d" % i for i in range(1, n + 1)) + "}\nreturn #t"
    if c == "nottable":
        return "local t = {" + rp("not false", ", ") + "}\nreturn #t"
    if c == "paren":
        return "return " + rp("(1)", " + ")
    if c == "tablector":
        return "local t = {" + rp("{}", ", ") + "}\nreturn #t"
    if c == "funcs":
        return "local t = {" + rp("function() end", ", ") + "}\nreturn #t"
    if c == "ifs":
        return "local c = 0\n" + rp("if true then c = c + 1 end", "\n") + "\nreturn c"
    if c == "dos":
        return "local c = 0\n" + rp("do c = c + 1 end", "\n") + "\nreturn c"
    if c == "whiles":
        return "local c = 0\n" + rp("do local k = 0 while k < 1 do k = k + 1 c = c + 1 end end", "\n") + "\nreturn c"
    if c == "fors":
        return "local c = 0\n" + rp("for i = 1, 1 do c = c + i end", "\n") + "\nreturn c"
    if c == "calls":
        return "local function f() return 1 end\nlocal c = 0\n" + rp("c = c + f()", "\n") + "\nreturn c"
    if c == "methods":
        return "local o = {m = function() return 1 end}\nreturn " + rp("o:m()", " + ")
    if c == "index":
        return "local t = {1}\nreturn " + rp("t[1]", " + ")
    if c == "pow":
        return "return math.tointeger(" + rp("1^1", " + ") + ")"
    if c == "concatpairs":
        return "return " + rp('#("a" .. "b")', " + ")
    if c == "strcalls":
        return 'local function f() return 1 end\nreturn ' + rp('f"x"', " + ")
    if c == "locals":
        return "\n".join("do local v%d = %d end" % (i, i) for i in range(1, n + 1)) + "\nlocal last = %d\nreturn last" % n
    if c == "assigns":
        return "local x = 0\n" + "\n".join("x = %d" % i for i in range(1, n + 1)) + "\nreturn x"
    if c == "returns-in-funcs":
        return "local s = 0\n" + rp("do local function g() return 1 end s = s + g() end", "\n") + "\nreturn s"
    if c == "gotos":
        return "local c = 0\n" + "\n".join("do goto l%d ::l%d:: c = c + 1 end" % (i, i) for i in range(1, n + 1)) + "\nreturn c"
    if c == "repeat":
        return "local c = 0\n" + rp("repeat c = c + 1 until true", "\n") + "\nreturn c"
    raise Infra("unknown flat construct " + c)


def check_flat(cx, lines):
    cases = []
    for i, l in enumerate(lines):
        src = flat_src(l["c"], l["n"])
        body = "local f, e = load(%s, '=c')\nif not f then emit('rejected', e) return end\nemit('value', pcall(f))" % lua_str(src)
        cases.append({"id": i, "src": body, "timeout": 60000})
    outs = run_lua_cases(cx.drv, cases)
    cx.rep.cov["evaluations"] += len(cases)
    for i, l in enumerate(lines):
        o = outs[i]
        cx.count("flat", l["c"])
        nclass = "<1000" if l["n"] < 1000 else (">=1000" if l["n"] <= 5000 else ">5000")
        why = bad_outcome(o)
        ev = o.get("events") or []
        if why is None:
            if not ev:
                why = "no-outcome"
            elif sval0(ev[0][0]) == "rejected":
                why = "valid-rejected"
            elif ev[0][1] is not True:
                why = "runtime-error"
            elif ev[0][2] != {"i": str(l["val"])}:
                why = "wrong-value"
        if why:
            cx.viol({"fam": "flat", "why": why, "construct": l["c"], "nclass": nclass},
                    {"cmd": "lua-run", "construct": l["c"], "n": l["n"], "expected": l["val"], "src_head": flat_src(l["c"], l["n"])[:300],
                     "observed": {k: v for k, v in o.items() if k != "events"}, "events": ev[:2]})
    if lines:
        cx.rep.sample({"family": "flat", "construct": lines[0]["c"], "n": lines[0]["n"], "source_head": flat_src(lines[0]["c"], lines[0]["n"])[:80]}, cap=20)


CP_PRELUDE = '''local function obs(x)
  local t = math.type(x) or type(x)
  local z = "nz"
  if type(x) == "number" and x == 0 then z = (1 / x > 0) and "pos" or "neg" end
  local v = x
  if type(x) == "string" then v = tonumber(x) elseif type(x) == "boolean" then v = 1 end
  return t, z, math.tointeger(v)
end
local function run(id, src)
  local f = load(src, "=c")
  if not f then emit(id, "rejected") return end
  local r = table.pack(pcall(f))
  local out = {}
  for i = 2, r.n do local t, z, v = obs(r[i]) out[#out + 1] = t out[#out + 1] = z out[#out + 1] = v end
  emit(id, r[1], table.unpack(out))
end
'''


def check_constpool(cx, lines):
    """ConstPool.tla: every literal keeps its denotation whatever other literals the chunk holds; three chunk shapes per case"""
    shapes = {"flat": lambda ls: "return " + ", ".join(ls),
              "nested": lambda ls: "return " + ", ".join("(function() return %s end)()" % x for x in ls),
              "table": lambda ls: "local t = {%s} return %s" % (", ".join(ls), ", ".join("t[%d]" % (i + 1) for i in range(len(ls))))}
    items = [(l, sh) for l in lines for sh in shapes]
    cases = []
    per = 200
    for b in range(0, len(items), per):
        body = [CP_PRELUDE]
        for j, (l, sh) in enumerate(items[b:b + per]):
            body.append("run(%d, %s)" % (b + j, lua_str(shapes[sh](l["lits"]))))
        cases.append({"id": len(cases), "src": "\n".join(body), "timeout": 60000, "maxev": per + 10})
    outs = run_lua_cases(cx.drv, cases)
    cx.rep.cov["evaluations"] += len(items)
    got = {}
    for i in range(len(cases)):
        o = outs[i]
        if bad_outcome(o) or not o.get("ok"):
            cx.viol({"fam": "constpool", "why": bad_outcome(o) or "batch-failed"}, {"cmd": "lua-run", "src_head": cases[i]["src"][-600:], "observed": {k: v for k, v in o.items() if k != "events"}})
            continue
        for e in o.get("events", []):
            got[int(e[0]["i"])] = e[1:]
    for k, (l, sh) in enumerate(items):
        cx.count("constpool", sh)
        g = got.get(k)
        if g is None:
            continue
        exp = [True]
        for t, z, v in l["exp"]:
            exp += [{"s": t}, {"s": z}, {"i": str(v)}]
        if g != exp:
            why = "valid-rejected" if g and sval0(g[0]) == "rejected" else "wrong-denotation"
            pos = next((j for j in range(min(len(g), len(exp))) if g[j] != exp[j]), 0)
            cx.viol({"fam": "constpool", "why": why, "shape": sh, "literal": l["lits"][max(0, (pos - 1) // 3)] if why != "valid-rejected" else ""},
                    {"cmd": "lua-run", "source": shapes[sh](l["lits"]), "expected": exp, "observed": g})
    if lines:
        cx.rep.sample({"family": "constpool", "source": shapes["flat"](lines[0]["lits"])}, cap=20)


def sval0(x):
    return x.get("s") if isinstance(x, dict) else x


def collect(module, cfg, sim=None, depth=None, timeout=3000):
    by = {}

    def on_line(v):
        by.setdefault(v["fam"], []).append(v)

    res = run_tlc(module, cfg, timeout=timeout, on_line=on_line, simulate=sim, depth=depth, workers=1 if sim else min(NCPU, 8))
    if res.violation:
        raise Infra("%s/%s: the specification's own consistency check failed: %s" % (module, cfg, res.violation))
    return by, res


def run(prop, tier):
    rep = Report(prop, tier, "model_checking")
    cov = rep.cov
    cov.update(states=0, transitions=0, traces_validated_against_impl=0, configs=[])
    drv = build_driver()
    cx = Ctx(rep, drv)
    rng = random.Random(seed())
    only = os.environ.get("VERIF_C12_ONLY", "")      # development aid: "syn" or "lex"
    for cfg, sim, depth in ([] if only == "lex" else SYN[tier]):
        by, res = collect("SyntaxMC", cfg, sim, depth)
        conf = by["conf"][0]
        n0 = cov["evaluations"]
        if sim:
            seen, uniq = set(), []
            for l in by.get("FM", []):
                if l["min"] not in seen:
                    seen.add(l["min"])
                    uniq.append(l)
            by["FM"] = uniq
        for fam in ("F1", "FM"):
            check_terms(cx, conf, by.get(fam, []), rng, fam + ("-random-%d-operators" % by[fam][0]["nops"] if sim and by.get(fam) else ""))
        check_numeric(cx, conf, by.get("F2", []), rng)
        check_multi(cx, by.get("multi", []))
        check_forms(cx, by.get("forms", []))
        ncases = sum(len(v) for k, v in by.items() if k != "conf")
        cov["states"] += res.distinct
        cov["transitions"] += res.generated
        cov["traces_validated_against_impl"] += ncases
        cov["configs"].append({"cfg": cfg, "distinct": res.distinct, "generated": res.generated, "cases": ncases,
                               "evaluations": cov["evaluations"] - n0, "tlc_wall_s": round(res.wall, 1),
                               "oracle_self_check": "Parse(Render(t, style)) = t for every emitted tree (invariant OracleOK)"})
        log("[%s] %s: %d cases, %d evaluations" % (prop, cfg, ncases, cov["evaluations"] - n0))
    for cfg in ([] if only == "syn" else LEX[tier]):
        n0 = cov["evaluations"]
        state = {"n": 0}
        buf = []

        def process(lines):
            by = {}
            for v in lines:
                by.setdefault(v["fam"], []).append(v)
            check_strings(cx, by.get("short", []) + by.get("long", []))
            check_numerals(cx, by.get("num", []))
            check_bignum(cx, by.get("bignum", []))
            check_errpos(cx, by.get("errpos", []))
            state["n"] += len(lines)

        def on_line(v):
            buf.append(v)
            if len(buf) >= 120000:
                process(buf[:])
                del buf[:]

        res = run_tlc("StrLex", cfg, timeout=3000, on_line=on_line, workers=min(NCPU, 8))
        if res.violation:
            raise Infra("StrLex/%s: the specification's own consistency check failed: %s" % (cfg, res.violation))
        if buf:
            process(buf[:])
        ncases = state["n"]
        cov["states"] += res.distinct
        cov["transitions"] += res.generated
        cov["traces_validated_against_impl"] += ncases
        cov["configs"].append({"cfg": cfg, "distinct": res.distinct, "generated": res.generated, "cases": ncases,
                               "evaluations": cov["evaluations"] - n0, "tlc_wall_s": round(res.wall, 1)})
        log("[%s] %s: %d cases, %d evaluations" % (prop, cfg, ncases, cov["evaluations"] - n0))
    if only != "lex":
        flines = []
        fres = run_tlc("SyntaxFlat", "SyntaxFlatQ.cfg" if tier == "quick" else "SyntaxFlatT.cfg", timeout=600, on_line=flines.append, workers=1)
        if fres.violation:
            raise Infra("SyntaxFlat: " + fres.violation)
        n0 = cov["evaluations"]
        check_flat(cx, flines)
        cov["traces_validated_against_impl"] += len(flines)
        cov["configs"].append({"cfg": "SyntaxFlat", "cases": len(flines), "evaluations": cov["evaluations"] - n0})
        log("[%s] SyntaxFlat: %d cases" % (prop, len(flines)))
        clines = []
        cres = run_tlc("ConstPool", "ConstPoolQ.cfg" if tier == "quick" else "ConstPoolT.cfg", timeout=600, on_line=clines.append, workers=1)
        if cres.violation:
            raise Infra("ConstPool: " + cres.violation)
        check_constpool(cx, clines)
        cov["traces_validated_against_impl"] += 3 * len(clines)
        cov["configs"].append({"cfg": "ConstPool", "cases": 3 * len(clines)})
        log("[%s] ConstPool: %d literal sequences x 3 chunk shapes" % (prop, len(clines)))
    cov["exhaustive"] = True
    rep.assumptions += [
        "decimal and hexadecimal float numerals denote the double nearest to their exact value (compared bit for bit only inside the normal finite range)",
        "a numeral directly followed by '..' (1...x) is not compared: longest-match lexing and the reference implementation disagree and the manual is silent",
        "integer // and % by zero, and F2 values outside [-2^30, 2^30], are not compared",
        "an unfinished long string / long comment may be reported at its first line or at the line where the text ends",
        "error messages are never compared, only the line number that follows the chunk name"]
    return rep.finish()


def replay(prop, path):
    """re-run the program of a stored replay on the current tree and print what it does now"""
    with open(path) as f:
        d = json.load(f)
    r = d["replay"]
    drv = build_driver()
    if "srchex" in r:
        case = {"id": 0, "srchex": r["srchex"]}
    elif "src" in r:
        case = {"id": 0, "src": r["src"]}
    else:
        text = r.get("text", "")
        body = "emit(pcall(load(%s, \"=c\", \"t\", ENV), 21, 22, 23))" % lua_str(text if d["sig"].get("fam") == "multi" else "return " + text)
        case = {"id": 0, "src": r.get("prelude", "local ENV = _ENV\n") + body + "\n"}
    o = run_lua_cases(drv, [case])[0]
    print(json.dumps({"sig": d["sig"], "expected": r.get("expected", r.get("expected_lines", r.get("expected_events"))),
                      "observed_now": o}, indent=1))
    return 0

"""C09 (Lua level): CoSem.tla behaviours rendered as Lua programs and run on the real runtime."""
import json, os, re, sys
sys.path.insert(0, os.path.join(os.path.dirname(os.path.abspath(__file__)), "..", "lib"))
from vlib import *


def vals(k, nv):
    return ", ".join(str(10 * k + j) for j in range(1, nv + 1))


def render(line, nco, wrapset, maxsteps):
    """CoSem history -> Lua program text."""
    per = {i: [] for i in range(0, nco + 1)}
    for a in line["h"]:
        k, who, act = a["k"], a["who"], a["a"]
        if act == "resume":
            s = 'emit("res", %d, coroutine.resume(CO[%d]%s))' % (k, a["c"], (", " + vals(k, a["nv"])) if a["nv"] else "")
        elif act == "wrap":
            s = 'emit("wres", %d, pcall(W[%d]%s))' % (k, a["c"], (", " + vals(k, a["nv"])) if a["nv"] else "")
        elif act == "yield":
            s = 'emit("yret", %d, coroutine.yield(%s))' % (k, vals(k, a["nv"]))
        elif act == "myield":
            s = 'emit("myield", %d, pcall(coroutine.yield))' % k
        elif act == "return":
            s = 'do return %s end' % vals(k, a["nv"])
        elif act == "error":
            s = 'error("E%d", 0)' % k if a["kind"] == "str" else 'error(T[%d])' % k
        elif act == "close":
            s = 'emit("close", %d, pcall(coroutine.close, CO[%d]))' % (k, a["c"])
        elif act == "status":
            s = 'emit("status", %d, coroutine.status(CO[%d]))' % (k, a["c"])
        elif act == "whoami":
            me = "MAIN" if who == 0 else "CO[%d]" % who
            s = ('do local co, m = coroutine.running(); emit("running", %d, co == %s, m); '
                 'emit("yieldable", %d, coroutine.isyieldable()) end') % (k, me, k)
        elif act == "kill":
            s = "while true do end"
        elif act == "tbc":
            s = ('local x%d <close> = setmetatable({}, {__close = function(_, e) emit("tbc", %d, e) end})' % (k, k))
        else:
            raise Infra("unknown action " + act)
        per[who].append(s)
    out = ["local T = {} for i = 1, %d do T[i] = {} end" % maxsteps,
           "emit(\"tables\", %s)" % ", ".join("T[%d]" % i for i in range(1, maxsteps + 1)),
           "local CO, W = {}, {}", "local MAIN = coroutine.running()"]
    for i in range(1, nco + 1):
        out.append("local function body%d(...)" % i)
        out.append("  CO[%d] = coroutine.running()" % i)
        out.append('  emit("start", %d, ...)' % i)
        out += ["  " + s for s in per[i]]
        out.append("end")
        if i in wrapset:
            out.append("W[%d] = coroutine.wrap(body%d)" % (i, i))
        else:
            out.append("CO[%d] = coroutine.create(body%d)" % (i, i))
    killed = any(a["a"] == "kill" for a in line["h"])
    if killed:
        # the whole script runs inside a CPU-limited context; the code after it observes the outcome
        out.append("local ctx = runtime.callcontext({kill = {cpu = 3000000}}, function()")
        out += ["  " + x for x in per[0]]
        out.append("end)")
        out.append('emit("ctx", ctx.status)')
    else:
        out += per[0]
    fin = []
    for i in range(1, nco + 1):
        if i not in wrapset or line["started"][i - 1]:
            fin.append('emit("final", %d, coroutine.status(CO[%d]))' % (i, i))
    out += fin
    return "\n".join(out) + "\n"


def tok(x):
    """expected-event token -> matcher"""
    if x is True or x is False:
        return x
    if isinstance(x, int):
        return {"i": str(x)}
    if x == "nil":
        return None
    if x == "STR":
        return "STR"
    m = re.fullmatch(r"T(\d+)", x)
    if m:
        return {"t": int(m.group(1))}
    return {"s": x}


def ev_match(exp, got):
    if len(exp) != len(got):
        return False
    for e, g in zip(exp, got):
        t = tok(e)
        if t == "STR":
            if not (isinstance(g, dict) and ("s" in g or "x" in g)):
                return False
        elif t != g:
            return False
    return True


def expected_events(line, nco, wrapset, maxsteps):
    evs = [["tables"] + ["T%d" % i for i in range(1, maxsteps + 1)]]
    evs += line["ev"] + line["tail"]
    for i in range(1, nco + 1):
        if i not in wrapset or line["started"][i - 1]:
            evs.append(["final", i, line["final"][i - 1]])
    return evs


CONFIGS = {
    "quick": [("CoSemQ.cfg", None)],
    "thorough": [("CoSemT.cfg", None), ("CoSemT3.cfg", None), ("CoSemSim.cfg", "num=1500")],
}


def cfg_const(cfg):
    txt = open(os.path.join(SPEC, cfg)).read()
    nco = int(re.search(r"NCo\s*=\s*(\d+)", txt).group(1))
    ws = re.search(r"WrapSet\s*=\s*\{([^}]*)\}", txt).group(1)
    wrapset = set(int(x) for x in ws.replace(" ", "").split(",") if x)
    ms = int(re.search(r"MaxSteps\s*=\s*(\d+)", txt).group(1))
    return nco, wrapset, ms


def run(prop, tier):
    rep = Report(prop, tier, "model_checking")
    cov = rep.cov
    cov.update(states=0, transitions=0, traces_validated_against_impl=0, configs=[], action_kinds={})
    drv = build_driver()
    trace_every = 4 if tier == "quick" else 1
    for cfg, sim in CONFIGS[tier]:
        nco, wrapset, ms = cfg_const(cfg)
        lines = []
        res = run_tlc("CoSem", cfg, timeout=900, on_line=lines.append, simulate=sim, depth=ms if sim else None,
                      workers=1 if sim else None)
        if res.violation:
            raise Infra("CoSem design-level check failed on %s: %s" % (cfg, res.violation))
        cov["states"] += res.distinct
        cov["transitions"] += res.generated
        # in simulation every step emits; keep only maximal histories to avoid quadratic work
        if sim:
            keep = {}
            for l in lines:
                key = json.dumps(l["h"][:1]) + str(id(l))
            lines = [l for l in lines if len(l["h"]) == ms]
        cases = []
        for i, l in enumerate(lines):
            cases.append({"id": i, "src": render(l, nco, wrapset, ms), "gor": True, "timeout": 30000,
                          "trace": "co" if i % trace_every == 0 else "", "mem": (1 << 30) if i % trace_every == 0 else 0,
                          "gor_expect": sum(1 for s in l["final"] if s != "dead")})
            for a in l["h"][-1:]:
                cov["action_kinds"][a["a"]] = cov["action_kinds"].get(a["a"], 0) + 1
        outs = run_lua_cases(drv, cases)
        nbad = 0
        traces = [("%s#%d" % (cfg, i), outs[i]["trace"]) for i in range(len(lines)) if outs.get(i) and outs[i].get("trace")]
        for i, l in enumerate(lines):
            o = outs.get(i)
            cov["traces_validated_against_impl"] += 1
            exp = expected_events(l, nco, wrapset, ms)
            why = None
            if o is None:
                raise Infra("no output for case %d" % i)
            if o.get("timeout"):
                why = {"kind": "hang", "detail": "ControlReturns: program did not finish within 5s"}
            elif o.get("crash") or o.get("panic"):
                why = {"kind": "crash", "detail": (o.get("panic") or o.get("stderr", ""))[:300]}
            elif not o.get("ok"):
                why = {"kind": "error", "detail": o.get("errstr", "")[:200]}
            else:
                got = o["events"]
                if len(got) != len(exp):
                    why = {"kind": "events", "detail": "event count %d != %d" % (len(got), len(exp))}
                else:
                    for j, (e, g) in enumerate(zip(exp, got)):
                        if not ev_match(e, g):
                            why = {"kind": "events", "detail": "event %d: expected %s got %s" % (j, json.dumps(e), json.dumps(g)),
                                   "tag": e[0]}
                            break
                if why is None:
                    alive = sum(1 for s in l["final"] if s != "dead")
                    if o.get("goroutines_left") != alive:
                        why = {"kind": "goroutines", "detail": "left %s, expected %d (non-dead coroutines)" % (o.get("goroutines_left"), alive)}
            if why:
                nbad += 1
                last = l["h"][-1]["a"]
                sig = {"kind": why["kind"], "last": last, "tag": why.get("tag", "")}
                rep.violation(sig, {"cmd": "lua-run", "src": cases[i]["src"], "history": l["h"], "expected_events": exp,
                                    "observed": o, "why": why})
            elif len(l["h"]) >= 4:
                rep.sample({"history": l["h"], "program": cases[i]["src"], "events": o["events"]}, cap=2)
        if traces:
            ok, info = validate_traces("CoTrace", "CoTrace.cfg", traces, {"k": "", "g": 0, "th": 0, "o": 0})
            cov["hook_traces_validated"] = cov.get("hook_traces_validated", 0) + len(traces)
            cov["hook_trace_events"] = cov.get("hook_trace_events", 0) + info["lines"]
            if not ok:
                i = int(info["trace_tag"].split("#")[1])
                sig = {"kind": "trace-rejected", "event": info["event"].get("k", ""), "invariant": info.get("invariant", "")}
                rep.violation(sig, {"cmd": "lua-run", "src": cases[i]["src"], "trace": "co", "rejected_at": info["event"],
                                    "context": info["context"], "note": "CoTrace.tla cannot match this event: the goroutine "
                                    "that emitted it does not hold the run token / illegal status transition / goroutine left"})
            log("[%s] %s: %d hook traces (%d events) validated against CoTrace: %s" % (prop, cfg, len(traces), info["lines"], "accepted" if ok else "REJECTED"))
        cov["configs"].append({"cfg": cfg, "distinct": res.distinct, "generated": res.generated, "programs": len(lines), "mismatching": nbad})
        log("[%s] %s: %d distinct, %d programs run, %d mismatching" % (prop, cfg, res.distinct, len(lines), nbad))
    # ---- goroutine-level protocol model (CoProto.tla): all interleavings of all short scripts
    proto = [("CoProtoQ.cfg", None), ("CoProtoLive.cfg", None)] if tier == "quick" else [("CoProtoT.cfg", None), ("CoProtoLive.cfg", None)]
    cov["protocol_model"] = []
    for cfg, _ in proto:
        res = run_tlc("CoProto", cfg, timeout=1200)
        cov["protocol_model"].append({"cfg": cfg, "distinct": res.distinct, "generated": res.generated, "verdict": res.violation or "ok"})
        cov["states"] += res.distinct
        cov["transitions"] += res.generated
        if res.violation:
            # a lead only (R1): the hook traces above are what binds the protocol to the code
            log("[%s] design-level lead in %s: %s" % (prop, cfg, res.violation))
            raise Infra("CoProto design-level model no longer satisfies its invariants (%s): update the model to the code" % res.violation)
    # the model with a __close handler that resumes/closes its own dying coroutine deadlocks (E4 runs handlers under t.mux):
    res = run_tlc("CoProto", "CoProtoHandler.cfg", timeout=600)
    cov["protocol_model"].append({"cfg": "CoProtoHandler.cfg", "distinct": res.distinct, "verdict": res.violation or "ok"})
    if res.violation and "Deadlock" in res.violation:
        src = ('local co\nco = coroutine.create(function()\n  local x <close> = setmetatable({}, {__close = function() '
               'emit("handler", coroutine.close(co)) end})\n  error("boom", 0)\nend)\nemit("res", coroutine.resume(co))\n')
        o = run_lua_cases(drv, [{"id": 0, "src": src, "timeout": 20000}])[0]
        if o.get("timeout"):
            o2 = run_lua_cases(drv, [{"id": 0, "src": src, "timeout": 30000}])[0]   # reproduce once more (R1)
            if o2.get("timeout"):
                rep.violation({"kind": "hang", "why": "close-handler-closes-own-dying-coroutine"},
                              {"cmd": "lua-run", "src": src, "observed": o2, "model": "CoProtoHandler.cfg: " + res.violation})
    cov["exhaustive"] = True
    rep.assumptions += ["error message wording is not compared (R2)", "scripts are straight-line; handlers only emit"]
    return rep.finish()

"""C10: CloseStack.tla paths rendered as Lua programs and run on the real runtime."""
import json, os, re, sys
sys.path.insert(0, os.path.join(os.path.dirname(os.path.abspath(__file__)), "..", "lib"))
from vlib import *

PRELUDE = """local T = {} for i = 1, %(ms)d do T[i] = {} end
emit("tables", %(tl)s)
local function mk(h, id)
  return setmetatable({}, {__close = function(_, e) emit("tbc", id, e) if h == "raise" then error("R" .. id, 0) end end})
end
local function once() local done = false return function() if not done then done = true return 1 end end end
local function mark(k) emit("tail", k) return k end
"""


def opener(kind, k):
    if kind == "do":
        return "do"
    if kind == "loop":
        return ["for _ = 1, 1 do", "repeat", "local once%d = true while once%d do once%d = false" % (k, k, k)][k % 3]
    if kind == "forin":
        return 'for _ in once(), nil, nil, mk("ok", %d) do' % k
    if kind == "fn":
        return 'emit("ret", %d, (function()' % k
    if kind == "pcall":
        return 'emit("pcall", %d, pcall(function()' % k
    if kind == "co":
        return "local co%d = coroutine.create(function()" % k
    raise Infra(kind)


def closer(kind, k, label=None):
    if kind == "do" or kind == "forin":
        c = "end"
    elif kind == "loop":
        c = ["end", "until true", "end"][k % 3]
    elif kind == "fn":
        c = "end)())"
    elif kind == "pcall":
        c = "end))"
    elif kind == "co":
        c = ('end)\nemit("resume", %d, coroutine.resume(co%d))\n'
             'if coroutine.status(co%d) == "suspended" then emit("closed", %d, coroutine.close(co%d)) end') % (k, k, k, k, k)
    out = [c]
    if label:
        out.append("::%s::" % label)
    out.append('emit("after", %d)' % k)
    return out


def render(line, ms):
    out = [PRELUDE % {"ms": ms, "tl": ", ".join("T[%d]" % i for i in range(1, ms + 1))}]
    stack = []
    for a in line["h"]:
        k, act = a["k"], a["a"]
        ind = "  " * len(stack)
        label = None
        if act == "open":
            out.append(ind + opener(a["kind"], k))
            stack.append((a["kind"], k))
            continue
        if act == "decl":
            h = a["h"]
            rhs = {"ok": 'mk("ok", %d)' % k, "raise": 'mk("raise", %d)' % k, "nil": "nil", "false": "false", "nometa": "{}"}[h]
            out.append(ind + "local x%d <close> = %s" % (k, rhs))
        elif act == "end":
            pass
        elif act == "break":
            out.append(ind + "break")
        elif act == "goto":
            label = "L%d" % k
            label_depth = len(stack) - a["cnt"]
            out.append(ind + "goto " + label)
        elif act == "return":
            out.append(ind + "do return %d end" % k)
        elif act == "tailret":
            out.append(ind + "do return mark(%d) end" % k)
        elif act == "error":
            out.append(ind + ('error("E%d", 0)' % k if a["kind"] == "str" else "error(T[%d])" % k))
        elif act == "yieldclose":
            out.append(ind + "coroutine.yield()")
        else:
            raise Infra("unknown action " + act)
        d = a["d"]
        while len(stack) > d:
            kind, sk = stack.pop()
            lab = label if (label and len(stack) == label_depth) else None
            out += ["  " * len(stack) + s for s in closer(kind, sk, lab)]
    while stack:
        kind, sk = stack.pop()
        out += ["  " * len(stack) + s for s in closer(kind, sk)]
    return "\n".join(out) + "\n"


CONFIGS = {
    "quick": [("CloseStackQ.cfg", None)],
    "thorough": [("CloseStackT.cfg", None), ("CloseStackSim.cfg", "num=3000")],
}


def run(prop, tier):
    rep = Report(prop, tier, "model_checking")
    cov = rep.cov
    cov.update(states=0, transitions=0, traces_validated_against_impl=0, configs=[], last_action_kinds={}, nontrivial=0)
    drv = build_driver()
    for cfg, sim in CONFIGS[tier]:
        txt = open(os.path.join(SPEC, cfg)).read()
        ms = int(re.search(r"MaxSteps\s*=\s*(\d+)", txt).group(1))
        state = {"nbad": 0, "n": 0, "first": []}

        def process(lines):
            if sim:
                lines = [l for l in lines if len(l["h"]) == ms or l["fin"] != "run"]
            cases = [{"id": i, "src": render(l, ms), "timeout": 8000} for i, l in enumerate(lines)]
            outs = run_lua_cases(drv, cases)
            if not state["first"]:
                state["first"] = (lines[:], cases[:])
            for i, l in enumerate(lines):
                o = outs[i]
                state["n"] += 1
                cov["traces_validated_against_impl"] += 1
                la = l["h"][-1]
                key = la["a"] + (":" + la.get("kind", la.get("h", "")) if ("kind" in la or "h" in la) else "")
                cov["last_action_kinds"][key] = cov["last_action_kinds"].get(key, 0) + 1
                exp = [["tables"] + ["T%d" % j for j in range(1, ms + 1)]] + l["ev"]
                if sum(1 for e in l["ev"] if e[0] == "tbc") >= 2:
                    cov["nontrivial"] += 1
                why = compare_program(o, exp, l["fin"])
                if why:
                    state["nbad"] += 1
                    kinds = sorted(set(a.get("kind", "") for a in l["h"] if a["a"] == "open"))
                    sig = {"kind": why["kind"], "last": la["a"], "tag": why.get("tag", ""), "scopes": "+".join(kinds)}
                    rep.violation(sig, {"cmd": "lua-run", "src": cases[i]["src"], "history": l["h"], "expected_events": exp,
                                        "expected_outcome": l["fin"], "observed": o, "why": why})
                elif len(l["h"]) >= 5:
                    rep.sample({"history": l["h"], "program": cases[i]["src"], "events": o["events"]}, cap=2)

        buf = []

        def on_line(v):
            buf.append(v)
            if len(buf) >= 100000:
                process(buf[:])
                del buf[:]

        res = run_tlc("CloseStack", cfg, timeout=3600, on_line=on_line, simulate=sim, depth=ms if sim else None,
                      workers=1 if sim else None)
        if res.violation:
            raise Infra("CloseStack design-level check failed on %s: %s" % (cfg, res.violation))
        if buf:
            process(buf[:])
        cov["states"] += res.distinct
        cov["transitions"] += res.generated
        nbad = state["nbad"]
        lines, cases = state["first"] if state["first"] else ([], [])
        # the same programs through the bare embedding entry point rt.Call (what the golua command uses):
        # programs that end normally must behave identically; programs whose error reaches the host are the
        # recorded deviation F23 (pending variables of the main chunk are not closed).
        raw_idx = [i for i, l in enumerate(lines) if not any(a.get("kind") in ("pcall", "co") for a in l["h"])][:400]
        raw_cases = [dict(cases[i], raw=True) for i in raw_idx]
        routs = run_lua_cases(drv, raw_cases)
        cov["raw_entry_programs"] = cov.get("raw_entry_programs", 0) + len(raw_cases)
        for i in raw_idx:
            l = lines[i]
            exp = [["tables"] + ["T%d" % j for j in range(1, ms + 1)]] + l["ev"]
            why = compare_program(routs[i], exp, l["fin"])
            if why:
                if l["fin"].startswith("error:") and why["kind"] == "events" and why.get("tag") == "tbc":
                    sig = {"kind": "raw-toplevel"}
                else:
                    sig = {"kind": why["kind"], "last": l["h"][-1]["a"], "tag": why.get("tag", ""), "entry": "rt.Call"}
                rep.violation(sig, {"cmd": "lua-run", "raw": True, "src": cases[i]["src"], "expected_events": exp,
                                    "expected_outcome": l["fin"], "observed": routs[i], "why": why})
        cov["configs"].append({"cfg": cfg, "distinct": res.distinct, "generated": res.generated, "programs": state["n"], "mismatching": nbad})
        log("[%s] %s: %d distinct, %d programs run, %d mismatching" % (prop, cfg, res.distinct, state["n"], nbad))
    cov["exhaustive"] = True
    cov["distinct_nontrivial_rule"] = "nontrivial = paths whose expected trace contains at least two handler calls"
    rep.assumptions += ["an error propagating out of a coroutine body closes its pending variables when the coroutine dies (golua's reading)"]
    return rep.finish()

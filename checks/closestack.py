"""C10: CloseStack.tla paths rendered as Lua programs and run on the real runtime."""
import json, os, re, sys
sys.path.insert(0, os.path.join(os.path.dirname(os.path.abspath(__file__)), "..", "lib"))
from vlib import *

PRELUDE = """local T = {} for i = 1, %(ms)d do T[i] = {} end
emit("tables", %(tl)s)
local mk
local LOST = {}
mk = function(h, id)
  if h == "lost" then LOST[id] = {__close = function() emit("handler-of-lost-called", id) end} return setmetatable({}, LOST[id]) end
  return setmetatable({}, {__close = function(_, e)
    emit("tbc", id, e)
    if h == "raise" then error("R" .. id, 0) end
    if h == "raisetbc" then local w <close> = mk("ok", id + 100) error("R" .. id, 0) end
  end})
end
local function once() local done = false return function() if not done then done = true return 1 end end end
local function mark(k) emit("tail", k) return k end
local function battery(id)
  local s = 0 for i = 1, 5 do s = s + i end
  local c = 0 local function inc() c = c + 1 return c end inc() inc()
  local co = coroutine.wrap(function(a) local b = coroutine.yield(a + 1) return b * 2 end)
  local y = co(20) local z = co(y)
  local t = {} t.k = "x"
  local ok, e = pcall(error, "B", 0)
  local co2 = coroutine.create(function() coroutine.yield() end) coroutine.resume(co2)
  emit("bat", id, s, inc(), z, t.k, ok, e, coroutine.status(co2))
end
"""


def opener(kind, k):
    if kind == "do":
        return "do"
    if kind == "loop":
        return ["for _ = 1, 1 do", "repeat", "local once%d = true while once%d do once%d = false" % (k, k, k)][k % 3]
    if kind == "forin":
        return 'for _ in once(), nil, nil, mk("ok", %d) do' % k
    if kind == "fn":
        return 'emit("ret", %d, (function()' % k
    if kind == "pcall":
        return 'local r%d = table.pack(pcall(function()' % k
    if kind == "xpcall":
        return 'local r%d = table.pack(xpcall(function()' % k
    if kind == "co":
        return "local co%d = coroutine.create(function()" % k
    raise Infra(kind)


def closer(kind, k, label=None, hk="-", battery=False):
    bat = ("if not r%d[1] then battery(%d) end" % (k, k)) if battery else None
    if kind == "do" or kind == "forin":
        c = ["end"]
    elif kind == "loop":
        c = [["end", "until true", "end"][k % 3]]
    elif kind == "fn":
        c = ["end)())"]
    elif kind == "pcall":
        c = ["end))", 'emit("pcall", %d, table.unpack(r%d, 1, r%d.n))' % (k, k, k)] + ([bat] if bat else [])
    elif kind == "xpcall":
        h = {"val": 'function(e) emit("handler", %d, e) return "H%d" end' % (k, k),
             "nilval": 'function(e) emit("handler", %d, e) return nil, "H%d" end' % (k, k)}.get(hk, 'function(e) emit("handler", %d, e) end' % k)
        c = ["end, %s))" % h, 'emit("xpcall", %d, table.unpack(r%d, 1, r%d.n))' % (k, k, k)] + ([bat] if bat else [])
    elif kind == "co":
        c = ["end)", "local r%d = table.pack(coroutine.resume(co%d))" % (k, k),
             'emit("resume", %d, table.unpack(r%d, 1, r%d.n))' % (k, k, k)] + ([bat] if bat else []) + [
             'if coroutine.status(co%d) == "suspended" then emit("closed", %d, coroutine.close(co%d)) end' % (k, k, k)]
    out = list(c)
    if label:
        out.append("::%s::" % label)
    out.append('emit("after", %d)' % k)
    return out


def error_stmt(kind, k):
    if kind == "str":
        return 'error("E%d", 0)' % k
    if kind == "tbl":
        return "error(T[%d])" % k
    if kind == "pos":
        return ['error("E%d")' % k,
                'local _ = setmetatable({}, {__index = function() error("E%d") end}).x' % k,
                'for _ in function() error("E%d") end do end' % k][k % 3]
    if kind == "pos2":
        return 'do local _ = (function() error("E%d", 2) end)() end' % k
    if kind == "num":
        return "error(%d)" % k
    if kind == "nilv":
        return "error(nil)"
    if kind == "rt":
        return ["local _ = nil + 1", "local _ = (nil).x", "local _ = (nil)()"][k % 3]
    raise Infra(kind)


def render(line, ms, battery=False):
    """returns (source text, {step k -> line number of its statement})"""
    pre = PRELUDE % {"ms": ms, "tl": ", ".join("T[%d]" % i for i in range(1, ms + 1))}
    out = pre.rstrip("\n").split("\n")
    stack = []
    lineof = {}

    def put(s):
        for part in s.split("\n"):
            out.append(part)

    for a in line["h"]:
        k, act = a["k"], a["a"]
        ind = "  " * len(stack)
        label = None
        label_depth = -1
        lineof[k] = len(out) + 1
        if act == "open":
            put(ind + opener(a["kind"], k))
            stack.append((a["kind"], k, a.get("hk", "-")))
            continue
        if act == "decl":
            h = a["h"]
            rhs = {"ok": 'mk("ok", %d)' % k, "raise": 'mk("raise", %d)' % k, "raisetbc": 'mk("raisetbc", %d)' % k, "nil": "nil", "false": "false", "nometa": "{}", "lost": 'mk("lost", %d)' % k}[h]
            put(ind + "local x%d <close> = %s" % (k, rhs) + (" LOST[%d].__close = nil" % k if h == "lost" else ""))
        elif act == "end":
            pass
        elif act == "break":
            put(ind + "break")
        elif act == "goto":
            label = "L%d" % k
            label_depth = len(stack) - a["cnt"]
            put(ind + "goto " + label)
        elif act == "return":
            put(ind + "do return %d end" % k)
        elif act == "tailret":
            put(ind + "do return mark(%d) end" % k)
        elif act == "error":
            put(ind + error_stmt(a["kind"], k))
        elif act == "yieldclose":
            put(ind + "coroutine.yield()")
        else:
            raise Infra("unknown action " + act)
        d = a["d"]
        while len(stack) > d:
            kind, sk, hk = stack.pop()
            lab = label if (label and len(stack) == label_depth) else None
            for s in closer(kind, sk, lab, hk, battery):
                put("  " * len(stack) + s)
    while stack:
        kind, sk, hk = stack.pop()
        for s in closer(kind, sk, None, hk, battery):
            put("  " * len(stack) + s)
    return "\n".join(out) + "\n", lineof


_TOKRE = re.compile(r"([PCQNH])(\d+)$")


def make_tokf(lineof, line=None):
    nometa = set(a["k"] for a in (line["h"] if line else []) if a["a"] == "decl" and a.get("h") == "nometa")

    def tokf(x):
        if isinstance(x, str):
            if x == "NILV":
                return None
            m = _TOKRE.match(x)
            if m:
                c, k = m.group(1), int(m.group(2))
                if c in "PC":
                    return {"s": "chunk:%d: E%d" % (lineof.get(k, -1), k)}
                if c == "Q" and k in nometa:
                    return "STR"      # position of this particular error is probed separately (finding F24)
                if c == "Q":
                    return ("prefix", "chunk:%d:" % lineof.get(k, -1))
                if c == "N":
                    return {"i": str(k)}
                if c == "H":
                    return {"s": x}
        return tok(x)
    return tokf


CONFIGS = {
    "quick": [("CloseStackQ.cfg", None)],
    "thorough": [("CloseStackT.cfg", None), ("CloseStackSim.cfg", "num=3000")],
}


def run(prop, tier, family="close"):
    global CONFIGS
    battery = family == "error"
    if family == "error":
        CONFIGS = {"quick": [("ErrorFlowQ.cfg", None)], "thorough": [("ErrorFlowT.cfg", None), ("ErrorFlowSim.cfg", "num=3000")]}
    rep = Report(prop, tier, "model_checking")
    cov = rep.cov
    cov.update(states=0, transitions=0, traces_validated_against_impl=0, configs=[], last_action_kinds={}, nontrivial=0)
    drv = build_driver()
    for cfg, sim in CONFIGS[tier]:
        txt = open(os.path.join(SPEC, cfg)).read()
        ms = int(re.search(r"MaxSteps\s*=\s*(\d+)", txt).group(1))
        state = {"nbad": 0, "n": 0, "first": []}

        def process(lines):
            if sim:
                lines = [l for l in lines if len(l["h"]) == ms or l["fin"] != "run"]
            rend = [render(l, ms, battery) for l in lines]
            cases = [{"id": i, "src": rend[i][0], "timeout": 30000} for i, l in enumerate(lines)]
            outs = run_lua_cases(drv, cases)
            if not state["first"]:
                state["first"] = (lines[:], cases[:])
            for i, l in enumerate(lines):
                o = outs[i]
                state["n"] += 1
                cov["traces_validated_against_impl"] += 1
                la = l["h"][-1]
                key = la["a"] + (":" + la.get("kind", la.get("h", "")) if ("kind" in la or "h" in la) else "")
                cov["last_action_kinds"][key] = cov["last_action_kinds"].get(key, 0) + 1
                exp = [["tables"] + ["T%d" % j for j in range(1, ms + 1)]] + l["ev"]
                if sum(1 for e in l["ev"] if e[0] == "tbc") >= 2:
                    cov["nontrivial"] += 1
                why = compare_program(o, exp, l["fin"], make_tokf(rend[i][1], l))
                if why:
                    state["nbad"] += 1
                    kinds = sorted(set(a.get("kind", "") for a in l["h"] if a["a"] == "open"))
                    sig = {"kind": why["kind"], "last": la["a"], "tag": why.get("tag", ""), "scopes": "+".join(kinds),
                           "got_tag": why.get("got_tag", "")}
                    rep.violation(sig, {"cmd": "lua-run", "src": cases[i]["src"], "history": l["h"], "expected_events": exp,
                                        "expected_outcome": l["fin"], "observed": o, "why": why})
                elif (la["a"] == "decl" and la.get("h") == "nometa" and len(l["h"]) == 2 and l["h"][0].get("kind") == "pcall"
                      and not state.get("f24")):
                    state["f24"] = True
                    msg = o["events"][1][3].get("s", "") if len(o["events"]) > 1 and len(o["events"][1]) > 3 and isinstance(o["events"][1][3], dict) else ""
                    if not msg.startswith("chunk:%d:" % rend[i][1][la["k"]]):
                        rep.violation({"kind": "nometa-no-position"}, {"cmd": "lua-run", "src": cases[i]["src"], "observed": o,
                                      "why": "runtime error for a non-closable value carries no chunk:line: prefix: %r" % msg})
                elif len(l["h"]) >= 5:
                    rep.sample({"history": l["h"], "program": cases[i]["src"], "events": o["events"]}, cap=2)

        buf = []

        def on_line(v):
            buf.append(v)
            if len(buf) >= 100000:
                process(buf[:])
                del buf[:]

        res = run_tlc("CloseStack", cfg, timeout=9000, on_line=on_line, simulate=sim, depth=ms if sim else None,
                      workers=1 if sim else None)
        if res.violation:
            raise Infra("CloseStack design-level check failed on %s: %s" % (cfg, res.violation))
        if buf:
            process(buf[:])
        cov["states"] += res.distinct
        cov["transitions"] += res.generated
        nbad = state["nbad"]
        lines, cases = state["first"] if state["first"] else ([], [])
        # the same programs through the bare embedding entry point rt.Call (what the golua command uses):
        # programs that end normally must behave identically; programs whose error reaches the host are the
        # recorded deviation F23 (pending variables of the main chunk are not closed).
        raw_idx = [i for i, l in enumerate(lines) if not any(a.get("kind") in ("pcall", "xpcall", "co") for a in l["h"])][:400]
        raw_cases = [dict(cases[i], raw=True) for i in raw_idx]
        routs = run_lua_cases(drv, raw_cases)
        cov["raw_entry_programs"] = cov.get("raw_entry_programs", 0) + len(raw_cases)
        for i in raw_idx:
            l = lines[i]
            exp = [["tables"] + ["T%d" % j for j in range(1, ms + 1)]] + l["ev"]
            why = compare_program(routs[i], exp, l["fin"], make_tokf(render(l, ms, battery)[1], l))
            if why:
                if l["fin"].startswith("error:") and ((why["kind"] == "events" and why.get("tag") == "tbc") or
                                                      (why["kind"] == "outcome" and any(a.get("h") == "lost" for a in l["h"]))):
                    # (a pending value that lost its __close changes the error value when it is closed: not closed here either)
                    sig = {"kind": "raw-toplevel"}
                else:
                    sig = {"kind": why["kind"], "last": l["h"][-1]["a"], "tag": why.get("tag", ""), "entry": "rt.Call"}
                rep.violation(sig, {"cmd": "lua-run", "raw": True, "src": cases[i]["src"], "expected_events": exp,
                                    "expected_outcome": l["fin"], "observed": routs[i], "why": why})
        cov["configs"].append({"cfg": cfg, "distinct": res.distinct, "generated": res.generated, "programs": state["n"], "mismatching": nbad})
        log("[%s] %s: %d distinct, %d programs run, %d mismatching" % (prop, cfg, res.distinct, state["n"], nbad))
    if family == "error":
        # round 2: error values caught and raised again, with explicit position prefixes (spec/ErrPos.tla)
        import errpos
        errpos.check(rep, drv, tier)
        # round 3: nothing is used up by catching errors (spec/Recovery.tla)
        import recovery
        recovery.check(rep, drv, tier)
    cov["exhaustive"] = True
    cov["distinct_nontrivial_rule"] = "nontrivial = paths whose expected trace contains at least two handler calls"
    rep.assumptions += ["an error propagating out of a coroutine body closes its pending variables when the coroutine dies (golua's reading)"]
    return rep.finish()

"""C02 / C16: LuaNum.tla (the manual's number model over limb vectors) and NumFor.tla (numeric for loops)
evaluated by TLC on a boundary lattice; every emitted case is run on the real runtime twice (operands as
literal constants in the source, and as run-time values passed through a function) and compared for equality
with the expectation the specification emitted.  Python only renders values (limbs -> text) and compares."""
import json, os, re, sys
sys.path.insert(0, os.path.join(os.path.dirname(os.path.abspath(__file__)), "..", "lib"))
from vlib import *

M64 = 1 << 64


def tlc_workers():
    try:
        return int(os.environ.get("VERIF_TLC_WORKERS", "0")) or None
    except ValueError:
        return None


# --------------------------------------------------------------------------
# representation: limb vectors / bit patterns <-> text (no semantics here)

def limbs_u(l):
    return sum(b << (8 * i) for i, b in enumerate(l))


def limbs_int_text(l):
    u = limbs_u(l)
    return str(u - M64 if u >= 1 << 63 else u)


def limbs_hex(l):
    return "%016x" % limbs_u(l)


def lua_string(chars):
    out = []
    for ch in chars:
        o = ord(ch)
        if ch in '"\\':
            out.append("\\" + ch)
        elif 32 <= o < 127:
            out.append(ch)
        else:
            out.append("\\%03d" % o)
    return '"' + "".join(out) + '"'


def spell(v):
    """Lua source text denoting the lattice value v (as emitted by the spec)."""
    k = v["k"]
    if k == "i":
        u = limbs_u(v["v"])
        if u < 1 << 63:
            return str(u)
        if u == 1 << 63:
            return "0x8000000000000000"          # hexadecimal integer numerals wrap around (manual 3.1)
        return "(-%d)" % (M64 - u)
    if k == "f":
        u = limbs_u(v["v"])
        sign, ex, fr = u >> 63, (u >> 52) & 2047, u & ((1 << 52) - 1)
        if ex == 2047:
            return "(-1/0)" if sign else "(1/0)"
        if ex == 0 and fr == 0:
            return "(-0.0)" if sign else "0.0"
        if ex == 0:
            t = "0x0.%013xp-1022" % fr           # subnormal
        else:
            t = "0x1.%013xp%+d" % (fr, ex - 1023)
        return "(-%s)" % t if sign else t
    if k == "nan":
        return "(0/0)"
    if k == "s":
        return lua_string(v["s"])
    if k == "nil":
        return "nil"
    if k == "o":
        return {"tbl": "{}", "true": "true"}[v["t"]]
    raise Infra("cannot spell %r" % (v,))


def matches(e, ok, val):
    """e: expectation emitted by the spec; (ok, val): pcall result observed. True / False / None (not compared)."""
    k = e["k"]
    if k == "skip":
        return None
    if k == "err":
        return not ok
    if not ok:
        return False
    if k == "any":
        rs = [matches(x, ok, val) for x in e["a"]]
        return None if any(r is None for r in rs) else any(rs)
    if k == "i":
        return isinstance(val, dict) and val.get("i") == limbs_int_text(e["v"])
    if k == "f":
        return isinstance(val, dict) and val.get("bits") == limbs_hex(e["v"])
    if k == "nan":
        return isinstance(val, dict) and val.get("f") == "nan"
    if k == "fk":
        return isinstance(val, dict) and "f" in val
    if k == "b":
        return val is e["b"]
    if k == "nil":
        return val is None
    if k == "s":
        return isinstance(val, dict) and val.get("s") == "".join(e["s"])
    raise Infra("unknown expectation %r" % (e,))


def show(e):
    k = e["k"]
    if k == "i":
        return "integer " + limbs_int_text(e["v"])
    if k == "f":
        import struct
        return "float bits %s (%r)" % (limbs_hex(e["v"]), struct.unpack("<d", struct.pack("<Q", limbs_u(e["v"])))[0])
    if k == "any":
        return "one of {" + "; ".join(show(x) for x in e["a"]) + "}"
    if k == "b":
        return str(e["b"]).lower()
    if k == "s":
        return '"%s"' % "".join(e["s"])
    return {"nan": "float nan", "fk": "some float", "nil": "nil (fail)", "err": "an error", "skip": "(not determined)"}.get(k, k)


def show_obs(ok, val):
    if not ok:
        return "error: %s" % (val.get("s", val) if isinstance(val, dict) else val)
    if isinstance(val, dict) and "f" in val:
        return "float %s bits %s" % (val["f"], val["bits"])
    if isinstance(val, dict) and "i" in val:
        return "integer " + val["i"]
    return json.dumps(val)


# --------------------------------------------------------------------------
# C02: pairs

BIN = [("add", "%s + %s"), ("sub", "%s - %s"), ("mul", "%s * %s"), ("div", "%s / %s"), ("idiv", "%s // %s"), ("mod", "%s %% %s"),
       ("pow", "%s ^ %s"), ("lt", "%s < %s"), ("le", "%s <= %s"), ("gt", "%s > %s"), ("ge", "%s >= %s"), ("eq", "%s == %s"),
       ("ne", "%s ~= %s"), ("band", "%s & %s"), ("bor", "%s | %s"), ("bxor", "%s ~ %s"), ("shl", "%s << %s"), ("shr", "%s >> %s"),
       ("ult", "math.ult(%s, %s)"), ("fmod", "math.fmod(%s, %s)"), ("max", "math.max(%s, %s)"), ("min", "math.min(%s, %s)")]
UN = [("unm", "-%s"), ("bnot", "~%s"), ("toint", "math.tointeger(%s)"), ("abs", "math.abs(%s)"), ("floor", "math.floor(%s)"),
      ("ceil", "math.ceil(%s)"), ("mtype", "math.type(%s)"), ("tonum", "tonumber(%s)")]
BINOPS = dict(BIN)
UNOPS = dict(UN)

RUN_PRELUDE = "local E, P = emit, pcall\nlocal function id(...) return ... end\n" + \
    "local function bin(i, j, a, b)\n" + \
    "".join('  E(i, j, "%s", P(function(a, b) return %s end, a, b))\n' % (op, t % ("a", "b")) for op, t in BIN) + "end\n" + \
    "local function un(i, a)\n" + \
    "".join('  E(i, 0, "%s", P(function(a) return %s end, a))\n' % (op, t % ("a",)) for op, t in UN) + "end\n"
LIT_PRELUDE = "local E, P = emit, pcall\n"


def render_pairs(items, mode):
    """items: list of (key, A, B) with A, B Lua source texts of the operands (B None for the unary line)."""
    out = [LIT_PRELUDE if mode == "lit" else RUN_PRELUDE]
    for (key, A, Bt) in items:
        if Bt is None:
            if mode == "run":
                out.append("un(%d, id(%s))" % (key, A))
            else:
                for op, t in UN:
                    out.append('E(%d, 0, "%s", P(function() return %s end))' % (key, op, t % ("(%s)" % A,)))
        else:
            if mode == "run":
                out.append("bin(%d, 1, id(%s, %s))" % (key, A, Bt))
            else:
                for op, t in BIN:
                    out.append('E(%d, 1, "%s", P(function() return %s end))' % (key, op, t % ("(%s)" % A, "(%s)" % Bt)))
    return "\n".join(out) + "\n"


def single_expr(A, Bt, op):
    if Bt is None:
        return UNOPS[op] % ("(%s)" % A,)
    return BINOPS[op] % ("(%s)" % A, "(%s)" % Bt)


def compare_pairs(rep, drv, fam, pcs, per_chunk=12):
    """pcs: list of dicts {A, B (None = unary), exp: {op: expectation}, ca, cb}. Runs both renderings, compares.
    Returns (number of mismatching results, per-operator counts of compared results)."""
    cov = rep.cov
    cases, meta = [], []
    for mode in ("lit", "run"):
        for c in range(0, len(pcs), per_chunk):
            items = [(c + k, pc["A"], pc["B"]) for k, pc in enumerate(pcs[c:c + per_chunk])]
            cases.append({"id": len(cases), "src": render_pairs(items, mode), "timeout": 20000, "maxev": 100000})
            meta.append((mode, items))
    outs = run_lua_cases(drv, cases)
    seen = {}
    nbad = 0
    for cid, (mode, items) in enumerate(meta):
        o = outs[cid]
        if o.get("timeout") or o.get("crash") or o.get("panic") or not o.get("ok"):
            # a chunk of pure expressions under pcall must run to its end
            sig = {"fam": fam, "kind": "hang" if o.get("timeout") else "crash-or-error", "mode": mode}
            rep.violation(sig, {"cmd": "lua-run", "src": cases[cid]["src"], "observed": {k: o.get(k) for k in ("timeout", "panic", "errstr", "stderr")}})
            nbad += 1
            continue
        for ev in o["events"]:
            seen[(mode, int(ev[0]["i"]), ev[2]["s"])] = (ev[3], ev[4] if len(ev) > 4 else None)
    nops = {}
    for key, pc in enumerate(pcs):
        ops = UN if pc["B"] is None else BIN
        for op, _ in ops:
            e = pc["exp"][op]
            got = {}
            for mode in ("lit", "run"):
                if (mode, key, op) not in seen:
                    got = None
                    break
                got[mode] = seen[(mode, key, op)]
            if got is None:
                continue      # the chunk of this case was reported above
            for mode in ("lit", "run"):
                ok, val = got[mode]
                m = matches(e, ok, val)
                if m is None:
                    cov["undetermined_not_compared"] = cov.get("undetermined_not_compared", 0) + 1
                    continue
                cov["traces_validated_against_impl"] += 1
                nops[op] = nops.get(op, 0) + 1
                if not m:
                    nbad += 1
                    why = ""
                    if op == "fmod" and matches(pc["exp"]["mod"], ok, val):
                        why = "result-of-floored-modulo"
                    if e["k"] == "err":
                        why = "no-error"
                    elif not ok:
                        why = "unexpected-error"
                    sig = {"fam": fam, "op": op, "mode": mode, "ca": pc["ca"], "cb": pc["cb"], "why": why}
                    rep.violation(sig, {"cmd": "lua-run", "kind": "expr", "lua": "return " + single_expr(pc["A"], pc["B"], op), "mode": mode,
                                        "exp": e, "expected": show(e), "observed": show_obs(ok, val)})
            if matches(e, *got["lit"]) is None and got["lit"] != got["run"]:
                # not determined by the model: the constant path and the run-time path must still agree
                lo, ro = got["lit"], got["run"]
                both_nan = all(x[0] and isinstance(x[1], dict) and x[1].get("f") == "nan" for x in (lo, ro))
                both_err = not lo[0] and not ro[0]
                if not both_nan and not both_err:
                    nbad += 1
                    rep.violation({"fam": fam, "op": op, "why": "literal-and-runtime-operands-differ", "ca": pc["ca"], "cb": pc["cb"]},
                                  {"cmd": "lua-run", "lua": "return " + single_expr(pc["A"], pc["B"], op),
                                   "literal": show_obs(*lo), "runtime": show_obs(*ro)})
    for op, c in nops.items():
        cov["per_operator"][op] = cov["per_operator"].get(op, 0) + c
    return nbad, nops


def run_pairs(rep, drv, cfg, fam):
    cov = rep.cov
    lines = []
    res = run_tlc("LuaNumMC", cfg, timeout=3000, on_line=lines.append, workers=tlc_workers())
    if res.violation:
        raise Infra("LuaNumMC %s: %s" % (cfg, res.violation))
    latl = [l for l in lines if l["t"] == "lat"]
    if len(latl) != 1:
        raise Infra("no lattice line from %s" % cfg)
    lat, cls, n = latl[0]["lat"], latl[0]["cls"], latl[0]["n"]
    sp = [spell(v) for v in lat]
    exp = {}
    for l in lines:
        if l["t"] == "un":
            exp[(l["a"], 0)] = l["r"]
        elif l["t"] == "bin":
            exp[(l["a"], l["b"])] = l["r"]
    if len(exp) != n * (n + 1):
        raise Infra("%s: expected %d case lines, TLC emitted %d" % (cfg, n * (n + 1), len(exp)))
    pcs = [{"A": sp[i - 1], "B": sp[j - 1] if j else None, "exp": exp[(i, j)], "ca": cls[i - 1], "cb": cls[j - 1] if j else "-"}
           for (i, j) in sorted(exp)]
    nbad, nops = compare_pairs(rep, drv, fam, pcs)
    cov["states"] += res.distinct
    cov["transitions"] += res.generated
    cov["configs"].append({"cfg": cfg, "lattice": n, "cases": len(exp), "tlc_wall_s": round(res.wall, 1), "mismatching": nbad})
    c0 = {}
    for x in cls:
        c0[x] = c0.get(x, 0) + 1
    cov["lattice_classes"][cfg] = c0
    log("[%s] %s: lattice %d, %d cases, %d operator results compared, %d mismatching" % (rep.prop, cfg, n, len(exp), sum(nops.values()), nbad))
    pc = pcs[len(pcs) // 2]
    op = "idiv" if pc["B"] is not None else "floor"
    rep.sample({"expr": single_expr(pc["A"], pc["B"], op), "expected": show(pc["exp"][op])})


def run_random(rep, drv, cfg, npairs):
    """random int64 / double operands: TLC -simulate, one pair per behaviour, seeded by VERIF_SEED"""
    cov = rep.cov
    lines = []
    res = run_tlc("LuaNumMC", cfg, timeout=3000, on_line=lines.append, simulate="num=%d" % npairs, depth=3, workers=1)
    if res.violation:
        raise Infra("LuaNumMC %s: %s" % (cfg, res.violation))
    rb = [l for l in lines if l["t"] == "rbin"]
    if len(rb) != npairs:
        raise Infra("%s: %d random pairs emitted, %d requested" % (cfg, len(rb), npairs))
    pcs = []
    kinds = {}
    for l in rb:
        A, Bt = spell(l["av"]), spell(l["bv"])
        pcs.append({"A": A, "B": Bt, "exp": l["r"], "ca": l["ca"], "cb": l["cb"]})
        pcs.append({"A": A, "B": None, "exp": l["ua"], "ca": l["ca"], "cb": "-"})
        kinds[l["ca"] + " x " + l["cb"]] = kinds.get(l["ca"] + " x " + l["cb"], 0) + 1
    nbad, nops = compare_pairs(rep, drv, "random", pcs)
    cov["transitions"] += res.generated
    cov["configs"].append({"cfg": cfg, "random_pairs": npairs, "seed": seed(), "tlc_wall_s": round(res.wall, 1), "mismatching": nbad})
    cov["random_operand_classes"] = kinds
    cov["exhaustive_random_part"] = False
    log("[%s] %s: %d random pairs (seed %d), %d operator results compared, %d mismatching" % (rep.prop, cfg, npairs, seed(), sum(nops.values()), nbad))
    if rb:
        rep.sample({"random_pair": [pcs[0]["A"], pcs[0]["B"]], "expected a*b": show(pcs[0]["exp"]["mul"])})


# --------------------------------------------------------------------------
# C02: numerals

def run_numerals(rep, drv, cfg, per_chunk=400):
    cov = rep.cov
    allc = []

    def on_line(l):
        if l["t"] == "num":
            allc.extend(l["cases"])

    res = run_tlc("LuaNumMC", cfg, timeout=3000, on_line=on_line, workers=tlc_workers())
    if res.violation:
        raise Infra("LuaNumMC %s: %s" % (cfg, res.violation))
    txt = open(os.path.join(SPEC, cfg)).read()
    maxlen = int(re.search(r"MaxLen\s*=\s*(\d+)", txt).group(1))
    want = sum(12 ** k for k in range(maxlen + 1))
    grammar = [c for c in allc if True]
    if len(allc) < want:
        raise Infra("%s: %d numeral cases emitted, the alphabet gives %d" % (cfg, len(allc), want))
    cases, meta = [], []
    for c0 in range(0, len(allc), per_chunk):
        part = allc[c0:c0 + per_chunk]
        src = ["local E, P, tn, ld = emit, pcall, tonumber, load"]
        for k, c in enumerate(part):
            S = lua_string(c["s"])
            src.append('E(%d, "tonumber", P(tn, %s))' % (k, S))
            src.append('E(%d, "mul", P(function(s) return s * 1 end, %s))' % (k, S))
            src.append('E(%d, "unm", P(function(s) return -s end, %s))' % (k, S))
            if c["lit"]:
                src.append('E(%d, "literal", P(function(s) return ld("return " .. s)() end, %s))' % (k, S))
        cases.append({"id": len(cases), "src": "\n".join(src) + "\n", "timeout": 20000, "maxev": 100000})
        meta.append(part)
    outs = run_lua_cases(drv, cases)
    nbad = 0
    kinds = {}
    for cid, part in enumerate(meta):
        o = outs[cid]
        if o.get("timeout") or o.get("crash") or o.get("panic") or not o.get("ok"):
            rep.violation({"fam": "numeral", "kind": "hang" if o.get("timeout") else "crash-or-error"},
                          {"cmd": "lua-run", "src": cases[cid]["src"], "observed": {k: o.get(k) for k in ("timeout", "panic", "errstr", "stderr")}})
            continue
        got = {}
        for ev in o["events"]:
            got[(int(ev[0]["i"]), ev[1]["s"])] = (ev[2], ev[3] if len(ev) > 3 else None)
        for k, c in enumerate(part):
            kinds[c["r"]["k"]] = kinds.get(c["r"]["k"], 0) + 1
            checks = [("tonumber", c["r"]), ("mul", c["mul"]), ("unm", c["unm"])] + ([("literal", c["r"])] if c["lit"] else [])
            for fn, e in checks:
                if (k, fn) not in got:
                    raise Infra("no observation for numeral %r %s" % (c["s"], fn))
                ok, val = got[(k, fn)]
                m = matches(e, ok, val)
                if m is None:
                    cov["undetermined_not_compared"] = cov.get("undetermined_not_compared", 0) + 1
                    continue
                cov["traces_validated_against_impl"] += 1
                cov["per_operator"]["numeral:" + fn] = cov["per_operator"].get("numeral:" + fn, 0) + 1
                if not m:
                    nbad += 1
                    s = "".join(c["s"])
                    sig = {"fam": "numeral", "fn": fn, "cls": c["cls"], "why": "no-error" if e["k"] == "err" else ("unexpected-error" if not ok else "")}
                    lua = {"tonumber": "return tonumber(%s)", "mul": "return %s * 1", "unm": "return -%s"}.get(fn)
                    rep.violation(sig, {"cmd": "lua-run", "kind": "expr", "lua": (lua % lua_string(c["s"])) if lua else "return " + s, "string": s,
                                        "exp": e, "expected": show(e), "observed": show_obs(ok, val)})
    cov["states"] += res.distinct
    cov["transitions"] += res.generated
    cov["configs"].append({"cfg": cfg, "numeral_strings": len(allc), "tlc_wall_s": round(res.wall, 1), "mismatching": nbad})
    cov["numeral_result_kinds"] = kinds
    log("[%s] %s: %d numeral strings, %d mismatching results" % (rep.prop, cfg, len(allc), nbad))


# --------------------------------------------------------------------------
# C02: numerals written in the program text (LuaNumSrc.tla): every emitted (expression, context) becomes the body of one
# Lua function; the values it returns are compared with the list the specification emitted.

SRC_PRELUDE = "local E, P = emit, pcall\nlocal function id(...) return ... end\n"


def src_body(tmpl, e):
    x = "".join(e["s"])
    if not e["atom"]:
        x = "(" + x + ")"
    return "".join(x if p == "@" else p for p in tmpl)


def start_srcnum_tlc(cfg):
    """TLC for the srcnum family runs in the background while the other families are processed."""
    import threading
    box = {"lines": [], "res": None, "err": None}

    def work():
        try:
            box["res"] = run_tlc("LuaNumSrc", cfg, timeout=3000, on_line=box["lines"].append, workers=tlc_workers() or max(2, NCPU // 3))
        except BaseException as ex:       # re-raised in the main thread
            box["err"] = ex

    th = threading.Thread(target=work)
    th.start()
    box["thread"] = th
    return box


def run_srcnum(rep, drv, cfg, box=None, per_chunk=250):
    cov = rep.cov
    box = box or start_srcnum_tlc(cfg)
    box["thread"].join()
    if box["err"] is not None:
        raise box["err"]
    res, lines = box["res"], box["lines"]
    if res.violation:
        raise Infra("LuaNumSrc %s: %s" % (cfg, res.violation))
    ctxl = [l for l in lines if l["t"] == "ctx"]
    if len(ctxl) != 1:
        raise Infra("%s: no context table" % cfg)
    ctx = ctxl[0]["ctx"]
    groups = [l for l in lines if l["t"] == "src"]
    if len(groups) != 3 * len(set((l["k"], l["d"]) for l in groups)) or len(set(l["k"] for l in groups)) != 65:
        raise Infra("%s: incomplete emission (%d group lines)" % (cfg, len(groups)))
    groups.sort(key=lambda l: (l["k"], l["d"], l["g"]))
    items = []          # (k, d, form, ctx name, body, expectation)
    for l in groups:
        for e in l["ex"]:
            if "same" in e:                  # same value as an earlier expression of the group: the spec shares the table
                e["cx"], e["exp"] = l["ex"][e["same"] - 1]["cx"], l["ex"][e["same"] - 1]["exp"]
            for ci, exp in zip(e["cx"], e["exp"]):
                c = ctx[ci - 1]
                items.append((l["k"], l["d"], e["f"], c["n"], src_body(c["t"], e), exp))
    cases, meta = [], []
    dumped = set(ctxl[0]["dump"])
    for mode in ("", "dump"):
        sel = items if not mode else [it for it in items if it[3] in dumped]
        for c0 in range(0, len(sel), per_chunk):
            part = sel[c0:c0 + per_chunk]
            src = SRC_PRELUDE + "".join("E(%d, P(function(z, o, id) %s end, 0, 1, id))\n" % (j, it[4]) for j, it in enumerate(part))   # small ids only
            case = {"id": len(cases), "src": src, "timeout": 30000, "maxev": 100000}
            if mode:
                case["mode"] = mode
            cases.append(case)
            meta.append((mode, c0, part))
    outs = run_lua_cases(drv, cases)
    nbad = 0
    per_ctx, per_form, nskip = {}, {}, 0
    for cid, (mode, c0, part) in enumerate(meta):
        o = outs[cid]
        if o.get("timeout") or o.get("crash") or o.get("panic") or not o.get("ok"):
            # which function does not compile / crashes: run them one by one
            culprits = []
            one = [{"id": j, "src": SRC_PRELUDE + "E(0, P(function(z, o, id) %s end, 0, 1, id))\n" % it[4], "timeout": 30000,
                    **({"mode": mode} if mode else {})} for j, it in enumerate(part)]
            o1 = run_lua_cases(drv, one)
            for j, it in enumerate(part):
                x = o1[j]
                if x.get("timeout") or x.get("crash") or x.get("panic") or not x.get("ok"):
                    culprits.append((it, x))
            if not culprits:
                culprits = [(part[0], o)]
            for it, x in culprits[:20]:
                nbad += 1
                why = "hang" if x.get("timeout") else ("compile-error" if x.get("compile_error") else "crash-or-error")
                rep.violation({"fam": "srcnum", "why": why, "ctx": it[3], "form": it[2], "k": it[0], "d": it[1]},
                              {"cmd": "lua-run", "kind": "srcnum", "lua": it[4], "mode": mode, "exp": it[5],
                               "observed": {k: x.get(k) for k in ("timeout", "panic", "errstr", "compile_error", "stderr")}})
            continue
        got = {}
        for ev in o["events"]:
            got[int(ev[0]["i"])] = (ev[1], ev[2:])
        for j, it in enumerate(part):
            k, d, form, cn, body, exp = it
            if j not in got:
                raise Infra("no observation for %r" % body)
            ok, vals = got[j]
            if exp["k"] == "skip":
                nskip += 1
                continue
            if exp["k"] == "err":
                good = not ok
                why = "no-error"
            elif not ok:
                good, why = False, "unexpected-error"
            else:
                ev_ = exp["v"]
                vals = list(vals) + [None] * (len(ev_) - len(vals))      # trailing nils are not reported by the driver
                good = len(vals) == len(ev_) and all(matches(x, True, v) for x, v in zip(ev_, vals))
                why = "wrong-value"
            cov["traces_validated_against_impl"] += 1
            per_ctx[cn] = per_ctx.get(cn, 0) + 1
            per_form[form] = per_form.get(form, 0) + 1
            if not good:
                nbad += 1
                rep.violation({"fam": "srcnum", "why": why, "ctx": cn, "form": form, "k": k, "d": d},
                              {"cmd": "lua-run", "kind": "srcnum", "lua": body, "mode": mode, "exp": exp,
                               "expected": "an error" if exp["k"] == "err" else "; ".join(show(x) for x in exp["v"]),
                               "observed": "; ".join(show_obs(True, v) for v in vals) if ok else show_obs(False, vals[0] if vals else None)})
    cov["states"] += res.distinct
    cov["transitions"] += res.generated
    cov["configs"].append({"cfg": cfg, "source_programs": len(items), "also_through_dump_undump": len([it for it in items if it[3] in dumped]), "tlc_wall_s": round(res.wall, 1), "mismatching": nbad,
                           "not_determined": nskip})
    cov["srcnum_per_context"] = per_ctx
    cov["srcnum_per_form"] = per_form
    cov["undetermined_not_compared"] = cov.get("undetermined_not_compared", 0) + nskip
    log("[%s] %s: %d (expression, context) programs from source + %d of them through dump/undump, %d mismatching, %d not determined" %
        (rep.prop, cfg, len(items), len([it for it in items if it[3] in dumped]), nbad, nskip))
    if items:
        it = items[len(items) // 3]
        rep.sample({"source_numeral_program": it[4], "expected": "error" if it[5]["k"] == "err" else [show(x) for x in it[5].get("v", [])]})


# --------------------------------------------------------------------------
# C16: loops whose bodies (or control expressions) assign to the variables the control expressions mention (NumForMut.tla).
# The specification emits one expectation per (triple, body, effects) and the list of kind tuples it holds for; Python renders.

MUT_CONFIGS = {"quick": "NumForMutQ.cfg", "thorough": "NumForMutT.cfg"}
MUT_PRELUDE = ("local E, P = emit, pcall\n"
               'local function t(id, k, ...) E(id, "x", k) return ... end\n'
               'local function tf(id, k, x, f) E(id, "x", k) f() return x end\n')
MUT_VARS = ("A", "B", "S")
MUT_OUTER = {"upval", "global", "field"}      # storage outside the function that contains the loop


def mut_name(x, kind):
    """how the variable X is read / assigned, given the kind of the control expression of its position"""
    return {"global": "G" + x, "field": "T." + x}.get(kind, x)


def render_mut(cid, kinds, vals, body, fx, K):
    name = {x: mut_name(x, k) for x, k in zip(MUT_VARS, kinds)}
    name["V"] = "v"
    out = ["do"]
    if "field" in kinds:
        out.append("local T = {}")
    inner = []
    for x, k, v in zip(MUT_VARS, kinds, vals):
        decl = ("%s = %s" if k in ("global", "field") else "local %s = %s") % (name[x], spell(v))
        (out if k in MUT_OUTER else inner).append(decl)
    refs = []
    for p, (x, k, v) in enumerate(zip(MUT_VARS, kinds, vals), 1):
        f = fx["fx"][p - 1]
        if f["x"]:
            refs.append("tf(%d, %d, %s, function() %s = %s end)" % (cid, p, name[x], name[f["x"]], spell(f["v"])))
        elif k == "lit":
            refs.append(spell(v))
        elif k == "paren":
            refs.append("(%s)" % name[x])
        elif k == "call":
            refs.append("t(%d, %d, %s)" % (cid, p, name[x]))
        else:
            refs.append(name[x])
    stmts = []
    for sg in body["b"]:
        lhs = name[sg["x"]]
        stmts.append("%s = %s" % (lhs, spell(sg["v"])) if sg["op"] == "set" else "%s = %s + %s" % (lhs, lhs, spell(sg["v"])))
    obs = ", ".join(name[x] for x in MUT_VARS)
    out.append('E(%d, "r", P(function() %s local n = 0 for v = %s do E(%d, "v", v); %s; E(%d, "w", %s) n = n + 1 if n >= %d then break end end '
               'E(%d, "end", %s) return n end))' % (cid, " ".join(inner), ", ".join(refs), cid, "; ".join(stmts), cid, obs, K, cid, obs))
    out.append("end")
    return "\n".join(out) + "\n"


def mut_called(kinds, fx):
    return sorted(p for p in (1, 2, 3) if fx["fx"][p - 1]["x"] or kinds[p - 1] == "call")


def triple3(ev):
    vals = list(ev[2:5])
    return vals + [None] * (3 - len(vals))


def check_mut(alts, evs, called):
    """alts: the outcomes the spec allows; evs: events of the case. None (conforms / not compared) or a reason."""
    xs = sorted(int(x[2]["i"]) for x in evs if x[1]["s"] == "x")
    if xs != called:
        return "control-expressions-not-evaluated-exactly-once"
    if any(a["k"] == "skip" for a in alts):
        return None
    rs = [x for x in evs if x[1]["s"] == "r"]
    if len(rs) != 1:
        return "no-result"
    ok = rs[0][2]
    vs = [x[2] for x in evs if x[1]["s"] == "v"]
    ws = [triple3(x) for x in evs if x[1]["s"] == "w"]
    ends = [triple3(x) for x in evs if x[1]["s"] == "end"]

    def same3(e3, o3):
        return all(matches(e, True, o) for e, o in zip(e3, o3))

    def fits(a):
        if a["k"] == "err":
            return (not ok) and not vs
        if not ok or len(ends) != 1 or len(vs) != len(a["v"]) or len(ws) != len(vs) or int(rs[0][3]["i"]) != len(vs):
            return False
        return all(matches(e, True, o) for e, o in zip(a["v"], vs)) and all(same3(e, o) for e, o in zip(a["w"], ws)) and same3(a["end"], ends[0])

    if any(fits(a) for a in alts):
        return None
    # label the discrepancy against the alternatives (labelling only)
    if all(a["k"] == "err" for a in alts):
        return "no-error"
    if not ok:
        return "unexpected-error"
    runs = [a for a in alts if a["k"] == "run"]
    if not any(len(a["v"]) == len(vs) and all(matches(e, True, o) for e, o in zip(a["v"], vs)) for a in runs):
        if all(len(vs) > len(a["v"]) for a in runs):
            return "too-many-iterations"
        if all(len(vs) < len(a["v"]) for a in runs):
            return "too-few-iterations"
        return "wrong-iteration-values"
    return "loop-changed-a-variable"


def show_alt(a):
    if a["k"] != "run":
        return show(a)
    return "values [%s]; (A, B, S) after each body [%s]; at the end (%s)" % (
        "; ".join(show(x) for x in a["v"]), " | ".join(", ".join(show(x) for x in w) for w in a["w"]), ", ".join(show(x) for x in a["end"]))


def run_formut(rep, drv, tier, per_chunk=60):
    cov = rep.cov
    cfg = MUT_CONFIGS[tier]
    lines = []
    res = run_tlc("NumForMut", cfg, timeout=3000, on_line=lines.append, workers=tlc_workers())
    if res.violation:
        raise Infra("NumForMut %s: %s" % (cfg, res.violation))
    latl = [l for l in lines if l["t"] == "mlat"]
    if len(latl) != 1:
        raise Infra("no lattice line")
    lat = latl[0]
    K = lat["k"]
    progs = []          # (body index, fx index, a, b, s, alts, kind tuple indices)
    for l in lines:
        if l["t"] == "mut":
            for j, row in enumerate(l["r"], 1):
                for bi, cell in zip(l["bodies"], row):
                    progs.append((bi, l["fx"], l["a"], j, l["s"], cell["alts"], sorted(cell["kx"])))
    nb = len(lat["bodies"])
    ntrip = len(lat["starts"]) * len(lat["limits"]) * len(lat["steps"])
    if len(progs) % ntrip or len(progs) < ntrip * nb:
        raise Infra("%s: %d programs emitted, lattices of %d triples, %d bodies" % (cfg, len(progs), ntrip, nb))
    progs.sort(key=lambda x: x[:5])
    kinds_all = lat["kinds"]
    items = [(pi, ki - 1) for pi, pr in enumerate(progs) for ki in pr[6]]
    used_kinds = {}
    cases, meta = [], []

    def render_item(local_id, it):
        bi, fi, a, b, st, alts, _ = progs[it[0]]
        vals = (lat["starts"][a - 1], lat["limits"][b - 1], lat["steps"][st - 1])
        return render_mut(local_id, kinds_all[it[1]], vals, lat["bodies"][bi - 1], lat["fxs"][fi - 1], K)

    for c0 in range(0, len(items), per_chunk):
        part = items[c0:c0 + per_chunk]
        src = MUT_PRELUDE + "".join(render_item(j, it) for j, it in enumerate(part))
        cases.append({"id": len(cases), "src": src, "timeout": 30000, "maxev": 100000})
        meta.append(part)
    outs = run_lua_cases(drv, cases)
    nbad = 0
    ncmp = 0
    outcome = {"err": 0, "run": 0, "skip": 0}
    per_body = {}
    for cid, part in enumerate(meta):
        o = outs[cid]
        per = {}
        if o.get("timeout") or o.get("crash") or o.get("panic") or not o.get("ok"):
            for j, it in enumerate(part):
                o1 = run_lua_cases(drv, [{"id": 0, "src": MUT_PRELUDE + render_item(0, it), "timeout": 20000}], nproc=1)[0]
                if o1.get("timeout") or o1.get("crash") or o1.get("panic") or not o1.get("ok"):
                    per[j] = ("bad", o1)
                else:
                    per[j] = ("ok", [[{"i": str(j)}] + e[1:] for e in o1["events"]])
        else:
            for ev in o["events"]:
                per.setdefault(int(ev[0]["i"]), ("ok", []))[1].append(ev)
        for j, it in enumerate(part):
            bi, fi, a, b, st, alts, _ = progs[it[0]]
            kinds = kinds_all[it[1]]
            used_kinds[it[1]] = used_kinds.get(it[1], 0) + 1
            body, fx = lat["bodies"][bi - 1], lat["fxs"][fi - 1]
            stt, evs = per.get(j, ("ok", []))
            if stt == "bad":
                why = "hang" if evs.get("timeout") else "crash"
            else:
                why = check_mut(alts, evs, mut_called(kinds, fx))
            if it[1] + 1 == progs[it[0]][6][0]:
                outcome[alts[0]["k"]] += 1
            if not any(x["k"] == "skip" for x in alts):
                ncmp += 1
                per_body[body["n"]] = per_body.get(body["n"], 0) + 1
            if why:
                nbad += 1
                vals = (lat["starts"][a - 1], lat["limits"][b - 1], lat["steps"][st - 1])
                sig = {"fam": "formut", "why": why, "body": body["n"], "fx": fx["n"], "start_kind": kinds[0], "limit_kind": kinds[1], "step_kind": kinds[2]}
                rep.violation(sig, {"cmd": "lua-run", "kind": "formut", "program": MUT_PRELUDE + render_item(0, it), "alts": alts,
                                    "called": mut_called(kinds, fx), "start": spell(vals[0]), "limit": spell(vals[1]), "step": spell(vals[2]),
                                    "classes": [lat["cstarts"][a - 1], lat["climits"][b - 1], lat["csteps"][st - 1]],
                                    "expected": " OR ".join(show_alt(x) for x in alts[:6]),
                                    "observed": evs if stt == "bad" else [[x[1]["s"]] + x[2:] for x in evs]})
    cov["traces_validated_against_impl"] += ncmp
    cov["states"] += res.distinct
    cov["transitions"] += res.generated
    cov["configs"].append({"cfg": cfg, "spec_cases": len(progs), "kind_tuples": len(kinds_all), "kind_tuples_used": len(used_kinds),
                           "programs": len(items), "K": K,
                           "tlc_wall_s": round(res.wall, 1), "mismatching": nbad})
    cov["formut_expected_outcomes"] = outcome
    cov["formut_programs_per_body"] = per_body
    log("[%s] %s: %d (triple, body, effects) cases, each under a rotating share of %d kind tuples = %d programs, %d mismatching; outcomes %s" %
        (rep.prop, cfg, len(progs), len(kinds_all), len(items), nbad, outcome))
    if items:
        rep.sample({"formut_program": render_item(0, items[len(items) // 2])})
    rep.assumptions += [
        "the order in which the three control expressions are evaluated is not fixed by the manual: with side effects in them every order's outcome is accepted",
        "a numeric string as start / limit / step: the loop may follow the string's syntax (integer loop for \"1\") or convert to floats; "
        "what is compared is that the conversion happens once and that the variable keeps the string"]


NUM_CONFIGS = {
    "quick": [("pairs", "LuaNumPairsQ.cfg"), ("strops", "LuaNumStrQ.cfg"), ("numerals", "LuaNumNumeralsQ.cfg"), ("random", "LuaNumRandom.cfg"),
              ("srcnum", "LuaNumSrcQ.cfg")],
    "thorough": [("pairs", "LuaNumPairsT.cfg"), ("strops", "LuaNumStrQ.cfg"), ("numerals", "LuaNumNumeralsT.cfg"), ("random", "LuaNumRandom.cfg"),
                 ("srcnum", "LuaNumSrcT.cfg")],
}
RANDOM_PAIRS = {"quick": 100, "thorough": 2000}


def run(prop, tier, family="num"):
    rep = Report(prop, tier, "model_checking")
    rep.cov.update(states=0, transitions=0, traces_validated_against_impl=0, configs=[], per_operator={}, lattice_classes={},
                   exhaustive=True)
    drv = build_driver()
    only = os.environ.get("VERIF_LUANUM_ONLY")
    if family == "num":
        todo = [(fam, cfg) for fam, cfg in NUM_CONFIGS[tier] if not (only and fam not in only.split(","))]
        box = None
        for fam, cfg in todo:
            if fam == "srcnum":
                box = start_srcnum_tlc(cfg)         # overlaps with the other families
        for fam, cfg in todo:
            if fam == "srcnum":
                run_srcnum(rep, drv, cfg, box)
            elif fam == "numerals":
                run_numerals(rep, drv, cfg)
            elif fam == "random":
                run_random(rep, drv, cfg, RANDOM_PAIRS[tier])
            else:
                run_pairs(rep, drv, cfg, fam)
        rep.assumptions += [
            "only results the manual determines are compared: '^' only by subtype; float '%' / math.fmod for every finite dividend and "
            "finite non-zero divisor (zero results modulo sign); float '//' unless the rounded quotient is an inexact integer; "
            "overflowing decimal exponents and NaN payloads are not compared; subnormal operands and results are compared",
            "an integer that has no exact float representation may convert to either neighbour (manual 3.4.3): both are accepted",
            "numeric strings in bitwise operators, math.tointeger and math.abs of strings are left open (version dependent)",
            "error messages are not compared, only error versus value"]
    else:
        if not only or "for" in only.split(","):
            run_for(rep, drv, tier)
        if not only or "formut" in only.split(","):
            run_formut(rep, drv, tier)
    return rep.finish()


FOR_CONFIGS = {"quick": "NumForQ.cfg", "thorough": "NumForT.cfg"}


def render_for(lat, items, mode, K):
    """items: list of (case id, a, b, s)."""
    out = ["local E, P = emit, pcall"]
    if mode == "run":
        out.append('local function t(id, k, ...) E(id, "x", k) return ... end')
    for (cid, a, b, st) in items:
        A, Bt, C = spell(lat["starts"][a - 1]), spell(lat["limits"][b - 1]), spell(lat["steps"][st - 1])
        if mode == "run":
            hdr = "for v = t(%d, 1, %s), t(%d, 2, %s), t(%d, 3, %s) do" % (cid, A, cid, Bt, cid, C)
        else:
            hdr = "for v = %s, %s, %s do" % (A, Bt, C)
        out.append('E(%d, "r", P(function() local n = 0 %s E(%d, "v", v) v = 12345 n = n + 1 if n >= %d then break end end return n end))'
                   % (cid, hdr, cid, K))
    return "\n".join(out) + "\n"


def check_for(e, evs, mode, K):
    """e: expectation; evs: the events of this case in order. Returns None (conforms / not compared) or a reason."""
    xs = [int(x[2]["i"]) for x in evs if x[1]["s"] == "x"]
    if mode == "run" and sorted(xs) != [1, 2, 3]:
        return "control-expressions-not-evaluated-exactly-once"
    vals = [x[2] for x in evs if x[1]["s"] == "v"]
    rs = [x for x in evs if x[1]["s"] == "r"]
    if len(rs) != 1:
        return "no-result"
    ok = rs[0][2]
    if e["k"] == "skip":
        return None
    if e["k"] == "err":
        return None if (not ok and not vals) else "no-error"
    if not ok:
        return "unexpected-error"
    exp = e["v"]
    if e["und"]:
        vals = vals[:len(exp)]
    elif int(rs[0][3]["i"]) != len(vals):
        return "iteration-count"
    if len(vals) < len(exp):
        return "too-few-iterations"
    if len(vals) > len(exp):
        return "too-many-iterations"
    for x, v in zip(exp, vals):
        if not matches(x, True, v):
            return "wrong-value"
    return None


def replay(prop, path, family="num"):
    """./check Cxx --replay <file>: run the recorded case again on the current tree and compare it with the recorded
    expectation of the spec (exit 1 while the discrepancy is still there, 0 when it is gone)."""
    with open(path) as f:
        r = json.load(f)["replay"]
    drv = build_driver()
    if r.get("kind") == "expr":
        body = r["lua"]
        o = run_lua_cases(drv, [{"id": 0, "src": "emit(pcall(function() %s end))" % body, "timeout": 30000}], nproc=1)[0]
        if o.get("timeout") or o.get("crash") or o.get("panic") or not o.get("events"):
            print("STILL-FAILING: hang or crash: %s" % json.dumps({k: o.get(k) for k in ("timeout", "panic", "errstr")}))
            return 1
        ev = o["events"][0]
        ok, val = ev[0], (ev[1] if len(ev) > 1 else None)
        if matches(r["exp"], ok, val) is False:
            print("STILL-FAILING: %s gives %s, expected %s" % (body, show_obs(ok, val), show(r["exp"])))
            return 1
        return 0
    if r.get("kind") == "srcnum":
        c = {"id": 0, "src": SRC_PRELUDE + "E(0, P(function(z, o, id) %s end, 0, 1, id))\n" % r["lua"], "timeout": 30000}
        if r.get("mode"):
            c["mode"] = r["mode"]
        o = run_lua_cases(drv, [c], nproc=1)[0]
        if o.get("timeout") or o.get("crash") or o.get("panic") or not o.get("events"):
            print("STILL-FAILING: %s: hang, crash or compile error: %s" % (r["lua"], json.dumps({k: o.get(k) for k in ("timeout", "panic", "errstr")})))
            return 1
        ev = o["events"][0]
        ok, vals = ev[1], list(ev[2:])
        exp = r["exp"]
        if exp["k"] == "err":
            good = not ok
        else:
            vals += [None] * (len(exp["v"]) - len(vals))
            good = ok and len(vals) == len(exp["v"]) and all(matches(x, True, v) for x, v in zip(exp["v"], vals))
        if not good:
            print("STILL-FAILING: %s gives %s" % (r["lua"], "; ".join(show_obs(True, v) for v in vals) if ok else "an error"))
            return 1
        return 0
    if r.get("kind") == "formut":
        o = run_lua_cases(drv, [{"id": 0, "src": r["program"], "timeout": 20000}], nproc=1)[0]
        if o.get("timeout") or o.get("crash") or o.get("panic") or not o.get("ok"):
            print("STILL-FAILING: the program hangs or crashes")
            return 1
        why = check_mut(r["alts"], o["events"], r["called"])
        if why:
            print("STILL-FAILING: %s" % why)
            return 1
        return 0
    if r.get("kind") == "for":
        o = run_lua_cases(drv, [{"id": 0, "src": r["program"], "timeout": 20000}], nproc=1)[0]
        if o.get("timeout") or o.get("crash") or o.get("panic") or not o.get("ok"):
            print("STILL-FAILING: %s hangs or crashes" % r["lua"])
            return 1
        why = check_for(r["exp"], o["events"], r["mode"], r["K"])
        if why:
            print("STILL-FAILING: %s: %s" % (r["lua"], why))
            return 1
        return 0
    raise Infra("unknown replay kind in %s" % path)


def run_for(rep, drv, tier, per_chunk=60):
    cov = rep.cov
    cfg = FOR_CONFIGS[tier]
    lines = []
    res = run_tlc("NumFor", cfg, timeout=3000, on_line=lines.append, workers=tlc_workers())
    if res.violation:
        raise Infra("NumFor %s: %s" % (cfg, res.violation))
    latl = [l for l in lines if l["t"] == "lat"]
    if len(latl) != 1:
        raise Infra("no lattice line")
    lat = latl[0]
    K = lat["k"]
    trip = [l for l in lines if l["t"] == "for"]
    want = len(lat["starts"]) * len(lat["limits"]) * len(lat["steps"])
    if len(trip) != want:
        raise Infra("%s: %d triples emitted, the lattices give %d" % (cfg, len(trip), want))
    trip.sort(key=lambda l: (l["a"], l["b"], l["s"]))
    cases, meta = [], []
    for mode in ("lit", "run"):
        for c0 in range(0, len(trip), per_chunk):
            items = [(c0 + k, l["a"], l["b"], l["s"]) for k, l in enumerate(trip[c0:c0 + per_chunk])]
            cases.append({"id": len(cases), "src": render_for(lat, items, mode, K), "timeout": 30000, "maxev": 100000})
            meta.append((mode, items))
    outs = run_lua_cases(drv, cases)

    def one(mode, item):
        o = run_lua_cases(drv, [{"id": 0, "src": render_for(lat, [item], mode, K), "timeout": 20000}], nproc=1)[0]
        return o

    outcome = {"err": 0, "skip": 0, "vals": 0}
    lens = {}
    nbad = 0
    for cid, (mode, items) in enumerate(meta):
        o = outs[cid]
        per = {}
        if o.get("timeout") or o.get("crash") or o.get("panic") or not o.get("ok"):
            # find the culprit(s): run each triple of the chunk on its own
            for it in items:
                o1 = one(mode, it)
                if o1.get("timeout") or o1.get("crash") or o1.get("panic") or not o1.get("ok"):
                    per[it[0]] = ("bad", o1)
                else:
                    per[it[0]] = ("ok", o1["events"])
        else:
            for ev in o["events"]:
                per.setdefault(int(ev[0]["i"]), ("ok", []))[1].append(ev)
        for it in items:
            l = trip[it[0]]
            e = l["r"]
            if mode == "lit":
                outcome[e["k"]] += 1
                if e["k"] == "vals":
                    lens[len(e["v"])] = lens.get(len(e["v"]), 0) + 1
            st, evs = per.get(it[0], ("ok", []))
            ca, cb, cs = lat["cstarts"][l["a"] - 1], lat["climits"][l["b"] - 1], lat["csteps"][l["s"] - 1]
            src = "for v = %s, %s, %s do ... end" % (spell(lat["starts"][l["a"] - 1]), spell(lat["limits"][l["b"] - 1]), spell(lat["steps"][l["s"] - 1]))
            if st == "bad":
                why = "hang" if evs.get("timeout") else "crash"
            else:
                why = check_for(e, evs, mode, K)
                if e["k"] != "skip":
                    cov["traces_validated_against_impl"] += 1
            if why:
                nbad += 1
                kind = "int" if (ca == "int" and cs == "int") else "float"
                sig = {"fam": "for", "loop": kind, "why": why, "start": ca, "limit": cb, "step": cs, "mode": mode}
                rep.violation(sig, {"cmd": "lua-run", "kind": "for", "lua": src, "program": render_for(lat, [it], mode, K), "mode": mode, "exp": e, "K": K,
                                    "expected": ("values " + "; ".join(show(x) for x in e["v"]) + (" (then not determined)" if e["und"] else "")) if e["k"] == "vals" else show(e),
                                    "observed": evs if st == "bad" else [[x[1]["s"]] + x[2:] for x in evs]})
    cov["states"] += res.distinct
    cov["transitions"] += res.generated
    cov["configs"].append({"cfg": cfg, "triples": len(trip), "K": K, "tlc_wall_s": round(res.wall, 1), "mismatching": nbad})
    cov["expected_outcomes"] = outcome
    cov["expected_iteration_counts"] = lens
    log("[%s] %s: %d triples x 2 renderings, %d mismatching; outcomes %s, iteration counts %s" % (rep.prop, cfg, len(trip), nbad, outcome, lens))
    rep.assumptions += [
        "numeric strings as control expressions, a NaN start/limit/step in a float loop, a NaN limit with a negative integer step and "
        "inexact integer->float conversions of control values are not compared (manual silent or reference implementation at odds with it)",
        "each control expression is checked to be evaluated exactly once; their relative order is not compared",
        "float loops are observed for K iterations only (an absorbed step legitimately never terminates)"]

"""C20: independent runtimes are isolated.  TLC (Isolation.tla) enumerates every interleaving of the statement segments of
two or three programs; the driver replays each schedule on real runtimes living in one process (sequentially interleaved at
statement granularity) and each runtime's observations must equal its solo run.  The same programs also run freely in
parallel on several goroutines with a race-detector build."""
import json, os, re, sys, random, itertools
sys.path.insert(0, os.path.join(os.path.dirname(os.path.abspath(__file__)), "..", "lib"))
from vlib import *

# statements of the menu; each touches a root that must be private to its runtime.  {n} is the runtime's number.
MENU = {
    "global": 'x = (x or {n}) * 2 + 1 emit("x", x)',
    "unset-global": 'print = nil emit("print", print)',
    "libtable": 'string.upper = function() return "mine{n}" end emit(("a"):upper(), string.upper("b"))',
    "strmeta": 'getmetatable("").__index = function(s, k) return "meta{n}" .. k end emit(("a").foo)',
    "strmeta-read": 'emit(("abc"):len(), pcall(function() return ("a").nosuch end))',
    "seed": 'math.randomseed({n}) emit(math.random(1000), math.random(1000))',
    "random": 'emit(math.random(1000) == math.random(1000) and "same" or "differ")',
    "quota": 'emit(runtime.callcontext({kill = {cpu = 300}}, function() while true do end end).status)',
    "error": 'emit(pcall(error, {code = {n}}))',
    "coroutine": 'local co = coroutine.wrap(function(a) local b = coroutine.yield(a + {n}) return b * 2 end) emit(co(1), co(10))',
    "gc": 'setmetatable({}, {__gc = function() end}) collectgarbage() emit("gc-done")',
    "package": 'package.loaded.mine = {n} emit(package.loaded.mine, package.loaded.other)',
    "tostring-meta": 'local t = setmetatable({}, {__tostring = function() return "T{n}" end}) emit(tostring(t))',
    "gsub": 'emit((string.gsub("hello world", "o", "{n}")))',
    "load": 'emit(load("return {n} + 1")())',
    "gcrunning": 'emit("isrunning", collectgarbage("isrunning"))',
    "pkgconfig": 'package.config = "/\\n:\\n%\\n!\\n-\\n" emit(package.searchpath("no.such{n}", "./%.lua:./x/%.lua"))',
    "pkgdefault": 'package.config = nil emit(package.searchpath("no.such{n}", "./?.lua;./y/?.lua"))',
    "pkgpath": 'package.path = "./p{n}/?.lua" emit(pcall(require, "nosuchmodule{n}"))',
    "require-miss": 'emit(pcall(require, "missing.mod{n}"))',
    # the standard files are process-wide objects behind per-runtime wrappers: nothing one runtime does with its wrappers
    # (closing them in any way, ending) may affect what another runtime can do with its own
    "stdout-write": 'emit(pcall(function() assert(io.stdout:write("o{n}")) assert(io.stdout:flush()) return "written" end))',
    "stderr-write": 'emit(pcall(function() assert(io.stderr:write("")) assert(io.stderr:flush()) return "written" end))',
    "stdout-tbc": 'do local x <close> = io.stdout end emit("left-scope", io.type(io.stdout))',
    "stderr-tbc": 'do local x <close> = io.stderr end emit("left-scope", io.type(io.stderr))',
    "stdin-tbc": 'do local x <close> = io.stdin end emit("left-scope", io.type(io.stdin))',
    "stdout-close": 'emit((pcall(io.close, io.stdout)), io.type(io.stdout))',
    "output-default": 'emit(io.output() == io.stdout, pcall(function() assert(io.write("")) return "written" end))',
    # statements that span two segments: another runtime may run between their halves
    "stdout|write": ['do local x <close> = io.stdout end', 'emit(pcall(function() assert(io.stdout:write("p{n}")) assert(io.stdout:flush()) return "written" end))'],
    "seed|draw": ['math.randomseed({n})', 'emit(math.random(1000), math.random(1000), math.random(0) ~= nil)'],
    "global|read": ['shared_name = "rt{n}"', 'emit(shared_name)'],
    "strmeta|use": ['getmetatable("").__index.twice = function(s) return s .. s .. "{n}" end', 'emit(("ab"):twice())'],
    "lib|use": ['table.mine = {n}', 'emit(table.mine, rawget(table, "other"))'],
    "co|resume": ['CO = coroutine.wrap(function() local k = {n} while true do k = k + 1 coroutine.yield(k) end end) emit(CO())', 'emit(CO(), CO())'],
    "pkgconfig|search": ['package.config = "/\\n:\\n%\\n!\\n-\\n"', 'emit(package.searchpath("a.b{n}", "./%.lua:./z/%.lua"))'],
    "pkgnil|search": ['package.config = nil', 'emit(package.searchpath("a.b{n}", "./?.lua;./z/?.lua"))'],
    "quota|after": ['CTX = runtime.callcontext({kill = {memory = 20000}}, function() local t = {} while true do t[#t + 1] = {} end end)', 'emit(CTX.status, pcall(string.rep, "x", 100))'],
}
DETERMINISTIC_SEEDED = True


def program(names, n, segs):
    """a chunk with exactly `segs` segments separated by step()"""
    stmts = []
    for k in names:
        v = MENU[k]
        for part in (v if isinstance(v, list) else [v]):
            stmts.append(part.replace("{n}", str(n)))
    while len(stmts) < segs:
        stmts.append('emit("pad")')
    return "\nstep()\n".join("do " + s + " end" for s in stmts[:segs]) + "\n"


def run(prop, tier):
    rep = Report(prop, tier, "model_checking")
    cov = rep.cov
    cov.update(states=0, transitions=0, traces_validated_against_impl=0, schedules=0, program_pairs=0, parallel_runs=0, race_reports=0)
    drv = build_driver()
    rng = random.Random(seed())
    keys = [k for k in MENU if k not in ("random",)]
    for cfg in (["IsolationQ.cfg"] if tier == "quick" else ["IsolationT.cfg", "Isolation3.cfg"]):
        txt = open(os.path.join(SPEC, cfg)).read()
        nrt = int(re.search(r"NRt\s*=\s*(\d+)", txt).group(1))
        segs = int(re.search(r"Len1\s*=\s*(\d+)", txt).group(1))
        lines = []
        res = run_tlc("Isolation", cfg, timeout=600, on_line=lines.append)
        cov["states"] += res.distinct
        cov["transitions"] += res.generated
        scheds = [l["sched"] for l in lines]
        cov["schedules"] += len(scheds)
        # programs: every statement of the menu appears, combined at random into programs of `segs` statements
        nprog = 10 if tier == "quick" else 24
        progs = []
        pool = keys[:]
        rng.shuffle(pool)
        for i in range(nprog):
            names = [pool[(i * segs + j) % len(pool)] for j in range(segs)]
            progs.append(names)
        tuples = list(itertools.permutations(range(nprog), nrt))
        rng.shuffle(tuples)
        tuples = tuples[:(40 if tier == "quick" else 160)]
        cov["program_pairs"] += len(tuples)
        # solo behaviours
        solo_cases, solo_key = [], {}
        for pi in range(nprog):
            for n in range(1, nrt + 1):
                solo_key[(pi, n)] = len(solo_cases)
                solo_cases.append({"id": len(solo_cases), "mode": "seq", "sched": [], "progs": [program(progs[pi], n, segs)]})
        souts = run_lua_cases(drv, solo_cases, sub="iso-run")
        cases, meta = [], []
        for tp in tuples:
            ps = [program(progs[pi], n + 1, segs) for n, pi in enumerate(tp)]
            sel = scheds if len(scheds) <= 30 else rng.sample(scheds, 30)
            for sc in sel:
                cases.append({"id": len(cases), "mode": "seq", "sched": sc, "progs": ps})
                meta.append((tp, sc))
        outs = run_lua_cases(drv, cases, sub="iso-run")
        for i, (tp, sc) in enumerate(meta):
            o = outs[i]
            cov["traces_validated_against_impl"] += 1
            if o.get("timeout") or o.get("crash"):
                rep.violation({"kind": "hang-or-crash"}, {"cmd": "iso-run", "case": cases[i], "observed": o})
                continue
            for n, pi in enumerate(tp):
                want = souts[solo_key[(pi, n + 1)]]["res"][0]
                got = o["res"][n]
                if json.dumps(want, sort_keys=True) != json.dumps(got, sort_keys=True):
                    # which statement diverged
                    k = 0
                    while k < min(len(want["events"]), len(got["events"])) and want["events"][k] == got["events"][k]:
                        k += 1
                    stmt = "?"
                    sig = {"kind": "interference", "program": "+".join(progs[pi]), "others": "+".join("+".join(progs[q]) for m, q in enumerate(tp) if m != n)}
                    for name in progs[pi]:
                        if name in ("gcrunning",):
                            sig = {"kind": "interference", "cell": "process-wide GC setting (collectgarbage stop/restart/isrunning)"}
                    rep.violation(sig, {"cmd": "iso-run", "case": cases[i], "runtime": n, "solo": want, "interleaved": got, "first_divergent_event": k})
                    break
            if i == 0:
                rep.sample({"programs": cases[i]["progs"], "schedule": sc, "observed": o["res"]})
        log("[%s] %s: %d schedules x %d program tuples replayed" % (prop, cfg, len(scheds), len(tuples)))
    # ---- free-running parallel runs under the race detector
    try:
        rdrv = build_driver(race=True)
    except Infra as e:
        rdrv = None
        cov["race_build"] = "unavailable: %s" % str(e)[:200]
    if rdrv:
        nrt, segs = 4, 4
        pcases = []
        for r in range(12 if tier == "quick" else 60):
            names = [[rng.choice([k for k in keys if k not in ("gcstop", "gcrunning")]) for _ in range(segs)] for _ in range(nrt)]
            pcases.append({"id": r, "mode": "par", "sched": [], "progs": [program(names[n], n + 1, segs) for n in range(nrt)], "names": names})
        for gmp in ("2", "8"):
            rc, outs, err = run_driver(rdrv, ["iso-run"], [{k: v for k, v in c.items() if k != "names"} for c in pcases], timeout=900,
                                       env={"GOMAXPROCS": gmp, "GORACE": "halt_on_error=0 exitcode=0"})
            cov["parallel_runs"] += len(outs)
            races = re.findall(r"WARNING: DATA RACE.*?(?:==================)", err, re.S)
            golua_races = [r for r in races if "arnodel/golua" in r]
            cov["race_reports"] += len(golua_races)
            if golua_races:
                frames = sorted(set(re.findall(r"github.com/arnodel/golua/[\w/.()*]+", golua_races[0])))[:6]
                rep.violation({"kind": "data-race", "where": frames[0] if frames else "?"}, {"cmd": "iso-run (race build, GOMAXPROCS=%s)" % gmp, "report": golua_races[0][:3000]})
            if rc not in (0,):
                raise Infra("race-build driver failed rc=%s: %s" % (rc, err[-500:]))
            # each parallel runtime must still equal its solo behaviour
            solo = run_lua_cases(drv, [{"id": j * 10 + n, "mode": "seq", "sched": [], "progs": [c["progs"][n]]} for j, c in enumerate(pcases) for n in range(nrt)], sub="iso-run")
            for j, c in enumerate(pcases):
                o = next((x for x in outs if x.get("id") == c["id"]), None)
                if o is None:
                    continue
                for n in range(nrt):
                    if json.dumps(o["res"][n], sort_keys=True) != json.dumps(solo[j * 10 + n]["res"][0], sort_keys=True):
                        rep.violation({"kind": "parallel-interference", "program": "+".join(c["names"][n])},
                                      {"cmd": "iso-run par", "progs": c["progs"], "runtime": n, "solo": solo[j * 10 + n]["res"][0], "parallel": o["res"][n]})
    cov["explanation"] = "all interleavings (Isolation.tla) of statement segments of program tuples replayed on real runtimes in one process; each runtime compared with its solo run; parallel runs under -race"
    rep.assumptions += ["the race detector only reports races that the executions expose; it is an observation supporting the non-interference verdict"]
    return rep.finish()

"""C05 / C06 (program level): real Lua programs under CPU / memory limits; hook traces validated against Quota.tla through
QuotaTrace.tla (direction B), with cross-run verdict events (exactness, determinism, monotonicity)."""
import json, os, re, sys, random, time
sys.path.insert(0, os.path.join(os.path.dirname(os.path.abspath(__file__)), "..", "lib"))
from vlib import *
import closestack, cosem

FIELDS = {"k": "", "d": 0, "st": "", "hc": 0, "hm": 0, "sc": 0, "sm": 0, "uc": 0, "um": 0, "a": 0, "dhc": 0, "dhm": 0,
          "dsc": 0, "dsm": 0, "dfl": [], "fl": [], "puc": 0, "pum": 0, "L": 0, "u": 0, "used": 0, "prefix": 0, "same": 0, "mono": 0,
          "acc": 0, "heap": 0}
BIG = 1000000000
CLAMP = 1000000000


def clamp_ev(e):
    d = dict(e)
    for k in ("hc", "hm", "sc", "sm", "uc", "um", "a", "dhc", "dhm", "dsc", "dsm", "puc", "pum"):
        if isinstance(d.get(k), int) and d[k] > CLAMP:
            d[k] = CLAMP     # representation only: TLC integers are 32-bit; every limit used here is <= 10^9
    return d


# ---- adversarial shells: never-ending programs that try to survive their limit
SHELLS = [
    ("pcall-loop", 'while true do pcall(function() while true do end end) emit("survived") end'),
    ("pcall-loop-2", 'local function f() while true do end end while true do local ok = pcall(f) emit("survived", ok) end'),
    ("xpcall-handler-loop", 'xpcall(function() while true do end end, function() emit("handler") while true do end end) emit("survived")'),
    ("xpcall-error-handler-loop", 'xpcall(function() error("x") end, function() while true do end end) emit("survived")'),
    ("coroutine-in-pcall", 'while true do pcall(function() local co = coroutine.wrap(function() while true do coroutine.yield() end end) while true do co() end end) emit("survived") end'),
    ("coroutine-loop", 'local co = coroutine.create(function() while true do end end) emit("res", coroutine.resume(co)) emit("survived") while true do end'),
    ("close-handler-loop", 'do local x <close> = setmetatable({}, {__close = function() emit("closing") while true do end end}) end emit("survived")'),
    ("close-handler-after-kill", 'pcall(function() local x <close> = setmetatable({}, {__close = function() emit("closing-after-kill") end}) while true do end end) emit("survived")'),
    ("coroutine-close-handler-after-kill", 'local co = coroutine.wrap(function() local x <close> = setmetatable({}, {__close = function() emit("closing-after-kill") local n = 0 for i = 1, 100000 do n = n + i end emit("handler-finished") end}) while true do end end) co() emit("survived")'),
    # a coroutine that dies (by an error, by a normal return, by coroutine.close) with a pending <close> whose handler never ends
    ("co-dies-by-error-close-handler-loop", 'local co = coroutine.create(function() local x <close> = setmetatable({}, {__close = function() while true do end end}) error("x") end) local ok, e = coroutine.resume(co) emit("survived", ok) while true do end'),
    ("co-returns-close-handler-loop", 'local co = coroutine.wrap(function() local x <close> = setmetatable({}, {__close = function() while true do end end}) return 1 end) pcall(co) emit("survived") while true do end'),
    ("co-closed-close-handler-loop", 'local co = coroutine.create(function() local x <close> = setmetatable({}, {__close = function() while true do end end}) coroutine.yield() end) coroutine.resume(co) local ok, e = coroutine.close(co) emit("survived", ok) while true do end'),
    ("co-close-handler-loop-in-pcall", 'local co = coroutine.create(function() pcall(function() local x <close> = setmetatable({}, {__close = function() while true do end end}) error("y") end) end) emit("survived", coroutine.resume(co)) while true do end'),
    ("gc-handler-loop", 'setmetatable({}, {__gc = function() emit("gc") while true do end end}) collectgarbage() collectgarbage() emit("collected") while true do end'),
    ("nested-callcontext", 'while true do runtime.callcontext({kill = {cpu = 1000000000}}, function() while true do end end) emit("survived") end'),
    ("error-in-loop", 'while true do pcall(error, "x") end'),
    ("tostring-meta-loop", 'local t = setmetatable({}, {__tostring = function() while true do end end}) pcall(tostring, t) emit("survived") while true do end'),
    ("sort-comparator-loop", 'pcall(table.sort, {3, 2, 1}, function(a, b) while true do end end) emit("survived") while true do end'),
    ("gsub-callback-loop", 'pcall(string.gsub, "abc", ".", function() while true do end end) emit("survived") while true do end'),
    ("index-meta-loop", 'local t = setmetatable({}, {__index = function(t, k) return t[k .. "x"] end}) pcall(function() return t.a end) emit("survived") while true do end'),
]

# ---- amplification templates: one library call with a size parameter N
AMPL = [
    # pattern matching with nested quantifiers (polynomial / exponential backtracking), counting, utf8 scans, sorting
    ("find-backtrack", 'local n = math.min(N, 3000) return (string.find(string.rep("a", n), "a*a*a*a*a*b")) or -1'),
    ("match-backtrack-anchored", 'local n = math.min(N, 200000) return #(string.match(string.rep("a", n) .. "c", "^(a-)(a-)(a-)b") or "")'),
    ("gmatch-count", 'local c = 0 for _ in string.gmatch(string.rep("ab ", math.min(N, 400000)), "%a+") do c = c + 1 end return c > 0 and 1 or 0'),
    ("gsub-frontier", 'return select(2, string.gsub(string.rep("ab ", math.min(N, 300000)), "%f[%a]%a+", "%0")) > 0 and 1 or 0'),
    ("balanced", 'return #(string.match(string.rep("(", math.min(N, 300000)) .. string.rep(")", math.min(N, 300000)), "%b()") or "")'),
    ("utf8-len", 'return (utf8.len(string.rep("\\xc3\\xa9", math.min(N, 500000))) or -1) > 0 and 1 or 0'),
    ("utf8-codes", 'local c = 0 for _ in utf8.codes(string.rep("\\xe2\\x82\\xac", math.min(N, 300000))) do c = c + 1 end return c > 0 and 1 or 0'),
    ("utf8-char-many", 'local t = {} for i = 1, 200 do t[i] = 8364 end return #utf8.char(table.unpack(t)) * (N // N)'),
    ("sort-big", 'local t = {} for i = 1, math.min(N, 200000) do t[i] = (i * 7919) % 10007 end table.sort(t) return t[1] <= t[#t] and 1 or 0'),
    ("sort-cmp-big", 'local t = {} for i = 1, math.min(N, 60000) do t[i] = (i * 7919) % 10007 end table.sort(t, function(a, b) return a > b end) return t[1] >= t[#t] and 1 or 0'),
    ("format-q-big", 'return #string.format("%q", string.rep("\\0\\n\"", math.min(N, 300000)))'),
    ("lower-big", 'return #string.lower(string.rep("X", N))'),
    ("len-loop", 'local s = string.rep("x", 100) local c = 0 for i = 1, math.min(N, 2000000) do c = c + #s end return c > 0 and 1 or 0'),
    ("tostring-loop", 'local c = 0 for i = 1, math.min(N, 300000) do c = c + #tostring(i + 0.5) end return c > 0 and 1 or 0'),
    ("tonumber-big", 'return math.type(tonumber(string.rep("9", math.min(N, 1000000)))) == "float" and 1 or 0'),
    ("concat-numbers", 'local t = {} for i = 1, math.min(N, 300000) do t[i] = i end return #table.concat(t, ",")'),
    ("pack-many", 'local t = {} for i = 1, 200 do t[i] = i end return #string.pack(string.rep("i4", 200), table.unpack(t)) * (N // N)'),
    ("rep", 'return #string.rep("x", N)'),
    ("rep-sep", 'return #string.rep("ab", N, ",")'),
    ("rep-upper", 'return #string.rep("x", N):upper()'),
    ("format-width", 'return #string.format("%" .. (N % 90 + 5) .. "d", 1)'),
    ("concat", 'local t = {} for i = 1, 50 do t[i] = "abcdefghij" end local s = table.concat(t) return #string.rep(s, N // 500 + 1)'),
    ("unpack", 'return select("#", table.unpack({}, 1, N))'),
    ("byte", 'return select("#", string.byte(string.rep("x", 1000), 1, N))'),
    ("move", 'return #table.move({1, 2, 3}, 1, N, 2)'),
    ("char-unpack", 'local t = {} for i = 1, 200 do t[i] = 65 end return #string.char(table.unpack(t)):rep(N // 200 + 1)'),
    ("load", 'return load(string.rep("x = 1 ", N))'),
    ("gsub-grow", 'return #string.gsub(string.rep("x", 1000), ".", string.rep("y", N // 1000 + 1))'),
    ("pack", 'return #string.pack("c" .. N, "x")'),
    ("utf8char", 'local t = {} for i = 1, 200 do t[i] = 228 end return #utf8.char(table.unpack(t)):rep(N // 400 + 1)'),
    ("coroutines", 'local n = 0 for i = 1, N do coroutine.create(print) n = n + 1 end return n'),
    ("table-grow", 'local t = {} for i = 1, N do t[i] = i end return #t'),
    ("string-concat-loop", 'local s = "" for i = 1, N do s = s .. "x" end return #s'),
    ("table-insert-front", 'local t = {} for i = 1, N do table.insert(t, 1, i) end return #t'),
    ("find-plain", 'return string.find(string.rep("x", N % 5000000 + 10), "y", 1, true)'),
    ("pack-align", 'return #string.pack("!16 i16", N)'),
    ("sub-big", 'return #string.sub(string.rep("x", 1000), 1, N)'),
    ("gsub-capture-repeat", 'return #string.gsub(string.rep("x", 1000), ".+", string.rep("%0", N // 1000 + 1))'),
    ("gsub-capture1-repeat", 'return #string.gsub(string.rep("ab", 500), "(a)(b)", string.rep("%2%1", N // 1000 + 1))'),
    ("gsub-table-repl", 'local big = string.rep("z", N % 5000000 + 10) return #string.gsub(string.rep("x", 200), ".", {x = big})'),
    ("gsub-func-repl", 'local big = string.rep("z", N % 5000000 + 10) return #string.gsub(string.rep("x", 200), ".", function() return big end)'),
    ("format-s-repeat", 'local s = string.rep("x", 1000) return #string.format(string.rep("%s", N % 20000 + 1), table.unpack((function() local t = {} for i = 1, N % 20000 + 1 do t[i] = s end return t end)()))'),
    ("concat-repeat-ref", 'local s = string.rep("x", 10000) local t = {} for i = 1, N % 100000 + 1 do t[i] = s end return #table.concat(t)'),
    ("rep-sep-big", 'return #string.rep("", N % 10000000 + 2, string.rep("s", 100))'),
    ("upper-big", 'return #string.upper(string.rep("x", N % 50000000 + 1))'),
    ("reverse-big", 'return #string.reverse(string.rep("x", N % 50000000 + 1))'),
]


# ---- memory "pumps": finite programs that keep far more string bytes alive than the limit allows while repeatedly
# running an operation that releases accounted memory (loading code, finishing coroutines, unwinding errors, temporary
# buffers ...).  If every release matches a charge they must be killed; a release without a charge lets them finish.
PUMPS = [
    # (name, prelude run once outside the loop, body run in every round)
    ("load-blank", 'local SRC = string.rep(" ", 300000)', 'load(SRC)'),
    ("load-code", 'local SRC = "return " .. string.rep("1 + ", 20000) .. "1"', 'load(SRC)'),
    ("load-error", 'local SRC = "x = = " .. string.rep(" ", 300000)', 'load(SRC)'),
    ("load-function-source", 'local SRC = string.rep(" ", 300000) local function rd() local s = SRC SRC = nil return s end', 'SRC = string.rep(" ", 1) .. "" load(rd)'),
    ("dump-load", 'local F = load("local a = 1 return function() return a end") local D = string.dump(F)', 'load(D) string.dump(F)'),
    ("coroutine-finish", '', 'for j = 1, 50 do coroutine.wrap(function() end)() end'),
    ("coroutine-close", '', 'for j = 1, 50 do local co = coroutine.create(function() coroutine.yield() end) coroutine.resume(co) coroutine.close(co) end'),
    ("coroutine-in-pcall", '', 'local co = coroutine.create(function() end) pcall(coroutine.resume, co)'),
    ("pcall-table", '', 'pcall(function() local t = {} for j = 1, 3000 do t[j] = j end error("x") end)'),
    ("error-big", 'local E = string.rep("e", 200000)', 'pcall(error, E)'),
    ("table-grow-shrink", 'local T = {}', 'for j = 1, 5000 do T[j] = j end for j = 1, 5000 do T[j] = nil end'),
    ("format-temp", 'local A = string.rep("a", 100000)', 'local n = #string.format("%s%s%s", A, A, A)'),
    ("gsub-temp", 'local A = string.rep("ab", 50000)', 'local n = #string.gsub(A, "a", "xy")'),
    ("find-temp", 'local A = string.rep("ab", 50000)', 'string.find(A, "c", 1, true) string.find(A, "(a)(b)c")'),
    ("concat-temp", 'local T = {} for j = 1, 100 do T[j] = string.rep("z", 2000) end', 'local n = #table.concat(T, ",")'),
    ("sort-temp", 'local T = {} for j = 1, 2000 do T[j] = (j * 7919) % 2000 end', 'table.sort(T)'),
    ("unpack-temp", 'local T = {} for j = 1, 200 do T[j] = j end', 'select("#", table.unpack(T, 1, 200))'),
    ("callcontext", '', 'runtime.callcontext({kill = {memory = 400000}}, function() local t = {} for j = 1, 100000 do t[j] = {} end end)'),
    ("close-handler", 'local MT = {__close = function() local t = {} for j = 1, 100 do t[j] = j end end}', 'do local x <close> = setmetatable({}, MT) end'),
    ("pack-unpack", 'local P = string.rep("p", 100000)', 'string.unpack("s4", string.pack("s4", P))'),
    ("tostring-number", '', 'for j = 1, 500 do local a = tostring(j) end'),
]


# ---- holders (C06): programs that keep a lot of memory alive through one kind of value / one route, and report the memory
# accounted to their context at the peak (PEAK()).  The driver samples the live Go heap meanwhile; the relation between the
# two is decided by QuotaTrace.tla (THeapVerdict).  250 values per list: table.unpack refuses more than 255.
HOLDERS = [
    ("vararg-nested", "local T = {} for i = 1, 250 do T[i] = i end\nlocal function f(n, ...) if n == 0 then PEAK() return select('#', ...) end return 1 + f(n - 1, ...) end\nf(12000, table.unpack(T, 1, 250))"),
    ("vararg-forward", "local T = {} for i = 1, 250 do T[i] = i end\nlocal function g(n, ...) if n == 0 then PEAK() return 0 end return 1 + g(n - 1, ...) end\nlocal function f(...) return g(12000, ...) end\nf(table.unpack(T, 1, 250))"),
    ("vararg-pcall-nested", "local T = {} for i = 1, 250 do T[i] = i end\nlocal function f(n, ...) if n == 0 then PEAK() return 0 end local ok, v = pcall(f, n - 1, ...) return 1 + (tonumber(v) or 0) end\nf(600, table.unpack(T, 1, 250))"),
    ("vararg-coroutine", "local T = {} for i = 1, 250 do T[i] = i end\nlocal function f(n, ...) if n == 0 then PEAK() return 0 end return 1 + coroutine.wrap(f)(n - 1, ...) end\nf(2000, table.unpack(T, 1, 250))"),
    ("vararg-built", "local function build(n, ...) if n == 0 then return ... end return build(n - 1, n, ...) end\nlocal function f(n, ...) if n == 0 then PEAK() return 0 end return 1 + f(n - 1, ...) end\nf(300, build(8000))"),
    ("table-pack", "local T = {} for i = 1, 250 do T[i] = i end\nlocal K = {} for i = 1, 12000 do K[i] = table.pack(table.unpack(T, 1, 250)) end PEAK()"),
    ("constructor-vararg", "local T = {} for i = 1, 250 do T[i] = i end\nlocal function g(...) return {...} end\nlocal K = {} for i = 1, 12000 do K[i] = g(table.unpack(T, 1, 250)) end PEAK()"),
    ("unpack-select", "local T = {} for i = 1, 250 do T[i] = i end\nlocal function f(n) if n == 0 then PEAK() return 0 end return select('#', table.unpack(T, 1, 250)) + f(n - 1) end f(12000)"),
    ("resume-values", "local T = {} for i = 1, 250 do T[i] = i end\nlocal K = {} for i = 1, 4000 do local co = coroutine.create(function(...) coroutine.yield(...) end) coroutine.resume(co, table.unpack(T, 1, 250)) K[i] = co end PEAK()"),
    ("yield-values", "local T = {} for i = 1, 250 do T[i] = i end\nlocal K = {} for i = 1, 4000 do local co = coroutine.create(function() local function h(...) coroutine.yield(...) return ... end h(table.unpack(T, 1, 250)) end) coroutine.resume(co) K[i] = co end PEAK()"),
    ("tables", "local K = {} for i = 1, 600000 do K[i] = {i} end PEAK()"),
    ("hash-keys", "local K = {} for i = 1, 400000 do K['k' .. i] = i end PEAK()"),
    ("strings", "local K = {} for i = 1, 60000 do K[i] = string.rep('x', 1000) .. i end PEAK()"),
    ("string-rep-big", "local K = {} for i = 1, 30 do K[i] = string.rep('y', 2000000 + i) end PEAK()"),
    ("closures", "local K = {} for i = 1, 500000 do K[i] = function() return i end end PEAK()"),
    ("coroutines", "local K = {} for i = 1, 15000 do local co = coroutine.create(function() coroutine.yield() end) coroutine.resume(co) K[i] = co end PEAK()"),
    ("loaded-functions", "local S = 'local a, b, c = 1, 2, 3 return function() return a + b + c end' local K = {} for i = 1, 40000 do K[i] = load(S) end PEAK()"),
    ("concat-big", "local T = {} for i = 1, 20000 do T[i] = 'abcdefghij' end local K = {} for i = 1, 200 do K[i] = table.concat(T, tostring(i)) end PEAK()"),
    ("gsub-big", "local A = string.rep('ab', 100000) local K = {} for i = 1, 100 do K[i] = string.gsub(A, 'a', tostring(i % 10)) end PEAK()"),
    ("format-big", "local A = string.rep('q', 500000) local K = {} for i = 1, 60 do K[i] = string.format('%s%d%s', A, i, A) end PEAK()"),
    ("deep-recursion", "local function r(n) if n == 0 then PEAK() return 0 end local a, b, c, d = n, n, n, n return 1 + r(n - 1) + a - b + c - d end r(200000)"),
    ("sort-copy", "local K = {} for i = 1, 100 do local t = {} for j = 1, 5000 do t[j] = (j * 7919) % 5000 end table.sort(t) K[i] = t end PEAK()"),
    ("insert-grow", "local K = {} for i = 1, 300 do local t = {} for j = 1, 5000 do table.insert(t, j) end K[i] = t end PEAK()"),
    ("move-copy", "local T = {} for i = 1, 5000 do T[i] = i end local K = {} for i = 1, 300 do K[i] = table.move(T, 1, 5000, 1, {}) end PEAK()"),
    ("string-pack", "local K = {} for i = 1, 40000 do K[i] = string.pack('i8i8i8i8z', i, i, i, i, 'padpadpadpadpadpadpadpad') end PEAK()"),
    ("tostring-numbers", "local K = {} for i = 1, 400000 do K[i] = tostring(i * 1.5) end PEAK()"),
    ("upvalue-chains", "local K = {} for i = 1, 100000 do local a, b, c = i, i, i K[i] = function() a = a + 1 return function() return a + b + c end end end PEAK()"),
    ("error-values", "local K = {} for i = 1, 50000 do local ok, e = pcall(error, {i, 'payload'}) K[i] = e end PEAK()"),
    ("dump-strings", "local function f() return 1, 2, 3 end local K = {} for i = 1, 40000 do K[i] = string.dump(f) .. i end PEAK()"),
]
HOLDER_PRE = "local function PEAK() local c, s = runtime.context(), 0 while c do s = s + c.used.memory c = c.parent end emit('peak', s) end\n"


def base_programs(tier, rng, light=False):
    """finite programs from the spec-driven generators (CloseStack / ErrorFlow / CoSem paths)"""
    progs = []
    n_each = (25 if light else 60) if tier == "quick" else (100 if light else 400)
    for cfg, battery in (("CloseStackQ.cfg", False), ("ErrorFlowQ.cfg", True)):
        txt = open(os.path.join(SPEC, cfg.replace("Q.cfg", "Sim.cfg"))).read()
        ms = int(re.search(r"MaxSteps\s*=\s*(\d+)", txt).group(1))
        lines = []
        run_tlc("CloseStack", cfg.replace("Q.cfg", "Sim.cfg"), timeout=600, on_line=lines.append, simulate="num=%d" % (n_each * 3), depth=ms, workers=1)
        lines = [l for l in lines if len(l["h"]) == ms or (l["fin"] != "run" and len(l["h"]) >= 4)]
        for l in rng.sample(lines, min(n_each, len(lines))):
            progs.append((cfg.split(".")[0], closestack.render(l, ms, battery)[0]))
    nco, wrapset, ms = cosem.cfg_const("CoSemQ.cfg")
    lines = []
    run_tlc("CoSem", "CoSemQ.cfg", timeout=600, on_line=lines.append, simulate="num=%d" % (n_each * 3), depth=ms, workers=1)
    lines = [l for l in lines if len(l["h"]) == ms]
    for l in rng.sample(lines, min(n_each, len(lines))):
        progs.append(("CoSemQ", cosem.render(l, nco, wrapset, ms)))
    # a few CPU-heavier bodies
    progs += [("loops", "local s = 0 for i = 1, 300 do s = s + i % 7 end emit(s) local t = {} for i = 1, 50 do t[#t + 1] = tostring(i) end emit(table.concat(t, ','))"),
              ("pcall-rep", 'for i = 1, 20 do emit(pcall(string.rep, "ab", i)) end'),
              ("sort", "local t = {} for i = 1, 60 do t[i] = (i * 37) % 61 end table.sort(t) emit(t[1], t[60])"),
              ("gsub", 'emit(string.gsub(string.rep("hello world ", 20), "%w+", string.upper))'),
              ("find-in-pcall", 'emit(pcall(string.find, string.rep("x", 3000), "y", 1, true)) emit("after")')]
    return progs


def ev_prefix(a, b):
    return len(a) <= len(b) and b[:len(a)] == a


def run(prop, tier):
    rep = Report(prop, tier, "model_checking")
    rep.cov.update(states=0, transitions=0, traces_validated_against_impl=0)
    program_level(rep, prop, tier, "cpu" if prop == "C05" else "mem", build_driver())
    return rep.finish()


def program_level(rep, prop, tier, resource, drv, light=False):
    """runs the program families under limits and has TLC validate the hook traces; adds to rep"""
    cov = rep.cov
    for k in ("runs", "killed_runs", "completed_runs", "shells", "amplification_cases", "trace_events"):
        cov.setdefault(k, 0)
    rng = random.Random(seed())
    traces = []

    # ---------------- finite programs x limits
    progs = base_programs(tier, rng, light)
    cases = [{"id": i, "src": src, "cpu": BIG, "mem": BIG, "trace": "ctx", "timeout": 20000} for i, (fam, src) in enumerate(progs)]
    base = run_lua_cases(drv, cases)
    runs = []   # (prog idx, L, case)
    for i, (fam, src) in enumerate(progs):
        b = base[i]
        if b.get("timeout") or b.get("crash") or b.get("panic") or b.get("status") != "done" and b.get("status") != "error":
            rep.violation({"kind": "baseline", "family": fam}, {"src": src, "observed": {k: v for k, v in b.items() if k != "trace"}})
            continue
        traces.append(("base#%d" % i, [clamp_ev(e) for e in b["trace"]]))
        if resource == "cpu":
            u = b["used_cpu"]
            Ls = sorted(set(x for x in (1, 2, u // 2, u - 1, u, u + 1, 2 * u, rng.randint(1, max(2, u))) if x >= 1))
            for L in Ls:
                runs.append((i, L, {"id": len(runs), "src": src, "cpu": L, "mem": BIG, "trace": "ctx", "timeout": 20000}))
        else:
            # memory: the peak is what matters; probe limits around the final and peak use seen in the trace
            peak = max([e.get("um", 0) + e.get("a", 0) for e in b["trace"]] + [b.get("used_mem", 0), 1])
            Ms = sorted(set(x for x in (1, 64, peak // 4, peak // 2, peak - 1, peak, peak + 1, peak + 64, peak * 2, peak * 4 + 4096,
                                        rng.randint(1, 2 * peak)) if x >= 1))
            for M in Ms:
                runs.append((i, M, {"id": len(runs), "src": src, "cpu": BIG, "mem": M, "trace": "ctx", "timeout": 20000}))
    log("[%s] %d base programs measured (%.0fs); running %d limited runs" % (prop, len(progs), time.time() - rep.t0, len(runs)))
    outs = run_lua_cases(drv, [c for _, _, c in runs])
    log("[%s] limited runs done (%.0fs)" % (prop, time.time() - rep.t0))
    completed_at = {}   # prog -> smallest limit at which it completed (memory monotonicity)
    for j, (i, L, c) in enumerate(runs):
        o = outs[j]
        if resource == "mem" and o.get("status") in ("done", "error"):
            completed_at[i] = min(completed_at.get(i, 1 << 62), L)
    for j, (i, L, c) in enumerate(runs):
        o, b = outs[j], base[i]
        cov["runs"] += 1
        if o.get("timeout") or o.get("crash") or o.get("panic"):
            sig = {"kind": "crash-or-hang", "family": progs[i][0], "what": "timeout" if o.get("timeout") else "panic"}
            if re.search(r"limit of \d+ exceeded|force kill", str(o.get("panic") or "")):
                # the termination itself reached the host as a Go panic instead of being turned into the status "killed";
                # whether the program suspends a coroutine inside a protected call (F47) is read off its text
                sig["panic_class"] = "termination-escaped"
                sig["yield_in_protected_call"] = bool(re.search(r"pcall\(function\(\)[^\n]*\n(?:(?!end\)\)).*\n)*?\s*coroutine\.yield", c["src"]))
            rep.violation(sig, {"src": c["src"], resource: L, "observed": {k: v for k, v in o.items() if k != "trace"}})
            continue
        killed = o.get("status") == "killed"
        cov["killed_runs" if killed else "completed_runs"] += 1
        tr = [clamp_ev(e) for e in o["trace"]]
        if resource == "cpu":
            same = int(o["events"] == b["events"] and o.get("ret") == b.get("ret") and o.get("err") == b.get("err") and o.get("status") == b.get("status"))
            tr.append({"k": "verdict", "L": L, "u": b["used_cpu"], "st": o.get("status", ""), "used": o.get("used_cpu", 0),
                       "prefix": int(ev_prefix(o["events"], b["events"])), "same": same})
        else:
            mono = int(not (killed and completed_at.get(i, 1 << 62) < L))
            tr.append({"k": "memverdict", "L": min(L, CLAMP), "st": o.get("status", ""), "used": min(o.get("used_mem", 0), CLAMP), "mono": mono})
        traces.append(("%s#%d@%d" % (progs[i][0], i, L), tr))
        if killed and len(o["events"]) >= 2:
            rep.sample({"program": c["src"][-400:], resource + "_limit": L, "unlimited_use": b.get("used_cpu"), "status": o["status"],
                        "events_before_kill": len(o["events"])}, cap=2)

    # ---------------- adversarial shells: must be killed for every limit, nothing host-visible after the kill
    shell_cases, meta = [], []
    lims = (300, 2000, 20000) if tier == "quick" else (50, 300, 2000, 20000, 150000)
    for name, src in SHELLS:
        for L in (lims[:1] if light else lims):
            c = {"id": len(shell_cases), "src": src, "trace": "ctx", "timeout": 120000}
            if resource == "cpu":
                c.update(cpu=L, mem=BIG)
            else:
                # the same shells with a memory-hungry body: every iteration allocates
                c.update(cpu=BIG // 50, mem=L * 50, src='local keep = {}\n' + src.replace("while true do end", 'while true do keep[#keep + 1] = {#keep} end'))
            shell_cases.append(c)
            meta.append((name, L))
    souts = run_lua_cases(drv, shell_cases)
    log("[%s] %d shell runs done (%.0fs)" % (prop, len(shell_cases), time.time() - rep.t0))
    for j, (name, L) in enumerate(meta):
        o = souts[j]
        cov["shells"] += 1
        bad = None
        if o.get("timeout"):
            bad = "hang: limit never fired (watchdog 15 s)"
        elif o.get("crash") or o.get("panic"):
            bad = "crash: " + (o.get("panic") or o.get("stderr", ""))[:300]
        elif o.get("status") != "killed":
            bad = "status %r instead of killed" % o.get("status")
        elif resource == "cpu" and o.get("used_cpu", 0) >= L:
            bad = "used %d >= limit %d" % (o.get("used_cpu", 0), L)
        elif resource == "mem" and o.get("status") == "killed" and o.get("used_mem", 0) >= shell_cases[j]["mem"] and o.get("used_cpu", 0) < shell_cases[j]["cpu"]:
            bad = "used memory %d >= limit %d" % (o.get("used_mem", 0), shell_cases[j]["mem"])
        if bad:
            rep.violation({"kind": "shell", "shell": name, "why": bad.split(":")[0].split(" ")[0]},
                          {"src": shell_cases[j]["src"], "limit": L, "observed": {k: v for k, v in o.items() if k != "trace"}, "why": bad})
        if o.get("trace") is not None and not o.get("timeout"):
            traces.append(("shell:%s@%d" % (name, L), [clamp_ev(e) for e in o["trace"]]))

    # ---------------- memory pumps (C06): keep 5 MB of strings alive under a 2 MB limit while releasing memory in between
    if resource == "mem" and not light:
        pcases = []
        for name, prelude, body in PUMPS:
            src = ('%s\nlocal keep = {}\nfor i = 1, 100 do\n  keep[i] = string.rep("x", 50000) .. i\n  %s\nend\nemit("kept", 100 * 50000)' % (prelude, body))
            pcases.append({"id": len(pcases), "src": src, "cpu": BIG, "mem": 2000000, "timeout": 60000, "trace": "ctx"})
        pouts = run_lua_cases(drv, pcases)
        cov["memory_pumps"] = len(pcases)
        for j, (name, prelude, body) in enumerate(PUMPS):
            o = pouts[j]
            bad = None
            if o.get("timeout") or o.get("crash") or o.get("panic"):
                bad = "crash-or-hang: " + (o.get("panic") or o.get("stderr", "") or "timeout")[:200]
            elif o.get("status") != "killed":
                bad = "kept: 5000000 bytes of strings kept alive under a memory limit of 2000000 and the context ended with status %r (used_mem %s)" % (o.get("status"), o.get("used_mem"))
            if bad:
                rep.violation({"kind": "pump", "pump": name, "why": bad.split(":")[0]},
                              {"src": pcases[j]["src"], "limit": 2000000, "observed": {k: v for k, v in o.items() if k != "trace"}, "why": bad})
            if o.get("trace") is not None and not o.get("timeout"):
                traces.append(("pump:%s" % name, [clamp_ev(e) for e in o["trace"]]))

    # ---------------- holders (C06): accounted memory at the peak vs the live Go heap, decided by TLC (THeapVerdict)
    if resource == "mem" and not light:
        hcases = [{"id": j, "src": HOLDER_PRE + src, "cpu": 20000000000, "mem": 1500000000, "timeout": 240000, "heap": True}
                  for j, (name, src) in enumerate(HOLDERS)]
        houts = run_lua_cases(drv, hcases, nproc=3)      # few at a time: each holds 20-130 MB
        cov["memory_holders"] = {}
        for j, (name, src) in enumerate(HOLDERS):
            o = houts[j]
            pk = [e for e in o.get("events", []) if e and isinstance(e[0], dict) and e[0].get("s") == "peak"]
            if o.get("timeout") or o.get("crash") or o.get("panic") or not o.get("ok") or not pk:
                rep.violation({"kind": "holder", "holder": name, "why": "did-not-complete"},
                              {"src": hcases[j]["src"], "observed": {k: v for k, v in o.items() if k != "trace"}})
                continue
            acc, heap = int(pk[0][1]["i"]), int(o.get("heap_peak", 0))
            cov["memory_holders"][name] = {"accounted_at_peak": acc, "go_heap_peak": heap, "ratio": round(heap / max(acc, 1), 2)}
            # one-event trace: TLC decides whether the Go heap is within the constant factor of the accounted memory (KiB)
            traces.append(("holder:%s" % name, [{"k": "heapverdict", "acc": min(acc >> 10, CLAMP), "heap": min(heap >> 10, CLAMP)}]))

    # ---------------- amplification: one library call with a size parameter, small limits
    acases, ameta = [], []
    Ns = (10000, 10000000, 1 << 31, 1 << 40) if tier == "quick" else (1000, 10000, 1000000, 10000000, 1 << 31, (1 << 31) + 1, 1 << 40, (1 << 62))
    for name, body in ([] if light else AMPL):
        for N in Ns:
            src = "local N = %d\nlocal function f() %s end\nlocal r = table.pack(pcall(f))\nemit('done', r[1], math.type(r[2]) == 'integer' and r[2] or -1)" % (N, body)
            c = {"id": len(acases), "src": src, "timeout": 90000, "alloc": True}
            if resource == "cpu":
                c.update(cpu=200000, mem=64000000)   # the memory the context may hold bounds the work between two ticks
            else:
                c.update(cpu=20000000, mem=2000000)
            acases.append(c)
            ameta.append((name, N))
    aouts = run_lua_cases(drv, acases, nproc=max(2, NCPU // 2))
    log("[%s] %d amplification runs done (%.0fs)" % (prop, len(acases), time.time() - rep.t0))
    for j, (name, N) in enumerate(ameta):
        o = aouts[j]
        cov["amplification_cases"] += 1
        bad = None
        lim = acases[j]["cpu"] if resource == "cpu" else acases[j]["mem"]
        used = o.get("used_cpu", 0) if resource == "cpu" else o.get("used_mem", 0)
        if o.get("timeout"):
            bad = "hang: an operation ran unmetered for 90 s"
        elif o.get("crash") or o.get("panic"):
            bad = "crash: " + (o.get("panic") or o.get("stderr", ""))[:300]
        elif o.get("status") not in ("killed", "done", "error"):
            bad = "status %r" % o.get("status")
        elif used >= lim:
            bad = "used %d >= limit %d" % (used, lim)
        elif o.get("wall_ms", 0) > 45000:
            bad = "slow: %d ms of work under a limit of %d units" % (o.get("wall_ms", 0), lim)
        elif resource == "mem" and o.get("status") in ("done", "error") and o["events"] and o["events"][-1][1] is True \
                and int((o["events"][-1][2] or {}).get("i", "-1")) > lim:
            bad = "built: a value of %s bytes was built and returned inside a context whose memory limit is %d" % (o["events"][-1][2].get("i"), lim)
        elif resource == "mem" and o.get("alloc_bytes", 0) > 64 * lim + (64 << 20):
            bad = "heap: %d bytes allocated under a memory limit of %d" % (o.get("alloc_bytes", 0), lim)
        if bad:
            rep.violation({"kind": "amplification", "template": name, "why": bad.split(":")[0]},
                          {"src": acases[j]["src"], "limit": lim, "observed": {k: v for k, v in o.items() if k != "trace"}, "why": bad})
    cov["amplification_templates"] = len(AMPL)

    # ---------------- TLC decides: every recorded trace must be a behaviour of Quota.tla
    cov["traces_validated_against_impl"] = cov.get("traces_validated_against_impl", 0) + len(traces)
    cov["trace_events"] += sum(len(t) for _, t in traces)
    rejected = 0
    pending = traces
    while pending:
        ok, info = validate_traces("QuotaTrace", "QuotaTrace.cfg", pending, FIELDS, timeout=2400)
        log("[%s] %d traces / %d events validated by TLC: %s (%.0fs)" % (prop, len(pending), info["lines"], "accepted" if ok else "rejected at " + str(info.get("event", {}).get("k")), time.time() - rep.t0))
        cov["states"] += info["states"]
        cov["transitions"] += info["states"]
        if ok:
            break
        rejected += 1
        ti = info["trace_index"]
        tag = pending[ti][0]
        ev = info["event"]
        sig = {"kind": "trace-rejected", "event": ev.get("k", ""), "family": tag.split("#")[0].split("@")[0].split(":")[-1] if tag.startswith("shell:") else tag.split("#")[0],
               "st": ev.get("st", "")}
        rep.violation(sig, {"trace": tag, "rejected_at": ev, "context": info["context"],
                            "note": "QuotaTrace.tla cannot match this event after the longest matched prefix"})
        if rejected >= 12:
            break
        pending = pending[ti + 1:]   # keep validating the remaining traces
    cov["rejected_traces"] = cov.get("rejected_traces", 0) + rejected
    cov["exhaustive"] = False
    cov["explanation"] = cov.get("explanation", "") + (" | programs from the CloseStack/ErrorFlow/CoSem generators, adversarial never-ending shells and library amplification "
                          "templates run on the real runtime under limits around their own usage; context hook traces validated by TLC against Quota.tla")
    rep.assumptions += ["limits and amounts above 10^9 are clamped in the trace file (TLC integers are 32-bit)",
                        "wall-clock watchdogs and MemStats.TotalAlloc bounds are observations of the real process, not decided by the specification"]

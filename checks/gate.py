"""C08: compliance flags gate every Go function; iosafe means no outside access.  Gate.tla over an inventory extracted
from the real runtime (dynamic scan through the verif accessor) and its sources (static reachability of OS primitives)."""
import json, os, re, sys, random, glob
sys.path.insert(0, os.path.join(os.path.dirname(os.path.abspath(__file__)), "..", "lib"))
from vlib import *

SCANNER = r'''
local seen = {}
local function walk(v, path, depth)
  local tv = type(v)
  if tv == "function" then
    if not seen[v] then
      seen[v] = true
      local fl, nm = __flags(v)
      if fl ~= nil and nm ~= "emit" and nm ~= "__flags" then emit("fn", path, fl, nm) end
    end
  elseif tv == "table" then
    if depth < 5 and not seen[v] then
      seen[v] = true
      for k, x in pairs(v) do
        if type(k) == "string" then walk(x, path .. "[" .. string.format("%q", k) .. "]", depth + 1) end
      end
      local mt = getmetatable(v)
      if type(mt) == "table" then walk(mt, "getmetatable(" .. path .. ")", depth + 1) end
    end
  elseif tv == "userdata" or tv == "string" then
    local mt = getmetatable(v)
    if type(mt) == "table" then walk(mt, "getmetatable(" .. path .. ")", depth + 1) end
  end
end
walk(_G, "_G", 0)
walk(package.loaded, "package.loaded", 0)
walk("", '("")', 0)
walk(io.stdout, "io.stdout", 0)
for _, expr in ipairs{'string.gmatch("a", "a")', 'pairs({})', 'ipairs({})', 'io.lines("existing.txt")', 'utf8.codes("a")',
                      'coroutine.wrap(function() end)', 'io.open("existing.txt"):lines()', 'select(2, pcall(runtime.context))',
                      'getmetatable(runtime.context())'} do
  local ok, f = pcall(load("return " .. expr))
  if ok then walk(f, "(" .. expr .. ")", 3) end
end
'''

OS_PRIM = re.compile(r"\b(os\.(OpenFile|Open|Create|Remove|RemoveAll|Rename|Mkdir|MkdirAll|ReadFile|WriteFile|Stat|Lstat|ReadDir|Chdir|Exit|"
                     r"Getenv|Setenv|TempDir|CreateTemp|MkdirTemp|Executable|StartProcess)|exec\.Command|plugin\.Open|ioutil\.(ReadFile|WriteFile|"
                     r"TempFile|TempDir|ReadDir)|net\.(Dial|Listen)|syscall\.)")
SAFEIO = re.compile(r"\bsafeio\.")


def static_classes():
    """Lua-visible name -> 'pure' | 'safeio' | 'os', from the sources of /repo/lib (regex reading of the registrations
    and a bounded transitive closure over package-local functions)."""
    classes = {}
    for d in sorted(glob.glob(os.path.join(REPO, "lib", "*"))):
        if not os.path.isdir(d):
            continue
        src = ""
        for f in glob.glob(os.path.join(d, "*.go")):
            if not f.endswith("_test.go"):
                src += open(f, errors="replace").read() + "\n"
        bodies = {}
        for m in re.finditer(r"\nfunc (?:\([^)]*\) )?(\w+)\(", src):
            start = m.start()
            nxt = src.find("\nfunc ", start + 5)
            bodies[m.group(1)] = src[start:nxt if nxt > 0 else len(src)]

        def cls(fn, depth=0, seen=None):
            seen = seen or set()
            if fn in seen or fn not in bodies or depth > 4:
                return "pure"
            seen.add(fn)
            b = bodies[fn]
            c = "os" if OS_PRIM.search(b) else ("safeio" if SAFEIO.search(b) else "pure")
            for callee in set(re.findall(r"\b(\w+)\(", b)):
                if callee in bodies and callee != fn:
                    cc = cls(callee, depth + 1, seen)
                    if cc == "os" or (cc == "safeio" and c == "pure"):
                        c = cc
            return c

        for m in re.finditer(r'SetEnvGoFunc\(\s*\w+,\s*"([^"]+)",\s*(\w+)', src):
            classes.setdefault((os.path.basename(d), m.group(1)), cls(m.group(2)))
        for m in re.finditer(r'NewGoFunction\(\s*(\w+),\s*"([^"]+)"', src):
            classes.setdefault((os.path.basename(d), m.group(2)), cls(m.group(1)))
    return classes


POOL = ['"existing.txt"', '"new.txt"', '"sub"', '"touch pwned.txt"', '"w"', '"a"', "1", "{}"]


def call_chunk(path, tuples, req, inner=None):
    """the function is obtained OUTSIDE the restricted context; the calls happen inside runtime.callcontext{flags=req}"""
    out = ["local f = %s" % path,
           "local function show(v) if type(v) == 'string' then return v end return type(v) end",
           "local iotype, pc = io.type, pcall",
           "local function body()"]
    for i, t in enumerate(tuples):
        out.append("  do local r = table.pack(pcall(f%s)) emit(%d, r[1], show(r[2])) "
                   "if iotype(r[2]) == 'file' then pc(r[2].close, r[2]) end end" % ("".join(", " + a for a in t), i))
    out.append('  emit("alive")')
    out.append("end")
    if inner is None or inner.get("none"):
        out.append('emit("ctx", runtime.callcontext({flags = "%s"}, body))' % " ".join(req))
    else:
        kill = []
        if inner["cpu"]:
            kill.append("cpu = 100000000")
        if inner["mem"]:
            kill.append("memory = 1000000000")
        idef = '{flags = "%s"%s}' % (" ".join(sorted(inner["flags"])), (", kill = {%s}" % ", ".join(kill)) if kill else "")
        out.append('emit("ctx", runtime.callcontext({flags = "%s"}, function() return runtime.callcontext(%s, body) end))' % (" ".join(req), idef))
    return "\n".join(out) + "\n"


def run(prop, tier):
    rep = Report(prop, tier, "model_checking")
    cov = rep.cov
    cov.update(states=0, transitions=0, traces_validated_against_impl=0)
    drv = build_driver()
    o = run_lua_cases(drv, [{"id": 0, "src": SCANNER, "helpers": True, "sandbox": True, "timeout": 20000}])[0]
    if not o.get("ok"):
        raise Infra("inventory scan failed: %s" % (o.get("errstr") or o.get("panic") or o))
    inv = []
    for e in o["events"]:
        path, fl, nm = e[1]["s"], e[2]["s"], e[3]["s"]
        inv.append({"path": path, "flags": sorted(fl.split()), "name": nm})
    if len(inv) < 100:
        raise Infra("inventory suspiciously small: %d functions" % len(inv))
    classes = static_classes()
    byname = {}
    for (pkg, nm), c in classes.items():
        # worst class over packages that register the same Lua name
        byname[nm] = max(byname.get(nm, "pure"), c, key=["pure", "safeio", "os"].index)
    for f in inv:
        f["class"] = byname.get(f["name"], "pure")
    cov["inventory"] = len(inv)
    cov["inventory_by_class"] = {c: sum(1 for f in inv if f["class"] == c) for c in ("pure", "safeio", "os")}
    cov["undeclared_functions"] = sorted(f["path"] for f in inv if not f["flags"])[:40]
    # ---- TLC over the inventory
    allsets = [[], ["iosafe"], ["cpusafe"], ["memsafe"], ["timesafe"], ["memsafe", "cpusafe", "iosafe", "timesafe"]]
    if tier == "thorough":
        import itertools
        fl = ["memsafe", "cpusafe", "iosafe", "timesafe"]
        allsets = [list(c) for r in range(5) for c in itertools.combinations(fl, r)]
    tset = lambda s: "{" + ", ".join('"%s"' % x for x in s) + "}"
    mc = os.path.join(scratch(), "GateMC.tla")
    with open(mc, "w") as f:
        f.write("------------------------------ MODULE GateMC ------------------------------\nEXTENDS Gate\n")
        f.write("DeclaredC == <<%s>>\n" % ", ".join(tset(x["flags"]) for x in inv))
        f.write("ClassC == <<%s>>\n" % ", ".join('"%s"' % x["class"] for x in inv))
        f.write("ReqSetsC == {%s}\n" % ", ".join(tset(s) for s in allsets))
        f.write('InnerDefsC == {[flags |-> {}, cpu |-> TRUE, mem |-> FALSE], [flags |-> {"memsafe"}, cpu |-> FALSE, mem |-> FALSE], '
                '[flags |-> {}, cpu |-> FALSE, mem |-> TRUE], [flags |-> {"timesafe"}, cpu |-> FALSE, mem |-> FALSE], [flags |-> {}, cpu |-> FALSE, mem |-> FALSE]}\n')
        f.write("=============================================================================\n")
    cfgp = os.path.join(scratch(), "GateMC.cfg")
    with open(cfgp, "w") as f:
        f.write("SPECIFICATION Spec\nINVARIANT RefusedBeforeEffect\nCHECK_DEADLOCK FALSE\nCONSTANTS\n  NFn = %d\n  Declared <- DeclaredC\n  Class <- ClassC\n  ReqSets <- ReqSetsC\n  InnerDefs <- InnerDefsC\n" % len(inv))
    lines = []
    res = run_tlc("GateMC", "GateMC.cfg", extra_files=[mc, cfgp], on_line=lines.append, timeout=900)
    if res.violation:
        raise Infra("Gate.tla: %s" % res.violation)
    cov["states"], cov["transitions"] = res.distinct, res.generated
    leads = [l for l in lines if l["iosafelead"]]
    cov["static_iosafe_leads"] = sorted(set(inv[l["f"] - 1]["path"] for l in leads))
    # ---- dynamic: every (function, required set) with argument tuples from the pool, in a sentinel directory
    tuples = [()] + [(a,) for a in POOL] + [(a, b) for a in POOL for b in POOL]
    if tier == "quick":
        rng = random.Random(seed())
        tuples = [()] + [(a,) for a in POOL] + rng.sample([(a, b) for a in POOL for b in POOL], 24)
    cases, meta = [], []
    for l in lines:
        f = inv[l["f"] - 1]
        if f["name"] == "exit" and l["exp"] == "runs":
            continue    # os.exit would end the driver itself
        nested = not l["inner"].get("none")
        if nested and tier == "quick" and f["class"] == "pure" and (l["f"] % 7) != 0:
            continue   # quick tier: nested contexts for every function that can reach the outside, and a sample of the pure ones
        cases.append({"id": len(cases), "src": call_chunk(f["path"], tuples if not nested else tuples[:12], sorted(l["outer"]), l["inner"]), "sandbox": True,
                      "timeout": 20000, "maxev": 100000})
        meta.append((f, l))
    outs = run_lua_cases(drv, cases, nproc=max(2, NCPU // 2))
    for i, (f, l) in enumerate(meta):
        o = outs[i]
        cov["traces_validated_against_impl"] += 1
        req = sorted(l["req"])
        why = None
        if o.get("crash") or o.get("panic"):
            why = ("crash", (o.get("panic") or o.get("stderr", ""))[:300])
        elif o.get("timeout"):
            # blocking on input is possible for a function that runs; a refused call must return at once
            if l["exp"] == "flag-error":
                why = ("hang", "a call that must be refused did not return")
        else:
            evs = o["events"]
            alive = any(e == [{"s": "alive"}] for e in evs)
            calls = [e for e in evs if isinstance(e[0], dict) and "i" in e[0]]
            if l["exp"] == "flag-error":
                if not alive:
                    why = ("context-not-alive", o.get("errstr", "")[:200])
                elif any(e[1] is not False for e in calls) or len(calls) != (len(tuples) if l["inner"].get("none") else min(12, len(tuples))):
                    why = ("not-refused", "a call with required flags %s succeeded or did not fail ordinarily" % req)
                elif o.get("fs_changes"):
                    why = ("effect-before-refusal", str(o["fs_changes"]))
            else:
                if "iosafe" in req and o.get("fs_changes"):
                    why = ("effect-under-iosafe", str(o["fs_changes"]))
                elif not alive and not (o.get("status") == "killed"):
                    pass   # the function may legitimately raise out of pcall? no: pcall catches everything but kills
        if why:
            rep.violation({"kind": why[0], "fn": f["name"], "req": "+".join(req), "nested": not l["inner"].get("none")},
                          {"cmd": "lua-run", "src": cases[i]["src"][:3000], "flags": req, "function": f, "observed": {k: v for k, v in o.items() if k != "events"},
                           "why": why[1], "static_class": f["class"]})
    rep.sample({"function": inv[0], "required": allsets[1], "argument_tuples": len(tuples)})
    cov["explanation"] = ("inventory of %d Go functions reachable from _G, package.loaded, metatables and iterators; TLC gives the expected outcome for every "
                          "(function, required flag set); each is called with %d argument tuples in a sentinel directory" % (len(inv), len(tuples)))
    rep.assumptions += ["outside effects are observed as changes of a sentinel directory (files created/modified/deleted, including by spawned commands); network and plugin effects are not observable here",
                        "the static effect class is a regex reading of the sources and only produces leads"]
    return rep.finish()

"""C08: compliance flags gate every Go function; iosafe means no outside access.  Gate.tla over an inventory extracted
from the real runtime (dynamic scan through the verif accessor) and its sources (static reachability of OS primitives)."""
import json, os, re, sys, random, glob, time
sys.path.insert(0, os.path.join(os.path.dirname(os.path.abspath(__file__)), "..", "lib"))
from vlib import *

SCANNER = r'''
local seen = {}
local later
local function walk(v, path, depth)
  local tv = type(v)
  if tv == "function" then
    if not seen[v] then
      seen[v] = true
      local fl, nm = __flags(v)
      if fl ~= nil and nm ~= "emit" and nm ~= "__flags" then emit("fn", path, fl, nm) end
    end
  elseif tv == "table" then
    if depth < 5 and not seen[v] then
      seen[v] = true
      local keys = {}
      for k in pairs(v) do if type(k) == "string" then keys[#keys + 1] = k end end
      table.sort(keys)      -- a determined traversal: the same function is always reported under the same path
      for _, k in ipairs(keys) do
        walk(v[k], path .. "[" .. string.format("%q", k) .. "]", depth + 1)
      end
      local mt = getmetatable(v)
      if type(mt) == "table" then walk(mt, "getmetatable(" .. path .. ")", depth + 1) end
    end
  elseif tv == "userdata" or tv == "string" then
    -- metatables of values met on the way are looked at last, so that a library function is reported under its library
    if later then later[#later + 1] = {v, path, depth}
    else
      local mt = getmetatable(v)
      if type(mt) == "table" then walk(mt, "getmetatable(" .. path .. ")", depth + 1) end
    end
  end
end
later = {}
walk(_G, "_G", 0)
walk(package.loaded, "package.loaded", 0)
local q = later
later = nil
walk("", '("")', 0)
walk(io.stdout, "io.stdout", 0)
for _, x in ipairs(q) do walk(x[1], x[2], x[3]) end
for _, expr in ipairs{'string.gmatch("a", "a")', 'pairs({})', 'ipairs({})', 'io.lines("existing.txt")', 'utf8.codes("a")',
                      'coroutine.wrap(function() end)', 'io.open("existing.txt"):lines()', 'select(2, pcall(runtime.context))',
                      'getmetatable(runtime.context())',
                      -- functions that only exist as the results of library calls: the loaders returned by the searchers
                      '(package.searchers[2]("existingmod"))', '(package.searchers[1]("string"))', '(package.searchpath and package.searchers[2]("existingmod"))'} do
  local ok, f = pcall(load("return " .. expr))
  if ok then walk(f, "(" .. expr .. ")", 3) end
end
'''

OS_PRIM = re.compile(r"\b(os\.(OpenFile|Open|Create|Remove|RemoveAll|Rename|Mkdir|MkdirAll|ReadFile|WriteFile|Stat|Lstat|ReadDir|Chdir|Exit|"
                     r"Getenv|Setenv|TempDir|CreateTemp|MkdirTemp|Executable|StartProcess)|exec\.Command|plugin\.Open|ioutil\.(ReadFile|WriteFile|"
                     r"TempFile|TempDir|ReadDir)|net\.(Dial|Listen)|syscall\.)")
SAFEIO = re.compile(r"\bsafeio\.")


def static_classes():
    """Lua-visible name -> 'pure' | 'safeio' | 'os', from the sources of /repo/lib (regex reading of the registrations
    and a bounded transitive closure over package-local functions)."""
    classes = {}
    for d in sorted(glob.glob(os.path.join(REPO, "lib", "*"))):
        if not os.path.isdir(d):
            continue
        src = ""
        for f in glob.glob(os.path.join(d, "*.go")):
            if not f.endswith("_test.go"):
                src += open(f, errors="replace").read() + "\n"
        bodies = {}
        for m in re.finditer(r"\nfunc (?:\([^)]*\) )?(\w+)\(", src):
            start = m.start()
            nxt = src.find("\nfunc ", start + 5)
            bodies[m.group(1)] = src[start:nxt if nxt > 0 else len(src)]

        def cls(fn, depth=0, seen=None):
            seen = seen or set()
            if fn in seen or fn not in bodies or depth > 4:
                return "pure"
            seen.add(fn)
            b = bodies[fn]
            c = "os" if OS_PRIM.search(b) else ("safeio" if SAFEIO.search(b) else "pure")
            for callee in set(re.findall(r"\b(\w+)\(", b)):
                if callee in bodies and callee != fn:
                    cc = cls(callee, depth + 1, seen)
                    if cc == "os" or (cc == "safeio" and c == "pure"):
                        c = cc
            return c

        for m in re.finditer(r'SetEnvGoFunc\(\s*\w+,\s*"([^"]+)",\s*(\w+)', src):
            classes.setdefault((os.path.basename(d), m.group(1)), cls(m.group(2)))
        for m in re.finditer(r'NewGoFunction\(\s*(\w+),\s*"([^"]+)"', src):
            classes.setdefault((os.path.basename(d), m.group(2)), cls(m.group(1)))
    return classes


POOL = ['"existing.txt"', '"existingmod.lua"', '"new.txt"', '"sub"', '"touch pwned.txt"', '"w"', '"a"', "1", "{}"]
FLAGS = ["memsafe", "cpusafe", "iosafe", "timesafe"]
QUICKSETS = [[], ["iosafe"], ["cpusafe"], ["memsafe"], ["timesafe"], ["memsafe", "cpusafe", "iosafe", "timesafe"]]

# hard limits of a context definition: generous when the context is meant to end by itself, small when it has to be
# terminated by the limit (exit = "kill")
BIG = {"cpu": "cpu = 100000000", "mem": "memory = 1000000000", "ms": "millis = 600000"}
SMALL = {"cpu": "cpu = 300000", "mem": "memory = 500000", "ms": "millis = 40"}
KILLCODE = {"none": "runtime.killcontext()", "cpu": "while true do end", "ms": "while true do end",
            "mem": 'do local s = "xxxxxxxx" while true do s = s .. s end end'}


def lua_def(d, small=False):
    parts = []
    if d["flags"]:
        parts.append('flags = "%s"' % " ".join(sorted(d["flags"])))
    if d["lim"] != "none":
        parts.append("kill = {%s}" % (SMALL if small else BIG)[d["lim"]])
    return "{" + ", ".join(parts) + "}"


def chain_call(ch, bodyname, kill=False):
    """Lua statement running <bodyname> in the innermost context of the chain; emits ("ctx", status of the innermost)"""
    inner = 'emit("ctx", tostring(runtime.callcontext(%s, %s)))' % (lua_def(ch[-1], small=kill), bodyname)
    for d in reversed(ch[:-1]):
        inner = "runtime.callcontext(%s, function() %s end)" % (lua_def(d), inner)
    return inner


PRELUDE = ("local function show(v) if type(v) == 'string' then return v end return type(v) end\n"
           "local iotype, pc, pack = io.type, pcall, table.pack\n"
           "local function closeres(r) if iotype(r) == 'file' then pc(r.close, r) end end\n")


def call_chunk(path, tuples, ch):
    """the function is obtained OUTSIDE the restricted context; the calls happen inside the innermost context of the chain"""
    out = ["local f = %s" % path,
           "local function show(v) if type(v) == 'string' then return v end return type(v) end",
           "local iotype, pc = io.type, pcall",
           "local function body()"]
    for i, t in enumerate(tuples):
        out.append("  do local r = table.pack(pcall(f%s)) emit(%d, r[1], show(r[2])) "
                   "if iotype(r[2]) == 'file' then pc(r[2].close, r[2]) end end" % ("".join(", " + a for a in t), i))
    out.append('  emit("alive")')
    out.append("end")
    out.append(chain_call(ch, "body"))
    return "\n".join(out) + "\n"


# ---------------------------------------------------------------------------------------------------------------------
# rendering of the routes of Gate.tla.  A rendering only fixes the SHAPE of the Lua program (how the handler H is
# installed and which operation triggers it); which routes exist, what they need and what has to happen is the spec's.
#   args:  "free"  the triggering operation passes arguments of our choice to H (go mode: one trigger per tuple)
#          "str1"  one string argument of our choice
#          "fixed" the arguments are determined by the operation
#   out:   statements before the context is entered;   code: body of the function whose pcall is the "site"
#   ret:   what a handler has to return for the operation to succeed (given to the probe / returned by the Lua closure)
# placeholders: @H handler, @I function index, @A arguments "a, b", @CA the same with a leading comma when non-empty

def _mm(ev, code, ret="nil"):
    return {"args": "fixed", "ret": ret,
            "out": "local mt@I = {%s = @H}; local a@I, b@I = setmetatable({}, mt@I), setmetatable({}, mt@I)" % ev,
            "code": code.replace("@a", "a@I").replace("@b", "b@I")}


def _cl(code, ret="nil"):
    return {"args": "fixed", "ret": ret, "out": "local cv@I = setmetatable({}, {__close = @H})", "code": code.replace("cv", "cv@I")}


HOOKCO = "local co = coroutine.create(function()\n local x = type(1)\n return x\n end) debug.sethook(co, @H, \"%s\") coroutine.resume(co)"

RENDER = {
    "call": {"args": "free", "code": "local r = pack(@H(@A)) closeres(r[1]) return r[1]"},
    "tailcall": {"args": "free", "code": "return @H(@A)"},
    "method": {"args": "free", "code": "local t = {m = @H} local r = pack(t:m(@A)) closeres(r[1])"},
    "strmethod": {"args": "fixed", "out": 'string["zz@I"] = @H', "code": 'return ("touch pwned.txt"):zz@I()'},
    "pcall": {"args": "free", "code": "local r = pack(pc(@H@CA)) closeres(r[2]) if not r[1] then error(r[2], 0) end"},
    "xpcall": {"args": "free", "code": "local r = pack(xpcall(@H, function(m) return m end@CA)) closeres(r[2]) if not r[1] then error(r[2], 0) end"},
    "xpcall-handler": {"args": "str1", "code": "return xpcall(error, @H, @A)"},
    "co-wrap": {"args": "free", "code": "local r = pack(coroutine.wrap(@H)(@A)) closeres(r[1])"},
    "co-resume": {"args": "free", "code": "local r = pack(coroutine.resume(coroutine.create(@H)@CA)) closeres(r[2]) if not r[1] then error(r[2], 0) end"},
    "load-chunk": {"args": "free", "code": 'local r = pack(assert(load("local h = ...; return h(select(2, ...))"))(@H@CA)) closeres(r[1])'},
    "load-reader": {"args": "fixed", "code": "assert(load(@H))"},
    "for-iter": {"args": "free", "code": "for x in @H@CA do closeres(x) break end"},
    "ctx-body": {"args": "free", "code": 'local r = pack(runtime.callcontext({}, @H@CA)) closeres(r[2]) assert(tostring(r[1]) == "done")'},
    "sort-cmp": {"args": "fixed", "code": "table.sort({2, 1, 3}, @H)"},
    "gsub-repl": {"args": "str1", "code": 'return string.gsub(@A, ".+", @H)'},
    "hook-call": {"args": "fixed", "code": HOOKCO % "c"},
    "hook-return": {"args": "fixed", "code": HOOKCO % "r"},
    "hook-line": {"args": "fixed", "code": HOOKCO % "l"},
    "mm-index": _mm("__index", "return @a.k"),
    "mm-newindex": _mm("__newindex", "@a.k = 1"),
    "mm-call": _mm("__call", "return @a(1)"),
    "mm-eq": _mm("__eq", "return @a == @b"),
    "mm-lt": _mm("__lt", "return @a < @b"),
    "mm-le": _mm("__le", "return @a <= @b"),
    "mm-concat": _mm("__concat", 'return @a .. "x"'),
    "mm-len": _mm("__len", "return #@a"),
    "mm-unm": _mm("__unm", "return -@a"),
    "mm-add": _mm("__add", "return @a + 1"),
    "mm-sub": _mm("__sub", "return @a - 1"),
    "mm-mul": _mm("__mul", "return @a * 1"),
    "mm-div": _mm("__div", "return @a / 1"),
    "mm-mod": _mm("__mod", "return @a % 1"),
    "mm-pow": _mm("__pow", "return @a ^ 1"),
    "mm-idiv": _mm("__idiv", "return @a // 1"),
    "mm-band": _mm("__band", "return @a & 1"),
    "mm-bor": _mm("__bor", "return @a | 1"),
    "mm-bxor": _mm("__bxor", "return @a ~ 1"),
    "mm-shl": _mm("__shl", "return @a << 1"),
    "mm-shr": _mm("__shr", "return @a >> 1"),
    "mm-bnot": _mm("__bnot", "return ~@a"),
    "mm-tostring": _mm("__tostring", "return tostring(@a)", '"s"'),
    "mm-tostring-format": _mm("__tostring", 'return string.format("%s", (@a))', '"s"'),
    "mm-tostring-print": _mm("__tostring", "print(@a)", '"s"'),
    "mm-pairs": _mm("__pairs", "for k in pairs(@a) do break end", "function() end"),
    "mm-index-unpack": _mm("__index", "return table.unpack(@a, 1, 1)"),
    "mm-index-ipairs": _mm("__index", "for i, v in ipairs(@a) do break end"),
    "mm-len-unpack": _mm("__len", "return table.unpack(@a)", "0"),
    "mm-newindex-insert": _mm("__newindex", "table.insert(@a, 1)"),
    "mm-lt-sort": _mm("__lt", "table.sort({@a, @b})"),
    "close-scope": _cl("do local x <close> = cv end"),
    "close-return": _cl("return (function() local x <close> = cv return 1 end)()"),
    "close-break": _cl("for i = 1, 1 do local x <close> = cv break end"),
    "close-error": _cl('pc(function() local x <close> = cv error("e") end)'),
    "close-for": _cl("for k in next, {1}, nil, cv do end"),
    "close-coclose": _cl("local co = coroutine.create(function() local x <close> = cv coroutine.yield() end) coroutine.resume(co) assert(coroutine.close(co))"),
    "close-co-error": _cl('local co = coroutine.wrap(function() local x <close> = cv error("e") end) pc(co)'),
    # pending in the body of the context when it ends: a statement of the body itself, no site
    "ctxclose-error": {"args": "fixed", "out": "local cv@I = setmetatable({}, {__close = @H})", "stmt": "local x@I <close> = cv@I"},
    "ctxclose-kill": {"args": "fixed", "out": "local cv@I = setmetatable({}, {__close = @H})", "stmt": "local x@I <close> = cv@I"},
}
for _k, _obj in (("table", "setmetatable({}, {__gc = @H})"), ("udata", "newres(@I, @H)")):
    RENDER["gc-%s-return" % _k] = {"args": "fixed", "stmt": "local keep@I = " + _obj}
    RENDER["gc-%s-error" % _k] = {"args": "fixed", "stmt": "local keep@I = " + _obj}
    RENDER["gc-%s-kill" % _k] = {"args": "fixed", "stmt": "local keep@I = " + _obj}
    RENDER["gc-%s-collect" % _k] = {"args": "fixed", "stmt": ";(function() local v = %s end)()" % _obj,
                                    "tail": "gogc() for i = 1, 20 do local t = {} end"}


def route_program(fns, route, mode, exit_, ch, tuples):
    """fns: list of (index, Lua expression of the function given the value its handler has to return).  One program
    exercises the route once per function (probes share a program, a library function gets its own)."""
    R = RENDER[route]
    ret = R.get("ret", "nil")
    if R["args"] == "free":
        tl = tuples
    elif R["args"] == "str1":
        tl = [t for t in tuples if len(t) == 1 and t[0].startswith('"')]
    else:
        tl = [()]
    out = [PRELUDE]
    body = []
    for fi, fexpr in fns:
        out.append("local F%d = %s" % (fi, fexpr(ret)))
        if mode == "go":
            out.append("local H%d = F%d" % (fi, fi))
            trig = tl
        else:
            out.append("local function H%d(...)" % fi)
            for i, t in enumerate(tuples):
                out.append('  do local r = pack(pc(F%d%s)) emit("c", %d, %d, r[1], show(r[2])) closeres(r[2]) end'
                           % (fi, "".join(", " + a for a in t), fi, i))
            out.append("  return %s" % ret)
            out.append("end")
            trig = tl[:1]
        sub = lambda s, t=(): (s.replace("@H", "H%d" % fi).replace("@I", str(fi)).replace("@CA", "".join(", " + a for a in t))
                               .replace("@A", ", ".join(t)))
        if "out" in R:
            out.append(sub(R["out"]))
        if "stmt" in R:
            body.append("  " + sub(R["stmt"]))
        else:
            for k, t in enumerate(trig):
                body.append('  emit("s", %d, %d, (pc(function() %s end)))' % (fi, k, sub(R["code"], t)))
    out.append("local function body()")
    out += body
    if "tail" in R:
        out.append("  " + R["tail"])
    out.append('  emit("alive")')
    if exit_ == "error":
        out.append('  error("boom")')
    elif exit_ == "kill":
        out.append("  " + KILLCODE[ch[-1]["lim"]])
    out.append("end")
    out.append(chain_call(ch, "body", kill=(exit_ == "kill")))
    out.append('emit("after")')
    return "\n".join(out) + "\n"


def run_cases(binary, cases, nproc=None, timeout_s=900):
    """vlib.run_lua_cases, except that a driver process that ends with status 0 before it has answered every case is not
    a machinery failure here: the code under test can call os.exit (which must have been refused).  The first case
    without an answer is reported as a crash (with "exited": True) and the rest is run in a new process."""
    import concurrent.futures as cf
    nproc = nproc or NCPU
    cases = list(cases)
    parts = [cases[i:i + 200] for i in range(0, len(cases), 200)]     # small batches: the time limit is per driver process
    results = {}

    def work(part):
        res = {}
        rest = list(part)
        guard = 0
        while rest:
            guard += 1
            if guard > 200:
                raise Infra("too many driver restarts")
            rc, outs, err = run_driver(binary, ["lua-run"], rest, timeout=timeout_s)
            got = set()
            for o in outs:
                if isinstance(o, dict) and "id" in o:
                    res[o["id"]] = o
                    got.add(o["id"])
            if rc == -9:
                raise Infra("driver timed out: %s" % err[-500:])
            if rc == 3:
                idx = max(i for i, c in enumerate(rest) if c["id"] in got)   # hung case reported as timeout; continue after it
                rest = rest[idx + 1:]
                continue
            nxt = [i for i, c in enumerate(rest) if c["id"] not in got]
            if not nxt:
                break
            i = nxt[0]
            res[rest[i]["id"]] = {"id": rest[i]["id"], "crash": True, "rc": rc, "exited": rc in (0, 1), "stderr": err[-3000:], "events": []}
            rest = rest[i + 1:]
        return res

    with cf.ThreadPoolExecutor(max_workers=nproc) as ex:
        for r in ex.map(work, parts):
            results.update(r)
    return results


def lua_key(path, name):
    """dotted Lua name of an inventory path: _G["package"]["loaded"]["table"]["sort"] -> table.sort; others ~<go name>"""
    if not path.startswith("_G[") and not path.startswith("package.loaded["):
        return "~" + name
    comps = re.findall(r'\["([^"]+)"\]', path)
    while comps and comps[0] in ("_G", "package", "loaded"):
        comps = comps[1:]
    return ".".join(comps[-2:]) if comps else "~" + name


OUTLIVE = {
    # each installs HANDLER inside the context; the code after the context gives it every chance to run
    "hook-line": 'pcall(debug.sethook, HANDLER, "l")',
    "hook-call": 'pcall(debug.sethook, HANDLER, "c")',
    "hook-return": 'pcall(debug.sethook, HANDLER, "r")',
    "hook-count": 'pcall(debug.sethook, HANDLER, "", 1)',
    "hook-on-main-from-coroutine": 'local main = coroutine.running() coroutine.wrap(function() pcall(debug.sethook, main, HANDLER, "l") end)()',
    "gc-table": 'setmetatable({}, {__gc = HANDLER})',
    "gc-table-nested": 'runtime.callcontext({}, function() setmetatable({}, {__gc = HANDLER}) end)',
    "close-lost-sibling": 'local a <close> = setmetatable({}, {__close = HANDLER}) local mb = {__close = function() end} local b <close> = setmetatable({}, mb) mb.__close = nil error("x", 0)',
    "message-handler": 'xpcall(function() coroutine.yield() end, HANDLER)',
}


def outlive_family(rep, drv):
    """Outlive.tla: a handler installed inside a context requiring F never runs with fewer requirements"""
    lines = []
    res = run_tlc("Outlive", "Outlive.cfg", timeout=120, on_line=lines.append, workers=1)
    if res.violation:
        raise Infra("Outlive: " + res.violation)
    cases = []
    for i, l in enumerate(lines):
        if l["mech"] not in OUTLIVE:
            raise Infra("no rendering for mechanism " + l["mech"])
        # HANDLER must itself be callable under the flags: emit is compliant with all of them, runtime.context too
        src = ('local CO\nlocal function HANDLER() pcall(debug.sethook) emit("ran", runtime.context().flags) end\n'
               'pcall(runtime.callcontext, {flags = "%s"}, function()\n  %s\nend)\n'
               'local x = 0 for i = 1, 20 do x = x + i end local function f() return x end f() f()\n'
               'if CO then coroutine.close(CO) end\ncollectgarbage() collectgarbage()\nemit("end")' % (" ".join(sorted(l["req"])), OUTLIVE[l["mech"]]))
        cases.append({"id": i, "src": src, "timeout": 30000, "helpers": True})
    outs = run_lua_cases(drv, cases)
    rep.cov["outlive_cases"] = len(cases)
    ran = 0
    for i, l in enumerate(lines):
        o = outs[i]
        ok = [sorted(x) for x in l["ok"]]
        if o.get("timeout") or o.get("crash") or o.get("panic"):
            rep.violation({"kind": "outlive", "mech": l["mech"], "why": "crash-or-hang"}, {"src": cases[i]["src"], "observed": o})
            continue
        for e in o.get("events", []):
            if e and isinstance(e[0], dict) and e[0].get("s") == "ran":
                ran += 1
                seen = sorted((e[1] or {}).get("s", "").split())
                if seen not in ok:
                    rep.violation({"kind": "outlive", "mech": l["mech"], "why": "ran-with-fewer-flags", "req": "+".join(sorted(l["req"]))},
                                  {"src": cases[i]["src"], "required_inside": sorted(l["req"]), "required_when_it_ran": seen, "observed": o})
                    break
    rep.cov["outlive_handler_runs_observed"] = ran
    log("[%s] Outlive: %d (mechanism, flags) cases, handler ran %d times, always under the flags of its context" % (rep.prop, len(cases), ran))


def run(prop, tier):
    rep = Report(prop, tier, "model_checking")
    cov = rep.cov
    cov.update(states=0, transitions=0, traces_validated_against_impl=0)
    drv = build_driver()
    o = run_lua_cases(drv, [{"id": 0, "src": SCANNER, "helpers": True, "sandbox": True, "timeout": 20000}])[0]
    if not o.get("ok"):
        raise Infra("inventory scan failed: %s" % (o.get("errstr") or o.get("panic") or o))
    inv = []
    for e in o["events"]:
        path, fl, nm = e[1]["s"], e[2]["s"], e[3]["s"]
        if nm == "__probe":
            continue
        inv.append({"path": path, "flags": sorted(fl.split()), "name": nm, "kind": "lib"})
    if len(inv) < 100:
        raise Infra("inventory suspiciously small: %d functions" % len(inv))
    inv.sort(key=lambda f: f["path"])          # the traversal order of the scan is not determined
    classes = static_classes()
    byname = {}
    for (pkg, nm), c in classes.items():
        # worst class over packages that register the same Lua name
        byname[nm] = max(byname.get(nm, "pure"), c, key=["pure", "safeio", "os"].index)
    for f in inv:
        f["class"] = byname.get(f["name"], "pure")
        f["key"] = lua_key(f["path"], f["name"])
    nlib = len(inv)
    cov["inventory"] = nlib
    cov["inventory_by_class"] = {c: sum(1 for f in inv if f["class"] == c) for c in ("pure", "safeio", "os")}
    cov["undeclared_functions"] = sorted(f["path"] for f in inv if not f["flags"])[:40]
    # probes: harness Go functions, one per subset of the flags, whose only effect is to record that they ran
    import itertools
    for r_ in range(5):
        for c in itertools.combinations(FLAGS, r_):
            inv.append({"path": None, "flags": sorted(c), "name": "probe[%s]" % "+".join(sorted(c)), "kind": "probe", "class": "pure", "key": "~probe"})
    for i, f in enumerate(inv):
        f["id"] = i + 1

    def fexpr(f):
        if f["kind"] == "probe":
            return lambda ret, f=f: '__probe("%s", %d, %s)' % (" ".join(f["flags"]), f["id"], ret)
        return lambda ret, f=f: f["path"]
    # ---- TLC over the inventory
    allsets = QUICKSETS
    if tier == "thorough":
        allsets = [list(c) for r_ in range(5) for c in itertools.combinations(FLAGS, r_)]
    tset = lambda s: "{" + ", ".join('"%s"' % x for x in s) + "}"
    tdef = lambda fl, lim: '[flags |-> %s, lim |-> "%s"]' % (tset(fl), lim)
    inner_defs = [([], "cpu"), (["memsafe"], "none"), ([], "mem"), (["timesafe"], "none"), ([], "none"), ([], "ms")]
    direct = ["<<%s>>" % tdef(s, "none") for s in allsets] + ["<<%s, %s>>" % (tdef(s, "none"), tdef(*d)) for s in allsets for d in inner_defs]
    # routes whose handler runs synchronously: the verdict only depends on the required set (every set, with and without a
    # hard limit; thorough: every kind of limit and the two nestings).  Routes that depend on how the context ends: every
    # required set x every kind of hard limit (a context with a hard limit owns its finaliser pool), and two nestings: a
    # flags-only context inside an owner, an owner inside a flags-only context
    nestings = lambda sets: (["<<%s, %s>>" % (tdef(s, "cpu"), tdef(["iosafe"], "none")) for s in sets] +
                             ["<<%s, %s>>" % (tdef(s, "none"), tdef([], "mem")) for s in sets])
    exitc = ["<<%s>>" % tdef(s, lim) for s in allsets for lim in ("none", "cpu", "mem", "ms")] + nestings(allsets)
    plainc = ["<<%s>>" % tdef(s, lim) for s in allsets for lim in ("none", "cpu")]
    if tier == "thorough":
        plainc += ["<<%s>>" % tdef(s, lim) for s in QUICKSETS for lim in ("mem", "ms")] + nestings(QUICKSETS)
    mc = os.path.join(scratch(), "GateMC.tla")
    with open(mc, "w") as f:
        f.write("------------------------------ MODULE GateMC ------------------------------\nEXTENDS Gate\n")
        f.write("DeclaredC == <<%s>>\n" % ", ".join(tset(x["flags"]) for x in inv))
        f.write("ClassC == <<%s>>\n" % ", ".join('"%s"' % x["class"] for x in inv))
        f.write("KindC == <<%s>>\n" % ", ".join('"%s"' % x["kind"] for x in inv))
        f.write("KeyC == <<%s>>\n" % ", ".join('"%s"' % x["key"] for x in inv))
        f.write("DirectChainsC == {%s}\n" % ", ".join(direct))
        f.write("PlainChainsC == {%s}\n" % ", ".join(plainc))
        f.write("ExitChainsC == {%s}\n" % ", ".join(exitc))
        f.write("=============================================================================\n")
    cfgp = os.path.join(scratch(), "GateMC.cfg")
    with open(cfgp, "w") as f:
        f.write("SPECIFICATION Spec\nINVARIANT RefusedBeforeEffect\nINVARIANT RouteIndependence\nCHECK_DEADLOCK FALSE\nCONSTANTS\n  NFn = %d\n  Declared <- DeclaredC\n"
                "  Class <- ClassC\n  Kind <- KindC\n  Key <- KeyC\n  DirectChains <- DirectChainsC\n  PlainChains <- PlainChainsC\n  ExitChains <- ExitChainsC\n"
                "  AllLibOnRoutes = %s\n  StrictGc = %s\n"
                % (len(inv), "TRUE" if tier == "thorough" else "FALSE", "TRUE" if os.environ.get("VERIF_GATE_STRICT_GC") else "FALSE"))
    lines = []
    t0 = time.time()
    cache = os.environ.get("VERIF_GATE_LINES")      # development aid only: reuse the emission of a previous TLC run
    if cache and os.path.exists(cache):
        lines = json.load(open(cache))
        cov["states"] = cov["transitions"] = len(lines)
    else:
        res = run_tlc("GateMC", "GateMC.cfg", extra_files=[mc, cfgp], on_line=lines.append, timeout=1500,
                      workers=int(os.environ.get("VERIF_TLC_WORKERS", "0")) or None)
        log("[gate] TLC: %d emitted lines in %.1fs" % (len(lines), time.time() - t0))
        if res.violation:
            raise Infra("Gate.tla: %s" % res.violation)
        cov["states"], cov["transitions"] = res.distinct, res.generated
        if cache:
            json.dump(lines, open(cache, "w"))
    dlines = [l for l in lines if l["fam"] == "direct"]
    # one emitted line per (route, mode, chain) with the expectation for every function: flatten
    rlines = []
    for l in lines:
        if l["fam"] == "route":
            for x in l["fns"]:
                d = {k: v for k, v in l.items() if k != "fns"}
                d.update(x)
                rlines.append(d)
    cov["route_steps"] = sum(1 for l in lines if l["fam"] == "route")
    leads = [l for l in dlines if l["iosafelead"]]
    cov["static_iosafe_leads"] = sorted(set(inv[l["f"] - 1]["path"] for l in leads))
    # ---- dynamic: every (function, required set) with argument tuples from the pool, in a sentinel directory
    tuples = [()] + [(a,) for a in POOL] + [(a, b) for a in POOL for b in POOL]
    if tier == "quick":
        rng = random.Random(seed())
        tuples = [()] + [(a,) for a in POOL] + rng.sample([(a, b) for a in POOL for b in POOL], 24)
    cases, meta = [], []
    for l in dlines:
        f = inv[l["f"] - 1]
        if f["name"] == "exit" and l["exp"] == "runs":
            continue    # os.exit would end the driver itself
        nested = len(l["ch"]) > 1
        if nested and tier == "quick" and f["class"] == "pure" and (l["f"] % 7) != 0:
            continue   # quick tier: nested contexts for every function that can reach the outside, and a sample of the pure ones
        ntup = len(tuples) if not nested else min(12, len(tuples))
        cases.append({"id": len(cases), "src": call_chunk(fexpr(f)("nil"), tuples[:ntup], l["ch"]), "sandbox": True, "helpers": True,
                      "timeout": 20000, "maxev": 100000})
        meta.append((f, l, ntup))
    ndirect = len(cases)
    # ---- routes: the probes of one (route, mode, chain) and the library functions that cannot run there share a program, and
    # so do the library functions that may run but for which the spec excludes any outside effect (a program in which
    # something goes wrong is run again function by function); a library function that may have an effect gets its own
    rtuples = tuples if tier == "thorough" else tuples[:9] + tuples[9:][:6]
    unavailable = 0
    groups = {}
    for l in rlines:
        if l["route"] not in RENDER:
            raise Infra("Gate.tla emitted a route this check cannot render: %s" % l["route"])
        if l["missing"]:
            raise Infra("route %s needs %s, which the inventory scan did not find under that name" % (l["route"], l["missing"]))
        if not l["available"]:
            unavailable += 1      # a carrier of the route is itself refused in that context: the route does not exist there
            continue
        f = inv[l["f"] - 1]
        if f["name"] == "exit" and "runs" in l["exp"]:
            continue    # os.exit would end the driver itself
        if f["kind"] == "probe" or "runs" not in l["exp"]:
            kind = "known"        # behaviour fully determined by the spec: a probe, or a function that cannot run
        else:
            kind = "quiet" if l["noeffect"] else f["id"]
        gkey = (l["route"], l["mode"], json.dumps(l["ch"], sort_keys=True), kind)
        groups.setdefault(gkey, []).append((f, l))
    cov["route_cases_unavailable"] = unavailable

    def mkcase(members, cid):
        l0 = members[0][1]
        src = route_program([(f["id"], fexpr(f)) for f, _ in members], l0["route"], l0["mode"], l0["exit"], l0["ch"], rtuples)
        return {"id": cid, "src": src, "sandbox": True, "helpers": True, "timeout": 20000, "maxev": 100000}
    rmeta = []
    for gkey, members in groups.items():
        cases.append(mkcase(members, len(cases)))
        rmeta.append(members)
    t0 = time.time()
    outs = run_cases(drv, cases, nproc=max(2, NCPU // 2))
    log("[gate] %d direct programs + %d route programs run in %.1fs" % (ndirect, len(rmeta), time.time() - t0))
    for i, (f, l, ntup) in enumerate(meta):
        o = outs[i]
        cov["traces_validated_against_impl"] += 1
        req = sorted(l["req"])
        why = None
        if o.get("crash") or o.get("panic"):
            why = ("crash", (o.get("panic") or o.get("stderr", ""))[:300])
        elif o.get("timeout"):
            # blocking on input is possible for a function that runs; a refused call must return at once
            if l["exp"] == "flag-error":
                why = ("hang", "a call that must be refused did not return")
        else:
            evs = o["events"]
            alive = any(e == [{"s": "alive"}] for e in evs)
            calls = [e for e in evs if isinstance(e[0], dict) and "i" in e[0]]
            probed = sum(1 for e in evs if e and e[0] == {"s": "probe"})
            if l["exp"] == "flag-error":
                if not alive:
                    why = ("context-not-alive", o.get("errstr", "")[:200])
                elif any(e[1] is not False for e in calls) or len(calls) != ntup or probed:
                    why = ("not-refused", "a call with required flags %s succeeded or did not fail ordinarily" % req)
                elif o.get("fs_changes"):
                    why = ("effect-before-refusal", str(o["fs_changes"]))
            else:
                if "iosafe" in req and o.get("fs_changes"):
                    why = ("effect-under-iosafe", str(o["fs_changes"]))
                elif "iosafe" in req and any(e and e[0] == {"s": "MODULE-RAN"} for e in evs):
                    # reading a file leaves no trace in the sentinel directory, except for this one: its text is a Lua chunk
                    # that reports being run
                    why = ("effect-under-iosafe", "the file existingmod.lua was read and executed")
                elif f["kind"] == "probe" and (probed != ntup or not alive or any(e[1] is not True for e in calls)):
                    why = ("refused-but-declared", "a probe that declared %s did not run %d times under %s" % (f["flags"], ntup, req))
        if why:
            rep.violation({"kind": why[0], "fn": f["name"], "req": "+".join(req), "nested": len(l["ch"]) > 1, "route": "direct"},
                          {"cmd": "lua-run", "src": cases[i]["src"][:3000], "flags": req, "function": f, "observed": {k: v for k, v in o.items() if k != "events"},
                           "why": why[1], "static_class": f["class"]})
    # ---- compare the routes
    def judge(members, o):
        """-> list of (f, l, why or None) for the members of one program"""
        evs = o.get("events") or []
        probes, calls, sites = {}, {}, {}
        status, alive = None, False
        for e in evs:
            tag = e[0].get("s") if e and isinstance(e[0], dict) else None
            if tag == "probe":
                k = int(e[1]["i"]); probes[k] = probes.get(k, 0) + 1
            elif tag == "c":
                calls.setdefault(int(e[1]["i"]), []).append(e[3])
            elif tag == "s":
                sites.setdefault(int(e[1]["i"]), []).append(e[3])
            elif tag == "ctx":
                status = e[1].get("s") if isinstance(e[1], dict) else None
            elif tag == "alive":
                alive = True
        res = []
        for f, l in members:
            exp = set(l["exp"])
            req = sorted(l["req"])
            fi = f["id"]
            why = None
            c, s_, p = calls.get(fi, []), sites.get(fi, []), probes.get(fi, 0)
            if o.get("crash") or o.get("panic"):
                why = ("crash", (o.get("panic") or ("the process exited with status %s" % o.get("rc") if o.get("exited") else o.get("stderr", "")))[:300])
            elif o.get("timeout"):
                if "runs" not in exp:
                    why = ("hang", "a program in which the function cannot run did not end")
            else:
                ran = p > 0 or any(x is True for x in c) or (l["mode"] == "go" and l["prop"] and any(x is True for x in s_))
                if ran and "runs" not in exp:
                    why = ("not-refused" if "refused" in exp else "ran-in-terminated-context",
                           "the function ran (%d probe events, %d successful calls) but the spec allows only %s" % (p, sum(1 for x in c if x is True), sorted(exp)))
                elif exp == {"notreached"} and c:
                    why = ("ran-in-terminated-context", "the handler was run: %d calls" % len(c))
                elif exp == {"refused"} and l["mode"] == "lua" and not c:
                    why = ("handler-not-run", "the Lua handler of the route was never run")
                elif exp == {"runs"} and f["kind"] == "probe" and p == 0:
                    why = ("refused-but-declared", "a probe that declared %s did not run under %s" % (f["flags"], req))
                elif l["site"] == "fails" and (not s_ or any(x is not False for x in s_)):
                    why = ("site-did-not-fail", "the operation that triggers the refused handler did not raise an ordinary error: %s" % s_)
                elif l["site"] == "succeeds" and (not s_ or any(x is not True for x in s_)):
                    why = ("site-failed", "the operation that triggers the allowed probe failed: %s" % s_)
                elif l["noeffect"] and o.get("fs_changes"):
                    why = ("effect", str(o["fs_changes"]))
                elif not alive:
                    why = ("context-not-alive", "the body of the context did not get to its end: %s" % (o.get("errstr", "")[:200]))
                elif (f["kind"] == "probe" or "runs" not in exp) and status != l["status"]:
                    why = ("context-status", "the innermost context ended %s, expected %s" % (status, l["status"]))
            res.append((f, l, why, {"probe": p, "calls": c, "sites": s_, "status": status}))
        return res

    def report(f, l, why, obs, o, src):
        req = sorted(l["req"])
        rep.violation({"kind": why[0], "fn": f["name"], "req": "+".join(req), "nested": len(l["ch"]) > 1, "route": l["route"], "mode": l["mode"],
                       "owns_pool": l["owner"] == len(l["ch"])},
                      {"cmd": "lua-run", "src": src[:6000], "flags": req, "function": dict(f), "chain": l["ch"], "expected": l,
                       "observed": {k: v for k, v in o.items() if k != "events"}, "events_of_function": obs,
                       "why": why[1], "static_class": f["class"]})

    byroute, wall, anomalies = {}, {}, {}
    again, ngroups_again, skipped_groups = [], 0, 0
    for gi, members in enumerate(rmeta):
        ci = ndirect + gi
        res = judge(members, outs[ci])
        wall[members[0][1]["route"]] = wall.get(members[0][1]["route"], 0) + outs[ci].get("wall_ms", 0)
        for f, l, why, obs in res:
            cov["traces_validated_against_impl"] += 1
            byroute[l["route"]] = byroute.get(l["route"], 0) + 1
        if any(why for _, _, why, _ in res):
            if len(members) == 1:
                f, l, why, obs = res[0]
                report(f, l, why, obs, outs[ci], cases[ci]["src"])
            else:
                for f, l, why, obs in res:
                    if why:
                        k = "%s/%s/%s" % (why[0], l["route"], "probes" if f["kind"] == "probe" else "lib")
                        anomalies[k] = anomalies.get(k, 0) + 1
                        if len(anomalies) <= 3 and anomalies[k] == 1:
                            log("[gate] anomaly in a shared program, to be confirmed per function: %s %s: %s" % (k, f["name"], why[1][:300]))
                if ngroups_again >= 100:
                    skipped_groups += 1                       # the verdict does not need more than 100 attributed programs
                else:
                    ngroups_again += 1
                    again += [(gi, [m]) for m in members]     # attribute precisely: one program per function
    cov["route_programs_rerun_per_function"] = len(again)
    cov["shared_program_anomalies"] = anomalies
    cov["anomalous_shared_programs_not_rerun"] = skipped_groups
    if again:
        cases2 = [mkcase(m, i) for i, (gi, m) in enumerate(again)]
        outs2 = run_cases(drv, cases2, nproc=max(2, NCPU // 2))
        nrep, confirmed = 0, set()
        for i, (gi, m) in enumerate(again):
            f, l, why, obs = judge(m, outs2[i])[0]
            if why:
                nrep += 1
                confirmed.add(gi)
                report(f, l, why, obs, outs2[i], cases2[i]["src"])
        cov["rerun_per_function_reproduced"] = nrep
        lost = sorted(set(gi for gi, _ in again) - confirmed)
        if lost:
            # something went wrong in a shared program and in none of its functions taken alone: that is a defect of the
            # rendering (or an interference between the functions), not a verdict
            l0 = rmeta[lost[0]][0][1]
            raise Infra("%d shared programs misbehaved but none of their functions does alone, e.g. route %s mode %s chain %s:\n%s"
                        % (len(lost), l0["route"], l0["mode"], l0["ch"], cases[ndirect + lost[0]]["src"][:1500]))
    cov["direct_cases"] = ndirect
    cov["route_cases"] = sum(len(m) for m in rmeta)
    cov["route_programs"] = len(rmeta)
    cov["route_cases_by_route"] = dict(sorted(byroute.items()))
    cov["route_wall_ms_by_route"] = dict(sorted(wall.items()))
    cov["route_cases_by_expectation"] = {}
    for members in rmeta:
        for f, l in members:
            k = "+".join(sorted(l["exp"])) + ("/probe" if f["kind"] == "probe" else "/lib")
            cov["route_cases_by_expectation"][k] = cov["route_cases_by_expectation"].get(k, 0) + 1
    cov["route_library_functions"] = sorted(set(f["path"] for m in rmeta for f, l in m if f["kind"] == "lib"))
    rep.sample({"function": inv[0], "required": allsets[1], "argument_tuples": len(tuples)})
    if rmeta:
        f0, l0 = rmeta[0][0]
        rep.sample({"route_case": {k: l0[k] for k in ("route", "mode", "ch", "exp", "site", "status")}, "function": f0["name"]})
    cov["explanation"] = ("inventory of %d Go functions reachable from _G, package.loaded, metatables and iterators, plus 16 probe functions (one per declared flag set); "
                          "TLC gives the expected outcome for every (function, context chain) called directly with %d argument tuples in a sentinel directory, and for "
                          "every (function, route, mode, context chain) of the route family" % (nlib, len(tuples)))
    rep.assumptions += ["outside effects are observed as changes of a sentinel directory (files created/modified/deleted, including by spawned commands); network and plugin effects are not observable here",
                        "the static effect class is a regex reading of the sources and only produces leads",
                        "a finaliser of a value created in a context without a hard limit runs in whichever context sharing the finaliser pool is current when it is collected "
                        "(at the latest when the owner of the pool ends): the spec accepts the verdict of any of them (StrictGc = FALSE)"]
    outlive_family(rep, drv)
    return rep.finish()

"""C03: TableAbs.tla histories rendered as Lua programs on real tables."""
import json, os, re, sys, random
sys.path.insert(0, os.path.join(os.path.dirname(os.path.abspath(__file__)), "..", "lib"))
from vlib import *

ALLKEYS = ["i0", "i1", "i2", "i3", "i4", "ib", "f25", "sa", "sb", "sl", "bt", "tk", "fk", "s7a", "s7b", "s8a", "s8b", "s9a", "s9b"]
ALIAS = {"f2": "i2", "fm0": "i0", "fb": "ib", "f3": "i3"}
INTVAL = {"i0": 0, "i1": 1, "i2": 2, "i3": 3, "i4": 4, "ib": 1073741824}
INTVAL.update({"n%d" % i: i for i in range(1, 41)})
INTKEYS = set(INTVAL) | {"imin", "imax", "i53", "i53p"}        # keys that must be reported as integers
FLOATKEYS = {"f25", "f63", "finf", "fninf", "ftiny"}              # keys that must stay floats


def prelude(rng, big=False, names=None):
    sa = "".join(rng.choice("abcdefgh") for _ in range(rng.randint(1, 3)))
    sb = sa + rng.choice("xyz")
    sl = "".join(rng.choice("abcdefghijklmnop") for _ in range(40))
    names_lua = "NAMES = {%s}\n" % ", ".join('"%s"' % k for k in names) if names else ""
    return ("BIGFAMILY = true\n" if big else "") + names_lua + """local K = {i0 = 0, i1 = 1, i2 = 2, i3 = 3, i4 = 4, ib = 1073741824, f25 = 2.5, sa = "%s", sb = "%s", sl = "%s",
  bt = true, tk = {}, fk = function() end, f2 = 2.0, fm0 = -0.0, fb = 1073741824.0, f3 = 3.0}
for i = 1, 40 do K["n" .. i] = i end
do local stem = "%s" K.s7a, K.s7b = stem:sub(1, 6) .. "1", stem:sub(1, 6) .. "2" K.s8a, K.s8b = stem:sub(1, 7) .. "1", stem:sub(1, 7) .. "2"
   K.s9a, K.s9b = stem:sub(1, 8) .. "1", stem:sub(1, 8) .. "2" K.f1 = 1.0 end
K.imin, K.imax, K.i53, K.i53p = math.mininteger, math.maxinteger, 1 << 53, (1 << 53) + 1
K.f63, K.finf, K.fninf, K.ftiny = 2^63, math.huge, -math.huge, 5e-324
K.fm63, K.fminf, K.fmaxf, K.f53, K.f53p = -(2^63), math.mininteger + 0.0, math.maxinteger + 0.0, 2^53, 9007199254740993.0
do local function mkc() return function() end end K.ck1, K.ck2 = mkc(), mkc() end
local V = {v1 = "one", v2 = "two"}
local VN = {one = "v1", two = "v2"}
local NAMES = NAMES or {"i0", "i1", "i2", "i3", "i4", "ib", "f25", "sa", "sb", "sl", "bt", "tk", "fk", "s7a", "s7b", "s8a", "s8b", "s9a", "s9b"}
if BIGFAMILY and #NAMES < 30 then NAMES = {"i0", "ib", "f25", "sa", "tk"} for i = 1, 40 do NAMES[#NAMES + 1] = "n" .. i end end
emit("cloeq", K.ck1 == K.ck2)
local function nameof(key) for _, nm in ipairs(NAMES) do if rawequal(K[nm], key) then return nm end end return "?" end
local function ty(k) return math.type(k) or type(k) end
local STEP, SP = 0, "-"
local t = setmetatable({}, {
  __index = function(_, k) emit("index", STEP, SP) return nil end,
  __newindex = function(tt, k, v) emit("newindex", STEP, SP) rawset(tt, k, v) end})
local function trav(step, pol)
  local n, first = 0, nil
  SP = "trav"
  local k, v = next(t)
  while k ~= nil do
    n = n + 1
    emit("visit", step, nameof(k), ty(k), VN[v])
    if pol == "update" then t[k] = V.v2
    elseif pol == "rawupdate" then rawset(t, k, V.v2)
    elseif pol == "clear" then t[k] = nil
    elseif pol == "updateothers" then
      for _, nm in ipairs(NAMES) do if rawget(t, K[nm]) ~= nil and not rawequal(K[nm], k) then t[K[nm]] = V.v2 end end
    elseif pol == "clearothers" and n == 1 then
      first = k
      for _, nm in ipairs(NAMES) do if rawget(t, K[nm]) ~= nil and not rawequal(K[nm], k) then t[K[nm]] = nil end end
    end
    k, v = next(t, k)
  end
  if pol == "clearothers" and first ~= nil then t[first] = nil end
  emit("travend", step, n)
end
""" % (sa, sb, sl, sl[:8])


def render(line, rng, spell, names=None):
    out = [prelude(rng, big=any(x.startswith("n") and x[1:].isdigit() for x in spell), names=names)]
    for a in line["h"]:
        k, act, s = a["k"], a["a"], a["s"]
        if act == "set":
            out.append('STEP, SP = %d, "%s"; t[K.%s] = V.%s' % (k, s, s, a["v"] if a["v"] != "nil" else "none"))
        elif act == "rawset":
            out.append('rawset(t, K.%s, V.%s)' % (s, a["v"] if a["v"] != "nil" else "none"))
        elif act == "get":
            out.append('STEP, SP = %d, "%s"; emit("get", %d, VN[t[K.%s]])' % (k, s, k, s))
        elif act == "len":
            out.append('emit("len", %d, #t)' % k)
        elif act == "trav":
            out.append('trav(%d, "%s")' % (k, a["pol"]))
        else:
            raise Infra(act)
    for s in spell:
        out.append('emit("final", "%s", VN[rawget(t, K.%s)])' % (s, s))
    out.append('for k, v in pairs(t) do emit("fkey", nameof(k), ty(k), VN[v]) end')
    out.append('do local bad = 0 for _, a in ipairs(NAMES) do for _, b in ipairs(NAMES) do if K[a] ~= nil and K[b] ~= nil and (K[a] == K[b]) ~= (a == b) then bad = bad + 1 end end end emit("eqbad", bad) end')
    out.append('emit("flen", #t)')
    return "\n".join(out) + "\n"


def sval(g):
    if g is None:
        return "nil"
    if isinstance(g, dict):
        return g.get("s", g.get("i", json.dumps(g)))
    return g


def check_line(line, o, spell, norm):
    """returns None or dict(kind, detail)"""
    if o.get("timeout"):
        return {"kind": "hang", "detail": "watchdog"}
    if o.get("crash") or o.get("panic"):
        return {"kind": "crash", "detail": (o.get("panic") or o.get("stderr", ""))[:300]}
    if not o.get("ok"):
        return {"kind": "error", "detail": o.get("errstr", "")[:300]}
    evs = [[sval(x) for x in e] for e in o["events"]]
    # 1. the deterministic events (index/newindex consultation, get results) in order
    det = [e for e in evs if e[0] in ("index", "newindex", "get") and not (e[0] in ("index", "newindex") and e[2] == "trav")]
    exp = [[str(x) if isinstance(x, int) else x for x in e] for e in line["ev"]]
    if det != exp:
        for j in range(max(len(det), len(exp))):
            a = det[j] if j < len(det) else None
            b = exp[j] if j < len(exp) else None
            if a != b:
                return {"kind": "metamethod-or-get", "detail": "deterministic event %d: expected %s got %s" % (j, b, a),
                        "tag": (b or a)[0]}
    if any(e[0] in ("index", "newindex") and e[2] == "trav" for e in evs):
        return {"kind": "metamethod-in-traversal", "detail": "assignment to an existing field during traversal consulted a metamethod"}
    # 2. len and traversals, per step
    for a in line["h"]:
        k = str(a["k"])
        if a["a"] == "len":
            got = [e for e in evs if e[0] == "len" and e[1] == k]
            if len(got) != 1 or int(got[0][2]) not in a["lenok"]:
                return {"kind": "border", "detail": "#t = %s, borders are %s" % (got, a["lenok"])}
        if a["a"] == "trav":
            vis = [e for e in evs if e[0] == "visit" and e[1] == k]
            names = [e[2] for e in vis]
            P = sorted(a["present"])
            if len(set(names)) != len(names):
                return {"kind": "traversal", "detail": "key visited twice: %s" % names, "pol": a["pol"]}
            if a["pol"] == "clearothers":
                if len(names) != min(1, len(P)) or (names and names[0] not in P):
                    return {"kind": "traversal", "detail": "clearothers visited %s, present were %s" % (names, P), "pol": a["pol"]}
            elif sorted(names) != P:
                return {"kind": "traversal", "detail": "visited %s, present were %s" % (sorted(names), P), "pol": a["pol"]}
            for e in vis:
                if e[2] in INTKEYS and e[3] != "integer":
                    return {"kind": "key-normalisation", "detail": "integer-valued key reported as %s" % e[3]}
                if e[2] in FLOATKEYS and e[3] != "float":
                    return {"kind": "key-normalisation", "detail": "float key %s reported as %s" % (e[2], e[3])}
            te = [e for e in evs if e[0] == "travend" and e[1] == k]
            if len(te) != 1 or int(te[0][2]) != len(names):
                return {"kind": "traversal", "detail": "travend %s" % te, "pol": a["pol"]}
    # 3. final state
    fin = {e[1]: e[2] for e in evs if e[0] == "final"}
    for s in spell:
        want = line["final"][norm(s)]
        if fin.get(s) != want:
            return {"kind": "final-get", "detail": "rawget(%s) = %s, model has %s" % (s, fin.get(s), want), "key": s}
    fk = [e for e in evs if e[0] == "fkey"]
    present = sorted(k for k, v in line["final"].items() if v != "nil")
    if sorted(e[1] for e in fk) != present:
        return {"kind": "final-pairs", "detail": "pairs visited %s, model has %s" % (sorted(e[1] for e in fk), present)}
    for e in fk:
        if e[3] != line["final"][e[1]]:
            return {"kind": "final-pairs", "detail": "pairs value for %s = %s, model %s" % (e[1], e[3], line["final"][e[1]])}
        if e[1] in INTKEYS and e[2] != "integer":
            return {"kind": "key-normalisation", "detail": "integer-valued key reported as %s" % e[2]}
        if e[1] in FLOATKEYS and e[2] != "float":
            return {"kind": "key-normalisation", "detail": "float key %s reported as %s" % (e[1], e[2])}
    eb = [e for e in evs if e[0] == "eqbad"]
    if len(eb) != 1 or int(eb[0][1]) != 0:
        return {"kind": "value-equality", "detail": "%s pairs of distinct keys compare equal (or equal keys compare different)" % (eb[0][1] if eb else "?")}
    fl = [e for e in evs if e[0] == "flen"]
    if "imax" in spell:
        pass        # borders of tables with keys next to maxinteger are not enumerated by the spec (LenEnabled = FALSE)
    elif len(fl) != 1 or int(fl[0][1]) not in line["borders"]:
        return {"kind": "border", "detail": "final #t = %s, borders are %s" % (fl, line["borders"])}
    return None


CONFIGS = {
    "quick": [("TableIntQ.cfg", None, 2), ("TableMixQ.cfg", None, 2), ("TableStrQ.cfg", None, 1), ("TableSim.cfg", "num=300", 1), ("TableBigSim.cfg", "num=80", 1),
              ("TableExtQ.cfg", None, 1), ("TableExtSim.cfg", "num=150", 1), ("TableCloEqQ.cfg", None, 1), ("TableCloNeQ.cfg", None, 1),
              ("TableBigCloEqSim.cfg", "num=40", 1), ("TableBigCloNeSim.cfg", "num=40", 1)],
    "thorough": [("TableIntT.cfg", None, 1), ("TableMixT.cfg", None, 2), ("TableStrQ.cfg", None, 3), ("TableSim.cfg", "num=6000", 2), ("TableBigSim.cfg", "num=3000", 2),
                 ("TableExtQ.cfg", None, 2), ("TableExtSim.cfg", "num=3000", 1), ("TableCloEqQ.cfg", None, 2), ("TableCloNeQ.cfg", None, 2),
                 ("TableBigCloEqSim.cfg", "num=1000", 1), ("TableBigCloNeSim.cfg", "num=1000", 1)],
}

NEWFAMS = {"Ext", "CloEq", "CloNe", "BigCloEq", "BigCloNe"}
FAM = {"Int": (["i0", "i1", "i2", "i3", "i4", "ib"], {"f2": "i2", "fm0": "i0", "fb": "ib"}),
       "Mix": (["i1", "i2", "f25", "sa", "sl", "bt", "tk", "fk"], {"f2": "i2"}),
       "All": (ALLKEYS, ALIAS),
       "Str": (["s7a", "s7b", "s8a", "s8b", "s9a", "s9b", "sa", "i1"], {"f1": "i1"}),
       "Big": (["n%d" % i for i in range(1, 41)] + ["i0", "ib", "f25", "sa", "tk"], {"f2": "n2", "fm0": "i0", "fb": "ib", "f3": "n3"}),
       "Ext": (["i0", "i1", "imin", "imax", "i53", "i53p", "f63", "finf", "fninf", "f25", "ftiny", "sa"],
               {"fm0": "i0", "f1": "i1", "fm63": "imin", "fminf": "imin", "fmaxf": "f63", "f53": "i53", "f53p": "i53"}),
       "CloEq": (["ck1", "i1", "sa", "tk"], {"ck2": "ck1", "f1": "i1"}),
       "CloNe": (["ck1", "ck2", "i1", "sa", "tk"], {"f1": "i1"}),
       "BigCloEq": (["n%d" % i for i in range(1, 41)] + ["i0", "ib", "f25", "sa", "tk", "ck1"], {"f2": "n2", "fm0": "i0", "fb": "ib", "f3": "n3", "ck2": "ck1"}),
       "BigCloNe": (["n%d" % i for i in range(1, 41)] + ["i0", "ib", "f25", "sa", "tk", "ck1", "ck2"], {"f2": "n2", "fm0": "i0", "fb": "ib", "f3": "n3"})}


def run(prop, tier):
    rep = Report(prop, tier, "model_checking")
    cov = rep.cov
    cov.update(states=0, transitions=0, traces_validated_against_impl=0, configs=[], op_kinds={}, traversals_with_mutation=0)
    drv = build_driver()
    rng = random.Random(seed())
    for cfg, sim, ninst in CONFIGS[tier]:
        txt = open(os.path.join(SPEC, cfg)).read()
        fam = re.search(r"Keys <- Keys(\w+)", txt).group(1)
        ms = int(re.search(r"MaxSteps\s*=\s*(\d+)", txt).group(1))
        keys, alias = FAM[fam]
        spell = keys + sorted(alias)
        norm = lambda s, alias=alias: alias.get(s, s)
        state = {"n": 0, "bad": 0}

        def process(lines, fam=fam, keys=keys):
            if sim:
                lines = [l for l in lines if len(l["h"]) == ms]
            cases, meta = [], []
            for l in lines:
                for j in range(ninst):
                    cases.append({"id": len(cases), "src": render(l, rng, spell, names=keys if fam in NEWFAMS else None), "timeout": 30000})
                    meta.append(l)
            outs = run_lua_cases(drv, cases)
            for i, l in enumerate(meta):
                if fam.endswith("CloEq") or fam.endswith("CloNe"):
                    # keep the variant of the model that matches what `ck1 == ck2` evaluates to (left open by the manual)
                    pe = [e for e in outs[i].get("events", []) if e and sval(e[0]) == "cloeq"]
                    if pe and (pe[0][1] is True) != fam.endswith("CloEq"):
                        cov["closure_variant_not_applicable"] = cov.get("closure_variant_not_applicable", 0) + 1
                        continue
                state["n"] += 1
                cov["traces_validated_against_impl"] += 1
                for a in l["h"][-1:] if not sim else l["h"]:
                    key = a["a"] + (":" + a["pol"] if a["a"] == "trav" else "")
                    cov["op_kinds"][key] = cov["op_kinds"].get(key, 0) + 1
                    if a["a"] == "trav" and a["pol"] != "plain" and a["present"]:
                        cov["traversals_with_mutation"] += 1
                why = check_line(l, outs[i], spell, norm)
                if why:
                    state["bad"] += 1
                    sig = {"kind": why["kind"], "tag": why.get("tag", ""), "pol": why.get("pol", ""), "key": why.get("key", "")}
                    if fam in NEWFAMS:
                        sig["fam"] = fam
                    rep.violation(sig, {"cmd": "lua-run", "src": cases[i]["src"], "history": l["h"], "model_final": l["final"],
                                        "observed": outs[i], "why": why})
                elif len(l["h"]) >= 4:
                    rep.sample({"history": l["h"], "events": outs[i]["events"][:30]}, cap=2)

        buf = []

        def on_line(v):
            buf.append(v)
            if len(buf) >= 50000:
                process(buf[:])
                del buf[:]

        res = run_tlc("TableMC", cfg, timeout=7000, on_line=on_line, simulate=sim, depth=ms if sim else None,
                      workers=1 if sim else None)
        if res.violation:
            raise Infra("TableAbs TLC run failed on %s: %s" % (cfg, res.violation))
        if buf:
            process(buf[:])
        cov["states"] += res.distinct
        cov["transitions"] += res.generated
        cov["configs"].append({"cfg": cfg, "distinct": res.distinct, "generated": res.generated, "programs": state["n"], "mismatching": state["bad"]})
        log("[%s] %s: %d distinct, %d programs run, %d mismatching" % (prop, cfg, res.distinct, state["n"], state["bad"]))
    cov["exhaustive"] = True
    rep.assumptions += ["traversal order and which border # returns are not compared (unspecified)",
                        "string/table/function keys are instantiated with fresh seeded values per program"]
    return rep.finish()

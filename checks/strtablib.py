"""C19: StrLib.tla / TabLib.tla case tables compared with the real string and table libraries, and Sort.tla
evaluated by TLC on (input, observed output) pairs of the real table.sort.

Python only renders the TLC-emitted cases as Lua calls, runs them (`lua-run`, many calls per chunk) and compares
the observed values with the emitted ones for equality; the sort predicates are evaluated by a second TLC run.
"""
import json, os, sys
sys.path.insert(0, os.path.join(os.path.dirname(os.path.abspath(__file__)), "..", "lib"))
from vlib import *

BIG = 1000000            # the specs' symbolic maxinteger (cfg: BIG = 1000000)
MAXI = 2 ** 63 - 1
CHUNK = 400              # calls per Lua chunk


def inst(x):
    """instantiate a spec integer: values near +-BIG are the same distance from maxinteger / mininteger"""
    if x > BIG // 2:
        return MAXI - (BIG - x)
    if x < -(BIG // 2):
        return -MAXI - 1 + (x + BIG + 1)
    return x


def lua_int(x):
    v = inst(x)
    if v == -MAXI - 1:
        return "math.mininteger"
    return str(v)


def lua_str(b):
    return '"' + "".join("\\%03d" % c for c in b) + '"'


TOK2LUA = {"i1": "1", "i2": "2", "sa": '"a"', "sb": '"b"', "T": "true", "nil": "nil", "true": "true"}


def lua_val(x):
    if isinstance(x, bool):
        raise Infra("unexpected boolean in a case")
    if isinstance(x, int):
        return lua_int(x)
    if isinstance(x, list):
        return lua_str(x)
    if isinstance(x, str):
        return TOK2LUA[x]
    raise Infra("cannot render %r" % (x,))


def obs_bytes(g):
    if isinstance(g, dict):
        if "s" in g:
            return g["s"].encode("utf-8")
        if "x" in g:
            return bytes.fromhex(g["x"])
    return None


def val_eq(e, g):
    """expected spec value e (int | byte list | token) against an observed driver value g"""
    if isinstance(e, list):
        return obs_bytes(g) == bytes(e)
    if isinstance(e, int):
        return g == {"i": str(inst(e))}
    if e == "nil":
        return g is None
    if e in ("T", "true"):
        return g is True
    if e in ("i1", "i2"):
        return g == {"i": e[1]}
    if e in ("sa", "sb"):
        return g == {"s": "ab"["ab".index(e[1])]}
    raise Infra("unknown expected value %r" % (e,))


def show(g):
    b = obs_bytes(g)
    if b is not None:
        return repr(b)[1:]
    return json.dumps(g)


# --------------------------------------------------------------------------------------------------
# running rendered calls: every call emits events whose first value is its id


class Runner:
    """cases: objects with .lua (statement emitting events tagged with the case id) and .solo.
    Runs them in chunks; a chunk that dies/hangs is narrowed down to the culprit, the rest is re-run."""

    def __init__(self, drv, prelude, rep):
        self.drv, self.prelude, self.rep = drv, prelude, rep

    def run(self, cases, chunk=CHUNK, timeout=20000):
        """cases: list of dicts with 'lua'; fills c['ev'] (list of events without the id) and c['fate'] in
        {'ok','panic','hang','crash'} (+ c['detail'])."""
        todo = []
        cur = []
        for c in cases:
            if c.get("solo"):
                todo.append(([c], 4000))
                continue
            cur.append(c)
            if len(cur) >= chunk:
                todo.append((cur, timeout))
                cur = []
        if cur:
            todo.append((cur, timeout))
        rounds = 0
        while todo:
            rounds += 1
            if rounds > 200:
                raise Infra("too many re-run rounds")
            jobs = []
            for n, (cs, to) in enumerate(todo):
                # one function per call: golua's compiler runs out of registers with a few hundred do-blocks declaring locals
                src = self.prelude + "\n".join(";(function() %s end)()" % c["lua"] for c in cs) + "\n"
                jobs.append({"id": n, "src": src, "timeout": to, "maxev": 2000000})
            outs = run_lua_cases(self.drv, jobs)
            nxt = []
            for n, (cs, to) in enumerate(todo):
                o = outs[n]
                if o.get("compile_error"):
                    raise Infra("rendered chunk does not compile: %s\n%s" % (o.get("errstr"), jobs[n]["src"][:2000]))
                byid = {}
                for e in o.get("events", []):
                    if e and isinstance(e[0], dict) and "i" in e[0]:
                        byid.setdefault(int(e[0]["i"]), []).append(e[1:])
                if o.get("timeout") or o.get("crash"):
                    # the events of the whole chunk are lost: narrow down by running every call on its own
                    if len(cs) == 1 and o.get("timeout") and not cs[0].get("retried"):
                        cs[0]["retried"] = True      # confirm a hang with a longer watchdog (loaded machine)
                        nxt.append((cs, 3 * to))
                    elif len(cs) == 1:
                        cs[0]["ev"] = []
                        if o.get("timeout"):
                            cs[0]["fate"], cs[0]["detail"] = "hang", "no result within %d ms" % to
                        else:
                            cs[0]["fate"], cs[0]["detail"] = "crash", (o.get("stderr") or "")[-600:]
                    else:
                        nxt += [([c], 4000) for c in cs]
                    continue
                cut = None
                for k, c in enumerate(cs):
                    ev = byid.get(c["id"])
                    if ev is None or not c["complete"](ev):
                        cut = k
                        break
                    c["fate"], c["ev"] = "ok", ev
                if cut is None:
                    if not o.get("ok"):
                        raise Infra("chunk failed after its calls: %s %s" % (o.get("errstr"), o.get("panic")))
                    continue
                c = cs[cut]
                if not o.get("panic"):
                    raise Infra("chunk stopped at a call without a Go panic: %s / %s" % (o.get("errstr"), c["lua"]))
                # a Go panic escaped from the call under test (recovered by the driver): the call is the culprit
                c["fate"], c["detail"], c["ev"] = "panic", o["panic"][:300], byid.get(c["id"], [])
                if cs[cut + 1:]:
                    nxt.append((cs[cut + 1:], to))
            todo = nxt


def one_event(ev):
    return len(ev) >= 1


# --------------------------------------------------------------------------------------------------
# strings

STR_FN = {"rephuge": "rep"}


def str_part(rep, drv, tier):
    cov = rep.cov
    runs = {"quick": [("StrLibQ.cfg", None, None)],
            "thorough": [("StrLibT.cfg", None, None), ("StrLibSim.cfg", "num=60", 10)]}[tier]
    classes = cov.setdefault("string_cases_by_fn", {})
    tags = cov.setdefault("string_cases_by_class", {})
    for cfg, sim, depth in runs:
        cases = []
        st = {"n": 0, "bad": 0}

        def flush():
            Runner(drv, "", rep).run(cases)
            for c in cases:
                cov["traces_validated_against_impl"] += 1
                why = str_compare(c)
                if why:
                    st["bad"] += 1
                    sig = {"fn": c["fn"], "why": c["tag"], "kind": why[0]}
                    rep.violation(sig, {"cmd": "lua-run", "src": c["lua"], "expected": c["r"], "observed": c.get("ev"),
                                        "fate": c["fate"], "detail": why[1], "args": c["args"]})
                elif c["tag"] in ("BB", "init>1:fail", "n=0") and c["r"] != ["error"]:
                    rep.sample({"lua": c["lua"], "observed": c["ev"]}, cap=4)
            st["n"] += len(cases)
            del cases[:]

        res = run_tlc("StrLibMC", cfg, timeout=1500, simulate=sim, depth=depth, workers=1 if sim else None)
        if res.violation:
            raise Infra("StrLib TLC run failed: " + res.violation)
        for line in res.emitted:
            fn = STR_FN.get(line["fn"], line["fn"])
            pre = line["pre"]
            for args, r, tag in line["cs"]:
                cid = len(cases) + 1
                call = ", ".join(["string." + fn] + [lua_val(a) for a in pre + args])
                cases.append({"id": cid, "fn": fn, "args": pre + args, "r": r, "tag": tag, "solo": line["fn"] == "rephuge",
                              "lua": "emit(%d, pcall(%s))" % (cid, call), "complete": one_event})
                classes[fn] = classes.get(fn, 0) + 1
                tk = fn + ":" + tag
                tags[tk] = tags.get(tk, 0) + 1
            if len(cases) >= 150000:
                flush()
        flush()
        del res.emitted[:]
        cov["states"] += res.distinct
        cov["transitions"] += res.generated
        cov["configs"].append({"cfg": cfg, "distinct": res.distinct, "generated": res.generated, "cases": st["n"],
                               "mismatching": st["bad"], "tlc_s": round(res.wall, 1)})
        log("[%s] %s: %d states, %d string calls compared, %d mismatching" % (rep.prop, cfg, res.distinct, st["n"], st["bad"]))


def str_compare(c):
    """None or (kind, detail)"""
    if c["fate"] != "ok":
        return (c["fate"], c.get("detail", ""))
    if len(c["ev"]) != 1:
        return ("events", "expected one result event, got %d" % len(c["ev"]))
    ev = c["ev"][0]
    ok, vals = ev[0], ev[1:]
    if c["r"] == ["error"]:
        if ok is not False:
            return ("error-expected", "no error; returned %s" % [show(v) for v in vals])
        return None
    if ok is not True:
        return ("unexpected-error", "raised %s" % show(vals[0] if vals else None))
    if len(vals) != len(c["r"]) or not all(val_eq(e, g) for e, g in zip(c["r"], vals)):
        return ("value", "expected %s got %s" % (json.dumps(c["r"]), [show(v) for v in vals]))
    return None


# --------------------------------------------------------------------------------------------------
# tables

TAB_PRELUDE = """local function proxy(B)
  return setmetatable({}, {__index = function(_, k) return B[k] end,
                           __newindex = function(_, k, v) B[k] = v end,
                           __len = function() return #B end})
end
local function dump(id, tag, B) for k, v in next, B do emit(id, tag, k, v) end emit(id, "end") end
local function mv(id, A2, ok, r, ...)
  if ok then emit(id, "r", true, rawequal(r, A2), select("#", ...)) else emit(id, "r", false, r) end
end
local function pk(id, ok, p, ...)
  emit(id, "r", ok, type(p) == "table", select("#", ...))
  if ok and type(p) == "table" then dump(id, "t", p) else emit(id, "end") end
end
"""


def lua_table(d):
    items = [TOK2LUA[v] for v in d["q"]] + ["[%s] = %s" % (lua_int(k), TOK2LUA[v]) for k, v in d["x"]]
    return "{" + ", ".join(items) + "}"


def tab_complete(ev):
    return any(e and e[0] == {"s": "end"} for e in ev)


def tab_part(rep, drv, tier):
    cov = rep.cov
    cfg = {"quick": "TabLibQ.cfg", "thorough": "TabLibT.cfg"}[tier]
    classes = cov.setdefault("table_cases_by_fn", {})
    tags = cov.setdefault("table_cases_by_class", {})
    res = run_tlc("TabLib", cfg, timeout=1500)
    if res.violation:
        raise Infra("TabLib TLC run failed: " + res.violation)
    cases = []
    skipped = 0
    for line in res.emitted:
        fn = line["fn"]
        for cs in line["cs"]:
            if cs["k"] == "resource":
                skipped += 1
                continue
            for mode in (("plain",) if fn == "pack" else ("plain", "proxy")):
                cid = len(cases) + 1
                args = cs["a"]
                if fn == "pack":
                    lua = "pk(%d, pcall(table.pack%s))" % (cid, "".join(", " + lua_val(a) for a in args))
                else:
                    wrap = "proxy(B)" if mode == "proxy" else "B"
                    lua = "local B = %s local P = %s " % (lua_table(line["tab"]), wrap)
                    if fn == "move":
                        a2 = "P"
                        if len(args) == 4:
                            lua += "local B2 = %s local P2 = %s " % (lua_table(args[3]), wrap.replace("B", "B2"))
                            a2 = "P2"
                        call = "table.move, P, " + ", ".join(lua_val(a) for a in args[:3]) + (", P2" if len(args) == 4 else "")
                        lua += "mv(%d, %s, pcall(%s)) " % (cid, a2, call)
                        if len(args) == 4:
                            lua += 'for k, v in next, B2 do emit(%d, "u", k, v) end ' % cid
                    else:
                        call = ", ".join(["table." + fn, "P"] + [lua_val(a) for a in args])
                        lua += 'emit(%d, "r", pcall(%s)) ' % (cid, call)
                    lua += 'dump(%d, "t", B)' % cid
                cases.append({"id": cid, "fn": fn, "mode": mode, "tab": line["tab"], "cs": cs, "lua": lua, "complete": tab_complete})
                classes[fn] = classes.get(fn, 0) + 1
                tk = fn + ":" + cs["g"] + ":" + cs["k"]
                tags[tk] = tags.get(tk, 0) + 1
    del res.emitted[:]
    cov["states"] += res.distinct
    cov["transitions"] += res.generated
    cov["table_cases_needing_maxinteger_steps_not_run"] = skipped
    Runner(drv, TAB_PRELUDE, rep).run(cases)
    bad = 0
    for c in cases:
        cov["traces_validated_against_impl"] += 1
        why = tab_compare(c)
        if why:
            bad += 1
            sig = {"fn": c["fn"], "why": c["cs"]["g"], "kind": why[0], "mode": c["mode"]}
            rep.violation(sig, {"cmd": "lua-run", "src": TAB_PRELUDE + c["lua"], "expected": c["cs"], "observed": c.get("ev"),
                                "fate": c["fate"], "detail": why[1]})
        elif c["mode"] == "proxy" and c["cs"]["g"] in ("up", "down", "pos-in"):
            rep.sample({"lua": c["lua"], "observed": c["ev"]}, cap=6)
    cov["configs"].append({"cfg": cfg, "distinct": res.distinct, "generated": res.generated, "cases": len(cases),
                           "mismatching": bad, "tlc_s": round(res.wall, 1)})
    log("[%s] %s: %d states, %d table calls compared (plain and proxy), %d mismatching" % (rep.prop, cfg, res.distinct, len(cases), bad))


def key_of(g):
    if isinstance(g, dict) and "i" in g:
        return int(g["i"])
    if isinstance(g, dict) and "s" in g:
        return g["s"]
    return json.dumps(g)


def content(ev, tag):
    d = {}
    for e in ev:
        if e and e[0] == {"s": tag} and len(e) == 3:
            d[key_of(e[1])] = e[2]
    return d


def content_eq(exp_pairs, got, extra=None):
    exp = {inst(k): v for k, v in exp_pairs}
    if extra:
        exp.update(extra)
    if set(exp) != set(got):
        return False
    return all(val_eq(v, got[k]) for k, v in exp.items())


def tab_compare(c):
    if c["fate"] != "ok":
        return (c["fate"], c.get("detail", ""))
    cs, ev = c["cs"], c["ev"]
    rs = [e for e in ev if e and e[0] == {"s": "r"}]
    if len(rs) != 1:
        return ("events", "expected one result event, got %d" % len(rs))
    ok, vals = rs[0][1], rs[0][2:]
    if cs["k"] == "unspec":
        return None
    if cs["k"] == "error":
        if ok is not False:
            return ("error-expected", "no error; returned %s" % [show(v) for v in vals])
        return None
    if ok is not True:
        return ("unexpected-error", "raised %s" % show(vals[0] if vals else None))
    if cs["r"] == ["dest"]:
        if vals != [True, {"i": "0"}]:
            return ("value", "table.move must return exactly the destination table; got (same, extra) = %s" % vals)
    elif cs["r"] == ["packed"]:
        if vals != [True, {"i": "0"}]:
            return ("value", "table.pack must return exactly one table; got (is table, extra) = %s" % vals)
    elif len(vals) != len(cs["r"]) or not all(val_eq(e, g) for e, g in zip(cs["r"], vals)):
        return ("value", "expected %s got %s" % (json.dumps(cs["r"]), [show(v) for v in vals]))
    got = content(ev, "t")
    if c["fn"] == "pack":
        if not content_eq(cs["t"], got, {"n": cs["n"]}):
            return ("content", "packed table: expected %s n=%d got %s" % (cs["t"], cs["n"], {k: show(v) for k, v in got.items()}))
        return None
    if not content_eq(cs["t"], got):
        return ("content", "final content: expected %s got %s" % (cs["t"], {k: show(v) for k, v in got.items()}))
    if cs["n"] == 1 and not content_eq(cs["u"], content(ev, "u")):
        return ("content", "final content of a2: expected %s got %s" % (cs["u"], {k: show(v) for k, v in content(ev, "u").items()}))
    return None


# --------------------------------------------------------------------------------------------------
# sort (direction B)

SORT_PRELUDE = """local function proxy(B)
  return setmetatable({}, {__index = function(_, k) return B[k] end,
                           __newindex = function(_, k, v) B[k] = v end,
                           __len = function() return #B end})
end
local N, K, S = 0, 0, 0
local CMP = {
  ltf = function(a, b) N = N + 1 return a < b end,
  gt = function(a, b) N = N + 1 return a > b end,
  le = function(a, b) N = N + 1 return a <= b end,
  mod2 = function(a, b) N = N + 1 return a % 2 < b % 2 end,
  ["true"] = function(a, b) N = N + 1 return true end,
  ["false"] = function(a, b) N = N + 1 return false end,
  rand = function(a, b) N = N + 1 S = (S * 1103515245 + 12345) % 2147483648 return (S // 65536) % 2 == 1 end,
  errk = function(a, b) N = N + 1 if N == K then error("E", 0) end return a < b end,
  ltnil = function(a, b) N = N + 1 if a < b then return true end end,
  gtnum = function(a, b) N = N + 1 if a > b then return 0 end return nil end,
  ltmany = function(a, b) N = N + 1 return a < b, true, "x", not (a < b) end,
}
local function srt(id, cmp, k, B, P)
  N, K, S = 0, k, k
  if cmp == "lt" then emit(id, "r", pcall(table.sort, P)) else emit(id, "r", pcall(table.sort, P, CMP[cmp])) end
  emit(id, "n", N)
  for kk, v in next, B do emit(id, "kv", kk, v) end
  emit(id, "end")
end
"""


def sort_part(rep, drv, tier, corrupt=None):
    cov = rep.cov
    gens = {"quick": [("SortGenQ.cfg", None, None)],
            "thorough": [("SortGenT.cfg", None, None), ("SortSim.cfg", "num=1", 150)]}[tier]
    cases = []
    for cfg, sim, depth in gens:
        res = run_tlc("Sort", cfg, timeout=900, simulate=sim, depth=depth, workers=1 if sim else None)
        if res.violation:
            raise Infra("Sort generation failed: " + res.violation)
        cov["states"] += res.distinct
        cov["transitions"] += res.generated
        for line in res.emitted:
            for cm in line["cmps"]:
                for mode in ("plain", "proxy"):
                    cid = len(cases) + 1
                    lua = 'local B = {%s} srt(%d, "%s", %d, B, %s)' % (", ".join(str(x) for x in line["inp"]), cid, cm["cmp"],
                                                                      cm["k"], "proxy(B)" if mode == "proxy" else "B")
                    cases.append({"id": cid, "inp": line["inp"], "cmp": cm["cmp"], "k": cm["k"], "mode": mode, "lua": lua,
                                  "complete": tab_complete})
        cov["configs"].append({"cfg": cfg, "distinct": res.distinct, "generated": res.generated, "inputs": len(res.emitted)})
    Runner(drv, SORT_PRELUDE, rep).run(cases, chunk=150, timeout=30000)
    path = os.path.join(scratch(), "sortcases.ndjson")
    maxcalls = {}
    with open(path, "w") as f:
        for c in cases:
            o = {"id": c["id"], "inp": c["inp"], "cmp": c["cmp"], "k": c["k"], "status": c["fate"] if c["fate"] in ("ok", "hang") else "crash",
                 "err": "none", "n": 0, "keys": [], "vals": [], "odd": 0}
            if c["fate"] == "ok":
                kv = {}
                for e in c["ev"]:
                    tag = e[0].get("s") if e and isinstance(e[0], dict) else None
                    if tag == "r":
                        if e[1] is False:
                            o["err"] = "E" if e[2:] == [{"s": "E"}] else "other"
                    elif tag == "n":
                        o["n"] = int(e[1]["i"])
                    elif tag == "kv":
                        if isinstance(e[1], dict) and "i" in e[1] and isinstance(e[2], dict) and "i" in e[2] and abs(int(e[2]["i"])) < 2 ** 31:
                            kv[int(e[1]["i"])] = int(e[2]["i"])
                        else:
                            o["odd"] += 1
                o["keys"] = sorted(kv)
                o["vals"] = [kv[k] for k in o["keys"]]
                n = len(c["inp"])
                if c["cmp"] != "lt":
                    maxcalls[n] = max(maxcalls.get(n, 0), o["n"])
            if corrupt and c["id"] == corrupt and o["vals"]:
                o["vals"][0] += 1           # binding demonstration only
            c["obs"] = o
            f.write(json.dumps(o, separators=(",", ":")) + "\n")
    failing = []
    res = run_tlc("Sort", "SortChk.cfg", timeout=1800, extra_files=[path], on_line=failing.append)
    if res.violation:
        raise Infra("Sort evaluation failed: " + res.violation)
    if res.distinct < len(cases):
        raise Infra("Sort evaluation visited %d states for %d cases" % (res.distinct, len(cases)))
    cov["states"] += res.distinct
    cov["transitions"] += res.generated
    cov["configs"].append({"cfg": "SortChk.cfg", "distinct": res.distinct, "generated": res.generated, "cases": len(cases),
                           "mismatching": len(failing), "tlc_s": round(res.wall, 1)})
    cov["traces_validated_against_impl"] += len(cases)
    bycmp = cov.setdefault("sort_cases_by_cmp", {})
    errs = cov.setdefault("sort_errors_by_cmp", {})
    for c in cases:
        bycmp[c["cmp"]] = bycmp.get(c["cmp"], 0) + 1
        if c["obs"]["err"] != "none":
            errs[c["cmp"]] = errs.get(c["cmp"], 0) + 1
    cov["sort_max_list_length"] = max(len(c["inp"]) for c in cases)
    cov["sort_max_comparisons_by_length"] = {str(k): v for k, v in sorted(maxcalls.items()) if k in (5, 7, 13, 51, 100, 257) or k == max(maxcalls)}
    byid = {c["id"]: c for c in cases}
    for fl in failing:
        c = byid[fl["id"]]
        sig = {"fn": "sort", "cmp": c["cmp"], "why": "+".join(sorted(fl["why"])), "mode": c["mode"]}
        rep.violation(sig, {"cmd": "lua-run", "src": SORT_PRELUDE + c["lua"], "observation": c["obs"], "violated": fl["why"],
                            "detail": c.get("detail", "")})
    for c in cases:
        if c["cmp"] == "rand" and len(c["inp"]) >= 12:
            rep.sample({"lua": c["lua"][:200], "observation": {k: v for k, v in c["obs"].items() if k != "inp"}}, cap=8)
            break
    log("[%s] sort: %d (input, comparison, table kind) cases run, predicates evaluated by TLC, %d failing" % (rep.prop, len(cases), len(failing)))


# --------------------------------------------------------------------------------------------------


def run(prop, tier, parts=("str", "tab", "sort"), corrupt=None):
    rep = Report(prop, tier, "model_checking")
    rep.cov.update(states=0, transitions=0, traces_validated_against_impl=0, configs=[], exhaustive=True)
    drv = build_driver()
    if "str" in parts:
        str_part(rep, drv, tier)
    if "tab" in parts:
        tab_part(rep, drv, tier)
    if "sort" in parts:
        sort_part(rep, drv, tier, corrupt=corrupt)
    rep.assumptions += [
        "BIG = 10^6 in TLC stands for math.maxinteger (and -BIG-1 for math.mininteger): the manual's definitions compare positions only with lengths, so results are independent of BIG's magnitude",
        "error messages are not compared, only error vs no error (and the error value raised by the comparison function of sort)",
        "upper/lower follow the C locale (ASCII letters); any locale keeps one byte per character",
        "results longer than any real string (rep with n = maxinteger) and result lists of ~maxinteger values (unpack) must be errors; table.move ranges that legally need ~maxinteger steps are not run",
        "through __index/__newindex/__len proxies only the results and the final backing content are compared, not the number or order of accesses",
        "sort: the number of comparisons is recorded, not judged",
    ]
    hist = {}
    for sig, _ in rep.violations:
        k = json.dumps(sig, sort_keys=True)
        hist[k] = hist.get(k, 0) + 1
    for k, n in sorted(hist.items()):
        log("  unlisted discrepancy class %s: %d cases" % (k, n))
    # one replay file per distinct signature (Report.finish writes the first 20 violations only)
    seen, keep = set(), []
    for sig, r in rep.violations:
        k = json.dumps(sig, sort_keys=True)
        if k not in seen:
            seen.add(k)
            keep.append((sig, r))
    rep.cov["unlisted_discrepancies"] = len(rep.violations)
    rep.violations = keep[:20] if keep else []
    return rep.finish()


def replay(prop, path):
    """re-run the Lua source of a stored replay and print what it does now"""
    d = json.load(open(path))
    drv = build_driver()
    out = run_lua_cases(drv, [{"id": 0, "src": d["replay"]["src"], "timeout": 5000, "maxev": 100000}])[0]
    exp = d["replay"].get("expected", d["replay"].get("violated"))
    print(json.dumps({"sig": d["sig"], "expected": exp, "observed_now": out}, indent=1)[:4000])
    return 0

"""C15: Pattern.tla evaluated by TLC over (pattern, subject) pairs; every case's battery of
string.find / match / gmatch / gsub calls is run on the real library through Lua and compared."""
import json, os, random, re, sys, time
import concurrent.futures as cf
sys.path.insert(0, os.path.join(os.path.dirname(os.path.abspath(__file__)), "..", "lib"))
from vlib import *

# The Lua side prints every result in a canonical form: nil -> N, integer -> #n, string -> 'text', values joined by ",",
# a call that raised -> E, the matches of a gmatch loop -> [m1;m2;...].  The same form is produced here from the JSON the
# spec emits (integer -> #n, array of characters -> 'text').
PRELUDE = r"""local find, match, gmatch, gsub = string.find, string.match, string.gmatch, string.gsub
local pcall, select, type, mtype, concat, setmetatable, error = pcall, select, type, math.type, table.concat, setmetatable, error
local function V(v)
  if v == nil then return "N" elseif mtype(v) == "integer" then return "#" .. v
  elseif type(v) == "string" then return "'" .. v .. "'" else return "?" .. type(v) end
end
local function L(...)
  local n = select("#", ...)
  if n == 0 then return "" end
  local t = {}
  for i = 1, n do t[i] = V((select(i, ...))) end
  return concat(t, ",")
end
local function R(ok, ...) if not ok then return "E" end return L(...) end
local function G1(out, v, ...) if v == nil then return false end out[#out + 1] = L(v, ...) return true end
local function GM(s, p, ...)
  local it = gmatch(s, p, ...)
  local out, n = {}, 0
  while G1(out, it()) do n = n + 1 if n > 40 then out[#out + 1] = "RUNAWAY" break end end
  return "[" .. concat(out, ";") .. "]"
end
local function RG(ok, v) if not ok then return "E" end return v end
local FN = function(...) if (...) == "a" then return nil end return "{" .. L(...) .. "}" end
local TB = setmetatable({}, {__index = function(_, k) if k == "a" then return false end return "{" .. L(k) .. "}" end})
"""


def text(codes):
    return "".join(map(chr, codes))


def lua_str(chars):
    s = chars if isinstance(chars, str) else "".join(chars)
    if '"' in s or "\\" in s or "\n" in s:
        raise Infra("character outside the renderable universe in %r" % s)
    return '"' + s + '"'


def call_expr(d):
    """Lua expression (a canonical string) for one battery entry; s and p are the locals of the battery function"""
    lua = d["lua"]
    fn = lua[0]
    if fn in ("find", "match"):
        return "R(pcall(%s, s, p%s))" % (fn, "".join(", %d" % a for a in lua[1:]))
    if fn == "gmatch":
        return "RG(pcall(GM, s, p%s))" % "".join(", %d" % a for a in lua[1:])
    if fn == "gsub":
        kind, n = lua[1], lua[2]
        repl = lua_str(kind[1]) if kind[0] == "str" else {"fn": "FN", "tbl": "TB"}[kind[0]]
        return "R(pcall(gsub, s, p, %s%s))" % (repl, "" if n == -2 else ", %d" % n)
    raise Infra("unknown battery entry %r" % (d,))


def call_text(d, s, p):
    """the same call as a self-contained Lua expression, for reports"""
    lua = d["lua"]
    fn = lua[0]
    S, P = lua_str(text(s)), lua_str(text(p))
    if fn in ("find", "match", "gmatch"):
        return "string.%s(%s, %s%s)" % (fn, S, P, "".join(", %d" % a for a in lua[1:]))
    kind, n = lua[1], lua[2]
    repl = lua_str(kind[1]) if kind[0] == "str" else {"fn": "<function>", "tbl": "<table>"}[kind[0]]
    return "string.gsub(%s, %s, %s%s)" % (S, P, repl, "" if n == -2 else ", %d" % n)


def rv(v):
    return "#%d" % v if isinstance(v, int) else "'" + "".join(map(chr, v)) + "'"


def rl(vs):
    return ",".join(rv(v) for v in vs)


# a case as emitted by the spec: [pattern, subject, st, strict, ncap, f, m, gm, g, why, full, "c"]
P_, S_, ST, STRICT, NC, F_, M_, GM, G_, WHY, FULL = range(11)
ST_NAME = {0: "ok", 1: "bad", 2: "undef"}


def expected_parts(case, calls):
    """canonical expected string per battery entry; None = not determined (not compared)"""
    if case[ST] == 2:
        return [None] * len(calls)
    f = [SPECIAL[v[0]] if v in MARK else (rl(v) if v else "N") for v in case[F_]]
    m = [SPECIAL[v[0]] if v in MARK else (rl(v) if v else "N") for v in case[M_]]
    gm = [SPECIAL[v[0]] if v in MARK else "[" + ";".join(rl(x) for x in v) + "]" for v in case[GM]]
    g = [SPECIAL[v[0]] if v in MARK else rl(v) for v in case[G_]]
    tab = {F_: f, M_: m, GM: gm, G_: g}
    return [tab[d["at"][0]][d["at"][1] - 1] for d in calls]


MARK = ([-1], [-2])                  # NotDet, Err of the spec
SPECIAL = {-1: None, -2: "E"}


class Battery:
    def __init__(self):
        self.calls = {}   # len -> list of descriptors

    def add(self, hdr):
        self.calls[(hdr["hdr"], hdr["full"])] = hdr["calls"]
        self.bad = hdr["bad"]

    def of(self, case):
        return self.calls[(len(case[S_]), case[FULL])]

    def prelude(self):
        out = [PRELUDE, "local B = {}"]
        for (ln, full), calls in sorted(self.calls.items()):
            out.append("B[%d] = function(s, p) return concat({%s}, \"|\") end" % (2 * ln + full, ", ".join(call_expr(d) for d in calls)))
        out.append("local function C(k, full, s, p) emit(k, B[2 * #s + full](s, p)) end")
        return "\n".join(out) + "\n"


def classify(case, d, exp, got, anch, bad_reasons):
    fn = d["lua"][0]
    sig = {"fn": fn, "st": ST_NAME[case[ST]], "anch": anch, "strict": bool(case[STRICT] and d.get("strict", True)),
           "empty": not case[P_]}
    if case[ST] == 1:
        sig["bad"] = bad_reasons[case[WHY] - 1]
    ln = len(case[S_])
    if fn in ("find", "match", "gmatch"):
        sig["beyond"] = len(d["lua"]) > 1 and d["lua"][1] > ln + 1
    if fn == "gsub":
        kind, n = d["lua"][1], d["lua"][2]
        sig["repl"] = "".join(kind[1]) if kind[0] == "str" else kind[0]
        sig["n"] = n
    if got == "PANIC":
        sig["why"] = "go-panic"
    elif got == "HANG":
        sig["why"] = "hang"
    elif exp == "E":
        sig["why"] = "no-error"          # the spec says the call raises an error
    elif got == "E":
        sig["why"] = "error"             # the spec says it returns values
    else:
        sig["why"] = "value"
        if fn == "gsub":
            es, gs = exp.rsplit(",", 1), got.rsplit(",", 1)
            sig["diff"] = "count" if es[0] == gs[0] else ("string" if es[-1] == gs[-1] else "string+count")
        elif fn in ("find", "match"):
            sig["diff"] = "nil-expected" if exp == "N" else ("nil-got" if got == "N" else "values")
    return sig


NSH = max(2, min(12, NCPU - 4))
# (cfg, simulate, depth, number of TLC processes)
CONFIGS = {
    "quick": [("PatternQ.cfg", None, None, NSH)],
    "thorough": [("PatternT.cfg", None, None, NSH), ("PatternT4.cfg", None, None, NSH), ("PatternSim.cfg", "num=1000", 9, 1)],
}
GOENV2 = {"GOMAXPROCS": "2"}     # the driver is single-threaded work; fewer Go scheduler threads on a busy machine
CHUNK = 400      # cases per Lua chunk
BATCH = 12000    # cases per round of driver runs within a shard
NPROC = 2        # driver processes per shard


def run_chunks(drv, bat, chunks, timeout=20000):
    pre = bat.prelude()
    inputs = []
    for ci, ch in enumerate(chunks):
        src = pre + "\n".join("C(%d, %d, %s, %s)" % (i, c[FULL], lua_str(text(c[S_])), lua_str(text(c[P_]))) for i, c in enumerate(ch)) + "\n"
        inputs.append({"id": ci, "src": src, "timeout": timeout, "maxev": len(ch) + 10})
    outs = run_lua_cases(drv, inputs, nproc=NPROC, env=GOENV2)
    return [outs[ci] for ci in range(len(chunks))]


def detailed(drv, bat, culprits):
    """culprits: cases whose battery stopped a chunk.  Each is run alone with one emit per call, so that the call
    that panics is identified and the calls after it still get their result.  Returns {id(case): list of parts}"""
    res = {id(c): [None] * len(bat.of(c)) for c in culprits}
    todo = [(c, 0) for c in culprits]
    guard = 0
    while todo:
        guard += 1
        if guard > 80:
            raise Infra("too many re-runs of a single battery")
        inputs = []
        for i, (c, start) in enumerate(todo):
            calls = bat.of(c)
            src = PRELUDE + "local s, p = %s, %s\n" % (lua_str(text(c[S_])), lua_str(text(c[P_]))) + "".join(
                "emit(%d, %s)\n" % (j, call_expr(calls[j])) for j in range(start, len(calls)))
            inputs.append({"id": i, "src": src, "timeout": 30000})
        outs = run_lua_cases(drv, inputs, nproc=NPROC, env=GOENV2)
        nxt = []
        for i, (c, start) in enumerate(todo):
            o = outs[i]
            r = res[id(c)]
            n = len(r)
            if o.get("timeout"):
                # the events of a hung chunk are lost: isolate the first call, then go on with the others
                single = run_lua_cases(drv, [{"id": 0, "src": PRELUDE + "local s, p = %s, %s\nemit(%d, %s)\n" % (
                    lua_str(text(c[S_])), lua_str(text(c[P_])), start, call_expr(bat.of(c)[start])), "timeout": 30000}], nproc=1)[0]
                if single.get("timeout"):
                    r[start] = "HANG"
                elif single.get("panic") or single.get("crash"):
                    r[start] = "PANIC"
                else:
                    r[start] = single["events"][0][1]["s"]
                if start + 1 < n:
                    nxt.append((c, start + 1))
                continue
            j = start - 1
            for e in o.get("events") or []:
                j = int(e[0]["i"])
                r[j] = e[1]["s"]
            if o.get("panic") or o.get("crash"):
                if j + 1 < n:
                    r[j + 1] = "PANIC"
                    if j + 2 < n:
                        nxt.append((c, j + 2))
            elif not o.get("ok"):
                raise Infra("battery call chunk failed: %s" % (o.get("errstr") or json.dumps(o))[:600])
        todo = nxt
    return res


def run_batch(drv, bat, cases, acc, corrupt):
    """run the batteries of `cases` on the real library and compare; accumulates into acc"""
    # the cases of one pattern arrive together; spread them so that a pattern whose battery panics does not
    # stop the same chunk over and over
    order = list(cases)
    random.Random(seed()).shuffle(order)
    pending = [order[i:i + CHUNK] for i in range(0, len(order), CHUNK)]
    got = {}          # id(case) -> joined string | list of parts (detailed)
    rounds = 0
    while pending:
        rounds += 1
        if rounds > 100:
            raise Infra("too many re-runs of pattern chunks")
        outs = run_chunks(drv, bat, pending)
        nxt = []
        culprits = []
        for ch, o in zip(pending, outs):
            evs = o.get("events") or []
            for e in evs:
                got[id(ch[int(e[0]["i"])])] = e[1]["s"] if isinstance(e[1], dict) and "s" in e[1] else None
            done = len(evs)
            if o.get("timeout"):
                culprits.extend(ch)      # events are lost with a hung chunk: run its cases one by one
            elif o.get("panic") or o.get("crash"):
                if done < len(ch):
                    culprits.append(ch[done])
                    acc["panics"] += 1
                    if done + 1 < len(ch):
                        nxt.append(ch[done + 1:])
            elif not o.get("ok"):
                raise Infra("battery chunk failed: %s" % (o.get("errstr") or json.dumps(o))[:600])
            elif done != len(ch):
                raise Infra("battery chunk lost events: %d of %d" % (done, len(ch)))
        if culprits:
            got.update(detailed(drv, bat, culprits))
        pending = nxt
    for c in cases:
        calls = bat.of(c)
        exp = expected_parts(c, calls)
        if corrupt and c[ST] == 0 and text(c[P_]) == corrupt[0] and text(c[S_]) == corrupt[1]:
            exp[0] = "#9,#9"       # deliberately wrong expectation (binding self-test)
        g = got.get(id(c))
        acc["n"] += 1
        if g is None:
            raise Infra("no result for case %r" % (c,))
        parts = g if isinstance(g, list) else g.split("|")
        if len(parts) != len(exp):
            raise Infra("battery result has %d parts, expected %d: %r" % (len(parts), len(exp), g))
        anch = bool(c[P_]) and c[P_][0] == 94
        for d, e, a in zip(calls, exp, parts):
            if e is None:
                acc["nd"] += 1
                if a not in ("PANIC", "HANG"):
                    continue
                e = "(not determined)"
            acc["calls"] += 1
            if a != e:
                sig = classify(c, d, e, a, anch, bat.bad)
                key = json.dumps(sig, sort_keys=True)
                lua = "return " + call_text(d, c[S_], c[P_])
                it = acc["bad"].get(key)
                if it is None or len(lua) < len(it[2]["lua"]):
                    acc["bad"][key] = [sig, (it[1] if it else 0), {
                        "cmd": "lua-run", "lua": lua, "pattern": text(c[P_]), "subject": text(c[S_]), "expected": e, "observed": a,
                        "parse": ST_NAME[c[ST]],
                        "src": PRELUDE + "local s, p = %s, %s\nemit(%s)\n" % (lua_str(text(c[S_])), lua_str(text(c[P_])), call_expr(d))}]
                acc["bad"][key][1] += 1


def shard_worker(args):
    """one TLC process (one share of the patterns) and the replay of its cases; runs in a process of its own because
    decoding and comparing a few hundred thousand cases is CPU-bound Python"""
    cfg, sim, depth, k, shards, drv, corrupt = args
    bat = Battery()
    buf = []
    acc = dict(n=0, calls=0, nd=0, panics=0, bad={}, ok=0, malformed=0, undet=0, nonstrict=0, with_match=0, with_caps=0, anchored=0,
               samples=[], tokens={})

    def on_line(v):
        if isinstance(v, dict):
            bat.add(v)
            return
        s = v[ST]
        if s == 0:
            acc["ok"] += 1
            if v[F_][0]:
                acc["with_match"] += 1
            if v[NC]:
                acc["with_caps"] += 1
            if v[P_] and v[P_][0] == 94:
                acc["anchored"] += 1
            if len(acc["samples"]) < 2 and len(v[S_]) >= 3 and v[NC] and v[F_][0] and len(v[P_]) >= 4:
                acc["samples"].append({"pattern": text(v[P_]), "subject": text(v[S_]), "find": [x if isinstance(x, int) else text(x) for x in v[F_][0]],
                                       "gsub": [text(v[G_][0][0]), v[G_][0][1]] if len(v[G_][0]) == 2 else v[G_][0]})
        elif s == 1:
            acc["malformed"] += 1
        else:
            acc["undet"] += 1
        if not v[STRICT]:
            acc["nonstrict"] += 1
        buf.append(v)
        if len(buf) >= BATCH:
            run_batch(drv, bat, buf[:], acc, corrupt)
            del buf[:]

    t0 = time.time()
    # TLC does not scale over workers on this spec (measured: 8 workers are no faster than 1), separate processes do
    res = run_tlc("PatternMC", cfg, timeout=3400, on_line=on_line, simulate=sim, depth=depth, workers=1, heap="3g",
                  consts={"Shard": k, "NShards": shards}, seed_=seed() + k, env={"JAVA_TOOL_OPTIONS": "-XX:ParallelGCThreads=2"})
    if res.violation:
        raise Infra("Pattern TLC run failed on %s: %s" % (cfg, res.violation))
    if buf:
        run_batch(drv, bat, buf[:], acc, corrupt)
    acc.update(distinct=res.distinct, generated=res.generated, wall=round(time.time() - t0, 1))
    return acc


def run(prop, tier, only=None, corrupt=None, cpu=True):
    rep = Report(prop, tier, "model_checking")
    dump = open(os.environ["VERIF_C15_DUMP"], "w") if os.environ.get("VERIF_C15_DUMP") else None   # development aid
    cov = rep.cov
    cov.update(states=0, transitions=0, traces_validated_against_impl=0, calls_compared=0, configs=[], exhaustive=True,
               cases_ok=0, cases_malformed=0, cases_undetermined=0, cases_nonstrict=0, cases_with_match=0,
               cases_with_captures=0, cases_anchored=0, calls_not_determined=0, go_panics=0,
               reference_divergences_not_determined_by_manual={})
    drv = build_driver()
    scratch()
    allbad = {}      # signature -> [sig, number of mismatching calls, shortest example]
    for cfg, sim, depth, shards in CONFIGS[tier]:
        if only and cfg not in only:
            continue
        t0 = time.time()
        with cf.ProcessPoolExecutor(max_workers=shards) as pool:
            results = list(pool.map(shard_worker, [(cfg, sim, depth, k, shards, drv, corrupt) for k in range(shards)]))
        tot = dict(n=0, bad=0, distinct=0, generated=0)
        for acc in results:
            tot["n"] += acc["n"]
            tot["distinct"] += acc["distinct"]
            tot["generated"] += acc["generated"]
            cov["traces_validated_against_impl"] += acc["n"]
            cov["calls_compared"] += acc["calls"]
            cov["calls_not_determined"] += acc["nd"]
            cov["go_panics"] += acc["panics"]
            cov["cases_ok"] += acc["ok"]
            cov["cases_malformed"] += acc["malformed"]
            cov["cases_undetermined"] += acc["undet"]
            cov["cases_nonstrict"] += acc["nonstrict"]
            cov["cases_with_match"] += acc["with_match"]
            cov["cases_with_captures"] += acc["with_caps"]
            cov["cases_anchored"] += acc["anchored"]
            for x in acc["samples"]:
                rep.sample(x, cap=4)
            for key, (sig, count, replay) in sorted(acc["bad"].items()):
                if dump:
                    dump.write(json.dumps({"sig": sig, "count": count, "replay": replay}) + "\n")
                if not sig["strict"] and sig["why"] not in ("go-panic", "hang"):
                    # the manual does not determine this call: a difference from the reference implementation is
                    # recorded as an observation, it is not a violation
                    k2 = json.dumps({k: v for k, v in sig.items() if k != "strict"}, sort_keys=True)
                    o = cov["reference_divergences_not_determined_by_manual"].setdefault(
                        k2, {"count": 0, "example": replay["lua"], "reference": replay["expected"], "observed": replay["observed"]})
                    o["count"] += count
                    continue
                tot["bad"] += count
                it = allbad.get(key)
                if it is None or len(replay["lua"]) < len(it[2]["lua"]):
                    allbad[key] = [sig, (it[1] if it else 0), replay]
                allbad[key][1] += count
        cov["states"] += tot["distinct"]
        cov["transitions"] += tot["generated"]
        cov["configs"].append({"cfg": cfg, "shards": shards, "distinct": tot["distinct"], "generated": tot["generated"], "cases": tot["n"],
                               "mismatching_calls": tot["bad"], "shard_wall_s": [a["wall"] for a in results], "shard_cases": [a["n"] for a in results],
                               "total_s": round(time.time() - t0, 1)})
        log("[%s] %s: %d shards, %d cases, %d mismatching calls, %.0fs" % (prop, cfg, shards, tot["n"], tot["bad"], time.time() - t0))
    if dump:
        dump.close()
    # one replay per signature (Report writes the first 20 distinct ones): panics and hangs first, then by frequency
    ranked = sorted(allbad.values(), key=lambda x: (x[0]["why"] not in ("go-panic", "hang"), -x[1]))
    for sig, count, replay in ranked:
        rep.violation(sig, replay)
    if cpu:
        cpu_clause(rep, drv)
    for sig, count, replay in ranked:      # the remaining occurrences (counted per known finding)
        for _ in range(count - 1):
            rep.violation(sig, replay)
    rep.assumptions += [
        "compared per call: error vs values, positions, captures, gsub result and count, the gmatch sequence; never message texts",
        "gmatch with a pattern starting with '^', %1 in a replacement for a pattern without captures, %x with x alphanumeric "
        "and not a class letter: not determined by the manual, only absence of a Go panic / hang is required",
        "differences in calls whose result only the reference implementation fixes (flag strict = FALSE of the spec) are listed "
        "under reference_divergences_not_determined_by_manual, they are not violations",
        "plain find (4th argument) belongs to C19",
    ]
    return rep.finish()


# ---------------------------------------------------------------------------------------------------------------
# CPU clause: matching work is charged to the CPU budget.  Relational: a call that uses U ticks without a limit
# must be stopped ("killed") under any limit L < U, well before doing U's worth of work.

PATHOLOGICAL = [
    ("lazy-chain", 'string.find(string.rep("a", 40), "a-a-a-a-a-b")'),
    ("greedy-chain", 'string.find(string.rep("a", 55), ".*.*.*.*b")'),
    ("optional-chain", 'string.find(string.rep("a", 14), string.rep("a?", 14) .. "b")'),
    ("frontier-loop", 'string.gsub(string.rep("a b", 3000), "%f[%a]%a*%f[%A]x", "")'),
    ("gmatch-backtrack", 'local n = 0 for w in string.gmatch(string.rep("a", 90), "a*a*a*c") do n = n + 1 end return n'),
    ("gsub-backtrack", 'string.gsub(string.rep("ab", 45), "[ab]-[ab]-[ab]-c", "x")'),
    ("balanced", 'string.find(string.rep("(", 3000), "%b()")'),
    ("backref", 'string.find(string.rep("a", 200), "(a*)(a*)%2%1b")'),
]


# A search that fails at every start offset still visits every offset: the charge has to grow with the subject.
# (name, call with %d for the subject length); compared between a 1 KiB and a 1 MiB subject
SCANS = [
    ("find-scan", 'string.find(string.rep("a", %d), "b")'),
    ("match-scan", 'string.match(string.rep("a", %d), "(b)c")'),
    ("gsub-scan", 'string.gsub(string.rep("a", %d), "b", "x")'),
    ("gmatch-scan", 'local n = 0 for w in string.gmatch(string.rep("a", %d), "b+") do n = n + 1 end return n'),
]


def scan_charge(rep, drv):
    small, large = 1 << 10, 1 << 20
    cases = []
    for i, (name, src) in enumerate(SCANS):
        for j, n in enumerate((small, large)):
            body = src % n
            cases.append({"id": 2 * i + j, "src": ("return " if not body.startswith("local") else "") + body, "cpu": 1 << 40, "timeout": 60000})
    outs = run_lua_cases(drv, cases, nproc=4)
    rep.cov["cpu_scan_cases"] = []
    for i, (name, src) in enumerate(SCANS):
        a, b = outs[2 * i], outs[2 * i + 1]
        for o in (a, b):
            if o.get("timeout") or o.get("panic") or o.get("crash") or not o.get("ok"):
                raise Infra("cpu scan probe %s failed: %s" % (name, json.dumps(o)[:300]))
        ua, ub = a.get("used_cpu", 0), b.get("used_cpu", 0)
        rep.cov["cpu_scan_cases"].append({"case": name, "used_cpu_1KiB": ua, "used_cpu_1MiB": ub})
        # a thousandth of a tick per additional start offset would pass
        if ub - ua < (large - small) // 1000:
            rep.violation({"fn": "cpu", "why": "scan-not-charged", "case": name},
                          {"cmd": "lua-run", "src": cases[2 * i + 1]["src"], "cpu": 1 << 40, "used_cpu_1KiB_subject": ua, "used_cpu_1MiB_subject": ub,
                           "why": "the search visits every start offset of the subject but the charge does not grow with its length"})


def cpu_clause(rep, drv):
    scan_charge(rep, drv)
    cov = rep.cov
    cov["cpu_cases"] = []
    big = 1 << 40
    cases = [{"id": i, "src": ("return " if not src.startswith("local") else "") + src, "cpu": big, "timeout": 60000}
             for i, (_, src) in enumerate(PATHOLOGICAL)]
    outs = run_lua_cases(drv, cases, nproc=4)
    lim = []
    for i, (name, src) in enumerate(PATHOLOGICAL):
        o = outs[i]
        if o.get("timeout"):
            rep.violation({"fn": "cpu", "why": "hang", "case": name}, {"cmd": "lua-run", "src": cases[i]["src"], "cpu": big, "observed": o})
            continue
        if o.get("panic") or o.get("crash"):
            rep.violation({"fn": "cpu", "why": "go-panic", "case": name}, {"cmd": "lua-run", "src": cases[i]["src"], "observed": o})
            continue
        if not o.get("ok"):
            raise Infra("cpu probe %s failed: %s" % (name, o.get("errstr")))
        used = o.get("used_cpu", 0)
        entry = {"case": name, "unlimited_used_cpu": used}
        cov["cpu_cases"].append(entry)
        if used == 0:
            rep.violation({"fn": "cpu", "why": "nothing-charged", "case": name}, {"cmd": "lua-run", "src": cases[i]["src"], "cpu": big, "observed": o})
            continue
        for frac in (2, 10, 100):
            L = used // frac
            if L >= 50:
                lim.append((i, name, used, L))
    lcases = [{"id": j, "src": cases[i]["src"], "cpu": L, "timeout": 60000} for j, (i, name, used, L) in enumerate(lim)]
    louts = run_lua_cases(drv, lcases, nproc=4) if lcases else {}
    for j, (i, name, used, L) in enumerate(lim):
        o = louts[j]
        entry = [e for e in cov["cpu_cases"] if e["case"] == name][0]
        entry.setdefault("limited", []).append({"limit": L, "status": o.get("status"), "used_cpu": o.get("used_cpu")})
        replay = {"cmd": "lua-run", "src": lcases[j]["src"], "cpu": L, "unlimited_used_cpu": used, "observed": o}
        if o.get("timeout"):
            rep.violation({"fn": "cpu", "why": "hang-under-limit", "case": name}, replay)
        elif o.get("panic") or o.get("crash"):
            rep.violation({"fn": "cpu", "why": "go-panic", "case": name}, replay)
        elif o.get("status") != "killed":
            # the call completed (or failed otherwise) although it needs more ticks than the limit allows
            rep.violation({"fn": "cpu", "why": "not-killed", "case": name}, replay)
    cov["cpu_limited_runs"] = len(lim)


def replay(prop, path):
    """re-run a stored replay: the single call (canonical result compared with the spec's) or the CPU-limited chunk"""
    d = json.load(open(path))
    r = d["replay"]
    drv = build_driver()
    case = {"id": 0, "src": r["src"], "timeout": 60000}
    if r.get("cpu"):
        case["cpu"] = r["cpu"]
    o = run_lua_cases(drv, [case])[0]
    if "expected" in r:
        now = "HANG" if o.get("timeout") else "PANIC" if (o.get("panic") or o.get("crash")) else (
            o["events"][0][0].get("s") if o.get("events") else json.dumps(o)[:300])
        print(json.dumps({"sig": d["sig"], "lua": r.get("lua"), "expected": r["expected"], "observed_then": r["observed"], "observed_now": now}, indent=1))
        return 0 if now == r["expected"] else 1
    print(json.dumps({"sig": d["sig"], "then": {k: v for k, v in r.items() if k not in ("src", "observed")}, "observed_now": o}, indent=1)[:3000])
    return 0


if __name__ == "__main__":
    sys.exit(run("C15", sys.argv[1] if len(sys.argv) > 1 else "quick"))

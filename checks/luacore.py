"""C01: programs generated from the Lua grammar, judged by the LuaCore.tla abstract machine, rendered into several
texts and run on the real pipeline (scanner -> parser -> astcomp -> ir -> ircomp -> VM) with lua-run.

Python here is representation only: it builds abstract syntax trees (no evaluation), writes them as JSON for TLC,
renders them as Lua source in several spellings, and compares what the real code did with what the specification
computed, for equality (reference values up to a renaming by first appearance)."""
import json, os, re, sys, random, itertools, copy, time
sys.path.insert(0, os.path.join(os.path.dirname(os.path.abspath(__file__)), "..", "lib"))
from vlib import *

# --------------------------------------------------------------------------
# abstract syntax: dicts {k, a (children), s (name / operator), i (integer), ps (names), cs (string value)}


def N(k, a=(), s="", i=0, ps=(), cs=""):
    return {"k": k, "a": list(a), "s": s, "i": i, "ps": list(ps), "cs": cs}


Nil = lambda: N("nil")
TRUE = lambda: N("true")
FALSE = lambda: N("false")
Int = lambda n: N("int", i=n) if n >= 0 else N("unop", [N("int", i=-n)], s="-")
Str = lambda s: N("str", cs=s)
Va = lambda: N("vararg")
Name = lambda s: N("name", s=s, cs=s)
Paren = lambda e: N("paren", [e])
Bin = lambda op, a, b: N("binop", [a, b], s=op)
And = lambda a, b: N("and", [a, b])
Or = lambda a, b: N("or", [a, b])
Not = lambda a: N("not", [a])
Neg = lambda a: N("unop", [a], s="-")
LenOp = lambda a: N("unop", [a], s="#")
Index = lambda o, k: N("index", [o, k])
Dot = lambda o, name: N("index", [o, Str(name)])
Call = lambda f, *args: N("call", [f] + list(args))
Method = lambda o, name, *args: N("method", [o] + list(args), cs=name)
Pos = lambda e: N("fpos", [e])
Named = lambda k, e: N("fnamed", [k if isinstance(k, dict) else Str(k), e])


def Table(*fields):
    return N("table", [f if f["k"] in ("fpos", "fnamed") else Pos(f) for f in fields])


def Func(params, body, vararg=False):
    return N("func", [Block(body)], ps=params, i=1 if vararg else 0)


def Block(stmts):
    return stmts if isinstance(stmts, dict) and stmts["k"] == "block" else N("block", list(stmts))


Local = lambda names, exprs=(): N("local", list(exprs), ps=names)
LocalFunc = lambda name, params, body, vararg=False: N("localfunc", [Func(params, body, vararg)], s=name)
Assign = lambda targets, exprs: N("assign", list(targets) + list(exprs), i=len(targets))
CallStat = lambda c: N("callstat", [c])
Do = lambda body: N("do", [Block(body)])
While = lambda c, body: N("while", [c, Block(body)])
Repeat = lambda body, c: N("repeat", [Block(body), c])
Return = lambda *exprs: N("return", list(exprs))
Break = lambda: N("break")
Goto = lambda l: N("goto", s=l)
Label = lambda l: N("label", s=l)
Emit = lambda *args: CallStat(Call(Name("emit"), *args))


def If(*parts):
    """If(c1, b1, c2, b2, ..., [else_body])"""
    a = []
    for j, p in enumerate(parts):
        a.append(p if (j % 2 == 0 and j < len(parts) - 1) else Block(p))
    return N("if", a, i=len(parts) % 2)


def ForNum(var, start, limit, step, body):
    a = [start, limit] + ([step] if step is not None else []) + [Block(body)]
    return N("fornum", a, s=var, i=1 if step is not None else 0)


ForIn = lambda names, exprs, body: N("forin", list(exprs) + [Block(body)], ps=names)


def flatten(ast):
    """AST -> node table for TLC (children as 1-based indices, strings as byte codes)"""
    nodes = []

    def go(n):
        idx = len(nodes)
        nodes.append(None)
        kids = [go(c) for c in n["a"]]
        nodes[idx] = {"k": n["k"], "a": kids, "s": n["s"], "i": n["i"], "ps": n["ps"], "cs": [ord(c) for c in n["cs"]]}
        return idx + 1

    root = go(ast)
    return {"root": root, "nodes": nodes}


def size(n):
    return 1 + sum(size(c) for c in n["a"])


# --------------------------------------------------------------------------
# rendering: AST -> token list -> text, in several spellings

KEYWORDS = set("and break do else elseif end false for function goto if in local nil not or repeat return then true until while".split())
PREC = {"or": 1, "and": 2, "<": 3, ">": 3, "<=": 3, ">=": 3, "~=": 3, "==": 3, "..": 9, "+": 10, "-": 10, "*": 11, "//": 11, "%": 11}
UNARY_PREC = 12
RIGHT_ASSOC = {".."}
_IDENT = re.compile(r"^[A-Za-z_][A-Za-z0-9_]*$")


def is_ident(s):
    return bool(_IDENT.match(s)) and s not in KEYWORDS


class Style:
    """one way of spelling a program; every choice is semantically neutral"""

    def __init__(self, mode, seed_):
        self.mode = mode            # "min", "max", "mix"
        self.rng = random.Random(seed_)

    def coin(self, p=0.5):
        if self.mode == "min":
            return False
        if self.mode == "max":
            return True
        return self.rng.random() < p

    def pick(self, n):
        if self.mode == "min":
            return 0
        if self.mode == "max":
            return n - 1
        return self.rng.randrange(n)


def op_prec(n):
    if n["k"] == "binop":
        return PREC[n["s"]]
    if n["k"] in ("and", "or"):
        return PREC[n["k"]]
    if n["k"] in ("unop", "not"):
        return UNARY_PREC
    return 100


class Renderer:
    def __init__(self, style):
        self.st = style
        self.toks = []

    def t(self, *xs):
        self.toks.extend(xs)

    # -- literals
    def int_lit(self, n):
        c = self.st.pick(3)
        if c == 2:
            return "0x%X" % n if self.st.rng.random() < 0.5 else "0x%x" % n
        if c == 1:
            return "0" * self.st.rng.randrange(1, 3) + str(n)
        return str(n)

    def str_lit(self, s):
        c = self.st.pick(5)
        safe = all(ch.isalnum() or ch in " _" for ch in s)
        if not safe:
            c = 0 if c in (2, 4) else c
        if c == 0:
            return '"' + self.esc(s, '"') + '"'
        if c == 1:
            return "'" + self.esc(s, "'") + "'"
        if c == 2:
            return "[[" + s + "]]"
        if c == 3:
            def one(ch):
                r = self.st.rng.randrange(4)
                if r == 0:
                    return "\\x%02x" % ord(ch)
                if r == 1:
                    return "\\%03d" % ord(ch)
                if r == 2:
                    return "\\u{%x}" % ord(ch)
                return self.esc(ch, '"')
            return '"' + "".join(one(ch) for ch in s) + '"'
        return "[==[" + s + "]==]"

    @staticmethod
    def esc(s, q):
        out = []
        for ch in s:
            if ch == q or ch == "\\":
                out.append("\\" + ch)
            elif ch == "\n":
                out.append("\\n")
            elif ord(ch) < 32 or ord(ch) > 126:
                out.append("\\%03d" % ord(ch))
            else:
                out.append(ch)
        return "".join(out)

    # -- expressions
    def wrap(self, n, need):
        """render n, inside parentheses if needed (or, in redundant styles, when that cannot change the meaning)"""
        multi = n["k"] in ("call", "method", "vararg")
        extra = (not need) and (not multi) and self.st.coin(0.3)
        if need or extra:
            self.t("(")
            self.expr(n)
            self.t(")")
        else:
            self.expr(n)

    def operand(self, n, need):
        # an operand is always adjusted to one value: extra parentheses are neutral even around calls
        if need or self.st.coin(0.3):
            self.t("(")
            self.expr(n)
            self.t(")")
        else:
            self.expr(n)

    def prefix(self, n):
        """n in prefix position (callee, indexed object)"""
        if n["k"] in ("name", "index", "call", "method", "paren"):
            self.expr(n)
        else:
            self.t("(")
            self.expr(n)
            self.t(")")

    def explist(self, es):
        for j, e in enumerate(es):
            if j:
                self.t(",")
            if j < len(es) - 1:
                self.operand(e, False) if e["k"] not in ("call", "method", "vararg") or self.st.coin(0.5) else self.expr(e)
            else:
                self.wrap(e, False)

    def args(self, es):
        if len(es) == 1 and es[0]["k"] == "table" and self.st.coin(0.5):
            self.expr(es[0])
        elif len(es) == 1 and es[0]["k"] == "str" and self.st.coin(0.5):
            self.expr(es[0])
        else:
            self.t("(")
            self.explist(es)
            self.t(")")

    def funcbody(self, n, skip_self=False):
        ps = n["ps"][1:] if skip_self else n["ps"]
        self.t("(")
        for j, p in enumerate(ps):
            if j:
                self.t(",")
            self.t(p)
        if n["i"]:
            if ps:
                self.t(",")
            self.t("...")
        self.t(")")
        self.block(n["a"][0])
        self.t("end")

    def expr(self, n):
        k = n["k"]
        if k in ("nil", "true", "false"):
            self.t(k)
        elif k == "int":
            self.t(self.int_lit(n["i"]))
        elif k == "str":
            self.t(self.str_lit(n["cs"]))
        elif k == "vararg":
            self.t("...")
        elif k == "name":
            self.t(n["s"])
        elif k == "paren":
            self.t("(")
            self.expr(n["a"][0])
            self.t(")")
        elif k in ("binop", "and", "or"):
            op = n["s"] if k == "binop" else k
            p = PREC[op]
            l, r = n["a"]
            lp, rp = op_prec(l), op_prec(r)
            right = op in RIGHT_ASSOC
            self.operand(l, lp < p or (lp == p and right))
            self.t(op)
            self.operand(r, rp < p or (rp == p and not right))
        elif k in ("unop", "not"):
            op = "not" if k == "not" else n["s"]
            self.t(op)
            self.operand(n["a"][0], op_prec(n["a"][0]) < UNARY_PREC)
        elif k == "index":
            o, key = n["a"]
            self.prefix(o)
            if key["k"] == "str" and is_ident(key["cs"]) and not self.st.coin(0.4):
                self.t(".", key["cs"])
            else:
                self.t("[")
                self.wrap(key, False)
                self.t("]")
        elif k == "call":
            self.prefix(n["a"][0])
            self.args(n["a"][1:])
        elif k == "method":
            self.prefix(n["a"][0])
            self.t(":", n["cs"])
            self.args(n["a"][1:])
        elif k == "func":
            self.t("function")
            self.funcbody(n)
        elif k == "table":
            self.t("{")
            fs = n["a"]
            for j, f in enumerate(fs):
                if j:
                    self.t(";" if self.st.coin(0.3) else ",")
                if f["k"] == "fpos":
                    e = f["a"][0]
                    # a positional call/vararg that is not last is adjusted to one value anyway; last: keep as is
                    if j < len(fs) - 1:
                        self.operand(e, False) if e["k"] not in ("call", "method", "vararg") or self.st.coin(0.5) else self.expr(e)
                    else:
                        self.wrap(e, False)
                else:
                    key, e = f["a"]
                    if key["k"] == "str" and is_ident(key["cs"]) and not self.st.coin(0.4):
                        self.t(key["cs"])
                    else:
                        self.t("[")
                        self.wrap(key, False)
                        self.t("]")
                    self.t("=")
                    self.operand(e, False)
            if fs and self.st.coin(0.3):
                self.t(";" if self.st.coin(0.3) else ",")
            self.t("}")
        else:
            raise Infra("render: unknown expression kind " + k)

    # -- statements
    def dotted(self, n):
        """names of a pure Name{.Name} chain or None"""
        if n["k"] == "name":
            return [n["s"]]
        if n["k"] == "index" and n["a"][1]["k"] == "str" and is_ident(n["a"][1]["cs"]):
            d = self.dotted(n["a"][0])
            return d + [n["a"][1]["cs"]] if d else None
        return None

    def block(self, b):
        for s in b["a"]:
            self.stmt(s)

    def stmt(self, n):
        k = n["k"]
        if self.st.coin(0.15):
            self.t(";")
        if k == "local":
            self.t("local")
            for j, p in enumerate(n["ps"]):
                if j:
                    self.t(",")
                self.t(p)
            if n["a"]:
                self.t("=")
                self.explist(n["a"])
        elif k == "localfunc":
            f = n["a"][0]
            if self.st.coin(0.5):
                self.t("local", n["s"], ";" if self.st.coin() else "", n["s"], "=", "function")
                self.funcbody(f)
            else:
                self.t("local", "function", n["s"])
                self.funcbody(f)
        elif k == "assign":
            nt = n["i"]
            tg, ex = n["a"][:nt], n["a"][nt:]
            d = self.dotted(tg[0]) if nt == 1 and len(ex) == 1 and ex[0]["k"] == "func" else None
            if d and self.st.coin(0.5):
                f = ex[0]
                self.t("function")
                if len(d) >= 2 and f["ps"] and f["ps"][0] == "self" and self.st.coin(0.7):
                    for j, x in enumerate(d[:-1]):
                        if j:
                            self.t(".")
                        self.t(x)
                    self.t(":", d[-1])
                    self.funcbody(f, skip_self=True)
                else:
                    for j, x in enumerate(d):
                        if j:
                            self.t(".")
                        self.t(x)
                    self.funcbody(f)
            else:
                for j, x in enumerate(tg):
                    if j:
                        self.t(",")
                    if x["k"] == "paren" or x["k"] not in ("name", "index"):
                        raise Infra("render: bad assignment target")
                    if x["k"] == "index" and x["a"][0]["k"] not in ("name", "index", "call", "method", "paren"):
                        self.t(";")      # a statement must not begin with '(' right after an expression
                    self.expr(x)
                self.t("=")
                self.explist(ex)
        elif k == "callstat":
            c = n["a"][0]
            h = c
            while h["k"] in ("call", "method", "index"):
                h = h["a"][0]
            if h["k"] != "name":
                self.t(";")              # the statement begins with '(': keep it apart from the previous one
            self.expr(c)
        elif k == "do":
            self.t("do")
            self.block(n["a"][0])
            self.t("end")
        elif k == "while":
            self.t("while")
            self.wrap(n["a"][0], False)
            self.t("do")
            self.block(n["a"][1])
            self.t("end")
        elif k == "repeat":
            self.t("repeat")
            self.block(n["a"][0])
            self.t("until")
            self.wrap(n["a"][1], False)
        elif k == "if":
            a = n["a"]
            j = 0
            while j + 1 < len(a):
                self.t("if" if j == 0 else "elseif")
                self.wrap(a[j], False)
                self.t("then")
                self.block(a[j + 1])
                j += 2
            if j < len(a):
                self.t("else")
                self.block(a[j])
            self.t("end")
        elif k == "fornum":
            self.t("for", n["s"], "=")
            hs = n["a"][:-1]
            for j, e in enumerate(hs):
                if j:
                    self.t(",")
                self.operand(e, False)
            self.t("do")
            self.block(n["a"][-1])
            self.t("end")
        elif k == "forin":
            self.t("for")
            for j, p in enumerate(n["ps"]):
                if j:
                    self.t(",")
                self.t(p)
            self.t("in")
            self.explist(n["a"][:-1])
            self.t("do")
            self.block(n["a"][-1])
            self.t("end")
        elif k == "return":
            self.t("return")
            self.explist(n["a"])
            if self.st.coin(0.4):
                self.t(";")
            return
        elif k == "break":
            self.t("break")
        elif k == "goto":
            self.t("goto", n["s"])
        elif k == "label":
            self.t("::", n["s"], "::")
        else:
            raise Infra("render: unknown statement kind " + k)
        if self.st.coin(0.3):
            self.t(";")


_WORDCH = re.compile(r"[A-Za-z0-9_]")


def needs_space(a, b):
    if not a or not b:
        return False
    x, y = a[-1], b[0]
    if _WORDCH.match(x) and _WORDCH.match(y):
        return True
    if (x.isdigit() or a[0].isdigit()) and y == ".":
        return True             # a numeral followed by '.' would read as a (hex) float
    if x == "." and (y.isdigit() or y == "."):
        return True
    risky = "-.[=<>~/:"
    if x in risky and y in risky:
        return True
    return False


NOISE = [" ", "  ", "\n", "\t", " --[[ c ]] ", " -- n\n", "\n\n", " --[==[ ]] ]==] "]


def join_tokens(toks, style):
    out = []
    prev = ""
    for tk in toks:
        if tk == "":
            continue
        if prev:
            if style.mode == "min":
                sep = " " if needs_space(prev, tk) else ""
            elif style.mode == "max":
                sep = " "
            else:
                r = style.rng.random()
                if r < 0.35:
                    sep = " " if needs_space(prev, tk) else ""
                elif r < 0.7:
                    sep = " "
                else:
                    sep = style.rng.choice(NOISE)
            out.append(sep)
        out.append(tk)
        prev = tk
    return "".join(out) + "\n"


def render(ast, mode="min", seed_=0):
    st = Style(mode, seed_)
    r = Renderer(st)
    r.block(ast)
    return join_tokens(r.toks, st)


def renderings(ast, k, seed_):
    modes = ["min", "max"] + ["mix"] * max(0, k - 2)
    return [render(ast, m, seed_ * 7919 + j) for j, m in enumerate(modes[:k])]


# --------------------------------------------------------------------------
# judging: the specification's expectation vs what the real code did


def spec_val(v):
    """a LuaCore value (decoded JSON) -> (driver JSON value, reference key or None)"""
    t = v["t"]
    if t == "nil":
        return None, None
    if t == "b":
        return v["b"], None
    if t == "i":
        return {"i": str(v["i"])}, None
    if t == "s":
        return {"s": "".join(chr(c) for c in v["s"])}, None
    if t == "msg":
        return "STR", None
    if t == "t":
        return {"t": None}, ("t", v["id"])
    if t == "f":
        return {"fn": None}, ("fn", v["fid"])
    if t == "bi":
        return {"fn": None}, ("fn", "bi:" + v["name"])
    raise Infra("unknown spec value %r" % (v,))


def expectation(line):
    """TLC emission -> dict(events, fin, ret, err) in the driver's value language, references renamed by first appearance
    per kind; closures of one function expression created at different times may or may not be one value (manual
    3.4.4), so when two of them are observable all function identities are left uncompared."""
    names = {}
    counters = {}
    protos = line.get("protos", [])
    seen_protos = {}
    ambiguous = [False]

    def conv(v):
        j, ref = spec_val(v)
        if ref is None:
            return j
        if ref[0] == "fn" and isinstance(ref[1], int):
            pr = protos[ref[1] - 1]
            if seen_protos.setdefault(pr, ref[1]) != ref[1]:
                ambiguous[0] = True
        if ref not in names:
            counters[ref[0]] = counters.get(ref[0], 0) + 1
            names[ref] = counters[ref[0]]
        return {ref[0]: names[ref]}

    ev = [[conv(v) for v in e] for e in line["ev"]]
    vs = [conv(v) for v in line["vs"]]
    exp = {"events": ev, "fin": line["fin"], "vs": vs, "anyfn": ambiguous[0]}
    if ambiguous[0]:
        strip = lambda x: {"fn": 0} if isinstance(x, dict) and "fn" in x else x
        exp["events"] = [[strip(x) for x in e] for e in ev]
        exp["vs"] = [strip(x) for x in vs]
    return exp


def canon_output(o, anyfn):
    """rename the driver's reference ids by first appearance per kind (the driver numbers all kinds with one counter)"""
    names = {}
    counters = {}

    def conv(x):
        if isinstance(x, dict):
            for kind in ("t", "fn", "co", "u"):
                if kind in x:
                    if kind == "fn" and anyfn:
                        return {"fn": 0}
                    key = (kind, x[kind])
                    if key not in names:
                        counters[kind] = counters.get(kind, 0) + 1
                        names[key] = counters[kind]
                    return {kind: names[key]}
        return x

    o2 = dict(o)
    o2["events"] = [[conv(x) for x in e] for e in o.get("events", [])]
    if "ret" in o and o["ret"] is not None:
        o2["ret"] = [conv(x) for x in o["ret"]]
    if o.get("err") is not None:
        o2["err"] = conv(o["err"])
    return o2


def judge(exp, o):
    """None or a dict(kind, detail)"""
    if o.get("compile_error"):
        return {"kind": "compile", "detail": o.get("errstr", "")[:300]}
    o2 = canon_output(o, exp["anyfn"])
    fin = "done" if exp["fin"] == "done" else "error:X"
    errv = exp["vs"][0] if exp["fin"] == "error" else None
    why = compare_program(o2, exp["events"], fin, tokf=lambda x: errv if x == "X" else x)
    if why:
        return why
    if exp["fin"] == "done":
        got = o2.get("ret") or []
        if not ev_match(exp["vs"], got, tokf=lambda x: x):
            return {"kind": "results", "detail": "expected results %s got %s" % (json.dumps(exp["vs"]), json.dumps(got))}
    return None


class _Tot:
    distinct = 0
    generated = 0
    wall = 0.0
    stdout = ""


def run_spec(progs, cfg, workers=None, timeout=3000, batch=4000):
    """progs: list of (id, ast). Returns (dict id -> TLC emission, totals).  TLC keeps the whole program table and a
    breadth-first frontier of one state per program in memory, so the programs are judged in batches."""
    res_by_id = {}
    tot = _Tot()
    for b0 in range(0, len(progs), batch):
        part = progs[b0:b0 + batch]
        path = os.path.join(scratch(), "asts-%d.ndjson" % b0)
        with open(path, "w") as f:
            for pid, ast in part:
                d = flatten(ast)
                d["id"] = pid
                f.write(json.dumps(d, separators=(",", ":")) + "\n")

        def on_line(v):
            res_by_id[v["id"]] = v

        res = run_tlc("LuaCore", cfg, workers=workers, timeout=timeout, env={"ASTFILE": path}, on_line=on_line, heap="6g")
        os.unlink(path)
        if res.violation:
            raise Infra("LuaCore design-level check failed: %s\n%s" % (res.violation, res.stdout[-3000:]))
        tot.distinct += res.distinct
        tot.generated += res.generated
        tot.wall += res.wall
        tot.stdout = res.stdout
    return res_by_id, tot


# --------------------------------------------------------------------------
# complete enumerations of small sub-grammars (shapes, not values: no evaluation happens here)

V = Name
ADD = lambda a, b: Bin("+", a, b)
MUL = lambda a, b: Bin("*", a, b)
EQ = lambda a, b: Bin("==", a, b)
PUSH = lambda t, e: Assign([Index(V(t), ADD(LenOp(V(t)), Int(1)))], [e])      # t[#t + 1] = e


def fam_closure_loops():
    """(a) closures created in loop bodies capturing the loop variable / body locals / an outer counter, called after
    the loop: loop kind x captured variables x closure action x way the iteration ends x nesting of the creation"""
    out = []
    loops = ["while", "repeat", "fornum", "fornumdown", "forin", "forclos", "goto"]
    for loop, cap, act, exit_, nest in itertools.product(loops, ["var", "local", "both"], ["read", "incr", "pair"],
                                                         ["normal", "break2", "continue"], ["direct", "doblock", "inner", "nestedfn"]):
        shared = loop in ("while", "repeat", "goto")
        iv = "i" if shared else "k"
        if not shared and cap == "var" and act != "read":
            continue            # the manual forbids assigning to a loop variable
        uses_local = cap in ("local", "both")
        target = "j" if uses_local else "i"
        expr = {"var": V(iv), "local": V("j"), "both": ADD(MUL(V(iv), Int(100)), V("j"))}[cap]
        extra = []
        if nest == "doblock":
            expr = ADD(expr, V("d"))
        elif nest == "inner":
            expr = ADD(ADD(expr, V("q")), V("m"))

        def action():
            if act == "read":
                return [Return(copy.deepcopy(expr))]
            return [Assign([V(target)], [ADD(V(target), Int(1))]), Return(copy.deepcopy(expr))]

        if act == "pair":
            store = [PUSH("fs", Func([], [Return(copy.deepcopy(expr))])), PUSH("ss", Func(["v"], [Assign([V(target)], [V("v")])]))]
        elif nest == "nestedfn":
            store = [PUSH("fs", Func([], [Return(Func([], action()))]))]
        else:
            store = [PUSH("fs", Func([], action()))]
        if nest == "doblock":
            store = [Do([Local(["d"], [ADD(V(iv), Int(1))])] + store)]
        elif nest == "inner":
            store = [ForNum("m", Int(1), Int(2), None, [Local(["q"], [MUL(V("m"), Int(1000))])] + store)]
        body = []
        if uses_local:
            body.append(Local(["j"], [MUL(V(iv), Int(10))]))
        if exit_ == "continue":
            body.append(If(EQ(V(iv), Int(2)), [Goto("cont")]))
        body += store
        if exit_ == "break2":
            body.append(If(EQ(V(iv), Int(2)), [Goto("out") if loop == "goto" else Break()]))
        body.append(Label("cont"))
        prog = [Local(["fs", "ss"], [Table(), Table()])]
        inc = Assign([V("i")], [ADD(V("i"), Int(1))])
        if loop == "while":
            prog += [Local(["i"], [Int(1)]), While(Bin("<=", V("i"), Int(3)), [Do(body), inc])]
        elif loop == "repeat":
            prog += [Local(["i"], [Int(1)]), Repeat([Do(body), inc], Bin(">", V("i"), Int(3)))]
        elif loop == "goto":
            prog += [Local(["i"], [Int(1)]), Label("top"), Do(body), inc, If(Bin("<=", V("i"), Int(3)), [Goto("top")]), Label("out")]
        elif loop == "fornum":
            prog += [ForNum("k", Int(1), Int(3), None, body)]
        elif loop == "fornumdown":
            prog += [ForNum("k", Int(3), Int(1), Int(-1), body)]
        elif loop == "forin":
            prog += [ForIn(["k", "v"], [Call(V("ipairs"), Table(Int(10), Int(20), Int(30)))], body)]
        elif loop == "forclos":
            prog += [LocalFunc("iter", ["s", "c"], [If(Bin("<", V("c"), V("s")), [Return(ADD(V("c"), Int(1)))])]),
                     ForIn(["k"], [V("iter"), Int(3), Int(0)], body)]
        callf = (lambda f: Call(Call(f))) if (nest == "nestedfn" and act != "pair") else (lambda f: Call(f))
        if act == "pair":
            prog += [CallStat(Call(Index(V("ss"), Int(1)), Int(500)))]
        for _ in range(2):
            prog += [ForIn(["_", "f"], [Call(V("ipairs"), V("fs"))], [Emit(callf(V("f")))])]
        prog += [Emit(LenOp(V("fs")), V("i") if shared else Nil())]
        out.append(("closure-loop", Block(prog)))
    return out


ADJ_ATOMS = {
    "f()": lambda: Call(V("f")), "(f())": lambda: Paren(Call(V("f"))), "z()": lambda: Call(V("z")), "g()": lambda: Call(V("g")),
    "5": lambda: Int(5), "...": lambda: Va(), "(...)": lambda: Paren(Va()), "nil": lambda: Nil(),
}


def fam_adjust(maxlen):
    """(b) adjustment of expression lists to the number of values wanted, in every list context"""
    out = []
    pre = [LocalFunc("f", [], [Return(Int(1), Int(2), Int(3))]), LocalFunc("g", [], [Return(Int(10), Int(20))]),
           LocalFunc("z", [], []), LocalFunc("show", [], [Emit(Call(V("select"), Str("#"), Va()), Va())], True)]
    names = sorted(ADJ_ATOMS)
    for n in range(1, maxlen + 1):
        for combo in itertools.product(names, repeat=n):
            for ctx in ("local", "assign", "fields", "args", "table", "return", "tailcall", "method"):
                L = lambda: [ADJ_ATOMS[x]() for x in combo]
                if ctx == "local":
                    body = [Local(["a", "b", "c"], L()), Emit(V("a"), V("b"), V("c"))]
                elif ctx == "assign":
                    body = [Local(["a", "b", "c"], [Int(91), Int(92), Int(93)]), Assign([V("a"), V("b"), V("c")], L()), Emit(V("a"), V("b"), V("c"))]
                elif ctx == "fields":
                    body = [Local(["t"], [Table()]), Assign([Dot(V("t"), "x"), Index(V("t"), Int(2)), V("G")], L()),
                            Emit(Dot(V("t"), "x"), Index(V("t"), Int(2)), V("G"))]
                elif ctx == "args":
                    body = [CallStat(Call(V("show"), *L()))]
                elif ctx == "table":
                    body = [Local(["t"], [Table(*L())]), Emit(*[Index(V("t"), Int(j)) for j in range(1, 9)])]
                elif ctx == "return":
                    body = [Return(*L())]
                elif ctx == "tailcall":
                    body = [Return(Call(V("show"), *L()))]
                else:
                    body = [Local(["o"], [Table(Named("m", Func(["self"], [Return(Call(V("select"), Str("#"), Va()), Va())], True)))]),
                            CallStat(Call(V("show"), Method(V("o"), "m", *L())))]
                prog = copy.deepcopy(pre) + [LocalFunc("run", [], body, True), CallStat(Call(V("show"), Call(V("run"), Int(7), Int(8))))]
                out.append(("adjust", Block(prog)))
    # the manual's own examples of evaluation before assignment (section 3.3.3)
    swaps = [
        [Local(["i", "a"], [Int(3), Table()]), Assign([V("i"), Index(V("a"), V("i"))], [ADD(V("i"), Int(1)), Int(20)]),
         Emit(V("i"), Index(V("a"), Int(3)), Index(V("a"), Int(4)))],
        [Local(["x", "y"], [Int(1), Int(2)]), Assign([V("x"), V("y")], [V("y"), V("x")]), Emit(V("x"), V("y"))],
        [Local(["x", "y", "z"], [Int(1), Int(2), Int(3)]), Assign([V("x"), V("y"), V("z")], [V("y"), V("z"), V("x")]), Emit(V("x"), V("y"), V("z"))],
        [Local(["t", "i", "j"], [Table(Int(10), Int(20), Int(30)), Int(1), Int(3)]),
         Assign([Index(V("t"), V("i")), Index(V("t"), V("j"))], [Index(V("t"), V("j")), Index(V("t"), V("i"))]),
         Emit(Index(V("t"), Int(1)), Index(V("t"), Int(2)), Index(V("t"), Int(3)))],
        [Local(["t"], [Table(Named("a", Int(1)), Named("b", Int(2)))]), Assign([Dot(V("t"), "a"), Dot(V("t"), "b")], [Dot(V("t"), "b"), Dot(V("t"), "a")]),
         Emit(Dot(V("t"), "a"), Dot(V("t"), "b"))],
        [Assign([V("A"), V("B")], [Int(1), Int(2)]), Assign([V("A"), V("B")], [V("B"), V("A")]), Emit(V("A"), V("B"))],
        [Local(["a", "b"], [Int(1)]), Emit(V("a"), V("b")), Assign([V("a"), V("b")], [Int(5)]), Emit(V("a"), V("b")),
         Assign([V("a")], [Int(7), Int(8)]), Emit(V("a"), V("b"))],
    ]
    for s in swaps:
        out.append(("adjust", Block(s)))
    return out


def fam_varargs():
    """(c) variadic functions: fixed parameters x argument tuples x uses of `...`"""
    out = []
    argsets = [[], [1], [1, 2], [None], [1, None], [None, None, 3], [1, 2, 3, 4]]
    mk = lambda a: [Nil() if x is None else Int(x) for x in a]
    cnt = lambda: Call(V("select"), Str("#"), Va())
    bodies = {
        "locals": lambda: [Local(["x", "y"], [Va()]), Emit(V("x"), V("y"))],
        "count": lambda: [Emit(cnt())],
        "select2": lambda: [Emit(Call(V("select"), Int(1), Va()))],
        "selectneg": lambda: [If(Bin(">", cnt(), Int(0)), [Emit(Call(V("select"), Int(-1), Va()))])],
        "table": lambda: [Local(["t"], [Table(Va())]), Emit(Index(V("t"), Int(1)), Index(V("t"), Int(2)), Index(V("t"), Int(3)), Index(V("t"), Int(4)))],
        "table-first": lambda: [Local(["t"], [Table(Va(), Int(9))]), Emit(Index(V("t"), Int(1)), Index(V("t"), Int(2)), Index(V("t"), Int(3)))],
        "table-last": lambda: [Local(["t"], [Table(Int(9), Va())]), Emit(Index(V("t"), Int(1)), Index(V("t"), Int(2)), Index(V("t"), Int(3)))],
        "paren": lambda: [Emit(Paren(Va()))],
        "return": lambda: [Return(Va())],
        "return-paren": lambda: [Return(Paren(Va()))],
        "return-more": lambda: [Return(Int(0), Va())],
        "pass": lambda: [Return(Call(V("show"), Va()))],
        "pass-first": lambda: [CallStat(Call(V("show"), Va(), Int(9)))],
        "pass-last": lambda: [CallStat(Call(V("show"), Int(9), Va()))],
        "isnil": lambda: [Emit(EQ(Va(), Nil()), Not(Va()))],
        "inner": lambda: [Local(["h"], [Func([], [Return(cnt(), Va())], True)]), Emit(Call(V("h"), Va())), Emit(Call(V("h"), Int(5), Va())), Emit(Call(V("h")))],
        "closure-copy": lambda: [Local(["x", "y"], [Va()]), Return(Func([], [Return(V("x"), V("y"))]))],
        "arith": lambda: [Emit(Call(V("pcall"), Func(["a"], [Return(ADD(V("a"), Int(1)))]), Va()))],
        "loop": lambda: [ForNum("i", Int(1), cnt(), None, [Emit(V("i"), Paren(Call(V("select"), V("i"), Va())))])],
    }
    for nparams in range(3):
        params = ["p", "q"][:nparams]
        for args in argsets:
            for bname in sorted(bodies):
                body = [Emit(*[V(x) for x in params])] if params else []
                body += bodies[bname]()
                prog = [LocalFunc("show", [], [Emit(Call(V("select"), Str("#"), Va()), Va())], True), LocalFunc("run", params, body, True)]
                if bname == "closure-copy":
                    prog += [CallStat(Call(V("show"), Call(Call(V("run"), *mk(args)))))]
                else:
                    prog += [CallStat(Call(V("show"), Call(V("run"), *mk(args))))]
                out.append(("vararg", Block(prog)))
    return out


# --------------------------------------------------------------------------
# syntactic features of a program (used to give violations a specific signature)


def _names_used(n, acc):
    if n["k"] == "name":
        acc.add(n["s"])
    for c in n["a"]:
        _names_used(c, acc)
    return acc


def _funcs(n, acc):
    if n["k"] == "func":
        acc.append(n)
    for c in n["a"]:
        _funcs(c, acc)
    return acc


def features(ast):
    """set of shape names: purely syntactic properties of the tree"""
    fs = set()

    def walk(n):
        if n["k"] == "forin":
            body = n["a"][-1]
            used = set()
            for f in _funcs(body, []):
                _names_used(f, used)
            if used & set(n["ps"]):
                fs.add("forin-var-captured")
        if n["k"] == "repeat" and n["a"][1]["k"] == "name":
            body, cond = n["a"]
            declared = set(x for st_ in body["a"] if st_["k"] == "local" for x in st_["ps"])
            used = set()
            for f in _funcs(body, []):
                _names_used(f, used)
            if cond["s"] in declared and cond["s"] in used:
                fs.add("repeat-until-captured-local")
        for c in n["a"]:
            walk(c)

    walk(ast)
    return fs


def fam_control():
    """(d) nested control flow: outer loop kind x inner construct x exit statement (break, continue-style goto, goto out
    of the loop, return, tail call) x the moment it is taken"""
    out = []
    S = Str
    for outer, inner, exit_, when in itertools.product(["while", "repeat", "fornum", "forin", "goto"],
                                                       ["none", "if", "ifelse", "do", "fornum", "while", "repeat"],
                                                       ["none", "break", "continue", "out", "return", "tail"], [1, 2]):
        inner_loop = inner in ("fornum", "while", "repeat")
        if when == 2 and not inner_loop:
            continue
        shared = outer in ("while", "repeat", "goto")
        iv = "i" if shared else "k"
        ex = {"none": [], "break": [Break()], "continue": [Goto("cont")], "out": [Goto("out")],
              "return": [Return(V(iv), S("ret"))], "tail": [Return(Call(V("tc"), V(iv)))]}[exit_]
        if exit_ == "break" and outer == "goto" and not inner_loop:
            continue            # no enclosing loop to break
        cond = EQ(V(iv), Int(2)) if not inner_loop else And(EQ(V(iv), Int(2)), EQ(V("m"), Int(when)))
        core = [Emit(S("in"), V(iv))] + ([If(cond, ex)] if ex else []) + [Emit(S("a"), V(iv))]
        if inner == "none":
            mid = core
        elif inner == "if":
            mid = [If(Bin(">=", V(iv), Int(2)), core)]
        elif inner == "ifelse":
            mid = [If(Bin("<", V(iv), Int(2)), [Emit(S("lt"))], EQ(V(iv), Int(3)), [Emit(S("three"))], core)]
        elif inner == "do":
            mid = [Do([Local(["w"], [V(iv)])] + core + [Emit(V("w"))])]
        elif inner == "fornum":
            mid = [ForNum("m", Int(1), Int(2), None, core)]
        elif inner == "while":
            mid = [Local(["m"], [Int(0)]), While(Bin("<", V("m"), Int(2)), [Assign([V("m")], [ADD(V("m"), Int(1))])] + core)]
        else:
            mid = [Local(["m"], [Int(0)]), Repeat([Assign([V("m")], [ADD(V("m"), Int(1))])] + core, Bin(">=", V("m"), Int(2)))]
        body = [Emit(S("b"), V(iv))] + mid + [Emit(S("e"), V(iv)), Label("cont")]
        inc = Assign([V("i")], [ADD(V("i"), Int(1))])
        fb = []
        if outer == "while":
            fb += [Local(["i"], [Int(1)]), While(Bin("<=", V("i"), Int(3)), [Do(body), inc])]
        elif outer == "repeat":
            fb += [Local(["i"], [Int(1)]), Repeat([Do(body), inc], Bin(">", V("i"), Int(3)))]
        elif outer == "goto":
            fb += [Local(["i"], [Int(1)]), Label("top"), Do(body), inc, If(Bin("<=", V("i"), Int(3)), [Goto("top")])]
        elif outer == "fornum":
            fb += [ForNum("k", Int(1), Int(3), None, body)]
        else:
            fb += [ForIn(["k", "v"], [Call(V("ipairs"), Table(S("x"), S("y"), S("z")))], body)]
        fb += [Emit(S("after")), Label("out"), Emit(S("out")), Return(S("end"))]
        # a label followed by statements: wrap so that `goto out` never enters the scope of a later local
        prog = [LocalFunc("tc", ["x"], [Emit(S("tc"), V("x")), Return(MUL(V("x"), Int(2)), S("t"))]),
                LocalFunc("run", [], fb), Emit(Call(V("run")))]
        out.append(("control", Block(prog)))
    return out


def fam_methods():
    """(e) method calls o:m(...): receiver expression x how the method is found x arguments x use of the results"""
    out = []
    S = Str
    for res, recv, args, use in itertools.product(["own", "idxtable", "idxfunc", "chain2"], ["name", "field", "call", "parencall", "indexcall"],
                                                  ["none", "one", "multi", "multi-first", "vararg", "tablesugar", "stringsugar"],
                                                  ["stat", "args", "paren", "locals", "tail"]):
        pre = [Local(["base"], [Table()]),
               Assign([Dot(V("base"), "m")], [Func(["self"], [Emit(S("m"), Dot(V("self"), "tag"), Call(V("select"), S("#"), Va()), Va()),
                                                              Return(Dot(V("self"), "tag"), S("r2"))], True)]),
               LocalFunc("f", [], [Return(Int(1), Int(2))])]
        if res == "own":
            pre += [Local(["o"], [Table(Named("tag", S("o")), Named("m", Dot(V("base"), "m")))])]
        elif res == "idxtable":
            pre += [Local(["o"], [Call(V("setmetatable"), Table(Named("tag", S("o"))), Table(Named("__index", V("base"))))])]
        elif res == "idxfunc":
            pre += [Local(["o"], [Call(V("setmetatable"), Table(Named("tag", S("o"))),
                                       Table(Named("__index", Func(["t", "k"], [Emit(S("idx"), V("k")), Return(Index(V("base"), V("k")))]))))])]
        else:
            pre += [Local(["mid"], [Call(V("setmetatable"), Table(), Table(Named("__index", V("base"))))]),
                    Local(["o"], [Call(V("setmetatable"), Table(Named("tag", S("o"))), Table(Named("__index", V("mid"))))])]
        pre += [Local(["holder"], [Table(Named("o", V("o")))]),
                LocalFunc("get", [], [Emit(S("get")), Return(V("o"), S("second"))]),
                LocalFunc("key", [], [Emit(S("key")), Return(S("o"))])]
        r = {"name": lambda: V("o"), "field": lambda: Dot(V("holder"), "o"), "call": lambda: Call(V("get")),
             "parencall": lambda: Paren(Call(V("get"))), "indexcall": lambda: Index(V("holder"), Call(V("key")))}[recv]
        a = {"none": [], "one": [Int(1)], "multi": [Call(V("f"))], "multi-first": [Call(V("f")), Int(3)], "vararg": [Va()],
             "tablesugar": [Table(Int(1))], "stringsugar": [S("s")]}[args]
        call = lambda: Method(r(), "m", *copy.deepcopy(a))
        body = {"stat": lambda: [CallStat(call())], "args": lambda: [Emit(call())], "paren": lambda: [Emit(Paren(call()))],
                "locals": lambda: [Local(["x", "y", "z"], [call()]), Emit(V("x"), V("y"), V("z"))], "tail": lambda: [Return(call())]}[use]()
        prog = pre + [LocalFunc("run", [], body, True), Emit(Call(V("run"), Int(7), Int(8)))]
        out.append(("method", Block(prog)))
    return out


META_OPS = ["+", "-", "*", "//", "%", "..", "==", "~=", "<", "<=", ">", ">="]
META_EV = {"+": "__add", "-": "__sub", "*": "__mul", "//": "__idiv", "%": "__mod", "..": "__concat", "==": "__eq", "~=": "__eq",
           "<": "__lt", "<=": "__le", ">": "__lt", ">=": "__le"}
META_OPERANDS = ["int", "numstr", "str", "nil", "true", "plain", "A", "B"]
META_OPERANDS_BIG = META_OPERANDS + ["false", "func", "negint"]


def _meta_prelude(ev, unary=False):
    """tables A and B whose metatables handle event ev: A's handler returns a true value (and a second result),
    B's a false one; both report what they were called with"""
    S = Str
    kd = LocalFunc("kd", ["v"], [If(EQ(Call(V("type"), V("v")), S("table")), [Return(Or(Call(V("rawget"), V("v"), S("tag")), S("plain")))]), Return(V("v"))])
    ps = ["x"] if unary else ["x", "y"]
    seen = [Call(V("kd"), V(p)) for p in ps]
    hA = Func(ps, [Emit(S("A." + ev), *seen), Return(S("ra"), S("extra"))])
    hB = Func(ps, [Emit(S("B." + ev), *copy.deepcopy(seen)), Return(Nil() if ev in ("__eq", "__lt", "__le") else S("rb"))])
    return [kd,
            Local(["A"], [Call(V("setmetatable"), Table(Named("tag", S("A"))), Table(Named(ev, hA)))]),
            Local(["B"], [Call(V("setmetatable"), Table(Named("tag", S("B"))), Table(Named(ev, hB)))])]


def _meta_operand(name):
    return {"int": lambda: Int(3), "numstr": lambda: Str("10"), "str": lambda: Str("abc"), "nil": lambda: Nil(), "true": lambda: TRUE(),
            "plain": lambda: V("P"), "A": lambda: V("A"), "B": lambda: V("B"), "false": lambda: FALSE(), "func": lambda: V("kd"),
            "negint": lambda: Int(-7)}[name]()


def fam_metaops(big=False):
    """(f1) every binary / unary operator x every pair of operand kinds, with and without handlers"""
    out = []
    operands = META_OPERANDS_BIG if big else META_OPERANDS
    for op in META_OPS:
        for l, r in itertools.product(operands, repeat=2):
            prog = _meta_prelude(META_EV[op]) + [Local(["P"], [Table()]),
                    Local(["L", "R"], [_meta_operand(l), _meta_operand(r)]),
                    Emit(Call(V("pcall"), Func([], [Return(Bin(op, V("L"), V("R")))])))]
            if l in ("int", "numstr", "str", "negint") and r in ("int", "numstr", "str", "negint"):
                # also with the literals in place (constant operands take other paths in a compiler)
                prog += [Emit(Call(V("pcall"), Func([], [Return(Bin(op, _meta_operand(l), _meta_operand(r)))])))]
            out.append(("metaop", Block(prog)))
    for op, ev in (("-", "__unm"), ("#", "__len")):
        for l in operands:
            mk = (lambda e: Neg(e)) if op == "-" else (lambda e: LenOp(e))
            prog = _meta_prelude(ev, unary=True) + [Local(["P"], [Table()]), Local(["L"], [_meta_operand(l)]),
                    Emit(Call(V("pcall"), Func([], [Return(mk(V("L")))])))]
            out.append(("metaop", Block(prog)))
    return out


def fam_metaindex():
    """(f2) __index / __newindex chains (tables and functions), __call chains, __tostring, __metatable"""
    out = []
    S = Str
    # reads: a chain of `depth` tables linked by __index, ending in nothing / a table holding the key / a function
    for depth, term, rawpresent in itertools.product([1, 2, 3], ["absent", "haskey", "func"], [False, True]):
        prog = [Local(["last"], [Table(Named("x", S("from-last"))) if term == "haskey" else Table()])]
        if term == "func":
            prog += [Assign([V("last")], [Func(["t", "k"], [Emit(S("idxf"), Call(V("rawget"), V("t"), S("lvl")), V("k")), Return(S("from-f"), S("more"))])])]
        prev = "last"
        for d in range(depth, 0, -1):
            nm = "t%d" % d
            prog += [Local([nm], [Call(V("setmetatable"), Table(Named("lvl", Int(d))), Table(Named("__index", V(prev))))])]
            prev = nm
        if rawpresent:
            prog += [Assign([Dot(V("t1"), "x")], [S("raw")])]
        prog += [Emit(Dot(V("t1"), "x"), Index(V("t1"), S("y")), Call(V("rawget"), V("t1"), S("x")), Dot(V("t1"), "lvl"))]
        out.append(("metaindex", Block(prog)))
    # writes
    for depth, term, rawpresent in itertools.product([1, 2, 3], ["table", "func"], [False, True]):
        prog = [Local(["last"], [Table()])]
        if term == "func":
            prog += [Local(["sink"], [Table()]),
                     Assign([V("last")], [Func(["t", "k", "v"], [Emit(S("nif"), Call(V("rawget"), V("t"), S("lvl")), V("k"), V("v")),
                                                               CallStat(Call(V("rawset"), V("sink"), V("k"), V("v"))), Return(S("ignored"))])])]
        prev = "last"
        for d in range(depth, 0, -1):
            nm = "t%d" % d
            prog += [Local([nm], [Call(V("setmetatable"), Table(Named("lvl", Int(d))), Table(Named("__newindex", V(prev))))])]
            prev = nm
        if rawpresent:
            prog += [CallStat(Call(V("rawset"), V("t1"), S("x"), S("old")))]
        prog += [Assign([Dot(V("t1"), "x")], [S("new")]), Assign([Dot(V("t1"), "x")], [S("newer")])]
        prog += [Emit(*[Call(V("rawget"), V("t%d" % d), S("x")) for d in range(1, depth + 1)])]
        prog += [Emit(Call(V("rawget"), V("sink"), S("x")))] if term == "func" else [Emit(Call(V("rawget"), V("last"), S("x")))]
        out.append(("metaindex", Block(prog)))
    # indexing / assigning / calling values that cannot be
    for e in (lambda: Dot(Nil(), "x"), lambda: Dot(Int(5), "x"), lambda: Dot(TRUE(), "x"), lambda: Call(Nil()), lambda: Call(Int(5)),
              lambda: Call(Table()), lambda: Call(S("s")), lambda: Index(Table(), Nil())):
        out.append(("metaindex", Block([Local(["ok", "e"], [Call(V("pcall"), Func([], [Return(e())]))]), Emit(V("ok"), Call(V("type"), V("e")))])))
    for tgt in (lambda: Dot(V("n"), "x"), lambda: Index(V("t"), V("n"))):
        out.append(("metaindex", Block([Local(["n", "t"], [Nil(), Table()]),
                                        Local(["ok", "e"], [Call(V("pcall"), Func([], [Assign([tgt()], [Int(1)])]))]), Emit(V("ok"), Call(V("type"), V("e")))])))
    # __call chains
    for depth, nargs, use in itertools.product([1, 2], [0, 1, 2], ["stat", "expr", "method", "tail"]):
        prog = [LocalFunc("target", [], [Emit(S("called"), Call(V("select"), S("#"), Va()), Va()), Return(S("r1"), S("r2"))], True)]
        prev = "target"
        for d in range(depth, 0, -1):
            nm = "c%d" % d
            prog += [Local([nm], [Call(V("setmetatable"), Table(Named("lvl", Int(d))), Table(Named("__call", V(prev))))])]
            prev = nm
        a = [Int(7), Int(8)][:nargs]
        if use == "stat":
            prog += [CallStat(Call(V("c1"), *a))]
        elif use == "expr":
            prog += [Emit(Call(V("c1"), *a))]
        elif use == "method":
            prog += [Local(["o"], [Table(Named("c", V("c1")))]), Emit(Method(V("o"), "c", *a))]
        else:
            prog += [LocalFunc("run", [], [Return(Call(V("c1"), *a))]), Emit(Call(V("run")))]
        out.append(("metaindex", Block(prog)))
    # generic for over a callable table
    out.append(("metaindex", Block([Local(["it"], [Call(V("setmetatable"), Table(), Table(Named("__call", Func(["self", "s", "c"], [If(Bin("<", V("c"), V("s")), [Return(ADD(V("c"), Int(1)))])]))))]),
                                    ForIn(["i"], [V("it"), Int(3), Int(0)], [Emit(V("i"))])])))
    # __tostring, __metatable, __len
    out.append(("metaindex", Block([Local(["t"], [Call(V("setmetatable"), Table(), Table(Named("__tostring", Func(["x"], [Return(S("custom"))]))))]),
                                    Emit(Call(V("tostring"), V("t")), Call(V("tostring"), Int(12)), Call(V("tostring"), Nil()), Call(V("tostring"), TRUE()), Call(V("tostring"), S("s")))])))
    out.append(("metaindex", Block([Local(["mt"], [Table(Named("__metatable", S("locked")))]), Local(["t"], [Call(V("setmetatable"), Table(), V("mt"))]),
                                    Emit(Call(V("getmetatable"), V("t"))), Emit(Call(V("pcall"), V("setmetatable"), V("t"), Table())),
                                    Emit(EQ(Call(V("getmetatable"), Table()), Nil()))])))
    out.append(("metaindex", Block([Local(["mt"], [Table()]), Local(["t"], [Call(V("setmetatable"), Table(Int(1), Int(2)), V("mt"))]),
                                    Emit(EQ(Call(V("getmetatable"), V("t")), V("mt")), LenOp(V("t")), Call(V("rawlen"), V("t")), Call(V("rawequal"), V("t"), V("t"))),
                                    CallStat(Call(V("setmetatable"), V("t"), Nil())), Emit(Call(V("getmetatable"), V("t")))])))
    return out





def _guard():
    """a finite iteration guard: the specification never reaches it; an implementation whose loop fails to stop shows
    a wrong event trace instead of hanging"""
    return [Assign([V("guard")], [ADD(V("guard"), Int(1))]), If(Bin(">", V("guard"), Int(10)), [Emit(Str("runaway")), Break()])]


def fam_loop_conditions():
    """(a2) the condition of repeat-until / while over a variable assigned in the body: bare variable / expression over
    it / outer variable x captured by a closure created in the body (reading, writing) or not x closure created
    before / after the assignment x boolean or other value x chunk level / inside a function x extra live locals"""
    out = []
    S = Str
    caps = [("none", "after"), ("read", "after"), ("read", "before"), ("write", "after"), ("write", "before")]

    def closure(var, cap):
        if cap == "read":
            return Func([], [Return(V(var))])
        return Func(["v"], [Local(["o"], [V(var)]), Assign([V(var)], [V("v")]), Return(V("o"))])

    def finish(pre, loop, place, cap):
        call = (lambda f: Call(f)) if cap != "write" else (lambda f: Call(f, S("w")))
        tail = [Emit(S("after"), V("n"), V("guard")),
                ForNum("i", Int(1), LenOp(V("fs")), None, [Emit(call(Index(V("fs"), V("i"))))]),
                ForNum("i", Int(1), LenOp(V("fs")), None, [Emit(call(Index(V("fs"), V("i"))))])]
        body = pre + [loop] + tail
        if place == "function":
            return Block([LocalFunc("run", [], body + [Return(V("n"))]), Emit(Call(V("run")))])
        return Block(body)

    rep_conds = [("bare", "bool"), ("bare", "value"), ("not", "bool"), ("not", "value"), ("outer-bare", "bool"), ("outer-bare", "value"),
                 ("expr-eq", "bool"), ("expr-cmp", "bool"), ("outer-expr", "bool")]
    for (cond, vk), (cap, order), place, pad in itertools.product(rep_conds, caps, ["chunk", "function"], [0, 2]):
        pre = [Local(["fs"], [Table()]), Local(["n", "guard"], [Int(0), Int(0)])]
        if pad:
            pre.append(Local(["p1", "p2"], [Int(1), Int(2)]))
        inc = Assign([V("n")], [ADD(V("n"), Int(1))])
        body = _guard()
        ge3 = lambda: Bin(">=", V("n"), Int(3))
        lt3 = lambda: Bin("<", V("n"), Int(3))
        if cond in ("bare", "expr-eq"):
            var, val, local_ = "done", (ge3() if vk == "bool" else Or(And(ge3(), S("yes")), Nil())), True
            c = V("done") if cond == "bare" else EQ(V("done"), TRUE())
        elif cond == "not":
            var, val, local_ = "more", (lt3() if vk == "bool" else Or(And(lt3(), S("more")), Nil())), True
            c = Not(V("more"))
        elif cond == "expr-cmp":
            var, val, local_ = "x", V("n"), True
            c = Bin(">=", V("x"), Int(3))
        elif cond == "outer-bare":
            pre.append(Local(["stop"]))
            var, val, local_ = "stop", (ge3() if vk == "bool" else Or(And(ge3(), S("yes")), Nil())), False
            c = V("stop")
        else:
            var, val, local_ = "n", None, False
            c = ge3()
        if val is not None:
            body.append(inc)
        if pad:
            body.append(Local(["q1", "q2"], [V("n"), ADD(V("n"), Int(1))]))
        assign = (Local([var], [val]) if local_ else Assign([V(var)], [val])) if val is not None else inc
        store = [PUSH("fs", closure(var, cap))] if cap != "none" else []
        if order == "after":
            body += [assign] + store
        elif local_:
            body += [Local([var])] + store + [Assign([V(var)], [val])]
        else:
            body += store + [assign]
        body.append(Emit(S("it"), V("n"), V(var)))
        if pad:
            body.append(Emit(V("q1"), V("q2"), V("p1"), V("p2")))
        out.append(("loop-cond", finish(pre, Repeat(body, c), place, cap)))

    wh_conds = [("bare", "bool"), ("bare", "value"), ("not", "bool"), ("not", "value"), ("expr-eq", "bool"), ("expr-cmp", "bool"), ("shadowed", "bool")]
    for (cond, vk), (cap, order), place, pad in itertools.product(wh_conds, caps, ["chunk", "function"], [0, 2]):
        pre = [Local(["fs"], [Table()]), Local(["n", "guard"], [Int(0), Int(0)])]
        if pad:
            pre.append(Local(["p1", "p2"], [Int(1), Int(2)]))
        inc = Assign([V("n")], [ADD(V("n"), Int(1))])
        lt3 = lambda: Bin("<", V("n"), Int(3))
        ge3 = lambda: Bin(">=", V("n"), Int(3))
        body = _guard()
        if cond in ("bare", "expr-eq", "shadowed"):
            pre.append(Local(["go"], [TRUE()]))
            var, val = "go", (lt3() if vk == "bool" else Or(And(lt3(), S("go")), Nil()))
            c = EQ(V("go"), TRUE()) if cond == "expr-eq" else V("go")
        elif cond == "not":
            pre.append(Local(["stop"]))
            var, val = "stop", (ge3() if vk == "bool" else Or(And(ge3(), S("yes")), Nil()))
            c = Not(V("stop"))
        else:
            var, val = "n", None
            c = lt3()
        if val is not None:
            body.append(inc)
        if pad:
            body.append(Local(["q1", "q2"], [V("n"), ADD(V("n"), Int(1))]))
        store = [PUSH("fs", closure(var, cap))] if cap != "none" else []
        if cond == "shadowed":
            # the outer variable is assigned, then shadowed by a body local of the same name which the closure captures
            body.append(Assign([V("go")], [val]))
            inner = Bin("..", S("inner"), V("n"))
            body += ([Local(["go"], [inner])] + store) if order == "after" else ([Local(["go"])] + store + [Assign([V("go")], [inner])])
        else:
            assign = Assign([V(var)], [val]) if val is not None else inc
            body += ([assign] + store) if order == "after" else (store + [assign])
        body.append(Emit(S("it"), V("n"), V(var)))
        if pad:
            body.append(Emit(V("q1"), V("q2"), V("p1"), V("p2")))
        out.append(("loop-cond", finish(pre, While(c, body), place, cap)))
    return out


def fam_fornum():
    """numeric for: start x limit x step (the loop runs while the variable has not passed the limit; the limit and the
    step are evaluated once; zero iterations when the start is already beyond the limit)"""
    out = []
    for start, limit, step in itertools.product([1, 3, -2], [0, 1, 3, 4], [None, 1, 2, -1, -3]):
        body = [Emit(V("i")), Assign([V("n")], [Int(100)]), Assign([V("c")], [ADD(V("c"), Int(1))])]
        prog = [Local(["n", "c"], [Int(limit), Int(0)]), ForNum("i", Int(start), V("n"), Int(step) if step is not None else None, body), Emit(V("c"), V("n"))]
        out.append(("fornum", Block(prog)))
    return out


def fam_logic():
    """and / or: value semantics, short circuit, and adjustment of the operands to one value"""
    out = []
    ops = {"nil": lambda: Nil(), "false": lambda: FALSE(), "zero": lambda: Int(0), "empty": lambda: Str(""), "multi": lambda: Call(V("f"), Str("m")),
           "none": lambda: Call(V("z"), Str("z")), "vararg": lambda: Va()}
    for l, r, op, ctx in itertools.product(sorted(ops), sorted(ops), ["and", "or"], ["args", "locals", "cond"]):
        e = lambda: (And if op == "and" else Or)(ops[l](), ops[r]())
        if l in ("multi", "none") and r in ("multi", "none"):
            pass        # both calls report themselves; the left one runs first by the definition of the operator
        body = {"args": lambda: [CallStat(Call(V("show"), e()))], "locals": lambda: [Local(["a", "b"], [e()]), Emit(V("a"), V("b"))],
                "cond": lambda: [If(e(), [Emit(Str("then"))], [Emit(Str("else"))]), While(Not(e()), [Emit(Str("w")), Break()])]}[ctx]()
        prog = [LocalFunc("f", ["tag"], [Emit(V("tag")), Return(Int(1), Int(2))]), LocalFunc("z", ["tag"], [Emit(V("tag"))]),
                LocalFunc("show", [], [Emit(Call(V("select"), Str("#"), Va()), Va())], True),
                LocalFunc("run", [], body, True), CallStat(Call(V("run"), Int(7), Int(8))), CallStat(Call(V("run"))), CallStat(Call(V("run"), FALSE()))]
        out.append(("logic", Block(prog)))
    return out


def fam_errors():
    """error values and runtime errors through protected calls: what is raised x where it is raised from"""
    out = []
    S = Str
    raisers = {
        "int": lambda: [CallStat(Call(V("error"), Int(42)))],
        "str0": lambda: [CallStat(Call(V("error"), S("msg"), Int(0)))],
        "strpos": lambda: [CallStat(Call(V("error"), S("msg")))],
        "table": lambda: [CallStat(Call(V("error"), V("E")))],
        "nil": lambda: [CallStat(Call(V("error"), Nil()))],
        "noarg": lambda: [CallStat(Call(V("error")))],
        "bool": lambda: [CallStat(Call(V("error"), FALSE()))],
        "assert-v": lambda: [CallStat(Call(V("assert"), FALSE(), V("E")))],
        "assert-nomsg": lambda: [CallStat(Call(V("assert"), Nil()))],
        "assert-ok": lambda: [Return(Call(V("assert"), Int(1), Int(2), Int(3)))],
        "arith": lambda: [Return(ADD(V("E"), Int(1)))],
        "arith-nil": lambda: [Local(["x"]), Return(MUL(V("x"), Int(2)))],
        "concat": lambda: [Return(Bin("..", S("a"), Table()))],
        "compare": lambda: [Return(Bin("<", Int(1), S("2")))],
        "compare-tables": lambda: [Return(Bin("<=", Table(), Table()))],
        "call-nil": lambda: [Local(["x"]), CallStat(Call(V("x")))],
        "call-field": lambda: [CallStat(Call(Dot(V("E"), "nothing")))],
        "method-missing": lambda: [CallStat(Method(V("E"), "nothing"))],
        "index-nil": lambda: [Local(["x"]), Return(Dot(V("x"), "f"))],
        "index-deep": lambda: [Return(Dot(Dot(V("E"), "a"), "b"))],
        "newindex-nil": lambda: [Local(["x"]), Assign([Dot(V("x"), "f")], [Int(1)])],
        "nil-key": lambda: [Assign([Index(V("E"), Nil())], [Int(1)])],
        "len": lambda: [Return(LenOp(Int(5)))],
        "unm": lambda: [Return(Neg(Table()))],
        "protected": lambda: [CallStat(Call(V("setmetatable"), Call(V("setmetatable"), Table(), Table(Named("__metatable", Int(1)))), Table()))],
        "none": lambda: [Return(S("fine"), Int(2))],
    }
    wrappers = ["direct", "nested", "handler", "loop", "rethrow", "tail", "inner-caught", "pcall-pcall"]
    for rn, wr in itertools.product(sorted(raisers), wrappers):
        pre = [Local(["E"], [Table(Named("tag", S("E")))]), Local(["state"], [Int(0)]),
               LocalFunc("raise", [], [Assign([V("state")], [ADD(V("state"), Int(1))])] + raisers[rn]())]
        report = lambda call: [Local(["r"], [Table(call)]),
                               Emit(Index(V("r"), Int(1)), Call(V("type"), Index(V("r"), Int(2))), Index(V("r"), Int(2)), Index(V("r"), Int(3)), Index(V("r"), Int(4)), V("state"))]
        if wr == "direct":
            body = report(Call(V("pcall"), V("raise")))
        elif wr == "nested":
            body = [LocalFunc("mid", ["a"], [Local(["x", "y"], [Call(V("raise"))]), Emit(S("after"), V("x")), Return(V("x"), V("y"), V("a"))])] + \
                   report(Call(V("pcall"), V("mid"), Int(5)))
        elif wr == "handler":
            body = [Local(["t"], [Call(V("setmetatable"), Table(), Table(Named("__index", Func(["_", "k"], [Return(Call(V("raise")))]))))])] + \
                   report(Call(V("pcall"), Func([], [Return(Dot(V("t"), "missing"))])))
        elif wr == "loop":
            body = report(Call(V("pcall"), Func([], [ForNum("i", Int(1), Int(3), None, [Emit(S("it"), V("i")), If(EQ(V("i"), Int(2)), [CallStat(Call(V("raise")))])]), Return(S("done"))])))
        elif wr == "rethrow":
            body = report(Call(V("pcall"), Func([], [Local(["ok", "e"], [Call(V("pcall"), V("raise"))]), Emit(S("inner"), V("ok")),
                                                     If(Not(V("ok")), [CallStat(Call(V("error"), V("e"), Int(0)))]), Return(S("no error"))])))
        elif wr == "tail":
            body = report(Call(V("pcall"), Func([], [Return(Call(V("raise")))])))
        elif wr == "inner-caught":
            body = report(Call(V("pcall"), Func([], [Local(["ok"], [Call(V("pcall"), V("raise"))]), Emit(S("inner"), V("ok")), Return(S("outer fine"), V("ok"))])))
        else:
            body = report(Call(V("pcall"), V("pcall"), V("raise")))
        out.append(("errors", Block(pre + body + [Emit(S("end"), V("state"))])))
    # an error that reaches the host
    for rn in ("int", "str0", "table", "nil", "arith", "call-nil"):
        out.append(("errors", Block([Local(["E"], [Table()]), Emit(S("before"))] + raisers[rn]() + [])))
    return out


def fam_scalars():
    """floor division / modulo signs, string order, string <-> number coercions: operand values x operator"""
    out = []
    for a, b, op, lit in itertools.product([-7, -1, 0, 1, 6, 7], [-3, -2, 2, 3], ["//", "%"], [False, True]):
        e = Bin(op, Int(a), Int(b)) if lit else Bin(op, V("a"), V("b"))
        out.append(("scalars", Block([Local(["a", "b"], [Int(a), Int(b)]), Emit(e, Bin("-", V("a"), MUL(Paren(Bin("//", V("a"), V("b"))), V("b"))))])))
    strs = ["", "a", "ab", "b", "Z", "10", "9", "a b"]
    for x, y in itertools.product(strs, repeat=2):
        out.append(("scalars", Block([Local(["x", "y"], [Str(x), Str(y)]),
                                      Emit(Bin("<", V("x"), V("y")), Bin("<=", V("x"), V("y")), Bin(">", V("x"), V("y")), Bin(">=", V("x"), V("y")),
                                           EQ(V("x"), V("y")), Bin("..", V("x"), V("y")), LenOp(Bin("..", V("x"), V("y"))))])))
    vals = [lambda: Int(12), lambda: Str("12"), lambda: Str("007"), lambda: Int(0), lambda: Int(-3)]
    for (i, x), (j, y), op in itertools.product(enumerate(vals), enumerate(vals), ["+", "-", "*", "//", "%", "..", "==", "<"]):
        if op in ("//", "%") and j == 3:
            continue
        if op == "<" and (i in (1, 2)) != (j in (1, 2)):
            body = [Emit(Call(V("pcall"), Func([], [Return(Bin(op, V("x"), V("y")))])))]
        else:
            body = [Emit(Bin(op, V("x"), V("y")), Bin(op, x(), y()))]
        out.append(("scalars", Block([Local(["x", "y"], [x(), y()])] + body + [Emit(Neg(V("x")), Call(V("tostring"), V("y")), Call(V("type"), V("x")))])))
    return out


def fam_pressure():
    """many live variables, arguments, results and constants in one function (register and constant allocation)"""
    out = []
    for n in (10, 50, 120, 190):
        names = ["a%d" % j for j in range(1, n + 1)]
        tot = lambda: _sum([V(x) for x in names])
        # all declared at once, summed, some captured and changed through closures
        out.append(("pressure", Block([Local(names, [Int(j) for j in range(1, n + 1)]),
                                       LocalFunc("bump", [], [Assign([V(names[0]), V(names[-1])], [ADD(V(names[-1]), Int(1)), ADD(V(names[0]), Int(1))])]),
                                       Emit(tot()), CallStat(Call(V("bump"))), Emit(tot(), V(names[0]), V(names[-1]), V(names[n // 2]))])))
        # one per statement, in nested blocks, a closure over each fifth
        body = [Emit(_sum([V("b%d" % j) for j in range(5, n + 1, 5)]), Call(Index(V("fs"), Int(1))), Call(Index(V("fs"), LenOp(V("fs")))))]
        for j in range(n, 0, -1):
            st = [Local(["b%d" % j], [ADD(Int(j), V("b%d" % (j - 1))) if j > 1 else Int(1)])]
            if j % 5 == 0:
                st.append(PUSH("fs", Func([], [Assign([V("b%d" % j)], [ADD(V("b%d" % j), Int(1))]), Return(V("b%d" % j))])))
            body = st + ([Do(body)] if j % 7 == 0 else body)
        if n <= 120:
            out.append(("pressure", Block([Local(["fs"], [Table()])] + body)))
        # n arguments, n results
        m = min(n, 100)
        ps = ["p%d" % j for j in range(1, m + 1)]
        out.append(("pressure", Block([LocalFunc("rev", ps, [Return(*[V(x) for x in reversed(ps)])]),
                                       LocalFunc("cnt", [], [Return(Call(V("select"), Str("#"), Va()), Paren(Va()), Paren(Call(V("select"), Int(-1), Va())))], True),
                                       Emit(Call(V("cnt"), Call(V("rev"), *[Int(j) for j in range(1, m + 1)]))),
                                       Emit(Call(V("cnt"), Call(V("rev"), Int(1), Int(2)))),
                                       Local(["t"], [Table(*([Int(j) for j in range(1, m + 1)] + [Call(V("rev"), Int(7), Int(8))]))]),
                                       Emit(LenOp(Table(*[Int(j) for j in range(1, m + 1)])), Index(V("t"), Int(m)), Index(V("t"), Int(m + 1)), Index(V("t"), Int(2 * m)))])))
    # more than 256 distinct constants in one function
    for n in (260, 400):
        out.append(("pressure", Block([Local(["t"], [Table(*[Str("c%d" % j) for j in range(1, n + 1)])]),
                                       Emit(LenOp(V("t")), Index(V("t"), Int(1)), Index(V("t"), Int(257)), Index(V("t"), Int(n)), Int(1000 + n), Str("c%d" % n))])))
        out.append(("pressure", Block([Local(["t"], [Table(*[Named("k%d" % j, Int(1000 + j)) for j in range(1, n + 1)])]),
                                       Emit(Dot(V("t"), "k1"), Dot(V("t"), "k256"), Dot(V("t"), "k257"), Dot(V("t"), "k%d" % n))])))
    return out


def _sum(es):
    e = es[0]
    for x in es[1:]:
        e = ADD(e, x)
    return e


def fam_misc():
    """hand-written programs for corners the other families do not reach"""
    S = Str
    P = []
    # the condition of repeat-until sees the body's locals, also through closures created in the body
    P.append([Local(["fs", "i"], [Table(), Int(0)]),
              Repeat([Assign([V("i")], [ADD(V("i"), Int(1))]), Local(["x"], [MUL(V("i"), Int(10))]), PUSH("fs", Func([], [Assign([V("x")], [ADD(V("x"), Int(1))]), Return(V("x"))]))],
                     Bin(">=", Call(Func([], [Return(V("x"))])), Int(30))),
              ForIn(["_", "f"], [Call(V("ipairs"), V("fs"))], [Emit(Call(V("f")))]), ForIn(["_", "f"], [Call(V("ipairs"), V("fs"))], [Emit(Call(V("f")))])])
    # shadowing: each declaration is a new variable, the initialiser sees the old one
    P.append([Local(["x"], [Int(1)]), LocalFunc("g1", [], [Return(V("x"))]), Local(["x"], [ADD(V("x"), Int(1))]), LocalFunc("g2", [], [Return(V("x"))]),
              Do([Local(["x"], [ADD(V("x"), Int(10))]), Emit(V("x"), Call(V("g1")), Call(V("g2"))), Assign([V("x")], [Int(0)])]),
              Assign([V("x")], [ADD(V("x"), Int(100))]), Emit(V("x"), Call(V("g1")), Call(V("g2"))),
              Local(["x", "x"], [Int(5), Int(6)]), Emit(V("x"))])
    # local function sees itself, local f = function does not
    P.append([Local(["f"], [Func([], [Return(S("outer"))])]),
              Do([Local(["f"], [Func(["n"], [If(EQ(V("n"), Int(0)), [Return(S("inner"))]), Return(Call(V("f"), Int(0)))])]), Emit(Call(V("f"), Int(1)))]),
              Do([LocalFunc("f", ["n"], [If(EQ(V("n"), Int(0)), [Return(S("inner"))]), Return(Call(V("f"), Int(0)))]), Emit(Call(V("f"), Int(1)))])])
    # three levels of closures sharing and changing one variable
    P.append([LocalFunc("mk", [], [Local(["c"], [Int(0)]),
                                   Return(Func([], [Assign([V("c")], [ADD(V("c"), Int(1))]), Return(Func([], [Assign([V("c")], [ADD(V("c"), Int(10))]), Return(Func([], [Return(V("c"))]))]))]),
                                          Func([], [Return(V("c"))]))]),
              Local(["a", "geta"], [Call(V("mk"))]), Local(["b", "getb"], [Call(V("mk"))]),
              Local(["a2"], [Call(V("a"))]), Local(["a3"], [Call(V("a2"))]), CallStat(Call(V("a"))),
              Emit(Call(V("a3")), Call(V("geta")), Call(V("getb")), Call(Call(Call(V("b")))))])
    # chained method calls and calls on call results
    P.append([Local(["o"], [Table(Named("n", Int(0)))]),
              Assign([Dot(V("o"), "inc")], [Func(["self", "d"], [Assign([Dot(V("self"), "n")], [ADD(Dot(V("self"), "n"), Or(V("d"), Int(1)))]), Return(V("self"), S("x"))])]),
              Assign([Dot(V("o"), "get")], [Func(["self"], [Return(Dot(V("self"), "n"))])]),
              Emit(Method(Method(Method(Method(V("o"), "inc"), "inc", Int(5)), "inc"), "get")),
              Emit(Method(Paren(Method(V("o"), "inc")), "get"), Dot(Method(V("o"), "inc", Int(100)), "n"), Index(Table(Method(V("o"), "inc")), Int(2)))])
    # functions as arguments and results, immediately called function expressions
    P.append([LocalFunc("compose", ["f", "g"], [Return(Func([], [Return(Call(V("f"), Call(V("g"), Va())))], True))]),
              LocalFunc("dbl", ["x", "y"], [Return(MUL(V("x"), Int(2)), V("y"))]), LocalFunc("pair", ["x"], [Return(V("x"), ADD(V("x"), Int(1)))]),
              Emit(Call(Call(V("compose"), V("dbl"), V("pair")), Int(5))), Emit(Call(Func(["a"], [Return(V("a"), Va())], True), Int(1), Int(2), Int(3))),
              Emit(Call(Paren(Func([], [Return(Int(9))]))))])
    # the main chunk is variadic with no arguments; return at the end of the chunk
    P.append([Emit(Call(V("select"), S("#"), Va()), Va()), Local(["a"], [Va()]), Emit(V("a"), Table(Va())), Return(Va())])
    P.append([Emit(S("x")), Do([Return(Int(1), S("two"), Nil(), Table(), FALSE())])])
    P.append([Local(["t"], [Table()]), Return(V("t"), V("t"), Table(), Func([], []), V("emit"), V("emit"))])
    # globals: free names are fields of the environment table
    P.append([Emit(V("undefinedname")), Assign([V("G1"), V("G2")], [Int(1), Int(2)]),
              LocalFunc("f", [], [Assign([V("G1")], [ADD(V("G1"), V("G2"))]), Local(["G2"], [Int(50)]), Assign([V("G2")], [Int(60)]), Return(V("G2"))]),
              Emit(Call(V("f")), V("G1"), V("G2")), Assign([V("G1")], [Nil()]), Emit(V("G1"))])
    # goto: backward jumps renew locals, nested loops left with one jump, labels in nested blocks with the same name
    P.append([Local(["fs", "n"], [Table(), Int(0)]),
              Label("again"), Local(["x"], [MUL(V("n"), Int(2))]), PUSH("fs", Func([], [Return(V("x"))])), Assign([V("n")], [ADD(V("n"), Int(1))]),
              If(Bin("<", V("n"), Int(3)), [Goto("again")]),
              Emit(Call(Index(V("fs"), Int(1))), Call(Index(V("fs"), Int(2))), Call(Index(V("fs"), Int(3))))])
    P.append([ForNum("i", Int(1), Int(3), None, [ForNum("j", Int(1), Int(3), None, [If(EQ(MUL(V("i"), V("j")), Int(4)), [Goto("done")]), Emit(V("i"), V("j"))])]),
              Label("done"), Emit(S("done")),
              Do([Goto("l"), Emit(S("skipped")), Label("l"), Emit(S("l1"))]), Do([Goto("l"), Emit(S("skipped")), Label("l"), Emit(S("l2"))])])
    # long chains: right associative concatenation, comparisons and logic
    P.append([Local(["a", "b", "c"], [S("x"), Int(1), S("z")]),
              Emit(Bin("..", V("a"), Bin("..", V("b"), Bin("..", V("c"), Bin("..", V("a"), Bin("..", Int(2), V("c")))))),
                   Bin("..", Paren(Bin("..", V("a"), V("b"))), V("c")), Bin("..", Bin("..", Int(1), Int(2)), Int(3))),
              Emit(EQ(Bin("<", Int(1), Int(2)), TRUE()), Not(EQ(Nil(), FALSE())), Or(And(Int(1), Nil()), Or(FALSE(), S("d"))),
                   And(Or(Nil(), Int(2)), Or(Int(3), Int(4))), Not(Not(Nil())), Bin("-", Neg(Neg(Int(3))), Neg(Int(2))))])
    # if / elseif chains
    P.append([LocalFunc("cls", ["n"], [If(Bin("<", V("n"), Int(0)), [Return(S("neg"))], EQ(V("n"), Int(0)), [Return(S("zero"))], Bin("<", V("n"), Int(10)), [Return(S("small"))],
                                          Bin("<", V("n"), Int(100)), [Return(S("medium"))], [Return(S("large"))])]),
              Emit(Call(V("cls"), Int(-5)), Call(V("cls"), Int(0)), Call(V("cls"), Int(5)), Call(V("cls"), Int(50)), Call(V("cls"), Int(500)))])
    # assignment to fields of call results, nested tables
    P.append([Local(["t"], [Table(Named("a", Table(Named("b", Table(Named("c", Int(1)))))))]), LocalFunc("get", [], [Return(Dot(V("t"), "a"))]),
              Assign([Dot(Dot(Call(V("get")), "b"), "c")], [Int(2)]), Assign([Index(Dot(Call(V("get")), "b"), S("d"))], [Dot(Dot(Dot(V("t"), "a"), "b"), "c")]),
              Emit(Dot(Dot(Dot(V("t"), "a"), "b"), "c"), Dot(Dot(Dot(V("t"), "a"), "b"), "d"), EQ(Call(V("get")), Dot(V("t"), "a")))])
    # ipairs stops at the first nil and respects __index
    P.append([Local(["t"], [Table(Int(1), Int(2), Nil(), Int(4))]), ForIn(["i", "v"], [Call(V("ipairs"), V("t"))], [Emit(V("i"), V("v"))]),
              Local(["p"], [Call(V("setmetatable"), Table(), Table(Named("__index", Func(["_", "k"], [If(Bin("<=", V("k"), Int(3)), [Return(MUL(V("k"), V("k")))])]))))]),
              ForIn(["i", "v"], [Call(V("ipairs"), V("p"))], [Emit(V("i"), V("v"))])])
    # break as the last statement of nested blocks; while with a complex condition
    P.append([Local(["i"], [Int(0)]), While(TRUE(), [Assign([V("i")], [ADD(V("i"), Int(1))]), If(Bin(">", V("i"), Int(2)), [Do([Break()])]), Emit(V("i"))]),
              While(And(Bin("<", V("i"), Int(6)), Not(EQ(V("i"), Int(5)))), [Assign([V("i")], [ADD(V("i"), Int(1))])]), Emit(V("i")),
              Repeat([Local(["i"], [Int(99)]), Break()], FALSE()), Emit(V("i"))])
    # select with negative indices, type and tostring of every kind of value
    P.append([Emit(Call(V("select"), Int(-1), Int(1), Int(2), Int(3)), Paren(Call(V("select"), Int(-2), Int(1), Int(2), Int(3))), Call(V("select"), Int(2), S("a"), S("b"), S("c"))),
              Emit(Call(V("type"), Nil()), Call(V("type"), Int(1)), Call(V("type"), S("")), Call(V("type"), Table()), Call(V("type"), V("emit")), Call(V("type"), Func([], [])),
                   Call(V("type"), TRUE()), Call(V("type"), Call(V("type"), Nil())))])
    # rawequal / rawget / rawset / rawlen bypass metamethods
    P.append([Local(["mt"], [Table(Named("__eq", Func([], [Return(TRUE())])), Named("__len", Func([], [Return(Int(42))])), Named("__index", Func([], [Return(S("dflt"))])),
                                   Named("__newindex", Func([], [])))]),
              Local(["a", "b"], [Call(V("setmetatable"), Table(Int(1)), V("mt")), Call(V("setmetatable"), Table(), V("mt"))]),
              Assign([Dot(V("a"), "k")], [Int(1)]), CallStat(Call(V("rawset"), V("b"), S("k"), Int(2))),
              Emit(EQ(V("a"), V("b")), Call(V("rawequal"), V("a"), V("b")), LenOp(V("a")), Call(V("rawlen"), V("a")), Dot(V("a"), "k"), Call(V("rawget"), V("a"), S("k")), Dot(V("b"), "k"),
                   Bin("~=", V("a"), V("b")), EQ(V("a"), V("a")))])
    # Lua 5.4: __le does not fall back on __lt; a false field is present (no __index / __newindex); 1 and "1" are different keys
    P.append([Local(["a"], [Call(V("setmetatable"), Table(), Table(Named("__lt", Func([], [Return(TRUE())]))))]),
              Emit(Bin("<", V("a"), V("a")), Bin(">", V("a"), Int(1)), Call(V("pcall"), Func([], [Return(Bin("<=", V("a"), V("a")))])))])
    P.append([Local(["log"], [Table()]),
              Local(["t"], [Call(V("setmetatable"), Table(Named("f", FALSE())), Table(Named("__index", Func([], [Return(S("dflt"))])),
                                                                                   Named("__newindex", Func(["t", "k", "v"], [Emit(S("ni"), V("k"), V("v"))]))))]),
              Emit(Dot(V("t"), "f"), Dot(V("t"), "g")), Assign([Dot(V("t"), "f")], [Int(1)]), Assign([Dot(V("t"), "g")], [Int(2)]),
              Emit(Dot(V("t"), "f"), Dot(V("t"), "g")), Assign([Dot(V("t"), "f")], [Nil()]), Assign([Dot(V("t"), "f")], [Int(3)]), Emit(Call(V("rawget"), V("t"), S("f")))])
    P.append([Local(["t"], [Table()]), Assign([Index(V("t"), Int(1)), Index(V("t"), S("1"))], [S("int"), S("str")]),
              Emit(Index(V("t"), Int(1)), Index(V("t"), S("1")), LenOp(V("t")), Index(V("t"), Bin("+", S("0"), Int(1))), Index(V("t"), Bin("..", Int(1), S(""))))])
    return [("misc", Block(p)) for p in P]


# --------------------------------------------------------------------------
# random programs from the whole modelled grammar, under a discipline that keeps them inside what the manual
# determines: bounded loops, small integers, `#` only on sequences, and at most one call with side effects per
# statement, whose other operands are evaluated before it by the manual's own rules


class RandGen:
    def __init__(self, rng, budget):
        self.r = rng
        self.budget = budget
        self.scopes = [{}]
        self.counter = 0
        self.loops = []         # stack of (has continue label name or None) for the current function
        self.vararg = [True]    # the main chunk is variadic
        self.infn = 0
        self.pure_ctx = 0

    # -- scopes
    def fresh(self, stem):
        self.counter += 1
        if self.r.random() < 0.12:
            cands = [n for s in self.scopes for n in s if n.startswith(stem)]
            if cands:
                return self.r.choice(cands)         # shadow an existing name on purpose
        return "%s%d" % (stem, self.counter)

    def declare(self, name, info):
        self.scopes[-1][name] = info

    def visible(self, kind, pred=None):
        seen = {}
        for s in self.scopes:
            for n, info in s.items():
                seen[n] = info
        return [n for n, info in seen.items() if info[0] == kind and (pred is None or pred(info))]

    def spend(self, n=1):
        self.budget -= n

    # -- expressions
    def int_expr(self, d=0):
        self.spend()
        r = self.r
        ints = self.visible("int")
        leaf = lambda: Int(r.randrange(0, 12)) if (not ints or r.random() < 0.35) else V(r.choice(ints))
        if d >= 3 or r.random() < 0.3:
            return leaf()
        opts = [("arith", 30), ("neg", 4), ("paren", 4), ("andor", 5), ("big", 3)]
        seqs, recs = self.visible("seq"), self.visible("rec")
        fns = self.visible("fn", lambda i: i[4] and i[3] >= 1)       # pure functions only inside expressions
        if seqs:
            opts.append(("seq", 10))
        if recs:
            opts.append(("rec", 10))
        if fns:
            opts.append(("call", 14))
        if self.vararg[-1]:
            opts.append(("nva", 3))
        c = r.choices([o for o, _ in opts], [w for _, w in opts])[0]
        if c == "arith":
            op = r.choice(["+", "-", "+", "-", "*", "//", "%"])
            if op in ("//", "%"):
                return Bin(op, self.int_expr(d + 1), Int(r.randrange(2, 6)))
            if op == "*":
                return Bin(op, self.int_expr(d + 2), Int(r.randrange(0, 4)))
            return Bin(op, self.int_expr(d + 1), self.int_expr(d + 1))
        if c == "seq":
            t = r.choice(seqs)
            return LenOp(V(t)) if r.random() < 0.4 else Paren(Or(Index(V(t), self.int_expr(d + 2)), Int(r.randrange(5))))
        if c == "rec":
            return Dot(V(r.choice(recs)), r.choice(["a", "b"]))
        if c == "call":
            f = r.choice(fns)
            call = Call(V(f), *self.args_for(self.info(f), d + 1))
            return Paren(call) if r.random() < 0.3 else call
        if c == "nva":
            return Call(V("select"), Str("#"), Va())
        if c == "neg":
            return Neg(self.int_expr(d + 1))
        if c == "paren":
            return Paren(self.int_expr(d + 1))
        if c == "andor":
            return Paren(Or(And(self.bool_expr(d + 1), self.int_expr(d + 1)), self.int_expr(d + 1)))
        return Int(r.randrange(0, 100))

    def bool_expr(self, d=0):
        self.spend()
        r = self.r
        c = r.random()
        if d >= 2 or c < 0.6:
            return Bin(r.choice(["<", "<=", ">", ">=", "==", "~="]), self.int_expr(d + 1), self.int_expr(d + 1))
        if c < 0.7:
            return Not(self.bool_expr(d + 1))
        if c < 0.85:
            return (And if r.random() < 0.5 else Or)(self.bool_expr(d + 1), self.bool_expr(d + 1))
        if c < 0.93:
            return Bin(r.choice(["<", "=="]), self.str_expr(d + 1), self.str_expr(d + 1))
        return r.choice([TRUE, FALSE])()

    def str_expr(self, d=0):
        self.spend()
        r = self.r
        c = r.random()
        if d >= 2 or c < 0.5:
            return Str(r.choice(["a", "b", "ab", "x y", "", "k1", "10", "7"]))
        if c < 0.8:
            return Bin("..", self.str_expr(d + 1), self.int_expr(d + 2) if r.random() < 0.4 else self.str_expr(d + 1))
        if c < 0.9:
            return Call(V("tostring"), self.int_expr(d + 1))
        return Call(V("type"), self.value_expr(d + 1))

    def value_expr(self, d=0):
        r = self.r
        c = r.random()
        if c < 0.55:
            return self.int_expr(d)
        if c < 0.7:
            return self.bool_expr(d)
        if c < 0.85:
            return self.str_expr(d)
        if c < 0.95:
            ts = self.visible("seq") + self.visible("rec") + self.visible("nilv") + self.visible("ro")
            if ts:
                return V(r.choice(ts))
        self.spend()
        return Nil()

    def info(self, name):
        for s in reversed(self.scopes):
            if name in s:
                return s[name]
        raise KeyError(name)

    def args_for(self, info, d=0):
        _, nparams, va, nret, pure = info
        n = nparams + (self.r.randrange(0, 3) if va else self.r.choice([0, 0, 0, -1, 1]))
        return [self.int_expr(d + 1) for _ in range(max(0, n))]

    # -- statements
    def block(self, depth, n=None):
        self.scopes.append({})
        out = []
        n = n if n is not None else self.r.randrange(1, 5)
        for _ in range(n):
            if self.budget <= 0:
                break
            out += self.stmt(depth)
        self.scopes.pop()
        return out

    def impure_call(self):
        """a call that may have side effects; its arguments are pure expressions"""
        fns = self.visible("fn")
        if not fns:
            return None
        f = self.r.choice(fns)
        self.spend()
        return Call(V(f), *self.args_for(self.info(f))), self.info(f)

    def stmt(self, depth):
        r = self.r
        self.spend()
        ints = self.visible("int")
        pure = self.pure_ctx > 0
        opts = [("local", 16 if ints else 60)]
        if ints:
            opts += [("assign", 12), ("if", 10 if depth < 4 else 0), ("loop", 12 if depth < 3 else 0), ("do", 3 if depth < 3 else 0)]
            if not pure:
                opts += [("emit", 16), ("funcdef", 9 if depth < 3 else 0), ("table", 9), ("exit", 6 if self.loops else 0),
                         ("pcall", 5 if depth < 3 else 0), ("callstat", 4), ("return", 3 if self.infn and depth < 4 else 0),
                         ("template", 7 if depth < 2 else 0), ("fnlist", 5)]
        c = r.choices([o for o, _ in opts], [w for _, w in opts])[0]
        if c == "local":
            k = r.choice([1, 1, 1, 2, 3])
            names = [self.fresh("v") for _ in range(k)]
            if len(set(names)) < k:
                names = names[:1]
            ic = self.impure_call() if (r.random() < 0.25 and not pure) else None
            exprs = [ic[0]] if ic else [self.int_expr() for _ in range(r.choice([len(names), len(names), 1]))]
            st = Local(names, exprs)
            # a name holds an integer only if a value is certain to reach it; the others are nil: kept out of arithmetic
            certain = len(exprs) if not ic else ic[1][3]
            for j, nm in enumerate(names):
                self.declare(nm, ("int",) if j < certain else ("nilv",))
            return [st]
        if c == "assign":
            if pure:
                own = [n for sc in self.scopes[1:] for n in sc if sc[n][0] == "int"]
                return [Assign([V(r.choice(own))], [self.int_expr()])] if own else []
            tg = r.sample(ints, min(r.choice([1, 1, 2, 3]), len(ints)))
            ic = self.impure_call() if r.random() < 0.2 else None
            if ic and ic[1][3] >= len(tg):
                return [Assign([V(t) for t in tg], [ic[0]])]
            return [Assign([V(t) for t in tg], [self.int_expr() for _ in tg])]
        if c == "emit":
            ic = self.impure_call() if r.random() < 0.3 else None
            if ic:
                return [Emit(Paren(ic[0]))] if r.random() < 0.2 else [Emit(ic[0])]
            return [Emit(*[self.value_expr() for _ in range(r.randrange(1, 4))])]
        if c == "if":
            parts = [self.bool_expr(), self.block(depth + 1)]
            while r.random() < 0.3:
                parts += [self.bool_expr(), self.block(depth + 1)]
            if r.random() < 0.5:
                parts.append(self.block(depth + 1))
            return [If(*parts)]
        if c == "loop":
            return self.loop(depth)
        if c == "funcdef":
            return self.funcdef(depth)
        if c == "table":
            return self.tablestmt()
        if c == "do":
            return [Do(self.block(depth + 1))]
        if c == "exit":
            lab = self.loops[-1]
            ex = [Break()] if (lab is None or r.random() < 0.5) else [Goto(lab)]
            return [If(self.bool_expr(), ex)]
        if c == "pcall":
            return self.pcallstmt(depth)
        if c == "callstat":
            ic = self.impure_call()
            return [CallStat(ic[0])] if ic else []
        if c == "return":
            return [If(self.bool_expr(), [Return(*[self.int_expr() for _ in range(self.infn_nret[-1])])])]
        if c == "template":
            return self.template()
        if c == "fnlist":
            return self.fnlist()
        return []

    def fnlist(self):
        """closures stored in a table and called later (each call is the only call of its statement)"""
        r = self.r
        fl = self.visible("fnlist")
        ints = self.visible("int")
        if not fl or r.random() < 0.3:
            nm = self.fresh("fl")
            self.declare(nm, ("fnlist",))
            return [Local([nm], [Table()])]
        t = r.choice(fl)
        if r.random() < 0.6 and ints:
            x = r.choice(ints)
            body = [Return(self.int_expr(1))] if r.random() < 0.5 else [Assign([V(x)], [ADD(V(x), Int(1))]), Return(V(x))]
            return [PUSH(t, Func([], body))]
        return [ForIn(["_", "g"], [Call(V("ipairs"), V(t))], [Emit(Call(V("g")))])]

    def template(self):
        """small idioms with fixed shape and random parameters"""
        r = self.r
        n = self.counter = self.counter + 1
        c = r.randrange(7)
        ints = self.visible("int")
        x = r.choice(ints)
        if c == 0:      # bounded recursion, ordinary and through a tail call
            f = "rec%d" % n
            return [LocalFunc(f, ["n", "acc"], [If(Bin("<=", V("n"), Int(0)), [Return(V("acc"))]),
                                                Return(Call(V(f), Bin("-", V("n"), Int(1)), ADD(V("acc"), V("n"))))] if r.random() < 0.5 else
                              [If(Bin("<=", V("n"), Int(0)), [Return(V("acc"))]), Return(ADD(V("n"), Paren(Call(V(f), Bin("-", V("n"), Int(1)), V("acc")))))]),
                    Emit(Call(V(f), Int(r.randrange(0, 5)), V(x)))]
        if c == 1:      # a counter: two closures over one variable
            g, st_ = "cnt%d" % n, "get%d" % n
            return [Local([g, st_]), Do([Local(["c"], [V(x)]), Assign([V(g)], [Func([], [Assign([V("c")], [ADD(V("c"), Int(1))]), Return(V("c"))])]),
                                        Assign([V(st_)], [Func([], [Return(V("c"))])])]),
                    CallStat(Call(V(g))), Emit(Call(V(g))), Emit(Call(V(st_)))]
        if c == 2:      # variadic forwarding
            f = "va%d" % n
            args = [self.int_expr(1) for _ in range(r.randrange(0, 4))]
            return [LocalFunc(f, ["a"], [Local(["b", "c"], [Va()]), Return(Call(V("select"), Str("#"), Va()), V("a"), V("b"), V("c"), Va())], True),
                    Emit(Call(V(f), *args)), Emit(Paren(Call(V(f), *copy.deepcopy(args))))]
        if c == 3:      # an object with inherited methods
            cls, o = "Cls%d" % n, "ob%d" % n
            return [Local([cls], [Table()]), Assign([Dot(V(cls), "__index")], [V(cls)]),
                    Assign([Dot(V(cls), "bump")], [Func(["self", "d"], [Assign([Dot(V("self"), "n")], [ADD(Dot(V("self"), "n"), V("d"))]), Return(V("self"))])]),
                    Assign([Dot(V(cls), "get")], [Func(["self"], [Return(Dot(V("self"), "n"))])]),
                    Local([o], [Call(V("setmetatable"), Table(Named("n", V(x))), V(cls))]),
                    Emit(Method(Method(Method(V(o), "bump", self.int_expr(1)), "bump", Int(1)), "get")), Emit(Call(V("rawget"), V(o), Str("get")), Dot(V(o), "n"))]
        if c == 4:      # operators through metamethods, one dispatch per statement
            mt, a = "mt%d" % n, "ma%d" % n
            ev = r.choice(["__add", "__sub", "__concat", "__lt", "__le", "__eq", "__mul", "__mod", "__idiv"])
            op = {"__add": "+", "__sub": "-", "__concat": "..", "__lt": "<", "__le": "<=", "__eq": "==", "__mul": "*", "__mod": "%", "__idiv": "//"}[ev]
            other = r.choice([lambda: V(a), lambda: Int(2), lambda: Str("s"), lambda: Table()]) if ev != "__eq" else (lambda: Call(V("setmetatable"), Table(), V(mt)))
            return [Local([mt], [Table(Named(ev, Func(["p", "q"], [Emit(Str(ev), Call(V("type"), V("p")), Call(V("type"), V("q"))), Return(V(x), Int(1))])))]),
                    Local([a], [Call(V("setmetatable"), Table(), V(mt))]),
                    Emit(Call(V("pcall"), Func([], [Return(Bin(op, V(a), other()))]))),
                    Emit(Call(V("pcall"), Func([], [Return(Bin(op, other(), V(a)))])))]
        if c == 5:      # a loop made of goto
            i, lab = "g%d" % n, "L%d" % n
            return [Local([i], [Int(0)]), Label(lab), Assign([V(i)], [ADD(V(i), Int(1))]), Assign([V(x)], [ADD(V(x), V(i))]),
                    If(Bin("<", V(i), Int(r.randrange(1, 4))), [Goto(lab)]), Emit(V(i), V(x))]
        # default values through __index and interception through __newindex
        t, log = "dt%d" % n, "lg%d" % n
        return [Local([log], [Table()]),
                Local([t], [Call(V("setmetatable"), Table(Named("a", V(x))), Table(Named("__index", Func(["_", "k"], [Return(Bin("..", V("k"), Str("?")))])),
                                                                                 Named("__newindex", Func(["tt", "k", "v"], [CallStat(Call(V("rawset"), V("tt"), V("k"), ADD(V("v"), Int(1))))]))))]),
                Assign([Dot(V(t), "a")], [Int(5)]), Assign([Dot(V(t), "z")], [Int(5)]), Emit(Dot(V(t), "a"), Dot(V(t), "z"), Dot(V(t), "q"))]

    def loop(self, depth):
        r = self.r
        kind = r.choice(["fornum", "fornum", "while", "repeat", "forin", "fordown"])
        lab = ("c%d" % self.counter) if (r.random() < 0.4 and kind != "repeat") else None
        self.counter += 1
        self.loops.append(lab)
        self.scopes.append({})
        pre = []
        if kind in ("fornum", "fordown"):
            v = self.fresh("i")
            self.declare(v, ("ro",))       # loop variables are never assigned
            self.scopes.append({v + "_": ("int",)})     # a body local copy usable as an integer
            body = [Local([v + "_"], [V(v)])] + self.block(depth + 1) + ([Label(lab)] if lab else [])
            self.scopes.pop()
            n = r.randrange(1, 4)
            st = ForNum(v, Int(1), Int(n), None, body) if kind == "fornum" else ForNum(v, Int(n), Int(1), Int(-1), body)
        elif kind == "forin":
            seqs = self.visible("seq")
            src = V(r.choice(seqs)) if seqs and r.random() < 0.6 else Table(*[Int(r.randrange(9)) for _ in range(r.randrange(0, 4))])
            if src["k"] == "name":
                self.declare(src["s"], ("frozen",))     # the traversed table is not modified inside the loop
            i, v = self.fresh("k"), self.fresh("e")
            if i == v:
                v = v + "e"
            self.declare(i, ("ro",))
            self.declare(v, ("ro",))
            self.scopes.append({v + "_": ("int",)})
            body = [Local([v + "_"], [ADD(V(v), V(i))])] + self.block(depth + 1) + ([Label(lab)] if lab else [])
            self.scopes.pop()
            st = ForIn([i, v], [Call(V("ipairs"), src)], body)
        else:
            w = "w%d" % self.counter
            n = r.randrange(1, 4)
            pre = [Local([w], [Int(0)])]
            inc = Assign([V(w)], [ADD(V(w), Int(1))])
            # the specification never reaches the guard; a loop that fails to stop shows as a wrong trace, not a hang
            guard = [If(Bin(">", V(w), Int(12)), [Emit(Str("runaway")), Break()])]
            flag = r.random() < 0.4
            d = "d%d" % self.counter
            store = []
            if flag and r.random() < 0.6:
                fl = self.visible("fnlist")
                clos = Func([], [Return(V(d))])
                store = [PUSH(r.choice(fl), clos)] if fl else [Local(["c" + d], [clos])]
            before = r.random() < 0.4
            if kind == "while":
                if flag:
                    # the condition is a bare outer variable assigned in the body (possibly captured by a closure)
                    pre.append(Local([d], [TRUE()]))
                    asg = [Assign([V(d)], [Bin("<", V(w), Int(n))])]
                    head = [inc] + guard + ((store + asg) if before else (asg + store))
                    cond = V(d) if r.random() < 0.7 else EQ(V(d), TRUE())
                else:
                    head = [inc] + guard
                    cond = Bin("<", V(w), Int(n))
                st = While(cond, head + self.block(depth + 1) + ([Label(lab)] if lab else []))
            else:
                inner = self.block(depth + 1)
                if flag:
                    # the condition is a bare local of the body (possibly captured by a closure created in the body)
                    val = Bin(">=", V(w), Int(n))
                    tail = ([Local([d])] + store + [Assign([V(d)], [val])]) if before else ([Local([d], [val])] + store)
                    cond = V(d) if r.random() < 0.7 else (Not(Not(V(d))) if r.random() < 0.5 else EQ(V(d), TRUE()))
                else:
                    tail = []
                    cond = Bin(">=", V(w), Int(n))
                st = Repeat([inc] + guard + inner + tail, cond)
        self.scopes.pop()
        self.loops.pop()
        return pre + [st]

    def funcdef(self, depth):
        r = self.r
        name = self.fresh("f")
        nparams = r.randrange(0, 3)
        va = r.random() < 0.25
        nret = r.choice([0, 1, 1, 1, 2, 3])
        pure = r.random() < 0.5 and nret >= 1
        params = ["p%d_%d" % (self.counter, j) for j in range(nparams)]
        kind = r.random()
        saved = self.loops, self.scopes
        self.loops = []
        # a pure function reads only its own parameters and locals
        self.scopes = ([{}] if pure else list(self.scopes)) + [{p: ("int0",) for p in params}]
        self.scopes[-1].update({})
        self.vararg.append(va)
        self.infn += 1
        self.infn_nret = getattr(self, "infn_nret", []) + [nret]
        if pure:
            self.pure_ctx += 1
        # parameters may be nil when the caller passes fewer arguments: normalise them first
        body = [Local([p + "n"], [Or(V(p), Int(j))]) for j, p in enumerate(params)]
        self.scopes.append({p + "n": ("int",) for p in params})
        if not pure and name in [n for s in saved[1] for n in s] and False:
            pass
        body += self.block(depth + 1, r.randrange(1, 4))
        if nret or r.random() < 0.3:
            rets = [self.int_expr() for _ in range(nret)]
            body.append(Return(*rets))
        self.scopes.pop()
        if pure:
            self.pure_ctx -= 1
        self.infn -= 1
        self.infn_nret.pop()
        self.vararg.pop()
        self.loops, self.scopes = saved
        self.declare(name, ("fn", nparams, va, nret, pure))    # declared after the body: no unbounded recursion
        if r.random() < 0.7:
            return [LocalFunc(name, params, body, va)]
        return [Local([name], [Func(params, body, va)])]

    def tablestmt(self):
        r = self.r
        c = r.random()
        seqs, recs = self.visible("seq"), self.visible("rec")
        if c < 0.25 or not (seqs or recs):
            if r.random() < 0.5:
                nm = self.fresh("s")
                st = Local([nm], [Table(*[self.int_expr(1) for _ in range(r.randrange(0, 4))])])
                self.declare(nm, ("seq",))
            else:
                nm = self.fresh("r")
                st = Local([nm], [Table(Named("a", self.int_expr(1)), Named("b", self.int_expr(1)))])
                self.declare(nm, ("rec",))
            return [st]
        if c < 0.5 and seqs:
            t = r.choice(seqs)
            return [PUSH(t, self.int_expr(1))]
        if c < 0.75 and recs:
            t = r.choice(recs)
            if r.random() < 0.3:
                return [Assign([Dot(V(t), "a"), Dot(V(t), "b")], [Dot(V(t), "b"), Dot(V(t), "a")])]
            return [Assign([Dot(V(t), r.choice(["a", "b"]))], [self.int_expr(1)])]
        if recs:
            # a method that updates the receiver; called once per statement
            t = r.choice(recs)
            m = "m%d" % self.counter
            self.counter += 1
            return [Assign([Dot(V(t), m)], [Func(["self", "d"], [Assign([Dot(V("self"), "a")], [ADD(Dot(V("self"), "a"), Or(V("d"), Int(1)))]),
                                                                Return(Dot(V("self"), "a"), Dot(V("self"), "b"))])]),
                    Emit(Method(V(t), m, self.int_expr(1))), CallStat(Method(V(t), m))]
        return [Emit(LenOp(V(r.choice(seqs))))]

    def pcallstmt(self, depth):
        r = self.r
        errv = r.choice([lambda: [Int(r.randrange(9))], lambda: [Str("e%d" % r.randrange(3)), Int(0)], lambda: [Table(Int(1))], lambda: [Nil()],
                         lambda: [Str("positioned")]])()
        saved = self.loops
        self.loops = []
        self.vararg.append(False)
        self.infn += 1
        self.infn_nret = getattr(self, "infn_nret", []) + [1]
        inner = self.block(depth + 1, r.randrange(1, 3))
        kind = r.random()
        if kind < 0.5:
            inner.append(If(self.bool_expr(), [CallStat(Call(V("error"), *errv))]))
        elif kind < 0.7:
            inner.append(Local(["_"], [ADD(Nil(), Int(1))]) if r.random() < 0.5 else CallStat(Call(Nil())))
        inner.append(Return(self.int_expr()))
        self.infn -= 1
        self.infn_nret.pop()
        self.vararg.pop()
        self.loops = saved
        ok, e = "ok%d" % self.counter, "er%d" % self.counter
        self.counter += 1
        return [Local([ok, e], [Call(V("pcall"), Func([], inner))]),
                Emit(V(ok), Call(V("type"), V(e)), V(e))]


def random_program(seed_, budget):
    g = RandGen(random.Random(seed_), budget)
    body = []
    while g.budget > 0:
        body += g.stmt(0)
    body.append(Emit(*[V(n) for n in g.visible("int")][:6]))
    return Block(body)


# --------------------------------------------------------------------------
# the check

def families(tier):
    big = tier == "thorough"
    fams = [("closure_loops", fam_closure_loops()), ("adjust", fam_adjust(3 if big else 2)), ("varargs", fam_varargs()),
            ("control", fam_control()), ("methods", fam_methods()), ("metaops", fam_metaops(big)), ("metaindex", fam_metaindex()),
            ("fornum", fam_fornum()), ("logic", fam_logic()), ("errors", fam_errors()),
            ("scalars", fam_scalars()), ("pressure", fam_pressure()), ("misc", fam_misc()),
            ("loop_conditions", fam_loop_conditions())]
    # the sizes follow from the grammar definitions (products of the alternatives, minus the excluded combinations)
    nat = 8
    no = len(META_OPERANDS_BIG if big else META_OPERANDS)
    expected = {
        "closure_loops": 7 * 3 * 3 * 3 * 4 - 4 * 2 * 3 * 4,            # minus: for-loop kinds x {incr, pair} on the loop variable
        "adjust": sum(nat ** n for n in range(1, (3 if big else 2) + 1)) * 8 + 7,
        "varargs": 3 * 7 * 19,
        "control": 5 * (4 * 6 + 3 * 6 * 2) - 4,                        # minus: break with no enclosing loop
        "methods": 4 * 5 * 7 * 5,
        "metaops": 12 * no * no + 2 * no,
        "metaindex": 18 + 12 + 8 + 2 + 24 + 1 + 3,
        "fornum": 3 * 4 * 5, "logic": 7 * 7 * 2 * 3, "errors": 26 * 8 + 6,
        "scalars": 6 * 4 * 2 * 2 + 8 * 8 + (5 * 5 * 8 - 2 * 5), "pressure": 4 * 3 - 1 + 2 * 2, "misc": 22,
        "loop_conditions": (9 + 7) * 5 * 2 * 2,
    }
    for name, items in fams:
        if len(items) != expected[name]:
            raise Infra("enumeration %s produced %d programs, the grammar defines %d" % (name, len(items), expected[name]))
    return fams


TIERS = {
    "quick": dict(cfg="LuaCoreQ.cfg", K=2, nrandom=1500, budget=40),
    "thorough": dict(cfg="LuaCoreT.cfg", K=4, nrandom=30000, budget=90),
}


def run(prop, tier, corrupt=False, workers=None):
    rep = Report(prop, tier, "model_checking")
    cov = rep.cov
    par = TIERS[tier]
    K = par["K"]
    drv = build_driver()
    t0 = time.time()
    progs = []          # (id, cls, ast)
    enumerated = {}
    for name, items in families(tier):
        enumerated[name] = len(items)
        for cls, ast in items:
            progs.append((len(progs) + 1, cls, ast))
    nenum = len(progs)
    base = seed() * 1000003
    for j in range(par["nrandom"]):
        progs.append((len(progs) + 1, "random", random_program(base + j, par["budget"])))
    log("[%s] %d programs (%d enumerated, %d random) generated in %.1fs" % (prop, len(progs), nenum, par["nrandom"], time.time() - t0))
    workers = workers or int(os.environ.get("VERIF_WORKERS", "0")) or None
    res, tlc = run_spec([(pid, ast) for pid, _, ast in progs], par["cfg"], workers=workers, timeout=3000)
    if len(res) != len(progs):
        raise Infra("LuaCore judged %d of %d programs:\n%s" % (len(res), len(progs), tlc.stdout[-2000:]))
    log("[%s] TLC: %d states in %.1fs" % (prop, tlc.distinct, tlc.wall))
    cov.update(states=tlc.distinct, transitions=tlc.generated, tlc_wall_s=round(tlc.wall, 1), programs=len(progs),
               enumerated=enumerated, random_programs=par["nrandom"], renderings_per_program=K, exhaustive=True,
               exhaustive_note="every sub-grammar listed under `enumerated` is enumerated completely (sizes checked against the grammar definitions); random programs are samples")
    # programs the specification does not decide are generator errors, never verdicts
    undecided = {}
    judged = []
    for pid, cls, ast in progs:
        l = res[pid]
        if l["fin"] in ("undef", "bound"):
            undecided.setdefault(cls, []).append((l["fin"], l["why"], pid))
        else:
            judged.append((pid, cls, ast, l))
    for cls, lst in undecided.items():
        if cls != "random":
            raise Infra("enumerated program %d of family %s is outside the specification (%s %s):\n%s"
                        % (lst[0][2], cls, lst[0][0], lst[0][1], render(progs[lst[0][2] - 1][2])))
        if len(lst) > 0.05 * par["nrandom"]:
            raise Infra("%d random programs outside the specification: %r" % (len(lst), lst[:5]))
    cov["random_programs_undecided"] = len(undecided.get("random", []))
    cov["avg_steps"] = round(sum(l["steps"] for _, _, _, l in judged) / max(1, len(judged)), 1)
    cov["avg_nodes_random"] = round(sum(size(a) for _, c, a, _ in judged if c == "random") / max(1, par["nrandom"]), 1)
    cov["outcomes"] = {}
    cov["events_expected"] = 0
    cases = []
    for pid, cls, ast, l in judged:
        for j, src in enumerate(renderings(ast, K, pid)):
            cases.append({"id": pid * 8 + j, "src": src, "timeout": 20000, "maxev": 100000})
    t1 = time.time()
    outs = run_lua_cases(drv, cases)
    log("[%s] %d texts run in %.1fs" % (prop, len(cases), time.time() - t1))
    cov["texts_run"] = len(cases)
    cov["traces_validated_against_impl"] = len(cases)
    cov["per_class"] = {}
    first = True
    for pid, cls, ast, l in judged:
        exp = expectation(l)
        if corrupt and first and exp["events"] and exp["events"][0] and isinstance(exp["events"][0][0], dict) and "i" in exp["events"][0][0]:
            exp["events"][0][0] = {"i": str(int(exp["events"][0][0]["i"]) + 1)}      # self-test of the binding
            first = False
        cov["per_class"][cls] = cov["per_class"].get(cls, 0) + 1
        cov["outcomes"][l["fin"]] = cov["outcomes"].get(l["fin"], 0) + 1
        cov["events_expected"] += len(exp["events"])
        whys = [judge(exp, outs[pid * 8 + j]) for j in range(K)]
        bad = [j for j, w in enumerate(whys) if w]
        if bad:
            w = whys[bad[0]]
            sig = {"cls": cls, "kind": w["kind"], "shape": "+".join(sorted(features(ast))), "renderings": "all" if len(bad) == K else "some"}
            rep.violation(sig, {"cmd": "lua-run", "src": cases_src(ast, K, pid, bad[0]), "minimal_spelling": render(ast), "expected": exp,
                                "observed": outs[pid * 8 + bad[0]], "why": w, "mismatching_renderings": bad})
        elif cls != "random" or len(l["ev"]) >= 4:
            rep.sample({"class": cls, "program": render(ast), "expected_events": exp["events"][:6], "outcome": l["fin"]}, cap=4)
    rep.assumptions += ["runtime errors are compared by occurrence and by being a string, not by wording or position",
                        "identities of closures of one function expression are not compared (manual 3.4.4)"]
    return rep.finish()


def cases_src(ast, K, pid, j):
    return renderings(ast, K, pid)[j]
